"""C15: spectral filters are mean-preserving, non-amplifying and step-size consistent.
Spec: Filters (exponent bases per total wavenumber; numpy-broadcasting tree map), StepFilters
(Runge-Kutta / leapfrog adapters, Robert-Asselin) -- everything rational.

Replay: the real filter factories (exponential_filter, horizontal_diffusion_filter, the three
step-filter factories) are built on real grids of both layouts (padded or not) and applied to
unit spectra: -log(factor) per (row, column) must equal strength * base(l)^power from the spec,
independently of the row; factors in (0, 1]; (0,0) factor exactly 1; leaves of every shape in
the spec's list are filtered iff the spec says so (all others returned bit-identical); two half
steps = one full step; array-valued strengths act slice-wise; adapters and Robert-Asselin on
dyadic data are exact.
"""
from __future__ import annotations

import functools
import json
import math
import os

from harness import common, spectral
from harness.common import frac
from harness.spectral import EPS


def _grid_for(c, radius):
  """A real Grid with total_wavenumbers = L whose total-wavenumber axis has c['pad'] padding."""
  from dinosaur import spherical_harmonic as sh
  L, pad = c['L'], c['pad']
  forbidden = {L + pad, L + pad + 1, 1, 2, 3, 97}      # row counts that would alias another leaf shape
  for M in list(range(L, 0, -1)):
    kw = dict(longitude_wavenumbers=M, total_wavenumbers=L, longitude_nodes=3 * M + 1,
              latitude_nodes=max((3 * M + 2) // 2, L), radius=radius)
    if pad == 0 and c.get('layout', 'real') == 'real':
      g = sh.Grid(**kw)
      if g.modal_shape[0] not in forbidden:
        return g
    for mult in range(1, 16):
      if (-L) % mult == pad:
        impl = functools.partial(sh.FastSphericalHarmonics, base_shape_multiple=mult)
        g = sh.Grid(**kw, spherical_harmonics_impl=impl)
        if g.modal_shape[1] == L + pad and g.modal_shape[0] not in forbidden:
          return g
  raise common.MachineryError(f'no padding multiple gives pad={pad} for L={L}')


def _filter_one(c):
  np, jax, jnp = spectral.np_jax()
  from dinosaur import filtering, time_integration as ti
  out = []
  key = {k: c[k] for k in ('kind', 'L', 'pad', 'cutoff', 'arrayK', 'layout')}

  def bad(sig, detail):
    out.append({'case': c, 'sig': sig, 'detail': f'{key}: {detail}'})

  base = np.array([float(frac(b)) for b in c['base']])
  L, cols = c['L'], c['cols']
  cutoff = float(frac(c['cutoff']))
  for radius in (1.0, 2.0):
    grid = _grid_for(c, radius)
    if grid.modal_shape[1] != cols:
      bad('layout', f'grid has {grid.modal_shape[1]} columns, spec {cols}')
      return out
    rows = grid.modal_shape[0]
    mask = np.asarray(grid.mask)
    K = c['arrayK']
    strengths = [2.5] if K == 0 else [np.array([0.5, 2.0, 4.0]).reshape(K, 1, 1)]
    for order in (1, 2, 3, 18):
      for strength in strengths:
        if c['kind'] == 'exponential':
          power = 2 * order
          make = lambda a: filtering.exponential_filter(grid, attenuation=a, order=order, cutoff=cutoff)
          make_step = lambda dt, tau: ti.exponential_step_filter(grid, dt, tau, order, cutoff)
          make_leap = lambda dt, tau: ti.exponential_leapfrog_step_filter(grid, dt, tau, order, cutoff)
          to_exponent = lambda a: a
        else:
          if order == 18:
            continue
          power = order
          lam_top = (L - 1) * L / radius ** 2
          # horizontal_diffusion_filter(scale): E = scale * (l(l+1)/r^2)^p = (scale * lam_top^p) * base^p
          make = lambda a: filtering.horizontal_diffusion_filter(grid, a / lam_top ** order, order)
          make_step = lambda dt, tau: ti.horizontal_diffusion_step_filter(grid, dt, tau, order)
          make_leap = None
          to_exponent = lambda a: a
        E = np.asarray(strength) * base ** power                      # (cols,) or (K,1,cols)
        ones = jnp.ones(((K,) if K else ()) + (rows, cols))
        f = make(strength)
        got = np.asarray(f(ones))
        if got.shape != ones.shape:
          bad('shape', f'filtered leaf changed shape {got.shape}')
          continue
        if not np.all(np.isfinite(got)) or np.any(got <= 0) and np.all(E < 700) or np.any(got > 1):
          bad(f'range:{c["kind"]}', f'order={order} radius={radius}: factors outside (0, 1]: min {np.nanmin(got)} max {np.nanmax(got)} finite={np.all(np.isfinite(got))}')
          continue
        exp = np.broadcast_to(np.exp(-E), got.shape) if K == 0 else np.broadcast_to(np.exp(-E), got.shape)
        tol = 32 * EPS * (1 + np.abs(np.broadcast_to(E, got.shape))) * exp + 1e-300
        if not np.all(np.abs(got - exp) <= tol):
          i = np.unravel_index(np.argmax(np.abs(got - exp) - tol), got.shape)
          bad(f'exponent:{c["kind"]}', f'order={order} radius={radius} index {tuple(map(int, i))}: factor {got[i]!r} spec {exp[i]!r}')
          continue
        g00 = got[..., 0, 0]
        if np.any(g00 != 1.0):
          bad(f'mean:{c["kind"]}', f'order={order}: factor of the global mean is {g00!r}, not exactly 1')
        # step filters: a = dt/tau; two half steps = one full step
        if K == 0:
          dt, tau = 0.75, 0.3
          for nm, mk in (('step', make_step), ('leapfrog_step', make_leap)):
            if mk is None:
              continue
            x = jnp.asarray(np.random.RandomState(0).randn(rows, cols) * mask)
            if nm == 'step':
              full = np.asarray(mk(dt, tau)(None, x))
              half = mk(dt / 2, tau)
              two = np.asarray(half(None, half(None, x)))
            else:
              cur = jnp.asarray(np.full((rows, cols), 3.0))
              r1 = mk(dt, tau)(None, (cur, x))
              if not np.array_equal(np.asarray(r1[0]), np.asarray(cur)):
                bad('leapfrog_adapter', 'the current time slice was modified by the leapfrog step filter')
              full = np.asarray(r1[1])
              half = mk(dt / 2, tau)
              two = np.asarray(half(None, half(None, (cur, x)))[1])
            Es = (dt / tau) * base ** power
            want = np.asarray(x) * np.exp(-Es)
            if not np.all(np.isfinite(full)) or not np.allclose(full, want, rtol=1e-13, atol=1e-300):
              bad(f'{nm}:{c["kind"]}', f'order={order} radius={radius}: step filter differs from exp(-(dt/tau) base^p): max {np.abs(full - want).max():.3e}')
            elif not np.allclose(two, full, rtol=1e-13, atol=1e-300):
              bad(f'{nm}:half_steps:{c["kind"]}', f'order={order}: two half steps differ from one full step by {np.abs(two - full).max():.3e}')
        else:
          # array-valued strength = slice-wise scalar filters
          for kk in range(K):
            sl = np.asarray(make(float(np.asarray(strength).ravel()[kk]))(ones[kk]))
            if not np.array_equal(sl, got[kk]):
              bad(f'slicewise:{c["kind"]}', f'order={order}: slice {kk} of the array-valued filter differs from the scalar filter')
          # ... and array-valued time scales of the step filters (e.g. a sponge layer): level k is damped with its own tau[k]
          dt = 0.75
          tau = dt / np.asarray(strength)                                    # (K, 1, 1): dt / tau = strength
          x = jnp.asarray(np.random.RandomState(1).randn(K, rows, cols) * mask)
          full = np.asarray(make_step(dt, tau)(None, x))
          want = np.asarray(x) * np.exp(-np.asarray(strength) * base ** power)
          if full.shape != want.shape or not np.all(np.isfinite(full)) or not np.allclose(full, want, rtol=1e-13, atol=1e-300):
            bad(f'step:array_tau:{c["kind"]}', f'order={order} radius={radius}: step filter with per-level time scales {tau.ravel().tolist()} '
                f'differs from exp(-(dt/tau[k]) base^p) by {np.abs(full - want).max() if full.shape == want.shape else "shape"}')
          else:
            for kk in range(K):
              sl = np.asarray(make_step(dt, float(tau.ravel()[kk]))(None, x[kk]))
              if not np.allclose(sl, full[kk], rtol=1e-14, atol=1e-300):
                bad(f'step:slicewise:{c["kind"]}', f'order={order}: slice {kk} of the step filter with array-valued tau differs from the scalar step filter')
    # ---- which leaves are filtered
    strength = 2.5 if K == 0 else np.array([0.5, 2.0, 4.0]).reshape(K, 1, 1)
    f = (filtering.exponential_filter(grid, strength, 2, cutoff) if c['kind'] == 'exponential'
         else filtering.horizontal_diffusion_filter(grid, strength, 1))
    for leaf in c['leaves']:
      shape = tuple(rows if d == c['rows'] else d for d in leaf['shape'])   # spec rows -> actual rows
      x = np.full(shape, 1.0) if shape else np.float64(1.0)
      tree = {'a': jnp.asarray(x), 'nested': {'clock': jnp.asarray(7.0)}}
      try:
        y = f(tree)
      except Exception as ex:   # pylint: disable=broad-except
        bad(f'leaf:exception:{type(ex).__name__}', f'radius={radius} leaf shape {shape}: filter raised {type(ex).__name__}: {str(ex)[:120]}')
        continue
      ya = np.asarray(y['a'])
      changed = not np.array_equal(ya, np.asarray(x))
      if float(y['nested']['clock']) != 7.0 or ya.shape != np.shape(x):
        bad('leaf:clock', f'scalar clock or leaf shape changed for leaf shape {shape}')
      if changed != leaf['filtered']:
        bad('leaf:selection', f'radius={radius} leaf shape {shape}: code {"filters" if changed else "keeps"}, spec {"filters" if leaf["filtered"] else "keeps"}')
  return out


replay_filters = common.per_case(_filter_one, 'filter')


def _step_one(c):
  np, jax, jnp = spectral.np_jax()
  from dinosaur import time_integration as ti
  out = []
  r, phi = float(frac(c['r'])), float(frac(c['phi']))
  p, cc, f, fs = (float(frac(c[k])) for k in ('p', 'c', 'f', 'fromStep'))
  leaf = lambda v: {'x': jnp.asarray([v, 2 * v]), 't': jnp.asarray(v)}
  state_filter = lambda s: jax.tree_util.tree_map(lambda a: phi * a, s)
  u, un = (leaf(p), leaf(cc)), (leaf(fs), leaf(f))
  if c['adapter'] == 'rk':
    got = ti.runge_kutta_step_filter(state_filter)(u, un)
  elif c['adapter'] == 'leapfrog':
    got = ti.leapfrog_step_filter(state_filter)(u, un)
  else:
    got = ti.robert_asselin_leapfrog_filter(r)(u, un)
  exp = [float(frac(v)) for v in c['out']]
  for k in (0, 1):
    g = [float(got[k]['x'][0]), float(got[k]['x'][1]) / 2, float(got[k]['t'])]
    if any(abs(v - exp[k]) > 4 * EPS * max(1.0, abs(exp[k])) for v in g):
      out.append({'case': c, 'sig': f'adapter:{c["adapter"]}', 'detail': f'slot {k}: code {g} spec {exp[k]}'})
  return out


replay_steps = common.per_case(_step_one, 'step')
REPLAYERS = {'filter': replay_filters, 'step': replay_steps}


def replay(ctx, kind, cases):
  for m in REPLAYERS[kind](cases):
    ctx.mismatch(kind, m['case'], m['sig'], m['detail'])


def run(ctx):
  q = ctx.quick
  r = ctx.tlc('Filters', 'Filters_quick.cfg')
  ctx.require_actions(r, ['Build', 'TreeMap'])
  rs = ctx.tlc('StepFilters', 'StepFilters.cfg')
  ctx.require_actions(rs, ['ApplyRK', 'ApplyLeapfrog', 'ApplyRA'])
  cases = r.cases
  for i, c in enumerate(cases):
    c['layout'] = 'fast' if (c['pad'] > 0 or i % 2) else 'real'
  if q:
    cases = [c for i, c in enumerate(cases) if c['L'] in (2, 4, 6) or i % 3 == 0]
  res = common.parallel_map('c15', 'replay_filters', cases, nproc=4, tag='f', outdir=os.path.join(ctx.out, 'par'))
  steps = rs.cases if not q else rs.cases[::3]
  res += replay_steps(steps)
  ctx.replayed += len(cases) + len(steps)
  ctx.comparisons += len(cases) * 2 * 4 * 6 + len(steps) * 2
  for c in cases:
    ctx.distinct.add(json.dumps([c[k] for k in ('kind', 'L', 'pad', 'cutoff', 'arrayK', 'layout')]))
  for c in steps:
    ctx.distinct.add(json.dumps(c, sort_keys=True))
  for m in res:
    ctx.mismatch('step' if m['sig'].startswith('adapter') else 'filter', m['case'], m['sig'], m['detail'])
  ctx.sample({k: cases[5][k] for k in ('kind', 'L', 'pad', 'cutoff', 'arrayK', 'base')} | {'leaves': cases[5]['leaves'][:5]})
  ctx.sample(steps[1])
  ctx.assumptions += ['factor in (0,1] is owed only while exp(-E) is representable (E < 700)',
                      'exp / pow of the platform are trusted to 32 ulp']
  return ctx.finish(rule='one case per (filter kind, L <= 6, padding of the total-wavenumber axis, cutoff, scalar or '
                         'array-valued strength) x orders {1,2,3,18} x radii {1,2}: unit spectra, 13 leaf shapes, half steps, '
                         'slice-wise equality; plus every (adapter, r, phi, p, c, f) combination of StepFilters')
