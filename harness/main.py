"""./check <id> [--tier quick|thorough] [--replay path] [--selftest]

exit 0: property held on everything explored; exit 1: VIOLATION line(s) printed;
exit 2: the machinery itself failed (never a verdict about the code).
"""
import argparse
import importlib
import json
import os
import sys
import traceback

from harness import common


def main():
  ap = argparse.ArgumentParser()
  ap.add_argument('prop')
  ap.add_argument('--tier', default=os.environ.get('VERIF_TIER', 'quick'),
                  choices=['quick', 'thorough'])
  ap.add_argument('--replay', default=None)
  ap.add_argument('--selftest', action='store_true')
  a = ap.parse_args()
  seed = int(os.environ.get('VERIF_SEED', '0') or 0)
  prop = a.prop.upper()
  try:
    mod = importlib.import_module('harness.' + prop.lower())
  except ModuleNotFoundError:
    print(f'no check for {prop}', file=sys.stderr)
    return 2
  try:
    if a.replay:
      with open(a.replay) as f:
        rec = json.load(f)
      ctx = common.Ctx(prop, a.tier, seed)
      ctx.out = os.path.join(common.OUT, prop, 'replay')
      os.makedirs(ctx.out, exist_ok=True)
      mod.replay(ctx, rec['kind'], [rec['case']])
      if ctx.violations:
        for sig, detail, path in ctx.violations:
          print(f'VIOLATION property={prop} replay={a.replay}')
          print(f'  {sig}: {detail}')
        return 1
      print(f'{prop}: replay of {a.replay} passes')
      return 0
    if a.selftest:
      from harness import selftest
      return selftest.run(prop, a.tier)
    ctx = common.Ctx(prop, a.tier, seed)
    return mod.run(ctx)
  except common.MachineryError as ex:
    print(f'MACHINERY-ERROR {prop}: {ex}', file=sys.stderr)
    return 2
  except Exception as ex:   # pylint: disable=broad-except
    text = str(ex) if isinstance(ex, common.LibraryError) else traceback.format_exc()
    if isinstance(ex, common.LibraryError) or common.library_raised(ex):
      # the library itself raised while executing a behaviour the specification allows
      out = os.path.join(common.OUT, prop)
      os.makedirs(out, exist_ok=True)
      path = os.path.join(out, 'viol_exception.txt')
      with open(path, 'w') as f:
        f.write(text)
      print(f'VIOLATION property={prop} replay={path}')
      print('  exception:library: the library raised while executing a behaviour the specification allows: '
            + text.strip().splitlines()[-1][:300])
      return 1
    traceback.print_exc()
    print(f'MACHINERY-ERROR {prop}: unexpected exception', file=sys.stderr)
    return 2


if __name__ == '__main__':
  sys.exit(main())
