"""C17: vertical interpolation (and the nearest / bilinear horizontal regridders).

Spec modules: InterpOps (exact piecewise-linear interpolation on rational nodes: code-shaped
operators and a declarative reference), Interp (the 1-D routines, both code paths, three
extrapolation modes), InterpColumns (pressure<->sigma round trips, hybrid->sigma, surface
pressure), HorizInterp (bilinear / nearest regridders: constants and equal grids).

TLC enumerates node sets x data x query lattices (and level sets x pressure levels x surface
pressures ...), checks the clauses of the property on the machine and exports every terminal
state; the replay calls the real functions on exactly those inputs and compares every number
with the spec's exact rational (MISSING = NaN).
"""
from __future__ import annotations

import concurrent.futures
import functools
import os
from fractions import Fraction

from harness import common

EPS = 2.220446049250313e-16
CHUNK = 256          # flattened 1-D cases per library call (padded: stable shapes, few compiles)
GCHUNK = 32          # node sets per vectorised call
NSCALAR = 2          # cases per node count additionally replayed query by query (no vmap)


def _jax():
  import jax
  jax.config.update('jax_enable_x64', True)
  import jax.numpy as jnp
  return jax, jnp


def _val(v):
  """[n, d] -> float; d = 0 is MISSING (NaN)."""
  return float('nan') if v[1] == 0 else v[0] / v[1]


# ----------------------------------------------------------------------------------------
# 1-D routines (Interp.tla)
# ----------------------------------------------------------------------------------------

MODES = ('const', 'linear', 'safe1', 'safe2')


def _regime(xp, x):
  """Stable name of where the query lies relative to the nodes (for signatures)."""
  if x in xp:
    return 'node_first' if x == xp[0] else 'node_last' if x == xp[-1] else 'node'
  if xp[0] < x < xp[-1]:
    return 'inside'
  side, d, e = ('left', xp[1] - xp[0], xp[0] - x) if x < xp[0] else ('right', xp[-1] - xp[-2], x - xp[-1])
  cells = e / d
  if cells == int(cells):
    return f'{side}_end_of_cell{int(cells)}' if cells <= 2 else f'{side}_beyond'
  return f'{side}_cell{int(cells) + 1}' if cells < 2 else f'{side}_beyond'


def _prep(cases, nq):
  """Arrays for a list of cases with the same node count: X (C,nq) XP (C,n) FP (C,n),
  expected tables E[mode] (C,nq), validity mask V (C,nq), tolerance T (C,nq)."""
  import numpy as np
  C, n = len(cases), len(cases[0]['xp'])
  X = np.zeros((C, nq)); XP = np.zeros((C, n)); FP = np.zeros((C, n))
  V = np.zeros((C, nq), bool); T = np.zeros((C, nq))
  E = {m: np.zeros((C, nq)) for m in MODES}
  for i, c in enumerate(cases):
    q = np.array([v[0] / v[1] for v in c['q']])
    k = len(q)
    XP[i], FP[i] = c['xp'], c['fp']
    X[i, :k] = q; X[i, k:] = q[0]
    V[i, :k] = True
    for m in MODES:
      e = np.array([_val(v) for v in c[m]])
      E[m][i, :k] = e; E[m][i, k:] = e[0]
    # rounding budget: 16 ulp of max|fp| * (|1 - w| + |w|), w = distance from the range in units
    # of the end cell.  (Not exact even at nodes: XLA contracts 1 - delta * (1/dx) into an fma,
    # which leaves 2^-54 instead of 0 for dx = 3.)
    xp = XP[i]
    w = np.maximum(0, np.maximum((xp[0] - X[i]) / (xp[1] - xp[0]), (X[i] - xp[-1]) / (xp[-1] - xp[-2])))
    T[i] = 16 * EPS * np.max(np.abs(FP[i])) * (1 + 2 * w)
  return X, XP, FP, E, V, T


def _compare(out, cases, routine, got, exp, valid, tol, X):
  """Appends at most one mismatch per (case, regime)."""
  import numpy as np
  got = np.asarray(got, dtype=np.float64)
  if got.shape != exp.shape:
    out.append({'case': cases[0], 'sig': f'{routine}:shape', 'detail': f'shape {got.shape} != {exp.shape}'})
    return
  nan_e, nan_g = np.isnan(exp), np.isnan(got)
  bad = valid & ((nan_e != nan_g) | (~nan_e & ~nan_g & ~(np.abs(got - exp) <= tol)))
  for i in np.unique(np.nonzero(bad)[0]):
    if i >= len(cases):
      continue
    c, seen = cases[i], set()
    for j in np.nonzero(bad[i])[0]:
      x = float(X[i, j])
      reg = _regime([float(v) for v in c['xp']], x)
      if reg in seen:
        continue
      seen.add(reg)
      kind = 'missing_expected' if nan_e[i, j] else 'unexpected_missing' if nan_g[i, j] else 'value'
      out.append({'case': c, 'sig': f'{routine}:{reg}:{kind}',
                  'detail': f'x={x} xp={c["xp"]} fp={c["fp"]}: code {got[i, j]!r} spec {exp[i, j]!r}'})


def _pad(lst, size):
  return lst + [lst[0]] * (size - len(lst))


def _replay_1d_same_n(cases, nq):
  import numpy as np
  jax, jnp = _jax()
  from dinosaur import vertical_interpolation as vi
  from dinosaur import primitive_equations as pe
  out = []
  over_q = lambda fn: jax.vmap(fn, (0, None, None))
  # private helpers named by the property's anchors: exercised when present (a refactoring may
  # rename or inline them; the public routines built on them are replayed in any case)
  dot_interp = getattr(vi, '_dot_interp', None)
  safe1 = getattr(vi, '_linear_interp_with_safe_extrap', None)
  sl_interp = getattr(pe, '_vertical_interp', None)
  safe2 = functools.partial(safe1, n=2) if safe1 else None
  direct = [
      ('interp', 'const', jax.vmap(vi.interp)),
      ('dot_interp', 'const', jax.vmap(over_q(dot_interp)) if dot_interp else None),
      ('vertical_interpolation', 'const', jax.vmap(vi.vertical_interpolation)),
      ('linear_extrap', 'linear', jax.vmap(over_q(vi.linear_interp_with_linear_extrap))),
      ('safe_extrap_1', 'safe1', jax.vmap(safe1) if safe1 else None),
      ('safe_extrap_1:scalar_x', 'safe1', jax.vmap(over_q(safe1)) if safe1 else None),
      ('safe_extrap_2', 'safe2', jax.vmap(safe2) if safe2 else None),
  ]
  direct = [d for d in direct if d[2] is not None]
  # ---- every case through every routine (cases are batch entries of one library call)
  size = CHUNK if len(cases) > 1 else 1
  for s in range(0, len(cases), size):
    chunk = cases[s:s + size]
    X, XP, FP, E, V, T = _prep(_pad(chunk, size if len(chunk) > 1 else 1), nq)
    for name, mode, fn in direct:
      _compare(out, chunk, name, fn(X, XP, FP), E[mode], V, T, X)
    # the semi-Lagrangian helper: per-column source coordinates and per-column targets
    C = X.shape[0]
    B = 4 if C % 4 == 0 else 1
    sh = lambda M: np.ascontiguousarray(M.T).reshape(M.shape[1], C // B, B)
    if sl_interp:
      got = np.asarray(sl_interp(jnp.asarray(sh(X)), jnp.asarray(sh(XP)), jnp.asarray(sh(FP))))
      _compare(out, chunk, 'sl_vertical_interp:3d', got.reshape(nq, C).T, E['const'], V, T, X)
  # ---- fields (level, x, y): the first six data columns of every node set form a 2x3 field;
  #      column c looks up the query lattice rolled by c (so no axis can be confused)
  groups = {}
  for c in cases:
    groups.setdefault(tuple(c['xp']), []).append(c)
  gl = [(g * 6)[:6] for g in groups.values()]     # (a lone replayed case fills the field itself)
  vec = [
      ('interp', 'const', vi.interp), ('dot_interp', 'const', dot_interp),
      ('linear_extrap', 'linear', vi.linear_interp_with_linear_extrap),
      ('safe_extrap_1', 'safe1', safe1), ('safe_extrap_2', 'safe2', safe2),
  ]
  vec = [v for v in vec if v[2] is not None]
  gsize = GCHUNK if len(gl) > 1 else 1
  for s in range(0, len(gl), gsize):
    gchunk = gl[s:s + gsize]
    padded = _pad(gchunk, gsize if len(gchunk) > 1 else 1)
    flat = [c for g in padded for c in g]
    X, XP, FP, E, V, T = _prep(flat, nq)
    G = len(padded)
    roll = lambda M: np.stack([np.roll(M[i], i % 6) for i in range(M.shape[0])])
    fld = lambda M: np.moveaxis(M.reshape(G, 2, 3, M.shape[1]), 3, 1)       # (G, level, 2, 3)
    Xr, Vr, Tr = roll(X), roll(V), roll(T)
    xg, fg, xpg = jnp.asarray(fld(Xr)), jnp.asarray(fld(FP)), jnp.asarray(XP[::6])
    unf = lambda Y: np.moveaxis(np.asarray(Y), 1, 3).reshape(G * 6, -1)
    real = [c for g in gchunk for c in g]
    for name, mode, fn in vec:
      got = vi.vectorize_vertical_interpolation(fn)(xg, xpg, fg)
      _compare(out, real, f'vectorized[{name}]', unf(got), roll(E[mode]), Vr, Tr, Xr)
    # shared 1-d coordinates through the semi-Lagrangian helper
    if sl_interp:
      got = jax.vmap(sl_interp)(jnp.asarray(X[::6]), xpg, fg)
      exp6 = E['const']
      _compare(out, real, 'sl_vertical_interp:1d', unf(got), exp6, V, T, X)
  # ---- a few cases query by query with no batching at all
  for c in cases[:NSCALAR] + cases[-NSCALAR:]:
    X, XP, FP, E, V, T = _prep([c], len(c['q']))
    xp, fp = jnp.asarray(XP[0]), jnp.asarray(FP[0])
    for name, mode, fn in (('interp', 'const', vi.interp), ('dot_interp', 'const', dot_interp),
                           ('linear_extrap', 'linear', vi.linear_interp_with_linear_extrap),
                           ('safe_extrap_1', 'safe1', safe1)):
      if fn is None:
        continue
      got = np.array([[float(fn(float(x), xp, fp)) for x in X[0]]])
      _compare(out, [c], f'{name}:scalar_call', got, E[mode], V, T, X)
  return out


def _replay_1d(item):
  cases = item['cases']
  by_n = {}
  for c in cases:
    by_n.setdefault(len(c['xp']), []).append(c)
  out = []
  for n, cs in sorted(by_n.items()):
    nq = item.get('nq', {}).get(str(n)) or max(len(c['q']) for c in cs)
    out += _replay_1d_same_n(cs, nq)
  return out


# ----------------------------------------------------------------------------------------
# column routines (InterpColumns.tla)
# ----------------------------------------------------------------------------------------

def _field(tab):
  """spec table [column][level] of [n, d] -> float array (level, 2, 3), NaN = MISSING or UNSPEC;
  second array: 1 where a value / MISSING is asserted, 0 where the spec leaves it open."""
  import numpy as np
  ncol, nlev = len(tab), len(tab[0])
  a = np.zeros((nlev, ncol)); m = np.zeros((nlev, ncol), bool)
  for c in range(ncol):
    for k in range(nlev):
      v = tab[c][k]
      a[k, c] = float('nan') if v[1] <= 0 else v[0] / v[1]
      m[k, c] = v[1] >= 0
  return a.reshape(nlev, 2, 3), m.reshape(nlev, 2, 3)


def _cmp_field(out, case, name, got, exp, asserted, tol, lenient=None):
  import numpy as np
  got = np.asarray(got, dtype=np.float64)
  if got.shape != exp.shape:
    out.append({'case': case, 'sig': f'{name}:shape', 'detail': f'shape {got.shape} != {exp.shape}'})
    return 0
  nan_e, nan_g = np.isnan(exp), np.isnan(got)
  bad = asserted & ((nan_e != nan_g) | (~nan_e & ~nan_g & ~(np.abs(got - exp) <= tol)))
  if lenient is not None:
    bad &= ~lenient
  if bad.any():
    i = tuple(int(v) for v in np.argwhere(bad)[0])
    kind = 'missing_expected' if nan_e[i] else 'unexpected_missing' if nan_g[i] else 'value'
    out.append({'case': case, 'sig': f'{name}:{kind}',
                'detail': f'entry {i} (level, x, y): code {got[i]!r} spec {exp[i]!r}; {int(bad.sum())} entries differ'})
  return int(asserted.sum())


@functools.lru_cache(None)
def _linear_fn():
  from dinosaur import vertical_interpolation as vi
  return vi.vectorize_vertical_interpolation(vi.linear_interp_with_linear_extrap)


def _one_column_case(c):
  import numpy as np
  jax, jnp = _jax()
  from dinosaur import vertical_interpolation as vi
  from dinosaur import sigma_coordinates as sc
  out = []
  sp = np.array(c['sp'], dtype=np.float64).reshape(2, 3)
  scen = c['scen']
  if scen == 'surface':
    pcoord = vi.PressureCoordinates(np.array(c['pl'], dtype=np.float64))
    geo = np.array([[_val(v) for v in col] for col in c['geo']]).T.reshape(len(c['pl']), 2, 3)
    oro = np.array(c['oro'], dtype=np.float64).reshape(1, 2, 3)
    exp = np.array([_val(v) for v in c['r1']]).reshape(1, 2, 3)
    rh = c['g'] * oro - geo
    amp = 1 + 2 * np.max(np.abs(rh), axis=0) / np.min(np.diff(rh, axis=0), axis=0)
    tol = 16 * EPS * max(c['pl']) * amp[None]
    ones = np.ones_like(exp, bool)
    got = vi.get_surface_pressure(pcoord, jnp.asarray(geo), jnp.asarray(oro), float(c['g']))
    _cmp_field(out, c, 'surface_pressure', got, exp, ones, tol)
    got = vi.get_surface_pressure(pcoord, jnp.asarray(np.stack([geo, geo])), jnp.asarray(oro), float(c['g']))
    _cmp_field(out, c, 'surface_pressure:leading_axis', got, np.stack([exp, exp]), np.stack([ones, ones]), tol)
    return out
  sigma = sc.SigmaCoordinates(np.array(c['sb'], dtype=np.float64) / c['sden'])
  src = {f: _field(c['src'][f])[0] for f in ('affine', 'pattern')}
  e1 = {f: _field(c['r1'][f]) for f in ('affine', 'pattern')}
  scale = max(float(np.max(np.abs(v))) for v in src.values())
  tol1, tol2 = 64 * EPS * 3 * scale, 64 * EPS * 9 * scale
  with jax.disable_jit(c.get('nojit', False)):
    if scen == 'hybrid':
      hyb = vi.HybridCoordinates(np.array(c['hy']['a'], dtype=np.float64),
                                 np.array(c['hy']['b'], dtype=np.float64) / c['hden'])
      edge = np.array(c['edge1'], bool).T.reshape(-1, 2, 3)
      got = vi.interp_hybrid_to_sigma({k: jnp.asarray(v) for k, v in src.items()}, hyb, sigma, jnp.asarray(sp))
      for f in src:
        _cmp_field(out, c, f'hybrid_to_sigma:{f}', got[f], e1[f][0], e1[f][1], tol1, lenient=edge)
      if c.get('extra', True):      # the class front end of the same routine
        got = vi.BilinearRegridder(hyb, sigma)(jnp.asarray(src['pattern']), jnp.asarray(sp))
        _cmp_field(out, c, 'hybrid_to_sigma:BilinearRegridder', got, e1['pattern'][0], e1['pattern'][1], tol1, lenient=edge)
      return out
    pcoord = vi.PressureCoordinates(np.array(c['pl'], dtype=np.float64))
    first, second = ((vi.interp_pressure_to_sigma, vi.interp_sigma_to_pressure) if scen == 'p2s'
                     else (vi.interp_sigma_to_pressure, vi.interp_pressure_to_sigma))
    names = ('pressure_to_sigma', 'sigma_to_pressure') if scen == 'p2s' else ('sigma_to_pressure', 'pressure_to_sigma')
    fields = {k: jnp.asarray(v) for k, v in src.items()}
    fields['stacked'] = jnp.asarray(np.stack([src['affine'], src['pattern']]))    # leading axis
    got1 = first(fields, pcoord, sigma, jnp.asarray(sp))
    for f in src:
      _cmp_field(out, c, f'{names[0]}:{f}', got1[f], e1[f][0], e1[f][1], tol1)
    _cmp_field(out, c, f'{names[0]}:leading_axis', got1['stacked'],
               np.stack([e1['affine'][0], e1['pattern'][0]]), np.stack([e1['affine'][1], e1['pattern'][1]]), tol1)
    # the round trip: the code's own first-stage output goes back through the inverse routine
    got2 = second({f: got1[f] for f in src}, pcoord, sigma, jnp.asarray(sp))
    for f in src:
      e2, m2 = _field(c['r2'][f])
      _cmp_field(out, c, f'roundtrip:{names[0]}:{names[1]}:{f}', got2[f], e2, m2, tol2)
    if c.get('extra', True):
      # a caller-supplied interpolation function goes through the same vectorisation
      got3 = first({'affine': fields['affine']}, pcoord, sigma, jnp.asarray(sp), _linear_fn())
      el = _field(c['lin1'])
      _cmp_field(out, c, f'{names[0]}:linear_extrap_fn', got3['affine'], el[0], el[1], tol1 * 4)
  return out


# ----------------------------------------------------------------------------------------
# horizontal regridders (HorizInterp.tla)
# ----------------------------------------------------------------------------------------

def _one_horiz_case(c):
  import numpy as np
  jax, jnp = _jax()
  from dinosaur import horizontal_interpolation as hi
  from dinosaur import spherical_harmonic as sh
  out = []

  def grid(g):
    return sh.Grid(longitude_wavenumbers=0, total_wavenumbers=0, longitude_nodes=g['lon'],
                   latitude_nodes=g['lat'], latitude_spacing=g['sp'],
                   longitude_offset=g['off'] * np.pi / g['lon'])
  s, t = grid(c['src']), grid(c['tgt'])
  I, J = c['src']['lon'], c['src']['lat']
  const = np.full((I, J), 2.5)
  label = 1.0 + np.arange(I * J, dtype=np.float64).reshape(I, J)
  fld = jnp.asarray(np.stack([const, label]))
  tshape = (c['tgt']['lon'], c['tgt']['lat'])

  def bad(sig, detail):
    out.append({'case': c, 'sig': sig, 'detail': detail})
  for name, cls in (('bilinear', hi.BilinearRegridder), ('nearest', hi.NearestRegridder)):
    got = np.asarray(cls(s, t)(fld))
    if got.shape != (2,) + tshape:
      bad(f'{name}:shape', f'shape {got.shape} != {(2,) + tshape}')
      continue
    if not np.all(np.abs(got[0] - 2.5) <= 4 * EPS * 2.5):
      i = np.unravel_index(np.argmax(np.abs(got[0] - 2.5)), tshape)
      bad(f'{name}:constant', f'constant 2.5 not reproduced at {tuple(map(int, i))}: {got[0][i]!r}')
    if c.get('extra', True):
      got2 = np.asarray(cls(s, t)(jnp.asarray(label)))             # no leading axis
      if got2.shape != tshape or not np.array_equal(got2, got[1], equal_nan=True):
        bad(f'{name}:leading_axis', 'result with a leading axis differs from the 2-d call')
    if name == 'nearest' and not np.all(np.isin(got[1], label)):
      bad('nearest:selection', f'output contains values that are not source values: {got[1].tolist()}')
    if name == 'nearest' and not c['equal'] and c.get('shift', 99) != 99:
      # the same nodes a whole number of cells apart: target node i is source node i + shift
      mask = np.array(c['nearmask'], bool)
      want = np.roll(label, -int(c['shift']), axis=0)
      d = np.abs(got[1] - want) <= 4 * EPS * np.abs(want)
      if not np.all(d | ~mask):
        i = tuple(int(v) for v in np.argwhere(~d & mask)[0])
        bad('nearest:shifted_twin', f'grids {c["src"]} -> {c["tgt"]}: node {i} has {got[1][i]!r}, the coincident source value is {want[i]!r}')
    if c['equal']:
      mask = np.ones(tshape, bool) if name == 'bilinear' else np.array(c['nearmask'], bool)
      d = np.abs(got[1] - label) <= 4 * EPS * np.abs(label)
      if not np.all(d | ~mask):
        i = tuple(int(v) for v in np.argwhere(~d & mask)[0])
        bad(f'{name}:identity', f'equal grids: node {i} has {got[1][i]!r}, source value {label[i]!r}')
  return out


# ----------------------------------------------------------------------------------------

# ----------------------------------------------------------------------------------------
# semi-Lagrangian vertical advection step (SemiLagrangian.tla)
# ----------------------------------------------------------------------------------------

@functools.lru_cache(maxsize=None)
def _sl_grid():
  from harness import dataflow
  import numpy as np
  grid = dataflow.make_grid({'M': 2, 'L': 3})
  jax, jnp = _jax()
  c00 = float(np.asarray(grid.to_modal(jnp.ones(grid.nodal_shape)))[0, 0])
  return grid, c00


def _sl_cases(cases):
  """All cases of one level set in one vmapped call: out = W f level-wise for every spectral
  coefficient of every 3-D field; velocity as derived; surface fields and clock untouched."""
  import numpy as np
  jax, jnp = _jax()
  from dinosaur import coordinate_systems, primitive_equations as pe, sigma_coordinates
  out = []
  grid, c00 = _sl_grid()
  c0 = cases[0]
  b = np.array(c0['b'], np.float64) / c0['den']
  K = len(b) - 1
  n = len(cases)
  coords = coordinate_systems.CoordinateSystem(grid, sigma_coordinates.SigmaCoordinates(b))
  rs = np.random.RandomState(K * 1000 + sum(c0['b']))
  mask = np.asarray(grid.mask, np.float64)
  fld = lambda: rs.randint(-4, 5, size=(n, K) + grid.modal_shape).astype(np.float64) * mask
  div = np.zeros((n, K) + grid.modal_shape)
  div[:, :, 0, 0] = np.array([c['d'] for c in cases], np.float64) * c00
  lnps = np.zeros((n, 1) + grid.modal_shape)
  lnps[:, 0, 0, 0] = 0.37
  vor, tv, q = fld(), fld(), fld()
  clock = 1.25 + np.arange(n)
  state = pe.StateWithTime(jnp.asarray(vor), jnp.asarray(div), jnp.asarray(tv), jnp.asarray(lnps),
                           tracers={'q': jnp.asarray(q)}, sim_time=jnp.asarray(clock))
  dts = np.array([c['dt'][0] / c['dt'][1] for c in cases])
  vel = np.asarray(jax.vmap(lambda st: pe.compute_vertical_velocity(st, coords))(state))
  got = jax.vmap(lambda st, dt: pe.semi_lagrangian_vertical_advection_step(st, coords, dt))(state, jnp.asarray(dts))
  for i, c in enumerate(cases):
    exp_vel = np.array([_val(v) for v in c['vel']])
    dv = np.max(np.abs(vel[i] - exp_vel[:, None, None]))
    if not dv <= 1e-13 * max(1.0, np.max(np.abs(exp_vel))):
      out.append({'case': c, 'sig': 'sl:velocity',
                  'detail': f'vertical velocity at layer centres differs from the spec by {dv:.3e}: code column '
                            f'{vel[i][:, 0, 0].tolist()} spec {exp_vel.tolist()}'})
    if not c['mono']:
      continue
    W = np.array([[_val(v) for v in row] for row in c['W']])
    pairs = [('vorticity', vor[i], got.vorticity[i]), ('divergence', div[i], got.divergence[i]),
             ('temperature_variation', tv[i], got.temperature_variation[i]), ('tracers.q', q[i], got.tracers['q'][i])]
    for name, x, y in pairs:
      exp = np.einsum('jk,kml->jml', W, x)
      y = np.asarray(y)
      err = np.max(np.abs(y - exp))
      if not err <= 2e-12 * max(1.0, np.max(np.abs(exp))):
        j = np.unravel_index(np.argmax(np.abs(y - exp)), y.shape)
        out.append({'case': c, 'sig': f'sl:field:{name}',
                    'detail': f'b={c["b"]}/{c["den"]} d={c["d"]} dt={dts[i]}: coefficient {tuple(int(v) for v in j)}: '
                              f'code {y[j]!r} spec (W f) {exp[j]!r}; W={W.tolist()}'})
    if not np.array_equal(np.asarray(got.log_surface_pressure[i]), lnps[i]):
      out.append({'case': c, 'sig': 'sl:surface_touched', 'detail': 'log surface pressure changed by the vertical advection step'})
    if float(got.sim_time[i]) != clock[i]:
      out.append({'case': c, 'sig': 'sl:clock_touched', 'detail': f'sim_time changed to {float(got.sim_time[i])}'})
  return out


def _one(item):
  k = item['kind']
  if k == '1d':
    return _replay_1d(item)
  if k == 'column':
    return _one_column_case(item['case'])
  if k == 'horiz':
    return _one_horiz_case(item['case'])
  if k == 'sl':
    return _sl_cases(item['cases'])
  raise common.MachineryError(f'unknown item kind {k}')


def _wrap(item):
  """Mismatches of an item refer to the individual spec case (so --replay re-executes it)."""
  try:
    return _one(item)
  except common.MachineryError:
    raise
  except Exception as ex:   # pylint: disable=broad-except
    import traceback
    tb = traceback.format_exc().splitlines()
    case = item.get('case') or item['cases'][0]
    if not common.library_raised(ex):      # raised by the harness itself: machinery, not a verdict
      return [{'case': case, 'kind': item['kind'], 'sig': common.HARNESS_ERROR,
               'detail': f'replay harness raised {type(ex).__name__}: {str(ex)[:300]} | ' + ' / '.join(tb[-8:])[:1200]}]
    return [{'case': case, 'kind': item['kind'], 'sig': f'{item["kind"]}:exception:{type(ex).__name__}',
             'detail': f'code raised {type(ex).__name__}: {str(ex)[:300]} | ' + ' / '.join(tb[-6:])[:600]}]


def replay_items(items):
  out = []
  for it in items:
    for m in _wrap(it):
      m.setdefault('kind', it['kind'])
      out.append(m)
  return out


def replay(ctx, kind, cases):
  items = [{'kind': kind, 'cases': cases}] if kind in ('1d', 'sl') else [{'kind': kind, 'case': c} for c in cases]
  for m in replay_items(items):
    ctx.mismatch(m['kind'], m['case'], m['sig'], m['detail'])


def run(ctx):
  q = ctx.quick
  tier = 'quick' if q else 'thorough'
  specs = [('Interp', ['CallInterp', 'CallDotInterp', 'CallVerticalInterpolation', 'CallSLVerticalInterp',
                       'CallLinearExtrap', 'CallSafeExtrap']),
           ('InterpColumns', ['PressureToSigma', 'SigmaToPressure', 'HybridToSigma', 'SurfacePressure']),
           ('HorizInterp', ['Bilinear', 'Nearest']),
           ('SemiLagrangian', ['Velocity', 'Depart', 'Weights'])]
  with concurrent.futures.ThreadPoolExecutor(4) as ex:
    futs = [ex.submit(ctx.tlc, m, f'{m}_{tier}.cfg', workers=6) for m, _ in specs]
    runs = [f.result() for f in futs]
  ctx.tlc_runs.sort(key=lambda r: r.module)
  for (m, acts), r in zip(specs, runs):
    ctx.require_actions(r, acts)
    if not r.cases:
      raise common.MachineryError(f'{m}: nothing exported')
  one_d, cols, hor, sl = (r.cases for r in runs)
  sl.sort(key=lambda c: (c['b'], c['d'], c['dt']))
  if not any(not c['mono'] for c in sl) or not any(c['mono'] and any(v[0] for v in c['vel']) for c in sl):
    raise common.MachineryError('vacuous export: semi-Lagrangian cases lack moving / unordered configurations')
  cols.sort(key=lambda c: (c['scen'], c['sb'], c['pl'], str(c['hy']), c['g'], str(c['geo'])))
  hor.sort(key=lambda c: (str(c['src']), str(c['tgt'])))
  for i, c in enumerate(cols):
    c['extra'] = i % 4 == 0           # extra call variants on every 4th / 5th case only (cost)
  for i, c in enumerate(hor):
    c['extra'] = i % 5 == 0
  # ---- anti-vacuity of the exported set
  nmiss = sum(1 for c in one_d for v in c['safe1'] if v[1] == 0)
  rt_vals = sum(1 for c in cols if c['scen'] in ('p2s', 's2p') for col in c['r2']['affine'] for v in col if v[1] > 0)
  if not nmiss or not rt_vals or not any(c['equal'] for c in hor) or not any(not c['equal'] for c in hor):
    raise common.MachineryError('vacuous export: no missing values / no covered round trip / no (un)equal grid pair')
  # ---- items: all 1-D cases of one node count form one item (one process compiles one shape)
  by_n = {}
  for c in one_d:
    by_n.setdefault(len(c['xp']), []).append(c)
  for cs in by_n.values():
    cs.sort(key=lambda c: (c['xp'], c['fp']))
  items = [{'kind': '1d', 'cases': cs} for _, cs in sorted(by_n.items(), key=lambda kv: -len(kv[1]))]
  rest = [{'kind': 'column', 'case': c} for c in cols] + [{'kind': 'horiz', 'case': c} for c in hor]
  by_b = {}
  for c in sl:
    by_b.setdefault(tuple(c['b']), []).append(c)
  rest += [{'kind': 'sl', 'cases': cs} for _, cs in sorted(by_b.items())]
  # a handful of column cases also run eagerly (jax.disable_jit: no tracing of the decorators)
  for it in rest[:: max(1, len(rest) // 8)]:
    if it['kind'] == 'column' and it['case']['scen'] != 'p2s':
      rest.append({'kind': 'column', 'case': dict(it['case'], nojit=True, extra=False)})
  nproc = 4
  while len(items) % nproc:
    items.append({'kind': '1d', 'cases': []})          # keep the striding aligned
  res = common.parallel_map('c17', 'replay_items', items + rest, nproc=nproc, tag='it',
                            outdir=os.path.join(ctx.out, 'par'))
  for m in res:
    ctx.mismatch(m['kind'], m['case'], m['sig'], m['detail'])
  ctx.replayed += len(one_d) + len(cols) + len(hor) + len(sl)
  ctx.comparisons += 7 * len(sl)
  for c in sl:
    ctx.distinct.add(('sl', tuple(c['b']), tuple(c['d']), tuple(c['dt'])))
  ctx.notes['semi_lagrangian_cases'] = {'ordered': sum(1 for c in sl if c['mono']), 'unordered_velocity_only': sum(1 for c in sl if not c['mono'])}
  ctx.sample(next(c for c in sl if c['mono'] and any(v[0] for v in c['vel']) and len(c['b']) == 4))
  nq = sum(len(c['q']) for c in one_d)
  ctx.comparisons += nq * 8          # 8 direct routine variants per query (+ field layouts)
  ctx.comparisons += sum(36 * (len(c['sb']) + len(c['pl'])) if c['scen'] in ('p2s', 's2p') else 12 for c in cols)
  ctx.comparisons += 6 * len(hor)
  for c in one_d:
    ctx.distinct.add(('1d', tuple(c['xp']), tuple(c['fp'])))
  for c in cols:
    ctx.distinct.add(('col', c['scen'], tuple(c['sb']), tuple(c['pl']), str(c['hy']), c['g'], str(c.get('geo'))))
  for c in hor:
    ctx.distinct.add(('hor', str(c['src']), str(c['tgt'])))
  c0 = next(c for c in one_d if len(c['xp']) == 3 and c['fp'][1] != 0)
  ctx.sample({'routine_tables_1d': {k: c0[k] for k in ('xp', 'fp', 'q', 'const', 'linear', 'safe1', 'safe2')}})
  c1 = next(c for c in cols if c['scen'] == 'p2s')
  ctx.sample({'round_trip': {k: c1[k] for k in ('scen', 'sb', 'sden', 'pl', 'sp')},
              'r1_affine': c1['r1']['affine'], 'r2_affine': c1['r2']['affine']})
  c2 = next(c for c in cols if c['scen'] == 'surface')
  ctx.sample({'surface_pressure': {k: c2[k] for k in ('pl', 'g', 'oro', 'geo', 'r1')}})
  ctx.sample(next(c for c in hor if c['equal'] and c['src']['sp'] == 'equiangular_with_poles'))
  ctx.notes['cases_1d'] = len(one_d)
  ctx.notes['node_sets'] = len({tuple(c['xp']) for c in one_d})
  ctx.notes['queries_1d'] = nq
  ctx.notes['column_cases'] = {s: sum(1 for c in cols if c['scen'] == s) for s in ('p2s', 's2p', 'hybrid', 'surface')}
  ctx.notes['round_trip_values_compared'] = rt_vals
  ctx.notes['grid_pairs'] = len(hor)
  ctx.assumptions += [
      'integer nodes/data and dyadic query lattices: results at source nodes are compared exactly, all other '
      '1-D results within 16 ulp of max|fp| * (|1-w|+|w|)',
      'sigma level sets on a dyadic lattice and integer pressures: every tie of a query with the end of the '
      'extrapolation range is exact in floating point too, so NaN masks are compared exactly; only in the hybrid '
      'scenario (source levels a/sp + b are not dyadic) a query exactly at that end may come out either way',
      'second-stage (round-trip) results whose neighbouring first-stage values are missing are not compared '
      '(the property does not say how missing data propagate)',
      'the TPU branch of interp is exercised by calling _dot_interp directly; the platform switch itself is not executed',
      'nearest-neighbour identity is not asserted on pole rows of equiangular_with_poles grids (coincident points)',
  ]
  return ctx.finish(
      rule='Interp: one case per (node set with gaps <= MaxGap and <= MaxNodes nodes, data vector from basis + '
           'affine + dense [+ all vectors over DataVals]) with every query on the 1/QDen lattice reaching past the '
           'second padded cell; InterpColumns: one case per (scenario, sigma level set, pressure level set / '
           'hybrid coefficients / geopotential steps) on a 2x3 field of surface pressures; HorizInterp: one case '
           'per admissible grid pair')
