"""Subprocess entry for parallel replay: python -m harness.worker <module> <func> <in> <out>."""
import importlib
import json
import os
import sys


def main():
  module, func, fin, fout = sys.argv[1:5]
  core = os.environ.get('VERIF_PIN_CORE')
  if core is not None:
    try:
      os.sched_setaffinity(0, {int(core) % os.cpu_count()})
    except OSError:
      pass
  with open(fin) as f:
    items = json.load(f)
  res = getattr(importlib.import_module('harness.' + module), func)(items)
  with open(fout, 'w') as f:
    json.dump(res, f, default=str)


if __name__ == '__main__':
  main()
