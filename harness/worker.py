"""Subprocess entry for parallel replay: python -m harness.worker <module> <func> <in> <out>."""
import importlib
import json
import os
import sys


def main():
  module, func, fin, fout = sys.argv[1:5]
  core = os.environ.get('VERIF_PIN_CORE')
  if core is not None:
    try:
      os.sched_setaffinity(0, {int(core) % os.cpu_count()})
    except OSError:
      pass
  with open(fin) as f:
    items = json.load(f)
  try:
    res = getattr(importlib.import_module('harness.' + module), func)(items)
  except Exception as ex:   # pylint: disable=broad-except
    from harness import common
    if isinstance(ex, common.MachineryError) or not common.library_raised(ex):
      raise
    import traceback
    with open(fout, 'w') as f:
      json.dump({'__library_error__': traceback.format_exc()[-4000:]}, f)
    return
  with open(fout, 'w') as f:
    json.dump(res, f, default=str)


if __name__ == '__main__':
  main()
