"""C01: analysis inverts synthesis; discrete orthonormality.  Spec: SpectralIndex, FactoryGrids.

TLC enumerates grid configurations (wavenumbers, node rules, spacings, both layouts, padding
multiples), proves the layout bijections / mask / padding invariants and classifies for every
label whether the quadrature owes an exact round trip and an exact integral.  Replay: the real
Grid must have exactly the spec's shapes, axes and mask; for every label (a unit coefficient
vector, batched) to_modal(to_nodal(e)) must be e where owed, integrate(to_nodal(e)) must be
r^2*sqrt(4 pi)*[label = (0,0)], nothing may appear outside the mask, and values injected
outside the mask must not change the synthesised field.
"""
from __future__ import annotations

import math
import os

from harness import common, spectral
from harness.spectral import EPS

SQRT4PI = math.sqrt(4 * math.pi)


def _grid_one(c):
  np, jax, jnp = spectral.np_jax()
  out = []
  key = {k: c[k] for k in ('M', 'L', 'I', 'J', 'spacing', 'impl', 'mult', 'nodes')}

  def bad(sig, detail):
    out.append({'case': c, 'sig': sig, 'detail': f'{key}: {detail}'})

  variants = c.get('variants', [dict(radius=1.0, offset=0.0)])
  for v in variants:
    radius, offset = v['radius'], v['offset']
    grid = spectral.make_grid(c, radius=radius, offset=offset, stacked=v.get('stacked'))
    # ---- structure
    if tuple(grid.modal_shape) != tuple(c['modal_shape']) or tuple(grid.nodal_shape) != tuple(c['nodal_shape']):
      bad('shape', f'modal {grid.modal_shape} nodal {grid.nodal_shape} != spec {c["modal_shape"]} {c["nodal_shape"]}')
      continue
    if tuple(grid.modal_padding) != tuple(c['modal_pad']) or tuple(grid.nodal_padding) != tuple(c['nodal_pad']):
      bad('padding', f'{grid.modal_padding} {grid.nodal_padding} != spec {c["modal_pad"]} {c["nodal_pad"]}')
    ma, la = grid.modal_axes
    if [int(x) for x in ma] != c['maxis'] or [int(x) for x in la] != c['laxis']:
      bad('axes', f'modal axes {list(map(int, ma))} {list(map(int, la))} != spec')
    mask = np.asarray(grid.mask)
    smask = np.zeros(tuple(c['modal_shape']), dtype=bool)
    for lab in c['labels']:
      smask[lab['row'], lab['col']] = True
    if not np.array_equal(mask, smask):
      bad('mask', f'mask differs from the image of the labels at {np.argwhere(mask != smask)[:4].tolist()}')
      continue
    lon = np.asarray(grid.longitudes)[:c['I']]
    exp_lon = offset + 2 * np.pi * np.arange(c['I']) / c['I']
    if not np.allclose(lon, exp_lon, rtol=0, atol=1e-14):
      bad('longitudes', f'longitudes {lon[:3]} != {exp_lon[:3]}')
    # ---- synthesis / analysis on every label
    X = spectral.unit_batch(c)
    N = max(c['I'], c['J'], c['L'])
    nodal = grid.to_nodal(jnp.asarray(X))
    back = np.asarray(grid.to_modal(nodal))
    nodal = np.asarray(nodal)
    if not np.all(np.isfinite(back)):
      bad('finite', 'non-finite coefficients after round trip')
    tol = 256 * EPS * N
    rt = np.array([lab['rt'] for lab in c['labels']])
    err = np.abs(back - X).reshape(len(X), -1).max(axis=1)
    viol = np.where(rt & ~(err <= tol))[0]
    if len(viol):
      lab = c['labels'][int(viol[0])]
      bad('roundtrip', f'radius={radius} label (m={lab["m"]},l={lab["l"]},{lab["s"]}): |analysis(synthesis(e)) - e| = {err[viol[0]]:.3e}')
    # nothing appears outside the mask (structural zeros are exact)
    outside = back[:, ~smask]
    if np.any(outside != 0):
      bad('outside_mask:appears', f'max |coefficient| outside the truncation after analysis: {np.abs(outside).max():.3e}')
    # coefficients outside the truncation never influence the synthesised field
    inj = X.copy()
    inj[:, ~smask] = 7.25
    nodal2 = np.asarray(grid.to_nodal(jnp.asarray(inj)))
    I, J = c['I'], c['J']
    if not np.array_equal(nodal2[:, :I, :J], nodal[:, :I, :J]):
      bad('outside_mask:influences', f'injected out-of-mask values changed the nodal field by {np.abs(nodal2 - nodal)[:, :I, :J].max():.3e}')
    # integral
    integ = np.asarray(grid.integrate(jnp.asarray(nodal)))
    for q, lab in enumerate(c['labels']):
      if not lab['int']:
        continue
      exp = radius ** 2 * SQRT4PI if (lab['m'], lab['l']) == (0, 0) else 0.0
      if not abs(integ[q] - exp) <= 256 * EPS * N * radius ** 2:
        bad('integral', f'radius={radius} label (m={lab["m"]},l={lab["l"]},{lab["s"]}): integral {integ[q]!r} expected {exp!r}')
        break
    # low-degree harmonics pin the normalisation and the sign convention
    lon2, sinlat = grid.nodal_mesh
    lon2 = np.asarray(lon2)[:I, :J] - offset
    mu = np.asarray(sinlat)[:I, :J]
    pos = spectral.label_pos(c)
    qidx = {(lab['m'], lab['l'], lab['s']): q for q, lab in enumerate(c['labels'])}
    analytic = {
        (0, 0, 'c'): np.full_like(mu, 1 / SQRT4PI),
        (0, 1, 'c'): math.sqrt(3 / (4 * math.pi)) * mu,
        (0, 2, 'c'): math.sqrt(5 / (16 * math.pi)) * (3 * mu ** 2 - 1),
        (1, 1, 'c'): -math.sqrt(3 / (4 * math.pi)) * np.sqrt(1 - mu ** 2) * np.cos(lon2),
        (1, 1, 's'): -math.sqrt(3 / (4 * math.pi)) * np.sqrt(1 - mu ** 2) * np.sin(lon2),
        (1, 2, 'c'): -math.sqrt(15 / (4 * math.pi)) * mu * np.sqrt(1 - mu ** 2) * np.cos(lon2),
    }
    for k, f in analytic.items():
      if k in qidx:
        d = np.abs(nodal[qidx[k], :I, :J] - f).max()
        if not d <= 64 * EPS * N:
          bad('analytic', f'Y{k} differs from its closed form by {d:.3e}')
    # leading batch / level axes
    if v.get('batch'):
      Xb = np.stack([X[: min(3, len(X))], 2 * X[: min(3, len(X))]])
      bb = np.asarray(grid.to_modal(grid.to_nodal(jnp.asarray(Xb))))
      sel = rt[: min(3, len(X))]
      if np.abs(bb - Xb)[:, sel].max(initial=0) > 2 * tol:
        bad('batch', 'round trip with two leading axes differs')
  return out


replay_grids = common.per_case(_grid_one, 'grid')


def _factory_one(c):
  np, jax, jnp = spectral.np_jax()
  from dinosaur import spherical_harmonic as sh
  out = []
  g = getattr(sh.Grid, c['name'])()
  got = (g.longitude_wavenumbers, g.total_wavenumbers, g.longitude_nodes, g.latitude_nodes)
  if got != (c['M'], c['L'], c['I'], c['J']) or g.latitude_spacing != 'gauss':
    out.append({'case': c, 'sig': 'factory:numbers', 'detail': f'{c["name"]}: {got} != spec {(c["M"], c["L"], c["I"], c["J"])}'})
  if c.get('transform'):
    for impl in (sh.RealSphericalHarmonics, sh.FastSphericalHarmonics):
      g = getattr(sh.Grid, c['name'])(spherical_harmonics_impl=impl)
      rs = np.random.RandomState(0)
      mask = np.asarray(g.mask)
      _, l = g.modal_mesh
      x = rs.randn(*g.modal_shape) * mask * (np.asarray(l) <= c['band'])
      back = np.asarray(g.to_modal(g.to_nodal(jnp.asarray(x))))
      err = np.abs(back - x).max()
      if not err <= 1e-11:
        out.append({'case': c, 'sig': 'factory:roundtrip', 'detail': f'{c["name"]} {impl.__name__}: error {err:.3e} on l <= {c["band"]}'})
      integ = float(g.integrate(g.to_nodal(jnp.asarray(x))))
      if not abs(integ - SQRT4PI * x[0, 0]) <= 1e-11:
        out.append({'case': c, 'sig': 'factory:integral', 'detail': f'{c["name"]}: {integ} vs {SQRT4PI * x[0, 0]}'})
  return out


replay_factory = common.per_case(_factory_one, 'factory')


_HIST_GRIDS = [
    dict(M=3, L=4, I=10, J=5, spacing='gauss', impl='real', mult=1),
    dict(M=3, L=4, I=10, J=5, spacing='equiangular', impl='fast', mult=2),
]


def _history_group(g):
  """g: {'grid': index, 'radius': r, 'seqs': [[op, ...], ...]}; all sequences run on ONE Grid object."""
  np, jax, jnp = spectral.np_jax()
  out = []
  cfg = _HIST_GRIDS[g['grid']]
  radius = g['radius']
  rs = np.random.RandomState(5)

  def ops_of(grid):
    mask = np.asarray(grid.mask)
    x = jnp.asarray(rs.__class__(5).randn(*grid.modal_shape) * mask)
    z = grid.to_nodal(x)
    return {
        'to_nodal': lambda: grid.to_nodal(x), 'to_modal': lambda: grid.to_modal(z),
        'integrate': lambda: grid.integrate(z), 'quadrature_weights': lambda: grid.quadrature_weights,
        'laplacian': lambda: grid.laplacian(x), 'inverse_laplacian': lambda: grid.inverse_laplacian(x),
        'cos_lat_d_dlat': lambda: grid.cos_lat_d_dlat(x), 'clip': lambda: grid.clip_wavenumbers(x),
        'd_dlon': lambda: grid.d_dlon(x)}
  fresh = {}
  for op in ops_of(spectral.make_grid(cfg, radius=radius)):
    fresh[op] = np.asarray(ops_of(spectral.make_grid(cfg, radius=radius))[op]())
  grid = spectral.make_grid(cfg, radius=radius)
  ops = ops_of(grid)
  for seq in g['seqs']:
    for k, op in enumerate(seq):
      got = np.asarray(ops[op]())
      if not np.array_equal(got, fresh[op]):
        out.append({'case': {'grid': cfg, 'radius': radius, 'ops': seq}, 'sig': f'history:{op}',
                    'detail': f'{op} after {seq[:k]} (and earlier sequences on the same Grid object) differs from '
                              f'its value on a fresh Grid by {np.abs(got - fresh[op]).max():.3e}'})
        return out
  return out


replay_history = common.per_case(_history_group, 'history')

_REPR_GRIDS = [dict(M=3, L=4, I=10, J=5, spacing='gauss', impl='real', mult=1),
               dict(M=3, L=4, I=10, J=5, spacing='gauss', impl='fast', mult=2)]


def _repr_one(c):
  """Representations.tla: a tree of scalar / modal / nodal leaves through a sequence of maybe_to_nodal / maybe_to_modal."""
  np, jax, jnp = spectral.np_jax()
  from dinosaur import coordinate_systems as cs, sigma_coordinates as sc, spherical_harmonic as sh
  out = []
  brief = {k: c[k] for k in ('leaves', 'grid', 'ops', 'variant')}

  def bad(sig, detail):
    out.append({'case': brief, 'sig': 'repr:' + sig, 'detail': detail})
  if c['grid'] == 'coincident':
    # reference layout with 2M-1 longitude nodes and L latitude nodes: nodal shape == modal shape
    grid = sh.Grid(longitude_wavenumbers=3, total_wavenumbers=4, longitude_nodes=5, latitude_nodes=4,
                   spherical_harmonics_impl=sh.RealSphericalHarmonics)
    if tuple(grid.nodal_shape) != tuple(grid.modal_shape):
      return out          # the layout changed: this grid no longer realises the deviation
  else:
    grid = spectral.make_grid(_REPR_GRIDS[c['variant'] % 2])
  K = 2
  coords = cs.CoordinateSystem(grid, sc.SigmaCoordinates.equidistant(K))
  mask = np.asarray(grid.mask)
  rs = np.random.RandomState(11 + c['variant'])
  names, coef, nod, tree = [], [], [], {}
  for i, leaf in enumerate(c['leaves']):
    name = f'leaf{i}'
    names.append(name)
    if leaf['kind'] == 'scalar':
      coef.append(None); nod.append(None)
      val = jnp.asarray(7.5 + i)
    else:
      pre = (K,) if leaf['rank'] == 3 else ()
      x = rs.randn(*(pre + tuple(grid.modal_shape))) * mask
      x[..., grid.total_wavenumbers - 1:] = 0.0          # band-limited below the clipped top wavenumber
      x = jnp.asarray(x)
      coef.append(x); nod.append(grid.to_nodal(x))
      val = x if leaf['rep'] == 'modal' else nod[-1]
    (tree if i == 0 else tree.setdefault('sub', {}))[name] = val
  get = lambda t, i: t[names[i]] if i == 0 else t['sub'][names[i]]
  tags = [leaf['rep'] for leaf in c['leaves']]
  for k, op in enumerate(c['ops']):
    fn = cs.maybe_to_nodal if op == 'to_nodal' else cs.maybe_to_modal
    new = fn(tree, coords)
    if jax.tree_util.tree_structure(new) != jax.tree_util.tree_structure(tree):
      bad('structure', f'{op} changed the tree structure')
      return out
    want = c['snaps'][k]
    shapes = {'nodal': cs.get_nodal_shapes(new, coords), 'modal': cs.get_modal_shapes(new, coords)}
    for i, leaf in enumerate(c['leaves']):
      a, b = get(tree, i), np.asarray(get(new, i))
      where = f'leaf {i} {leaf} after {c["ops"][:k + 1]} on the {c["grid"]} grid'
      if want[i] == 'none':
        if b.shape != () or b.tobytes() != np.asarray(a).tobytes():
          bad('scalar_changed', f'{where}: {np.asarray(a)!r} -> {b!r}')
        for r in ('nodal', 'modal'):
          if np.asarray(get(shapes[r], i)).size != 0:
            bad('shapes:scalar', f'{where}: get_{r}_shapes gives {np.asarray(get(shapes[r], i)).tolist()} for a scalar')
        continue
      pre = (K,) if leaf['rank'] == 3 else ()
      for r, hs in (('nodal', grid.nodal_shape), ('modal', grid.modal_shape)):
        if tuple(np.asarray(get(shapes[r], i)).tolist()) != pre + tuple(hs):
          bad(f'shapes:{r}', f'{where}: get_{r}_shapes gives {np.asarray(get(shapes[r], i)).tolist()}, expected {pre + tuple(hs)}')
      if want[i] == tags[i]:
        # a leaf that already has the target shape is returned as it is
        if b.shape != np.asarray(a).shape or b.tobytes() != np.asarray(a).tobytes():
          bad(f'{op}:touched', f'{where}: the leaf already was {tags[i]} (by shape) and must be returned unchanged')
        continue
      ref = np.asarray(nod[i] if want[i] == 'nodal' else coef[i])
      if b.shape != ref.shape:
        bad(f'{op}:shape', f'{where}: shape {b.shape}, the specification has a {want[i]} leaf of shape {ref.shape}')
        continue
      sel = (Ellipsis,) if want[i] == 'nodal' else (Ellipsis, mask)
      err = np.abs(b[sel] - ref[sel]).max()
      if not err <= 256 * 2.220446049250313e-16 * max(grid.nodal_shape) * (np.abs(ref).max() + 1.0):
        bad(f'{op}:value', f'{where}: differs from the {want[i]} representation of the same band-limited function by {err:.3e}')
    tree, tags = new, list(want)
  # the same round trip through the state-level helpers of shallow_water (they clip the top wavenumber on the way out)
  if c['grid'] == 'distinct' and c['variant'] % 8 == 0:
    from dinosaur import shallow_water as sw
    if hasattr(sw, 'state_to_nodal') and hasattr(sw, 'state_to_modal'):
      raw = [jnp.asarray(rs.randn(*((K,) + tuple(grid.modal_shape))) * mask) for _ in range(3)]
      st = sw.State(*raw)
      nodal_state = sw.state_to_nodal(st, grid)
      back = sw.state_to_modal(nodal_state, grid)
      for f, x in zip(('vorticity', 'divergence', 'potential'), raw):
        clipped = np.asarray(x).copy(); clipped[..., grid.total_wavenumbers - 1:] = 0.0
        n_ref = np.asarray(grid.to_nodal(jnp.asarray(clipped)))
        tol = 256 * 2.220446049250313e-16 * max(grid.nodal_shape) * (np.abs(clipped).max() + 1.0)
        gn, gb = np.asarray(getattr(nodal_state, f)), np.asarray(getattr(back, f))
        if gn.shape != n_ref.shape or not np.abs(gn - n_ref).max() <= tol:
          bad(f'state_to_nodal:{f}', f'state_to_nodal differs from the synthesis of the clipped coefficients on grid variant {c["variant"] % 2}')
        elif gb.shape != clipped.shape or not np.abs(gb - clipped)[..., mask].max() <= tol:
          bad(f'state_round_trip:{f}', f'state_to_modal(state_to_nodal(s)) differs from s with its top total wavenumber clipped by '
              f'{np.abs(gb - clipped)[..., mask].max():.3e}')
  return out


replay_repr = common.per_case(_repr_one, 'repr')
REPLAYERS = {'grid': replay_grids, 'factory': replay_factory, 'history': replay_history, 'repr': replay_repr}


def replay(ctx, kind, cases):
  for m in REPLAYERS[kind](cases):
    ctx.mismatch(kind, m['case'], m['sig'], m['detail'])


def add_variants(cases, quick):
  for i, c in enumerate(cases):
    v = [dict(radius=1.0, offset=0.0, batch=(i % 7 == 0))]
    if i % 3 == 0:
      v.append(dict(radius=2.0, offset=2 * math.pi / c['I']))
    if i % 3 == 1:
      v.append(dict(radius=0.5, offset=math.pi / c['I']))
    if c['impl'] == 'fast':
      v[0]['stacked'] = bool(i % 2)
      if not quick:
        v.append(dict(radius=3.0, offset=0.0, stacked=not bool(i % 2)))
    c['variants'] = v
  return cases


def _poly_integral_one(c):
  """OperatorsPoly.tla: the area integral and the sum of squared coefficients of a field given as a polynomial on
  the sphere, against the exact global means (double-factorial formula)."""
  import math
  np, jax, jnp = spectral.np_jax()
  from harness import dataflow
  from harness.common import fl
  out = []
  a = fl(c['a'])
  mean, mean2 = fl(c['mean']), fl(c['mean_square'])
  for g in (dict(M=5, L=6), dict(M=5, L=6, impl='fast', mult=4), dict(M=6, L=8, spacing='equiangular', J=16), dict(M=5, L=6, offset=0.7)):
    grid = dataflow.make_grid(g, radius=a)
    lon, sinlat = (np.asarray(v, np.float64) for v in grid.nodal_mesh)
    cosl = np.sqrt(np.maximum(0.0, 1 - sinlat ** 2))
    X, Y, Z = cosl * np.cos(lon), cosl * np.sin(lon), sinlat
    real = np.zeros(X.shape, bool)
    real[:grid.longitude_nodes, :grid.latitude_nodes] = True
    f = np.zeros_like(X)
    for i, j, k, n, d in c['f']:
      f = f + (n / d) * X ** i * Y ** j * Z ** k
    f = np.where(real, f, 0.0)
    got = float(grid.integrate(jnp.asarray(f)))
    want = 4 * math.pi * a ** 2 * mean
    if not abs(got - want) <= 1e-12 * (1 + abs(want)) * 4 * math.pi * a ** 2:
      out.append({'case': c, 'sig': 'analytic:integral', 'detail': f'grid {g} radius {a}: integrate = {got!r}, exact 4 pi a^2 mean = {want!r}'})
    cm = np.asarray(grid.to_modal(jnp.asarray(f)))
    c00 = float(cm[0, 0])
    if not abs(c00 - math.sqrt(4 * math.pi) * mean) <= 1e-12 * (1 + abs(mean)):
      out.append({'case': c, 'sig': 'analytic:mean_coefficient', 'detail': f'grid {g}: (0,0) coefficient {c00!r}, exact sqrt(4 pi) mean = {math.sqrt(4 * math.pi) * mean!r}'})
    ss = float((cm ** 2).sum())
    if not abs(ss - 4 * math.pi * mean2) <= 1e-11 * (1 + 4 * math.pi * mean2):
      out.append({'case': c, 'sig': 'analytic:parseval', 'detail': f'grid {g}: sum of squared coefficients {ss!r}, exact integral of f^2 over the unit sphere {4 * math.pi * mean2!r}'})
  return out


replay_poly_integrals = common.per_case(_poly_integral_one, 'analytic')


def run(ctx):
  q = ctx.quick
  r = ctx.tlc('SpectralIndex', 'SpectralIndex_quick.cfg' if q else 'SpectralIndex_thorough.cfg')
  ctx.require_actions(r, ['BuildShape', 'BuildAxes', 'BuildMask', 'BuildIndex'])
  rf = ctx.tlc('FactoryGrids', 'FactoryGrids.cfg')
  base = [c for c in r.cases if c['nodes'] != 'fine' or not q or (c['spacing'], c['impl']) in (('gauss', 'fast'), ('equiangular', 'real'))]
  cases = add_variants(base, q)
  res = common.parallel_map('c01', 'replay_grids', cases, nproc=4 if q else 8, tag='grid',
                            outdir=os.path.join(ctx.out, 'par'))
  fac = rf.cases
  for c in fac:
    c['transform'] = c['name'] in (('T21', 'TL31') if q else ('T21', 'TL31', 'T31', 'T42', 'TL47', 'TL63'))
  res += replay_factory(fac)
  rh = ctx.tlc('GridHistory', 'GridHistory.cfg')
  seqs = [c['ops'] for c in rh.cases]
  groups = [{'grid': gi, 'radius': rad, 'seqs': seqs} for gi in (0, 1) for rad in (2.0, 0.5)]
  res += replay_history(groups)
  # analytic oracle: exact global means of polynomial fields on the sphere (OperatorsPoly.tla)
  rp = ctx.tlc('OperatorsPoly', 'OperatorsPoly.cfg', workers=2)
  ctx.require_actions(rp, ['First', 'Second'])
  res += common.parallel_map('c01', 'replay_poly_integrals', rp.cases, nproc=4, tag='poly', outdir=os.path.join(ctx.out, 'par'))
  # representation state machine of maybe_to_nodal / maybe_to_modal (Representations.tla)
  rr = ctx.tlc('Representations', 'Representations_quick.cfg' if q else 'Representations_thorough.cfg', workers=2)
  ctx.require_actions(rr, ['ToNodal', 'ToModal'])
  reprs = []
  for i, c in enumerate(rr.cases):
    c['variant'] = i
    reprs.append(c)
  if not any(c['grid'] == 'coincident' for c in reprs) or not any(len(set(c['ops'])) == 2 for c in reprs):
    raise common.MachineryError('vacuous export of Representations')
  res += common.parallel_map('c01', 'replay_repr', reprs, nproc=4 if q else 8, tag='repr', outdir=os.path.join(ctx.out, 'par'))
  ctx.notes['representation_behaviours_replayed'] = len(reprs)
  ctx.comparisons += sum(len(c['ops']) * len(c['leaves']) * 3 for c in reprs)
  ctx.replayed += len(cases) + len(fac) + len(seqs) * len(groups) + len(rp.cases) + len(reprs)
  ctx.sample({'kind': 'history', 'ops': seqs[len(seqs) // 2]})
  nlab = sum(len(c['labels']) * len(c['variants']) for c in cases)
  ctx.comparisons += nlab * 4
  ctx.notes['labels_replayed'] = nlab
  ctx.notes['labels_not_owed_round_trip'] = sum(1 for c in cases for lab in c['labels'] if not lab['rt'])
  for c in cases:
    ctx.distinct.add((c['M'], c['L'], c['I'], c['J'], c['spacing'], c['impl'], c['mult']))
  for m in res:
    cc = dict(m['case'])
    ctx.mismatch(m['sig'].split(':')[0] if m['sig'].split(':')[0] in ('factory', 'history', 'repr') else 'grid', cc, m['sig'], m['detail'])
  s = cases[len(cases) // 2]
  ctx.sample({k: s[k] for k in ('M', 'L', 'I', 'J', 'spacing', 'impl', 'mult', 'modal_shape', 'nodal_shape')}
             | {'labels': s['labels'][:4]})
  ctx.sample(fac[0])
  ctx.assumptions += ['rounding budget 256*eps*max(I,J,L) for the Gram matrix / integrals',
                      'labels the quadrature does not resolve (rt = false) are unconstrained',
                      'transform_precision="highest" is passed to the fast implementation (CPU ignores the hint)']
  return ctx.finish(
      rule='one case per grid configuration (M, L-M, node rule, spacing, layout, padding multiple) x 1-3 '
           '(radius, longitude offset, stacked) variants; every label of the truncation is a unit input; plus the '
           '20 factory grids (numbers) and round trips on the small ones')
