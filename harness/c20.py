"""C20: physical forcings are bounded, periodic and dissipative.

Spec modules: Insolation (radiation.py) and HeldSuarez (held_suarez.py).

Insolation.  TLC enumerates (reference datetime, model time, time shift) on a quarter-hour
lattice, computes the orbital / synodic phases as exact rationals (turns), classifies every
(longitude node, latitude class) as sun-up "U", sun-down "D" or no-claim "X" from rational data
only (margins absorb declination and equation of time), and checks the periodicity relations
on the machine.  The replay drives SolarRadiation.time_to_orbital_time / radiation_flux (plain
and normalised) and get_radiation_flux / get_normalized_radiation_flux at the same space-time
points and compares: phases with the spec's rationals, signs with the spec's classes, the
recorded (sinalt, S, flux) triples with the sign machine, the bounds, and the field relations
after a day / 365.25 days (a quarter-turn roll in longitude) / four years.

Held-Suarez.  TLC enumerates every level set on the lattice k/Den x sigma_b x parameter set,
builds kv, kt (linear form over {1, cos^4 lat}), the modal image of kt on constants and the
tendencies of four states; the replay builds the real HeldSuarezForcing, instantiates the
abstract labels with real (m, l) labels below the top total wavenumber and compares
kv(), kt(), equilibrium_temperature() on p = p0 and explicit_terms() with the spec's values.

NOT decided: "the global mean equals one quarter of the instantaneous solar constant up to
quadrature error" (an integral of max(0, .) of a trigonometric field has no exact discrete
content in this technique).
"""
from __future__ import annotations

import datetime
import math
import os

from harness import common
from harness.common import frac

EPS = 2.220446049250313e-16
TWO_PI = 2 * math.pi
OMEGA = 7.292e-5                       # scales.ANGULAR_VELOCITY, 1/s
RADIUS = 6.37122e6                     # scales.RADIUS, m
T_SCALE = 1 / (2 * OMEGA)              # DEFAULT_SCALE time unit in seconds
DAY_RATE = T_SCALE / 86400.0           # nondimensional value of 1/day
WM2 = T_SCALE ** 3                     # nondimensional value of 1 W/m^2 = 1 kg/s^3 (mass scale 1 kg)
P0_ND = 1e5 * RADIUS * T_SCALE ** 2    # nondimensional value of 1e5 Pa = 1e5 kg/(m s^2)
SQRT4PI = math.sqrt(4 * math.pi)

_cache: dict = {}


def _libs():
  if 'libs' not in _cache:
    import numpy as np
    import jax
    jax.config.update('jax_enable_x64', True)
    import jax.numpy as jnp
    from dinosaur import coordinate_systems as cs
    from dinosaur import held_suarez as hs
    from dinosaur import primitive_equations as pe
    from dinosaur import radiation as rad
    from dinosaur import scales
    from dinosaur import sigma_coordinates as sc
    from dinosaur import spherical_harmonic as sh
    _cache['libs'] = dict(np=np, jax=jax, jnp=jnp, cs=cs, hs=hs, pe=pe, rad=rad, scales=scales,
                          sc=sc, sh=sh, specs=pe.PrimitiveEquationsSpecs.from_si())
  return _cache['libs']


def _f(x):
  v = frac(x)
  return v.numerator / v.denominator


# ==========================================================================================
# Insolation
# ==========================================================================================

def _ins_grid(kind, nlon):
  """(coords, lon[I,J], lat[I,J], latclass[J]) with independently computed node positions."""
  key = ('insgrid', kind, nlon)
  if key in _cache:
    return _cache[key]
  L = _libs()
  np = L['np']
  # 'gauss@k': the same nodes on a grid whose first longitude sits k grid steps east of Greenwich
  # (longitude_offset): node i then is the spec's lattice position (i + k) mod nlon
  kind, _, off = kind.partition('@')
  off = int(off or 0)
  offset = TWO_PI * off / nlon
  if kind == 'poles':
    J = 7
    grid = L['sh'].Grid(longitude_wavenumbers=3, total_wavenumbers=4, longitude_nodes=nlon,
                        latitude_nodes=J, latitude_spacing='equiangular_with_poles', longitude_offset=offset)
    deg = [-90, -60, -30, 0, 30, 60, 90]
    lat1 = np.array([math.radians(d) for d in deg])
    cls = ['sp', 'low', 'low', 'low', 'low', 'low', 'np']
  else:
    J = 6
    grid = L['sh'].Grid(longitude_wavenumbers=3, total_wavenumbers=4, longitude_nodes=nlon,
                        latitude_nodes=J, latitude_spacing='gauss', longitude_offset=offset)
    x, _ = np.polynomial.legendre.leggauss(J)
    lat1 = np.arcsin(np.sort(x))
    cls = ['low' if abs(v) <= math.radians(60) else 'none' for v in lat1]
  lon1 = np.array([TWO_PI * (i + off) / nlon for i in range(nlon)])
  lon, lat = np.meshgrid(lon1, lat1, indexing='ij')
  coords = L['cs'].CoordinateSystem(grid, L['sc'].SigmaCoordinates.equidistant(1))
  _cache[key] = (coords, lon, lat, cls, off)
  return _cache[key]


def _ref_datetime(ref, tick):
  doy0, tk, diy = ref
  year = 1979 if diy == 365 else 1980
  return datetime.datetime(year, 1, 1) + datetime.timedelta(days=doy0, minutes=tk * tick)


def _solar(ref, tick, kind, nlon, normalized):
  key = ('sr', tuple(ref), tick, kind, nlon, normalized)
  if key not in _cache:
    L = _libs()
    coords = _ins_grid(kind, nlon)[0]
    ctor = L['rad'].SolarRadiation.normalized if normalized else L['rad'].SolarRadiation
    _cache[key] = ctor(coords, L['specs'], _ref_datetime(ref, tick))
  return _cache[key]


def _circ(a, b):
  """distance of two angles on the circle."""
  d = (a - b) % TWO_PI
  return min(d, TWO_PI - d)


def _snapshot(c, h, kind, bad):
  """Replays one (ref, t) snapshot on one grid; returns the dimensional flux field (W/m^2)."""
  L = _libs()
  np, rad = L['np'], L['rad']
  tick, nlon = c['tick'], c['nlon']
  tsi, var = float(c['tsi']), float(c['var'])
  smax = tsi + var
  key = ('snap', tuple(c['ref']), h['t'], kind, nlon)
  if key in _cache:
    return _cache[key]
  coords, lon, lat, lcls, off = _ins_grid(kind, nlon)
  sr = _solar(c['ref'], tick, kind, nlon, False)
  srn = _solar(c['ref'], tick, kind, nlon, True)
  tmin = h['t'] * tick
  time_nd = tmin * 60.0 / T_SCALE

  def viol(sig, detail):
    bad(f'ins:{sig}', f'grid={kind} t={h["t"]} ticks: {detail}')

  # -- model time through the datetime route
  when = _ref_datetime(c['ref'], tick) + datetime.timedelta(minutes=tmin)
  t_dt = float(sr.datetime_to_time(when))
  # the datetime route subtracts two stamps: its rounding error is absolute (a few ulp of a day in model
  # units), not relative to the elapsed time; budget 1e-12 model units = 1e-10 of the minute the property speaks of
  if not abs(t_dt - time_nd) <= 64 * EPS * abs(time_nd) + 1e-12:
    viol('datetime_to_time', f'datetime_to_time({when}) = {t_dt!r}, expected {time_nd!r}')
  # -- phases: SolarRadiation.time_to_orbital_time vs the spec's exact turns
  ot = sr.time_to_orbital_time(time_nd)
  orb_c, syn_c = float(ot.orbital_phase), float(ot.synodic_phase)
  orb_s, syn_s = TWO_PI * _f(h['orb']), TWO_PI * _f(h['syn'])
  mag_o = TWO_PI * (1 + abs(tmin) / 525960.0)
  mag_s = TWO_PI * (1 + abs(tmin) / 1440.0)
  tol_o, tol_s = 16 * EPS * mag_o, 16 * EPS * mag_s
  if not _circ(orb_c, orb_s) <= tol_o:
    viol('orbital_phase', f'orbital phase {orb_c!r}, spec 2pi*{h["orb"]} = {orb_s!r}')
  if not _circ(syn_c, syn_s) <= tol_s:
    viol('synodic_phase', f'synodic phase {syn_c!r}, spec 2pi*{h["syn"]} = {syn_s!r}')
  for nm, v, tl in (('orbital', orb_c, tol_o), ('synodic', syn_c, tol_s)):
    if not (-tl <= v <= TWO_PI + tl):
      viol('phase_not_wrapped', f'{nm} phase {v!r} outside [0, 2pi]')
  ptol = tol_o + tol_s
  ftol = 4 * smax * ptol + 1e-10                                 # W/m^2, effect of phase rounding
  # -- fields
  F = np.asarray(sr.radiation_flux(time_nd), dtype=np.float64) / WM2
  Fn = np.asarray(srn.radiation_flux(time_nd), dtype=np.float64)
  ots = rad.OrbitalTime(orbital_phase=orb_s, synodic_phase=syn_s)
  G = np.asarray(rad.get_radiation_flux(ots, lon, lat, mean_irradiance=tsi, variation=var), dtype=np.float64)
  Gn = np.asarray(rad.get_normalized_radiation_flux(ots, lon, lat, mean_irradiance=tsi, variation=var),
                  dtype=np.float64)
  sa = np.asarray(rad.get_solar_sin_altitude(orb_s, syn_s, lon, lat), dtype=np.float64)
  S = float(rad.get_direct_solar_irradiance(orb_s, mean_irradiance=tsi, variation=var))
  fields = (('radiation_flux', F, smax), ('get_radiation_flux', G, smax),
            ('normalized.radiation_flux', Fn, 1.0), ('get_normalized_radiation_flux', Gn, 1.0))
  for nm, X, top in fields:
    if X.shape != lon.shape:
      viol(f'shape:{nm}', f'{nm} has shape {X.shape}, nodes {lon.shape}')
      continue
    if not np.all(np.isfinite(X)):
      viol(f'finite:{nm}', f'{nm} not finite')
      continue
    if not np.all(X >= 0):
      i = np.unravel_index(np.argmin(X), X.shape)
      viol(f'negative:{nm}', f'{nm}[{i}] = {X[i]!r} < 0 (lon node {i[0]}, lat {math.degrees(lat[i]):.2f})')
    if not np.all(X <= top * (1 + 4 * EPS)):
      i = np.unravel_index(np.argmax(X), X.shape)
      viol(f'exceeds_perihelion_constant:{nm}', f'{nm}[{i}] = {X[i]!r} > {top}')
    # spec classes: sun-down nodes are exactly zero, sun-up nodes strictly positive
    for j, lc in enumerate(lcls):
      if lc == 'none':
        continue
      for i in range(nlon):
        k = h['cls'][lc][(i + off) % nlon]
        if k == 'D' and X[i, j] != 0:
          viol(f'night_not_zero:{nm}:{lc}', f'{nm} = {X[i, j]!r} at lon node {i}, lat '
               f'{math.degrees(lat[i, j]):.2f} where the spec has the sun below the horizon')
        elif k == 'U' and not X[i, j] > 0:
          viol(f'day_not_positive:{nm}:{lc}', f'{nm} = {X[i, j]!r} at lon node {i}, lat '
               f'{math.degrees(lat[i, j]):.2f} where the spec has the sun above the horizon')
  # -- sign machine on the recorded (sinalt, S, flux) triples
  if G.shape == sa.shape:
    if not np.all(sa <= 1 + 4 * EPS):
      viol('sinalt_gt_1', f'sin(altitude) max {sa.max()!r}')
    night = sa <= 0
    if np.any(G[night] != 0):
      viol('sign_machine:night', 'flux != 0 at a node whose recorded sin(altitude) <= 0')
    day = ~night
    if not np.all(np.abs(G[day] - S * sa[day]) <= 4 * EPS * np.abs(S * sa[day])):
      viol('sign_machine:day', 'flux != S * sin(altitude) at a node with sin(altitude) > 0')
  if not (tsi - var) * (1 - 4 * EPS) <= S <= smax * (1 + 4 * EPS):
    viol('irradiance_range', f'S = {S!r} outside [{tsi - var}, {smax}]')
  if h['s'] != 0 and not abs(S - h['s']) <= var * 1e-9 + 8 * EPS * smax:
    viol('irradiance_value', f'S = {S!r} at orbital phase 2pi*{h["orb"]}, spec {h["s"]}')
  if h['side'] == 'ge' and not S >= tsi - var * 1e-9:
    viol('irradiance_side', f'S = {S!r} < TSI on the perihelion half of the orbit')
  if h['side'] == 'le' and not S <= tsi + var * 1e-9:
    viol('irradiance_side', f'S = {S!r} > TSI on the aphelion half of the orbit')
  # -- the four evaluation routes agree
  if F.shape == G.shape and not np.all(np.abs(F - G) <= ftol):
    viol('routes:solar_vs_function', f'SolarRadiation.radiation_flux differs from get_radiation_flux at the '
         f'spec phases by {np.abs(F - G).max()!r} W/m^2 (budget {ftol:.3g})')
  if Fn.shape == F.shape and not np.all(np.abs(Fn * smax - F) <= 1e-12 * smax + 8 * EPS * np.abs(F)):
    viol('normalized:solar', f'normalized().radiation_flux * (TSI+V) differs from radiation_flux by '
         f'{np.abs(Fn * smax - F).max()!r}')
  if Gn.shape == G.shape and not np.all(np.abs(Gn * smax - G) <= 8 * EPS * smax):
    viol('normalized:function', f'get_normalized_radiation_flux * (TSI+V) differs from get_radiation_flux by '
         f'{np.abs(Gn * smax - G).max()!r}')
  # -- periodicity in each phase argument separately (whole turns, the other phase held fixed)
  for which, k in (('orbital', 1), ('orbital', -2), ('synodic', 1), ('synodic', -3)):
    o2 = orb_s + (TWO_PI * k if which == 'orbital' else 0.0)
    s2 = syn_s + (TWO_PI * k if which == 'synodic' else 0.0)
    G2 = np.asarray(rad.get_radiation_flux(rad.OrbitalTime(orbital_phase=o2, synodic_phase=s2), lon, lat,
                                           mean_irradiance=tsi, variation=var), dtype=np.float64)
    if G2.shape != G.shape or not np.all(np.abs(G2 - G) <= 64 * EPS * TWO_PI * abs(k) * smax):
      viol(f'periodic:{which}_phase', f'get_radiation_flux changes by {np.abs(G2 - G).max()!r} W/m^2 when the '
           f'{which} phase is shifted by {k} turns')
  _cache[key] = (F, ftol)
  return _cache[key]


def _ins_one(c):
  L = _libs()
  np = L['np']
  out = []
  brief = {k: c[k] for k in ('ref', 'shift', 'tick', 'nlon', 'rel', 'roll', 'years')}
  brief['t'] = c['a']['t']

  def bad(sig, detail):
    out.append({'case': c, 'sig': sig, 'detail': f'{brief}: {detail}'})

  for kind in ('poles', 'gauss', 'gauss@1', 'poles@3'):
    Fa, ta = _snapshot(c, c['a'], kind, bad)
    Fb, tb = _snapshot(c, c['b'], kind, bad)
    tol = ta + tb
    if c['rel'] == 'full':
      if not np.all(np.abs(Fb - Fa) <= tol):
        bad('ins:periodic:four_years', f'grid={kind}: flux changes by {np.abs(Fb - Fa).max()!r} W/m^2 after '
            f'{c["years"]} x 365.25 days (budget {tol:.3g})')
    elif c['rel'] == 'year':
      exp = np.roll(Fa, -c['roll'], axis=0)
      if not np.all(np.abs(Fb - exp) <= tol):
        bad('ins:periodic:year', f'grid={kind}: flux after {c["years"]} x 365.25 days differs from the field '
            f'rolled by {c["roll"]} longitude nodes by {np.abs(Fb - exp).max()!r} W/m^2 (budget {tol:.3g})')
  return out


replay_ins = common.per_case(_ins_one, 'ins')


# ==========================================================================================
# Held-Suarez
# ==========================================================================================

HS_GRIDS = {'A': dict(M=4, L=5, I=12, J=6), 'B': dict(M=5, L=7, I=16, J=8)}


def _hs_grid(name):
  key = ('hsgrid', name)
  if key in _cache:
    return _cache[key]
  L = _libs()
  np = L['np']
  g = HS_GRIDS[name]
  grid = L['sh'].Grid(longitude_wavenumbers=g['M'], total_wavenumbers=g['L'], longitude_nodes=g['I'],
                      latitude_nodes=g['J'], latitude_spacing='gauss')
  ms, ls = grid.modal_axes
  mask = np.asarray(grid.mask)
  labs = [(r, cc) for r in range(mask.shape[0]) for cc in range(mask.shape[1])
          if mask[r, cc] and 1 <= ls[cc] <= g['L'] - 2]
  x, _ = np.polynomial.legendre.leggauss(g['J'])
  x = np.sort(x)
  row0 = [r for r in range(mask.shape[0]) if ms[r] == 0][0]
  col = {int(ls[cc]): cc for cc in range(mask.shape[1])}
  _cache[key] = dict(grid=grid, labs=labs, x=x, mask=mask, row0=row0, col=col, ls=ls, **g)
  return _cache[key]


def _hs_one(c):
  L = _libs()
  np, jnp, pe = L['np'], L['jnp'], L['pe']
  units = L['scales'].units
  out = []
  p = c['par']
  brief = {'b': c['b'], 'den': c['den'], 'sb': c['sb'], 'par': p['id'], 'grid': c.get('grid', 'A')}

  def bad(sig, detail):
    out.append({'case': c, 'sig': f'hs:{sig}', 'detail': f'{brief}: {detail}'})

  G = _hs_grid(c.get('grid', 'A'))
  grid, labs, n = G['grid'], G['labs'], len(G['labs'])
  K = len(c['b']) - 1
  den = c['den']
  vert = L['sc'].SigmaCoordinates(np.array(c['b'], dtype=np.float64) / den)
  coords = L['cs'].CoordinateSystem(grid, vert)
  sb = _f(c['sb'])
  kf, ka, ks = _f(p['kf']), _f(p['ka']), _f(p['ks'])
  tref = np.array([300.0 - 12.5 * k for k in range(K)])

  def make(tr):
    return L['hs'].HeldSuarezForcing(
        coords, L['specs'], tr, p0=1e5 * units.pascal, sigma_b=sb,
        kf=kf / units.day, ka=ka / units.day, ks=ks / units.day,
        minT=p['minT'] * units.degK, maxT=p['maxT'] * units.degK,
        dTy=p['dTy'] * units.degK, dThz=p['dThz'] * units.degK)

  hs = make(tref)
  tab = c['tab']
  cut_err = 8 * EPS / (1 - sb) if sb < 1 else 0.0     # sigma_b = 1: the ramp is exactly 0
  # ---- kv
  kv_s = np.array([_f(v) for v in tab['kv']]) * DAY_RATE
  kv = np.asarray(hs.kv(), dtype=np.float64)
  if kv.shape != (K, 1, 1):
    bad('kv:shape', f'kv() shape {kv.shape}')
    return out
  kv = kv[:, 0, 0]
  for k in range(K):
    if kv_s[k] == 0 and kv[k] != 0:
      bad('kv:nonzero_above_boundary_layer', f'kv[{k}] = {kv[k]!r}, spec 0 (sigma = {vert.centers[k]})')
    if not abs(kv[k] - kv_s[k]) <= 8 * EPS * abs(kv_s[k]) + cut_err * kf * DAY_RATE * (kv_s[k] != 0):
      bad('kv:value', f'kv[{k}] = {kv[k]!r}, spec {tab["kv"][k]}/day = {kv_s[k]!r}')
    if not kv[k] >= 0:
      bad('kv:negative', f'kv[{k}] = {kv[k]!r}')
  # ---- kt: linear form over {1, cos^4(lat)}
  cos4 = (1 - G['x'] ** 2) ** 2
  kt = np.asarray(hs.kt(), dtype=np.float64)
  kt_s = np.array([[_f(f[0]) + _f(f[1]) * c4 for c4 in cos4] for f in tab['kt']]) * DAY_RATE   # K x J
  if kt.shape[0] != K or kt.shape[-1] != G['J']:
    bad('kt:shape', f'kt() shape {kt.shape}')
    return out
  ktb = np.broadcast_to(kt, (K, G['I'], G['J']))
  tolk = (16 * EPS * (abs(ka) + abs(ks)) + cut_err * abs(ks - ka)) * DAY_RATE
  if not np.all(np.abs(ktb - kt_s[:, None, :]) <= tolk):
    i = np.unravel_index(np.argmax(np.abs(ktb - kt_s[:, None, :])), ktb.shape)
    bad('kt:value', f'kt{i} = {ktb[i]!r}, spec {tab["kt"][i[0]]} . (1, cos^4) /day = {kt_s[i[0], i[2]]!r}')
  if not np.all(ktb >= 0):
    bad('kt:negative', f'min kt = {ktb.min()!r}')
  # ---- equilibrium temperature on p = p0 and its floor
  minT = float(p['minT'])
  raw = _f(tab['teq_raw'][0]) + _f(tab['teq_raw'][1]) * G['x'] ** 2
  teq_s = np.maximum(_f(tab['teq_floor']), raw)
  for k in range(K):
    ps = np.full((G['I'], G['J']), P0_ND / float(vert.centers[k]))
    teq = np.asarray(hs.equilibrium_temperature(ps), dtype=np.float64)
    if teq.shape != (K, G['I'], G['J']):
      bad('teq:shape', f'equilibrium_temperature shape {teq.shape}')
      return out
    if not np.all(np.isfinite(teq)) or not np.all(teq >= minT):
      bad('teq:below_floor', f'equilibrium temperature min {np.nanmin(teq)!r} < minT {minT}')
    if not np.all(np.abs(teq[k] - teq_s[None, :]) <= 1e-12 * p['maxT']):
      j = int(np.argmax(np.abs(teq[k] - teq_s[None, :]).max(axis=0)))
      bad('teq:reference_surface', f'Teq(p = p0, sin^2 lat = {G["x"][j] ** 2:.4f}) = {teq[k, 0, j]!r}, '
          f'spec max({p["minT"]}, {p["maxT"]} - {p["dTy"]} sin^2) = {teq_s[j]!r}')
  # ---- explicit_terms
  mshape = coords.modal_shape
  sshape = coords.surface_modal_shape
  seed = sum(c['b']) + c['sb'][0] + 3 * p['id']
  full = bool(c.get('full'))

  def field(coefs, r):
    """abstract labels -> real labels: label 1 -> labs[r], label 2 -> labs[r + n//2 + 1]."""
    a = np.zeros(mshape)
    for k in range(K):
      for q in (0, 1):
        if coefs[k][q]:
          rr, cc = labs[(r + q * (n // 2 + 1)) % n]
          a[k, rr, cc] = coefs[k][q]
    return a

  def dense(coefs):
    a = np.zeros(mshape)
    for j, (rr, cc) in enumerate(labs):
      for k in range(K):
        a[k, rr, cc] = coefs[k][j % 2] * (1 + j % 3)
    return a

  def tend_field(t, r):
    return field([[_f(v) * DAY_RATE for v in t[k]] for k in range(K)], r)

  def tend_dense(t):
    return dense([[_f(v) * DAY_RATE for v in t[k]] for k in range(K)])

  base_lnps = np.zeros(sshape)
  base_lnps[0, 0, 0] = math.log(P0_ND) * SQRT4PI

  def rich_T_lnps():
    tv = np.zeros(mshape)
    ln = base_lnps.copy()
    for r in range(mshape[1]):
      for cc in range(mshape[2]):
        if G['mask'][r, cc] and G['ls'][cc] <= G['L'] - 2:
          for k in range(K):
            tv[k, r, cc] = 0.5 * ((3 * k + 2 * r + cc) % 5 - 2)
          if (r, cc) != (0, 0):
            ln[0, r, cc] = 0.01 * ((r + 2 * cc) % 3 - 1)
    return tv, ln

  def call(h, vor, div, tv, ln):
    st = pe.State(vorticity=jnp.asarray(vor), divergence=jnp.asarray(div),
                  temperature_variation=jnp.asarray(tv), log_surface_pressure=jnp.asarray(ln))
    o = h.explicit_terms(st)
    return {f: np.asarray(getattr(o, f), dtype=np.float64)
            for f in ('vorticity', 'divergence', 'temperature_variation', 'log_surface_pressure')}

  def check_drag(tag, o, vor, div, evor, ediv):
    smax = max(np.abs(vor).max(), np.abs(div).max(), 1.0)
    tol = 4e-13 * kf * DAY_RATE * smax
    for nm, got, exp in (('vorticity', o['vorticity'], evor), ('divergence', o['divergence'], ediv)):
      if got.shape != exp.shape:
        bad(f'drag:{tag}:shape', f'{nm} tendency shape {got.shape}')
        continue
      if not np.all(np.isfinite(got)):
        bad(f'drag:{tag}:{nm}:not_finite', f'{nm} tendency not finite')
        continue
      for k in range(K):
        if kv_s[k] == 0 and np.any(got[k] != 0):
          bad(f'drag:{tag}:{nm}:nonzero_above_boundary_layer',
              f'{nm} tendency max |.| = {np.abs(got[k]).max()!r} on level {k} (sigma = {vert.centers[k]} <= sigma_b)')
      if not np.all(np.abs(got - exp) <= tol):
        i = np.unravel_index(np.argmax(np.abs(got - exp)), got.shape)
        bad(f'drag:{tag}:{nm}:value', f'{nm} tendency{tuple(int(v) for v in i)} = {got[i]!r}, '
            f'spec -kv[level]*state = {exp[i]!r} (m = {int(grid.modal_axes[0][i[1]])}, l = {int(G["ls"][i[2]])})')
    ln = o['log_surface_pressure']
    if ln.shape != tuple(sshape) or np.any(ln != 0):
      bad(f'lnps:{tag}', f'log_surface_pressure tendency shape {ln.shape} max |.| = {np.abs(ln).max()!r}')

  def check_relax(tag, h, o, tr, tv, ln):
    """temperature tendency = to_modal(-kt (T - Teq)) from the recorded kt, Teq."""
    T = tr[:, None, None] + np.asarray(grid.to_nodal(jnp.asarray(tv)))
    ps = np.exp(np.asarray(grid.to_nodal(jnp.asarray(ln))))
    teq = np.asarray(h.equilibrium_temperature(ps), dtype=np.float64)
    if not np.all(teq >= minT):
      bad(f'teq:below_floor:{tag}', f'equilibrium temperature min {teq.min()!r} < minT {minT}')
    nod = -np.asarray(h.kt()) * (T - teq)
    exp = np.asarray(grid.to_modal(jnp.asarray(nod)), dtype=np.float64)
    got = o['temperature_variation']
    if got.shape != exp.shape or not np.all(np.abs(got - exp) <= 1e-12 * (np.abs(exp).max() + 1e-300)):
      bad(f'relax:{tag}', f'temperature tendency differs from to_modal(-kt (T - Teq)) by '
          f'{np.abs(got - exp).max() if got.shape == exp.shape else got.shape!r}')

  outs = {o['kind']: o for o in c['out']}
  zT = np.zeros(mshape)
  for kind in ('vor', 'div'):
    o = outs[kind]
    rots = range(n) if full else [(seed + (5 if kind == 'div' else 0)) % n]
    for r in rots:
      vor, div = field(o['state']['vor'], r), field(o['state']['div'], r)
      got = call(hs, vor, div, zT, base_lnps)
      check_drag(kind, got, vor, div, tend_field(o['tend']['vor'], r), tend_field(o['tend']['div'], r))
      if r == rots[0]:
        check_relax(kind, hs, got, tref, zT, base_lnps)
  o = outs['dense']
  vor, div = dense(o['state']['vor']), dense(o['state']['div'])
  tv, ln = rich_T_lnps()
  evor, ediv = tend_dense(o['tend']['vor']), tend_dense(o['tend']['div'])
  base = call(hs, vor, div, tv, ln)
  check_drag('dense', base, vor, div, evor, ediv)
  check_relax('dense', hs, base, tref, tv, ln)
  # horizontally constant warming dT[k], once through reference_temperature, once through T'
  w = outs['warm']
  dT = np.array(w['state']['dT'], dtype=np.float64)
  eresp = np.zeros(mshape)
  for k in range(K):
    for li, l in enumerate((0, 2, 4)):
      eresp[k, G['row0'], G['col'][l]] = _f(w['tend']['dtemp'][k][li]) * DAY_RATE * math.sqrt(4 * math.pi / (2 * l + 1))
  tv2 = tv.copy()
  tv2[:, 0, 0] += dT * SQRT4PI
  hs2 = make(tref + dT)
  scale = np.abs(base['temperature_variation']).max() + np.abs(eresp).max()
  for tag, got in (('tref', call(hs2, vor, div, tv, ln)), ('tprime', call(hs, vor, div, tv2, ln))):
    check_drag('warm_' + tag, got, vor, div, evor, ediv)
    resp = got['temperature_variation'] - base['temperature_variation']
    if not np.all(np.abs(resp - eresp) <= 1e-12 * scale):
      i = np.unravel_index(np.argmax(np.abs(resp - eresp)), resp.shape)
      bad(f'relax:response:{tag}', f'response of the temperature tendency to a uniform warming dT = {dT.tolist()} '
          f'({tag}) at {tuple(int(v) for v in i)} is {resp[i]!r}, spec -kt_modal*dT = {eresp[i]!r}')
  return out


replay_hs = common.per_case(_hs_one, 'hs')


# ==========================================================================================
def replay(ctx, kind, cases):
  fn = replay_hs if kind == 'hs' else replay_ins
  for m in fn(cases):
    ctx.mismatch(kind, m['case'], m['sig'], m['detail'])


def run(ctx):
  q = ctx.quick
  tier = 'quick' if q else 'thorough'
  # ---- insolation
  ri = ctx.tlc('Insolation', f'Insolation_{tier}.cfg')
  ctx.require_actions(ri, ['ToOrbitalTime', 'Flux', 'Advance'])
  icases = ri.cases
  if not icases:
    raise common.MachineryError('Insolation: nothing exported')
  rels = {c['rel'] for c in icases}
  if not {'day', 'year', 'full', 'none'} <= rels:
    raise common.MachineryError(f'Insolation: period classes missing from the export: {rels}')
  ncls = {k: 0 for k in 'UDX'}
  for c in icases:
    for lc in ('low', 'np', 'sp'):
      for k in c['a']['cls'][lc]:
        ncls[k] += 1
  if ncls['U'] == 0 or ncls['D'] == 0 or not any(c['a']['s'] == c['tsi'] + c['var'] for c in icases):
    raise common.MachineryError(f'Insolation: vacuous class tables {ncls}')
  # group by (ref, t) so that a worker's snapshot cache is effective
  icases.sort(key=lambda c: (c['ref'], c['a']['t']))
  nproc = 4
  res = common.parallel_map('c20', 'replay_ins', _blocked(icases, nproc), nproc=nproc, tag='ins',
                            outdir=os.path.join(ctx.out, 'par'))
  for m in res:
    ctx.mismatch('ins', m['case'], m['sig'], m['detail'])
  ctx.replayed += len(icases)
  ctx.comparisons += len(icases) * 2 * 2 * (4 * 3 * 12 + 14)
  for c in icases:
    ctx.distinct.add(('ins', tuple(c['ref']), c['a']['t']))
    ctx.distinct.add(('ins', tuple(c['ref']), c['b']['t']))
  c0 = [c for c in icases if c['a']['s'] == c['tsi'] + c['var'] and c['rel'] == 'year'][:1]
  for c in c0:
    ctx.sample({'insolation': {k: c[k] for k in ('ref', 'shift', 'rel', 'roll')},
                'a': {k: c['a'][k] for k in ('t', 'orb', 'syn', 's')}, 'a_low_classes': c['a']['cls']['low'],
                'b_low_classes': c['b']['cls']['low']})
  # ---- Held-Suarez
  rh = ctx.tlc('HeldSuarez', f'HeldSuarez_{tier}.cfg')
  ctx.require_actions(rh, ['Construct', 'Kv', 'Kt', 'Teq', 'ExplicitTerms'])
  hcases = rh.cases
  if not hcases:
    raise common.MachineryError('HeldSuarez: nothing exported')
  if not any(any(v[0] != 0 for v in c['tab']['kv']) for c in hcases) or \
     not any(any(v[0] == 0 for v in c['tab']['kv']) for c in hcases):
    raise common.MachineryError('HeldSuarez: vacuous friction tables')
  hcases.sort(key=lambda c: (c['b'], c['sb'], c['par']['id']))
  # every real label at every level for a few configurations with friction on all layers kinds
  nfull = 0
  for c in hcases:
    if nfull < (4 if q else 12) and sum(1 for v in c['tab']['kv'] if v[0] != 0) >= 1 and len(c['b']) - 1 >= 2 \
       and c['par']['id'] == 1 + nfull % 4:
      c['full'] = True
      nfull += 1
  if not q:
    extra = []
    for i, c in enumerate(hcases):
      if i % 4 == 0:
        d = dict(c)
        d['grid'] = 'B'
        d.pop('full', None)
        extra.append(d)
    hcases = hcases + extra
  res = common.parallel_map('c20', 'replay_hs', _interleave(hcases), nproc=4, tag='hs',
                            outdir=os.path.join(ctx.out, 'par'))
  for m in res:
    ctx.mismatch('hs', m['case'], m['sig'], m['detail'])
  ctx.replayed += len(hcases)
  ctx.comparisons += sum((len(c['b']) - 1) * 40 + (15 * 2 if c.get('full') else 2) * 4 + 12 for c in hcases)
  for c in hcases:
    ctx.distinct.add(('hs', tuple(c['b']), tuple(c['sb']), c['par']['id'], c.get('grid', 'A')))
  for c in [c for c in hcases if len(c['b']) == 4 and c['sb'] == [7, 10]][:1]:
    ctx.sample({'held_suarez': {'b': c['b'], 'den': c['den'], 'sigma_b': c['sb'], 'par': c['par']},
                'kv_per_day': c['tab']['kv'], 'kt_form_1_cos4': c['tab']['kt'], 'kt_modal_N0_N2_N4': c['tab']['ktmodal'],
                'dense_vor_tendency': c['out'][2]['tend']['vor']})
  ctx.notes['insolation_cases'] = len(icases)
  ctx.notes['insolation_class_counts'] = ncls
  ctx.notes['held_suarez_configurations'] = len(hcases)
  ctx.notes['held_suarez_full_basis_configurations'] = nfull
  ctx.assumptions += [
      'NOT decided: "global mean of the insolation equals one quarter of the instantaneous solar constant up to '
      'quadrature error" (no exact discrete content; not approximated by another technique)',
      'sun-up / sun-down classes are claimed only where they follow from rational data with margins: |lat| <= 60 deg '
      'within 22.5 deg of local mean noon / midnight (|declination| <= 23.45 deg, |equation of time| <= 18.9 min), '
      'and at the poles at least 1/24 of a year away from the equinoxes; accuracy of the declination / equation of '
      'time formulas is not asserted',
      'sin(altitude) <= 1 is assumed by the bound flux <= S <= TSI + V (it is also observed on every node)',
      'phase tolerance 16 ulp of the unreduced phase magnitude; flux relations use the flux budget implied by it',
      'drag law asserted on total wavenumbers 1 <= l <= L-2 (explicit_terms goes through the winds, which clips the '
      'top wavenumber; l = 0 carries no wind), tolerance 4e-13 * kf * max|state|; exact zeros above the boundary layer',
      'temperature relaxation: exact modal response to horizontally uniform warming (through reference_temperature '
      'and through T\') from the spec, and tendency = to_modal(-kt (T - Teq)) recomputed from the recorded kt(), '
      'equilibrium_temperature(); Teq itself is only asserted on p = p0 and against its floor',
      'nondimensional values of 1/day, W/m^2, Pa computed in the harness from Omega and the radius (DEFAULT_SCALE)',
  ]
  return ctx.finish(
      rule='insolation: one case per (reference datetime, model time, shift) on a quarter-hour lattice, each replayed '
           'on a pole-including equiangular grid and a Gauss grid through 4 evaluation routes; Held-Suarez: one case '
           'per (level set on k/Den, sigma_b, parameter set), each replayed with unit, dense and warmed states '
           '(all real labels at all levels for a few configurations)')


def _blocked(items, nproc):
  """parallel_map shards items[i::nproc]; reorder so that each shard is a contiguous block."""
  n = len(items)
  per = (n + nproc - 1) // nproc
  blocks = [items[i * per:(i + 1) * per] for i in range(nproc)]
  out = []
  for j in range(per):
    for b in blocks:
      if j < len(b):
        out.append(b[j])
  # shards of unequal length would misalign; only exact when all blocks have equal length,
  # which does not matter for correctness (only for cache locality)
  return out


def _interleave(items):
  return items
