"""C13: vertical (sigma) calculus.  Spec module: SigmaCalculus.

TLC enumerates every level set on the lattice k/Den (and inadmissible boundary sequences),
builds the exact operator table of every public operation, checks the property's identities
on the tables, and exports them.  The replay feeds the real functions with a basis (plus one
dense integer column) in three array layouts / both cumulative-sum methods and compares every
entry with the spec's rationals (log-sigma forms: atoms substituted with math.log).
"""
from __future__ import annotations

import json
import math
import os
from fractions import Fraction

from harness import common
from harness.common import frac

EPS = 2.220446049250313e-16


def _mat(t):
  """nested list of [n,d] -> nested list of floats."""
  if isinstance(t, list) and len(t) == 2 and all(isinstance(v, int) for v in t):
    return t[0] / t[1]
  return [_mat(v) for v in t]


def _one(c):
  import numpy as np
  import jax
  jax.config.update('jax_enable_x64', True)
  import jax.numpy as jnp
  from dinosaur import sigma_coordinates as sc
  from dinosaur import primitive_equations as pe
  out = []
  den = c['den']
  bounds = np.array([float('nan') if v < 0 else v for v in c['b']], dtype=np.float64) / den   # -1 = NaNTok

  def bad(sig, detail):
    out.append({'case': {k: c[k] for k in ('b', 'den', 'valid')}, 'sig': sig, 'detail': detail})

  if not c['valid']:
    try:
      sc.SigmaCoordinates(bounds)
      bad('validate:accepted', f'inadmissible boundaries {c["b"]}/{den} accepted')
    except ValueError:
      pass
    return out
  try:
    coords = sc.SigmaCoordinates(bounds)
  except ValueError as ex:
    bad('validate:rejected', f'admissible boundaries rejected: {ex}')
    return out
  K = len(c['b']) - 1
  tab = c['tab']
  dense = np.array([(-1) ** k * (k + 1) for k in range(K)], dtype=np.float64)
  X = np.concatenate([np.eye(K), dense[:, None]], axis=1)          # K x (K+1)
  N = K + 1
  layouts = [
      ('ax-3', lambda M: jnp.asarray(M[:, None, :]), -3, lambda Y: np.asarray(Y)[:, 0, :]),
      ('ax0', lambda M: jnp.asarray(M), 0, lambda Y: np.asarray(Y)),
      ('ax-1', lambda M: jnp.asarray(M.T[None]), -1, lambda Y: np.asarray(Y)[0].T),
  ]

  def cmp(name, got, exp, scale=None):
    got, exp = np.asarray(got, dtype=np.float64), np.asarray(exp, dtype=np.float64)
    if got.shape != exp.shape:
      bad(f'{name}:shape', f'shape {got.shape} != {exp.shape}')
      return
    tol = 16 * EPS * (np.abs(exp) + (scale if scale is not None else 0) + 1e-300)
    if not np.all(np.abs(got - exp) <= tol) or not np.all(np.isfinite(got)):
      i = np.unravel_index(np.argmax(np.abs(got - exp) - tol), got.shape)
      bad(f'{name}:value', f'entry {tuple(int(v) for v in i)}: code {got[i]!r} spec {exp[i]!r}')

  def table(name):
    T = np.array(_mat(tab[name]), dtype=np.float64)
    return T

  # ---- linear ops with exact tables
  for lname, emb, axis, unemb in layouts:
    for method in ('dot', 'jax'):
      for op, down in (('IntDown', True), ('IntUp', False)):
        T = table(op).reshape(K, K)
        got = unemb(sc.cumulative_sigma_integral(emb(X), coords, axis=axis, downward=down,
                                                 cumsum_method=method))
        cmp(f'{op}:{lname}:{method}', got, T @ X)
    Tt = table('Total').reshape(1, K)
    got = unemb(sc.sigma_integral(emb(X), coords, axis=axis, keepdims=True))
    cmp(f'Total:{lname}', got, Tt @ X)
    got = np.asarray(sc.sigma_integral(emb(X), coords, axis=axis, keepdims=False))
    cmp(f'Total:nokeep:{lname}', got.reshape(-1), (Tt @ X).reshape(-1))
    if K >= 2:
      T = table('Diff').reshape(K - 1, K)
      got = unemb(sc.centered_difference(emb(X), coords, axis=axis))
      cmp(f'Diff:{lname}', got, T @ X)
      A = table('Adv').reshape(K, K - 1, K)
      UP = np.array(_mat(tab['Upwind']), dtype=np.float64).reshape(2, K, K - 1, K)
      W = np.concatenate([np.eye(K - 1), np.array([[(-1) ** (i + 1) * (i + 2)] for i in range(K - 1)])], axis=1)
      for wi in range(W.shape[1]):
        wcol = W[:, wi]
        Wm = np.repeat(wcol[:, None], N, axis=1)              # (K-1) x N : same w in each column
        got = unemb(sc.centered_vertical_advection(emb(Wm), emb(X), coords, axis=axis))
        exp = np.einsum('kij,i,jn->kn', A, wcol, X)
        cmp(f'Adv:{lname}:w{wi}', got, exp)
        got = unemb(sc.upwind_vertical_advection(emb(Wm), emb(X), coords, axis=axis))
        exp = (np.einsum('kij,i,jn->kn', UP[0], np.maximum(wcol, 0), X)
               + np.einsum('kij,i,jn->kn', UP[1], np.maximum(-wcol, 0), X))
        cmp(f'Upwind:{lname}:w{wi}', got, exp)
  # ---- log-sigma forms: substitute the atoms
  centers = [Fraction(c['b'][k] + c['b'][k + 1], 2 * den) for k in range(K)]
  logc = [math.log(v.numerator / v.denominator) for v in centers]
  dlog = np.array([logc[k + 1] - logc[k] for k in range(K - 1)] + [-logc[K - 1]])
  for op, down in (('LogUp', False), ('LogDown', True)):
    T = np.array(_mat(tab[op]), dtype=np.float64).reshape(K, K, K)
    M = np.einsum('rsa,a->rs', T, dlog)
    S = np.einsum('rsa,a->rs', np.abs(T), np.abs(dlog))
    for lname, emb, axis, unemb in layouts:
      for method in ('dot', 'jax'):
        got = unemb(sc.cumulative_log_sigma_integral(emb(X), coords, axis=axis, downward=down,
                                                     cumsum_method=method))
        cmp(f'{op}:{lname}:{method}', got, M @ X, scale=S @ np.abs(X))
  # the gas constant varies between calls on the same level set (the operator is R times the trapezoid rule
  # for every R, also after it has been evaluated with another one)
  for R in (3.0, 0.75):
   for op, method in (('GeoDense', 'dense'), ('GeoSparse', 'sparse')):
    T = np.array(_mat(tab[op]), dtype=np.float64).reshape(K, K, K)
    M = R * np.einsum('rsa,a->rs', T, dlog)
    S = R * np.einsum('rsa,a->rs', np.abs(T), np.abs(dlog))
    got = np.asarray(pe.get_geopotential_diff(jnp.asarray(X[:, None, :]), coords, R, method=method))[:, 0, :]
    cmp(f'{op}', got, M @ X, scale=S @ np.abs(X))
    # a field with more than one (m, l) entry
    X2 = np.stack([X, 2 * X], axis=1)                          # K x 2 x N
    got = np.asarray(pe.get_geopotential_diff(jnp.asarray(X2), coords, R, method=method))
    cmp(f'{op}:2d', got[:, 1, :], 2 * (M @ X), scale=2 * S @ np.abs(X))
   Gd = np.einsum('rsa,a->rs', np.array(_mat(tab['GeoDense'])).reshape(K, K, K), dlog)
   cmp('GeoWeights', pe.get_geopotential_weights(coords, R), R * Gd, scale=R * np.abs(Gd).sum())
   # the full geopotential: surface geopotential + R * trapezoid rule of the full (virtual) temperature
   grav, tref = 1.7, np.linspace(2.0, 3.0, K)
   oro = 0.5 * X[:1]                                                  # 1 x N, the [0, 0] entry is the mean
   if hasattr(pe, 'get_geopotential'):
     Tfull = X.copy()
     Tfull[:, 0] += math.sqrt(4 * math.pi) * tref                      # reference temperature enters the (0, 0) coefficient
     got = np.asarray(pe.get_geopotential(jnp.asarray(X[:, None, :]), tref, jnp.asarray(oro), coords, grav, R))[:, 0, :]
     # the library spells sqrt(4 pi) with eight digits (3.5449077, relative error 5.1e-10): that much of the reference part is
     # not owed (float32-grade constant, see DESIGN section 13); everything else is at rounding level
     ref_part = np.zeros_like(X); ref_part[:, 0] = math.sqrt(4 * math.pi) * tref
     cmp('Geopotential', got, grav * oro + (R * Gd) @ Tfull,
         scale=grav * np.abs(oro) + (R * np.abs(Gd)) @ np.abs(Tfull) + (1e-9 / (16 * EPS)) * (R * np.abs(Gd)) @ ref_part)
   if hasattr(pe, 'get_geopotential_with_moisture'):
     q = 0.01 * (1.0 + np.cos(X))
     Rv = 1.6 * R
     Tv = X * (1 + (Rv / R - 1) * q)
     got = np.asarray(pe.get_geopotential_with_moisture(jnp.asarray(X[:, None, :]), jnp.asarray(q[:, None, :]), jnp.asarray(oro), coords,
                                                        grav, R, Rv))[:, 0, :]
     cmp('GeopotentialMoist', got, grav * oro + (R * Gd) @ Tv, scale=grav * np.abs(oro) + (R * np.abs(Gd)) @ np.abs(Tv))
  alpha = np.array([dlog[k] / 2 for k in range(K - 1)] + [dlog[K - 1]])
  cmp('SigmaRatios', pe.get_sigma_ratios(coords), alpha, scale=np.abs(alpha))
  # attributes of the level set
  cmp('centers', coords.centers, [float(v) for v in centers])
  cmp('thickness', coords.layer_thickness, [(c['b'][k + 1] - c['b'][k]) / den for k in range(K)])
  if hasattr(coords, 'center_to_center') and K >= 2:
    cmp('center_to_center', coords.center_to_center, [float(centers[k + 1] - centers[k]) for k in range(K - 1)], scale=1.0)
  if hasattr(coords, 'internal_boundaries') and K >= 2:
    cmp('internal_boundaries', coords.internal_boundaries, [c['b'][k] / den for k in range(1, K)])
  if coords.layers != K:
    bad('layers', f'{coords.layers} != {K}')
  return out


replay_levelsets = common.per_case(_one, 'sigma')


def replay(ctx, kind, cases):
  for m in replay_levelsets(cases):
    ctx.mismatch(kind, m['case'], m['sig'], m['detail'])


def run(ctx):
  q = ctx.quick
  r = ctx.tlc('SigmaCalculus', 'SigmaCalculus_quick.cfg' if q else 'SigmaCalculus_thorough.cfg')
  ctx.require_actions(r, ['Accept', 'Reject', 'Apply'])
  cases = r.cases
  if not cases:
    raise common.MachineryError('no level sets exported')
  res = common.parallel_map('c13', 'replay_levelsets', cases, nproc=4 if q else 8, tag='ls',
                            outdir=os.path.join(ctx.out, 'par'))
  ctx.replayed += len(cases)
  nvalid = sum(1 for c in cases if c['valid'])
  ctx.comparisons += nvalid * 60 + (len(cases) - nvalid)
  for c in cases:
    ctx.distinct.add(tuple(c['b']))
  for m in res:
    ctx.mismatch('levelset', m['case'], m['sig'], m['detail'])
  v = [c for c in cases if c['valid'] and len(c['b']) == 4][:1]
  iv = [c for c in cases if not c['valid']][:2]
  for c in v:
    ctx.sample({'b': c['b'], 'den': c['den'], 'IntDown': c['tab']['IntDown'], 'Diff': c['tab']['Diff'],
                'GeoDense_atom_coefficients': c['tab']['GeoDense']})
  for c in iv:
    ctx.sample({'b': c['b'], 'den': c['den'], 'valid': False})
  ctx.notes['level_sets'] = nvalid
  ctx.notes['inadmissible_boundary_sequences'] = len(cases) - nvalid
  ctx.assumptions += ['all operations are linear/bilinear in their data, so a basis (plus one dense '
                      'integer column) is a complete input set per level set',
                      'rounding budget 16 ulp per entry (log forms: relative to sum |coef*atom|)']
  return ctx.finish(
      rule='one case per boundary sequence on the lattice k/Den: all strictly increasing level sets with '
           '<= MaxLayers layers (valid) and all 2-3 point sequences on a coarse lattice (mostly inadmissible); '
           'each valid case replays 10 operator tables x 3 layouts x 2 cumsum methods')
