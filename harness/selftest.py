"""./check <id> --selftest: binding demonstration.

Runs the registered check of one property against scratch copies of the repository that carry
(a) every confirmed seeded change of that property (seeded/<id>_*/patch.diff) and (b) the
one-line substitutions listed for it in tools/mutations.json, and requires a VIOLATION for each.
The scratch copies live under $TMPDIR (/tmp) and are removed afterwards; /repo and evidence/ are
never touched (VERIF_REPO / VERIF_OUT / VERIF_EVID point into the copy).

exit 0: every mutation was caught; exit 1: at least one was missed (printed); exit 2: machinery.
"""
import glob
import json
import os
import shutil
import subprocess
import sys
import tempfile

from harness import common


def _run_against(prop, tier, prepare):
  d = tempfile.mkdtemp(prefix='selft_', dir='/tmp')
  try:
    subprocess.check_call(['rsync', '-a', '--exclude', '.git', '--exclude', '__pycache__',
                           common.REPO.rstrip('/') + '/', d + '/'])
    err = prepare(d)
    if err:
      return 'ERROR', err
    env = dict(os.environ, VERIF_REPO=d, VERIF_OUT=os.path.join(d, '_out'), VERIF_EVID=os.path.join(d, '_evid'))
    p = subprocess.run([os.path.join(common.VERIF, 'check'), prop, '--tier', tier], env=env,
                       capture_output=True, text=True)
    lines = (p.stdout + p.stderr).splitlines()
    viol = [l for l in lines if l.startswith('VIOLATION')]
    first = next((l.strip() for l in lines if l.startswith('  ')), '')
    if p.returncode == 1 and viol:
      return 'CAUGHT', first[:200]
    if p.returncode == 0:
      return 'MISSED', ''
    return 'ERROR', '\n'.join(lines[-8:])
  finally:
    shutil.rmtree(d, ignore_errors=True)


def run(prop, tier):
  results = []
  for sd in sorted(glob.glob(os.path.join(common.VERIF, 'seeded', prop + '_*'))):
    patch = os.path.join(sd, 'patch.diff')

    def prep(d, patch=patch):
      p = subprocess.run(['patch', '-p1', '-s', '-d', d, '-i', patch], capture_output=True, text=True)
      return None if p.returncode == 0 else 'patch does not apply: ' + p.stdout[-300:]
    results.append((os.path.basename(sd),) + _run_against(prop, tier, prep))
    print(f'selftest {prop}: {results[-1][0]}: {results[-1][1]} {results[-1][2]}', flush=True)
  mpath = os.path.join(common.VERIF, 'tools', 'mutations.json')
  muts = json.load(open(mpath)).get(prop, []) if os.path.exists(mpath) else []
  for i, m in enumerate(muts):
    def prep(d, m=m):
      path = os.path.join(d, m['file'])
      s = open(path).read()
      if s.count(m['old']) < 1:
        return f'pattern not found in {m["file"]}: {m["old"]!r}'
      open(path, 'w').write(s.replace(m['old'], m['new'], 1))
      return None
    results.append((f'mutation[{i}] {m.get("what", m["old"])[:60]}',) + _run_against(prop, tier, prep))
    print(f'selftest {prop}: {results[-1][0]}: {results[-1][1]} {results[-1][2]}', flush=True)
  missed = [r for r in results if r[1] == 'MISSED']
  errors = [r for r in results if r[1] == 'ERROR']
  print(f'selftest {prop}: {len(results)} mutations, {len(results) - len(missed) - len(errors)} caught, '
        f'{len(missed)} missed, {len(errors)} errors')
  if errors:
    return 2
  return 1 if missed else 0
