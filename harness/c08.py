"""C08: forward- and reverse-mode derivatives are finite, mutually adjoint and correct.
Spec: Kinks (admissible derivative intervals and exact data weights of every piecewise-linear
primitive: interpolation in three extrapolation modes and two code paths, upwind flux, cut-offs),
Dataflow (polynomial degree of every node: dry explicit tendencies are polynomials of degree <= 3,
shallow water <= 2, implicit halves linear, moist non-polynomial), CombNested (integer Jacobians of
nested scans, via C14's machine), SpectralAlgebra / SigmaCalculus / ImplicitSolve tables through
the linear operators they pin down (C02, C13, C03).

Replay:
 * kinks: jax.grad / jvp of the real interp, _dot_interp, linear_interp_with_linear_extrap,
   _linear_interp_with_safe_extrap, upwind_vertical_advection and the Held-Suarez equilibrium
   temperature at, between and outside the kinks must lie in the spec's interval and be finite;
   the derivative with respect to the data must equal the spec's weights.
 * linear: for every linear public operator jacfwd and jacrev must both equal the matrix of the
   operator itself (columns = primal evaluations on a basis; the primal is tied to the spec tables
   by C02/C13/C03): jvp is the operator, vjp its transpose.
 * polynomial: where Dataflow derives degree d <= 4 the 5-point central stencil reproduces the
   directional derivative *exactly*; jvp must equal it to rounding (dry tendencies, shallow-water
   tendencies, one forward-backward Euler step), at generic, resting and zero states.
 * relations: <J v, w> = <v, J^T w>, finiteness, and equality of gradients through
   trajectory_from_step / repeated / nested_checkpoint_scan for the nestings CombNested
   enumerates, with and without jax.checkpoint, for every equation class, integrator and filter
   stack, Held-Suarez forcing and vertical interpolation of fields.
"""
from __future__ import annotations

import functools
import json
import math
import os

from harness import common, dataflow, spectral
from harness.common import frac, fl

EPS = spectral.EPS


# ----------------------------------------------------------------------------------------------
# kinks
# ----------------------------------------------------------------------------------------------

def _kinks_many(cases):
  np, jax, jnp = spectral.np_jax()
  from dinosaur import vertical_interpolation as vi, sigma_coordinates as sc
  out = []
  n_cmp = 0

  def bad(c, sig, detail):
    out.append({'case': c, 'sig': sig, 'detail': f'{c["cfg"]}: {detail}'})

  fns = {
      'const': [('interp', lambda x, xp, fp: jnp.interp(x, xp, fp)), ('lib_interp', vi.interp.__wrapped__ if hasattr(vi.interp, '__wrapped__') else vi.interp),
                ('_dot_interp', getattr(vi, '_dot_interp', None))],
      'linear': [('linear_interp_with_linear_extrap', vi.linear_interp_with_linear_extrap)],
      'safe1': [('_linear_interp_with_safe_extrap',
                 functools.partial(vi._linear_interp_with_safe_extrap, n=1) if hasattr(vi, '_linear_interp_with_safe_extrap') else None)],
  }
  fns = {k: [(n_, f_) for n_, f_ in v if f_ is not None] for k, v in fns.items()}   # private helpers: when present
  groups = {}
  for c in cases:
    k = c['cfg']['kind']
    if k == 'interp':
      groups.setdefault((len(c['cfg']['xp']), c['cfg']['mode']), []).append(c)
    else:
      groups.setdefault((k,), []).append(c)
  for key, cs in groups.items():
    if len(key) == 2:
      n, mode = key
      X = jnp.asarray([c['cfg']['q2'] / 2.0 for c in cs])
      XP = jnp.asarray([[float(v) for v in c['cfg']['xp']] for c in cs])
      FP = jnp.asarray([[float(v) for v in c['cfg']['fp']] for c in cs])
      for nm, f in fns[mode]:
        val = np.asarray(jax.vmap(f)(X, XP, FP))
        dx = np.asarray(jax.vmap(jax.grad(f, argnums=0))(X, XP, FP))
        dfp = np.asarray(jax.vmap(jax.grad(f, argnums=2))(X, XP, FP))
        dxp = np.asarray(jax.vmap(jax.grad(f, argnums=1))(X, XP, FP))
        _, jv = jax.vmap(lambda x, xp, fp: jax.jvp(lambda t: f(t, xp, fp), (x,), (jnp.ones_like(x),)))(X, XP, FP)
        jv = np.asarray(jv)
        for i, c in enumerate(cs):
          r = c['res']
          n_cmp += 3
          if r['missing']:
            if not math.isnan(val[i]):
              bad(c, f'kink:{nm}:missing', f'value {val[i]!r}, spec: missing')
            continue
          lo, hi, v = fl(r['lo']), fl(r['hi']), fl(r['value'])
          if not abs(val[i] - v) <= 16 * EPS * (1 + abs(v)):
            bad(c, f'kink:{nm}:value', f'value {val[i]!r}, spec {v!r}')
            continue
          for what, d in (('grad', dx[i]), ('jvp', jv[i])):
            if not np.isfinite(d):
              bad(c, f'kink:{nm}:{what}:not_finite', f'd/dx = {d!r} at x = {c["cfg"]["q2"] / 2}')
            elif not (lo - 1e-12 * (1 + abs(lo)) <= d <= hi + 1e-12 * (1 + abs(hi))):
              bad(c, f'kink:{nm}:{what}:outside_interval', f'd/dx = {d!r} at x = {c["cfg"]["q2"] / 2}, admissible [{lo}, {hi}]')
          if r['dxp']:
            n_cmp += 1
            dn = np.array([fl(q) for q in r['dxp']])
            if not np.all(np.isfinite(dxp[i])) or not np.all(np.abs(dxp[i] - dn) <= 1e-12 * (1 + np.abs(dn))):
              bad(c, f'kink:{nm}:node_derivative', f'd/dxp = {dxp[i].tolist()}, spec {dn.tolist()} (query {c["cfg"]["q2"] / 2})')
          w = np.array([fl(q) for q in r['w']])
          if not np.all(np.isfinite(dfp[i])) or not np.all(np.abs(dfp[i] - w) <= 16 * EPS * (1 + np.abs(w))):
            bad(c, f'kink:{nm}:data_weights', f'd/dfp = {dfp[i].tolist()}, spec weights {w.tolist()}')
    elif key == ('upwind',):
      coords = sc.SigmaCoordinates.equidistant(3)
      for c in cs:
        w, a, b = c['cfg']['w'], c['cfg']['a'], c['cfg']['b']
        x = jnp.asarray([0.0, a / 3.0, (a + b) / 3.0]).reshape(3, 1, 1)
        wv = jnp.full((2, 1, 1), float(w))
        f = lambda ww: sc.upwind_vertical_advection(ww, x, coords)[1, 0, 0]
        val, jv = jax.jvp(f, (wv,), (jnp.ones_like(wv),))
        g = np.asarray(jax.grad(f)(wv)).sum()
        r = c['res']
        lo, hi = fl(r['lo']), fl(r['hi'])
        n_cmp += 3
        if not abs(float(val) - fl(r['value'])) <= 1e-13 * (1 + abs(fl(r['value']))):
          bad(c, 'kink:upwind:value', f'value {float(val)!r}, spec {fl(r["value"])!r}')
        for what, d in (('jvp', float(jv)), ('grad', float(g))):
          if not np.isfinite(d) or not (lo - 1e-12 * (1 + abs(lo)) <= d <= hi + 1e-12 * (1 + abs(hi))):
            bad(c, f'kink:upwind:{what}', f'd/dw = {d!r} at w = {w}, admissible [{lo}, {hi}] (one-sided data {a}, {b})')
        # derivative with respect to the advected data is unique: -max(w,0) resp. -min(w,0) per unit difference
        gx = np.asarray(jax.grad(lambda xx: sc.upwind_vertical_advection(wv, xx, coords)[1, 0, 0])(x)).ravel()
        da, db = fl(r['da']), fl(r['db'])
        want = np.array([-3 * da, 3 * da - 3 * db, 3 * db])
        if not np.all(np.abs(gx - want) <= 1e-13 * (1 + np.abs(want))):
          bad(c, 'kink:upwind:data', f'd/dx = {gx.tolist()}, spec {want.tolist()}')
    else:   # cut-off: Held-Suarez equilibrium temperature max(minT, T*)
      from dinosaur import coordinate_systems, held_suarez, primitive_equations as pe, scales
      un = scales.units
      grid = dataflow.make_grid(dict(M=2))
      coords = coordinate_systems.CoordinateSystem(grid, sc.SigmaCoordinates.equidistant(1))
      specs = pe.PrimitiveEquationsSpecs.from_si()
      for c in cs:
        t = c['cfg']['t']
        hs = held_suarez.HeldSuarezForcing(coords, specs, np.array([250.0]), minT=(300.0 - 10.0 * t) * un.degK,
                                            maxT=300.0 * un.degK, dTy=0 * un.degK, dThz=0 * un.degK)
        ps = jnp.full((1,) + grid.nodal_shape, hs.p0 / 0.5)        # sigma * ps / p0 = 1  ->  T* = maxT
        f = lambda p: hs.equilibrium_temperature(p).sum()
        g = np.asarray(jax.grad(f)(ps))
        slope = specs.kappa * hs.maxT / float(ps.ravel()[0])
        lo, hi = fl(c['res']['lo']) * slope, fl(c['res']['hi']) * slope
        n_cmp += 1
        if not np.all(np.isfinite(g)) or not np.all((g >= lo - 1e-12 * slope) & (g <= hi + 1e-12 * slope)):
          bad(c, 'kink:equilibrium_temperature', f'd Teq / d ps in [{g.min()!r}, {g.max()!r}], admissible [{lo}, {hi}] (t = {t})')
  out.append({'case': None, 'sig': '__stat__', 'detail': '', 'n': n_cmp})
  return out


def replay_kinks(cases):
  try:
    return _kinks_many(cases)
  except common.MachineryError:
    raise
  except Exception as ex:   # pylint: disable=broad-except
    import traceback
    return [{'case': cases[0], 'sig': f'kink:exception:{type(ex).__name__}', 'detail': traceback.format_exc()[-800:]}]


# ----------------------------------------------------------------------------------------------
# linear operators: jacfwd = jacrev = the operator
# ----------------------------------------------------------------------------------------------

def _linear_one(c):
  np, jax, jnp = spectral.np_jax()
  from dinosaur import (coordinate_systems, filtering, primitive_equations as pe, sigma_coordinates as sc,
                        shallow_water as sw, layer_coordinates, scales)
  out = []
  grid = dataflow.make_grid(c['grid'])
  K = 2
  vertical = sc.SigmaCoordinates(np.array([0, 0.3, 1.0]))
  coords = coordinate_systems.CoordinateSystem(grid, vertical)

  def bad(sig, detail):
    out.append({'case': c, 'sig': sig, 'detail': f'{c["grid"]}: {detail}'})

  def check(name, f, shape, scale_hint=1.0):
    n = int(np.prod(shape))
    x0 = jnp.asarray(np.random.RandomState(3).randn(*shape))
    flat = lambda v: f(v.reshape(shape)).ravel()
    A = np.stack([np.asarray(flat(jnp.asarray(np.eye(n)[i]))) for i in range(n)], axis=1)
    Jf = np.asarray(jax.jacfwd(flat)(x0.ravel()))
    Jr = np.asarray(jax.jacrev(flat)(x0.ravel()))
    sc_ = max(np.abs(A).max(), 1e-300)
    for what, J in (('forward', Jf), ('reverse', Jr)):
      if J.shape != A.shape or not np.all(np.isfinite(J)):
        bad(f'linear:{name}:{what}:not_finite', 'Jacobian not finite')
      elif np.abs(J - A).max() > 1e-12 * sc_:
        i = np.unravel_index(np.argmax(np.abs(J - A)), A.shape)
        bad(f'linear:{name}:{what}', f'{what}-mode Jacobian entry {tuple(int(v) for v in i)} = {J[i]!r}, the operator has {A[i]!r}')
    return A
  ms, ns = tuple(grid.modal_shape), tuple(grid.nodal_shape)
  check('to_nodal', grid.to_nodal, ms)
  check('to_modal', grid.to_modal, ns)
  for nm in ('laplacian', 'inverse_laplacian', 'clip_wavenumbers'):
    check(nm, getattr(grid, nm), ms)
  check('d_dlon', lambda x: grid.d_dlon(x) if hasattr(grid, 'd_dlon') else x, ms)
  check('cos_lat_d_dlat', grid.cos_lat_d_dlat, ms)
  check('sec_lat_d_dlat_cos2', grid.sec_lat_d_dlat_cos2, ms)
  check('cos_lat_grad.0', lambda x: grid.cos_lat_grad(x)[0], ms)
  check('cos_lat_grad.1', lambda x: grid.cos_lat_grad(x, clip=False)[1], ms)
  check('div_cos_lat', lambda x: grid.div_cos_lat((x, 2 * x)), ms)
  check('curl_cos_lat', lambda x: grid.curl_cos_lat((x, -x), clip=False), ms)
  check('exponential_filter', filtering.exponential_filter(grid, 4.0, 2, 0.3), ms)
  check('horizontal_diffusion_filter', filtering.horizontal_diffusion_filter(grid, 0.01, 2), ms)
  ks = (K,) + ns
  check('cumulative_sigma_integral', lambda x: sc.cumulative_sigma_integral(x, vertical), ks)
  check('sigma_integral', lambda x: sc.sigma_integral(x, vertical), ks)
  check('centered_difference', lambda x: sc.centered_difference(x, vertical), ks)
  w0 = jnp.asarray(np.random.RandomState(4).randn(K - 1, *ns))
  x1 = jnp.asarray(np.random.RandomState(5).randn(*ks))
  check('centered_vertical_advection.x', lambda x: sc.centered_vertical_advection(w0, x, vertical), ks)
  check('centered_vertical_advection.w', lambda w: sc.centered_vertical_advection(w, x1, vertical), (K - 1,) + ns)
  # implicit operators of the primitive equations on the stacked (div, T, lnps) vector
  specs = pe.PrimitiveEquationsSpecs.from_si()
  for method in ('dense', 'sparse'):
    eq = pe.PrimitiveEquations(np.array([250.0, 280.0]), jnp.zeros(ms), coords, specs, vertical_matmul_method=method)
    nfield = K * ms[0] * ms[1]

    def pack(s):
      return jnp.concatenate([s.divergence.ravel(), s.temperature_variation.ravel(), s.log_surface_pressure.ravel()])

    def unpack(v):
      d = v[:nfield].reshape((K,) + ms)
      t = v[nfield:2 * nfield].reshape((K,) + ms)
      l = v[2 * nfield:].reshape((1,) + ms)
      return pe.State(jnp.zeros((K,) + ms), d, t, l, {})
    check(f'implicit_terms:{method}', lambda v: pack(eq.implicit_terms(unpack(v))), (2 * nfield + ms[0] * ms[1],))
    for solve in ('split', 'stacked', 'blockwise'):
      check(f'implicit_inverse:{solve}:{method}', lambda v: pack(eq.implicit_inverse(unpack(v), 0.02, method=solve)),
            (2 * nfield + ms[0] * ms[1],))
  return out


replay_linear = common.per_case(_linear_one, 'linear')


# ----------------------------------------------------------------------------------------------
# polynomial and general entry points
# ----------------------------------------------------------------------------------------------

def _tree(np, jax):
  flat = lambda t: np.concatenate([np.asarray(l, np.float64).ravel() for l in jax.tree_util.tree_leaves(t)])
  return flat


def _entry_one(c):
  np, jax, jnp = spectral.np_jax()
  from dinosaur import (coordinate_systems, held_suarez, layer_coordinates, primitive_equations as pe, scales,
                        shallow_water as sw, time_integration as ti, vertical_interpolation as vi,
                        sigma_coordinates as sc)
  out = []
  cls, kind = c['class'], c['state']
  key = {k: c[k] for k in ('class', 'state', 'grid', 'seed')}

  def bad(sig, detail):
    out.append({'case': {k: v for k, v in c.items() if k != 'nodes'}, 'sig': sig, 'detail': f'{key}: {detail}'})

  grid = dataflow.make_grid(c['grid'])
  K = 3
  mask = np.asarray(grid.mask, np.float64)
  L = grid.total_wavenumbers
  rs = np.random.RandomState(c['seed'])
  deg = {n['n']: n['deg'] for n in c['nodes']}

  def perturb(k_, amp, zero_mean=False):
    a = rs.randn(k_, *grid.modal_shape) * mask * amp
    a[..., L - 1:] = 0
    if zero_mean:
      a[:, 0, 0] = 0
    return jnp.asarray(a)

  if cls == 'sw':
    coords = coordinate_systems.CoordinateSystem(grid, layer_coordinates.LayerCoordinates(2))
    specs = sw.ShallowWaterSpecs.from_si(np.array([1.0, 1.4]) * scales.units.kg / scales.units.m ** 3)
    f0 = dataflow.random_fields(grid, 2, c['seed'])
    eq = sw.ShallowWaterEquations(coords, specs, jnp.asarray(f0['orography'] * 10), np.array([1.0, 0.6]))
    amp = 0.0 if kind in ('rest', 'zero') else 1.0
    st = sw.State(jnp.asarray(f0['vorticity'] * amp), jnp.asarray(f0['divergence'] * amp),
                  jnp.asarray(f0['temperature_variation'] * (0.0 if kind == 'zero' else 2e-2)))
    mk = lambda: sw.State(perturb(2, 1e-2, True), perturb(2, 1e-2, True), perturb(2, 1e-2))
    dt = 2e-3
    forcing = None
  else:
    tn = dataflow.tracer_names(cls, 0)
    f0 = dataflow.random_fields(grid, K, c['seed'], tracers=tn)
    if kind in ('rest', 'zero'):
      f0['vorticity'] = f0['vorticity'] * 0
      f0['divergence'] = f0['divergence'] * 0
    if kind == 'zero':
      for kx in ('temperature_variation', 'log_surface_pressure'):
        f0[kx] = f0[kx] * 0
    tref = np.array([220.0, 255.0, 288.0])
    pcls = {'dry': 'dry', 'held_suarez': 'dry', 'moist': 'moist', 'upwind': 'dry'}[cls]
    eq, st = dataflow.build_pe(pcls, grid, [0, 0.2, 0.55, 1.0], tref, f0)
    if cls == 'upwind':
      eq.vertical_advection = sc.upwind_vertical_advection
    forcing = held_suarez.HeldSuarezForcing(eq.coords, eq.physics_specs, tref) if cls == 'held_suarez' else None

    def mk():
      tr = {k_: perturb(K, 1e-3) for k_ in tn}
      args = (perturb(K, 1e-2, True), perturb(K, 1e-2, True), perturb(K, 0.5), perturb(1, 1e-2))
      return pe.State(*args, tr) if pcls == 'dry' else pe.StateWithTime(*args, sim_time=0.0, tracers=tr)
    dt = 1e-3
  flat = _tree(np, jax)
  ode = eq if forcing is None else ti.compose_equations([eq, forcing])
  entries = [('explicit_terms', ode.explicit_terms, 'explicit'),
             ('explicit+implicit', lambda s: jax.tree_util.tree_map(lambda a, b: a + b, ode.explicit_terms(s), ode.implicit_terms(s)), 'explicit'),
             ('backward_forward_euler_step', ti.backward_forward_euler(ode, dt), 'explicit')]
  if forcing is not None:
    entries.append(('held_suarez.explicit_terms', forcing.explicit_terms, None))
  stacks = [('imex_rk_sil3', ['exp']), ('crank_nicolson_rk2', ['diff']), ('crank_nicolson_rk3', []), ('crank_nicolson_rk4', ['exp', 'diff'])]
  for name, filt in [stacks[c['seed'] % 4]] if not c.get('all_stacks') else stacks:
    fs = [ti.exponential_step_filter(grid, dt, tau=0.01, order=2) if f_ == 'exp'
          else ti.horizontal_diffusion_step_filter(grid, dt, tau=0.05, order=1) for f_ in filt]
    entries.append((f'step:{name}:{"+".join(filt) or "none"}', ti.step_with_filters(getattr(ti, name)(ode, dt), fs), None))
  n_cmp = 0
  for name, f, degkey in entries:
    fj = jax.jit(f)
    v, w = mk(), mk()
    try:
      y, jv = jax.jvp(fj, (st,), (v,))
      _, vjp = jax.vjp(fj, st)
      (wt,) = vjp(jax.tree_util.tree_map(lambda a, b: jnp.asarray(b, dtype=jnp.asarray(a).dtype).reshape(jnp.shape(a)), y, _like(jax, jnp, y, w)))
    except Exception as ex:   # pylint: disable=broad-except
      bad(f'derivative:{cls}:{name}:exception:{type(ex).__name__}', str(ex)[:300])
      continue
    wl = _like(jax, jnp, y, w)
    jvf, wtf = flat(jv), flat(wt)
    n_cmp += 2
    if not np.all(np.isfinite(jvf)):
      bad(f'finite:{cls}:{name}:forward', f'forward-mode derivative has {int((~np.isfinite(jvf)).sum())} non-finite entries at the {kind} state')
      continue
    if not np.all(np.isfinite(wtf)):
      bad(f'finite:{cls}:{name}:reverse', f'reverse-mode derivative has {int((~np.isfinite(wtf)).sum())} non-finite entries at the {kind} state')
      continue
    lhs, rhs = float(np.dot(jvf, flat(wl))), float(np.dot(flat(v), wtf))
    scale = float(np.linalg.norm(jvf) * np.linalg.norm(flat(wl))) + 1e-300
    if abs(lhs - rhs) > 1e-10 * scale:
      bad(f'adjoint:{cls}:{name}', f'<J v, w> = {lhs!r} but <v, J^T w> = {rhs!r} (scale {scale:.3e}) at the {kind} state')
    # exact central stencil where the spec derives a polynomial of degree <= 4
    d = None
    if degkey is not None and cls in ('dry', 'sw'):      # (upwind advection is only piecewise polynomial)
      d = max(dg for nm, dg in deg.items() if nm.startswith(degkey + '.'))
    if d is not None and d <= 4:
      add = lambda s, t, h: jax.tree_util.tree_map(lambda a, b: a + h * b, s, t)
      h = 1.0
      fp1, fm1, fp2, fm2 = (flat(fj(add(st, v, q))) for q in (h, -h, 2 * h, -2 * h))
      fd = (8 * (fp1 - fm1) - (fp2 - fm2)) / (12 * h)
      sc_ = max(np.abs(fp2).max(), np.abs(fm2).max(), np.abs(jvf).max(), 1e-300)
      err = np.abs(fd - jvf).max() / sc_
      n_cmp += 1
      if not err <= 1e-9:
        bad(f'stencil:{cls}:{name}', f'the tendency is a polynomial of degree {d}, yet the exact 5-point stencil differs from the '
            f'forward-mode derivative by {err:.3e} (relative) at the {kind} state')
  out.append({'case': None, 'sig': '__stat__', 'detail': '', 'n': n_cmp})
  return out


def _like(jax, jnp, y, w):
  """a cotangent with the structure of y built from the random state w (leaves matched by order / shape)."""
  import numpy as np
  wl = [np.asarray(l) for l in jax.tree_util.tree_leaves(w)]
  yl, td = jax.tree_util.tree_flatten(y)
  outl = []
  for i, a in enumerate(yl):
    a = np.asarray(a)
    cand = [b for b in wl if b.shape == a.shape]
    outl.append(jnp.asarray(cand[i % len(cand)] if cand else np.full(a.shape, 0.37)))
  return jax.tree_util.tree_unflatten(td, outl)


replay_entry = common.per_case(_entry_one, 'entry')


# ----------------------------------------------------------------------------------------------
# gradients through the scan combinators with the real model
# ----------------------------------------------------------------------------------------------

def _scan_one(c):
  np, jax, jnp = spectral.np_jax()
  from dinosaur import (coordinate_systems, layer_coordinates, scales, shallow_water as sw, time_integration as ti)
  out = []
  lens = c['lens']
  n = int(np.prod(lens))

  def bad(sig, detail):
    out.append({'case': {'lens': lens}, 'sig': sig, 'detail': f'nested_lengths={lens}: {detail}'})
  grid = dataflow.make_grid(dict(M=3))
  coords = coordinate_systems.CoordinateSystem(grid, layer_coordinates.LayerCoordinates(1))
  specs = sw.ShallowWaterSpecs.from_si()
  f0 = dataflow.random_fields(grid, 1, 11)
  eq = sw.ShallowWaterEquations(coords, specs, None, np.array([1.0]))
  st = sw.State(jnp.asarray(f0['vorticity']), jnp.asarray(f0['divergence']), jnp.asarray(f0['temperature_variation'] * 2e-2))
  step = ti.step_with_filters(ti.imex_rk_sil3(eq, 2e-3), [ti.exponential_step_filter(grid, 2e-3, tau=0.01, order=2)])
  loss_of = lambda s: sum(jnp.sum(l ** 2) for l in jax.tree_util.tree_leaves(s))

  def plain(s):
    for _ in range(n):
      s = step(s)
    return loss_of(s)

  def nested(s, checkpoint):
    kw = {} if checkpoint else {'checkpoint_fn': lambda f: f}
    final, _ = ti.nested_checkpoint_scan(lambda carry, _: (step(carry), None), s, None, n, nested_lengths=lens, **kw)
    return loss_of(final)

  def trajectory(s):
    outer = lens[0]
    inner = n // outer
    final, traj = ti.trajectory_from_step(step, outer, inner)(s)
    return loss_of(final)

  def repeated(s):
    return loss_of(ti.repeated(step, n)(s))
  flat = _tree(np, jax)
  g0 = flat(jax.grad(plain)(st))
  sc_ = np.abs(g0).max()
  if not np.all(np.isfinite(g0)):
    bad('scan:plain:not_finite', 'gradient of the plain loop not finite')
    return out
  for name, fn in (('nested_checkpoint_scan', lambda s: nested(s, True)), ('nested_scan_no_checkpoint', lambda s: nested(s, False)),
                   ('trajectory_from_step', trajectory), ('repeated', repeated),
                   ('checkpointed_step', lambda s: plain_ck(jax, step, loss_of, n, s))):
    g = flat(jax.grad(fn)(st))
    err = np.abs(g - g0).max() / sc_
    if not np.isfinite(err) or err > 1e-11:
      bad(f'scan:{name}', f'gradient through {name} differs from the gradient of the plain loop of {n} steps by {err:.3e} (relative)')
  return out


def plain_ck(jax, step, loss_of, n, s):
  ck = jax.checkpoint(step)
  for _ in range(n):
    s = ck(s)
  return loss_of(s)


replay_scan = common.per_case(_scan_one, 'scan')
REPLAYERS = {'kinks': replay_kinks, 'linear': replay_linear, 'entry': replay_entry, 'scan': replay_scan}


def replay(ctx, kind, cases):
  for m in REPLAYERS[kind](cases):
    if m['sig'] != '__stat__':
      ctx.mismatch(kind, m['case'], m['sig'], m['detail'])


def replay_any(items):
  out = []
  for kind, it in items:
    out.extend(REPLAYERS[kind](it if kind == 'kinks' else [it]))
  return out


def run(ctx):
  q = ctx.quick
  rk = ctx.tlc('Kinks', 'Kinks_quick.cfg' if q else 'Kinks_thorough.cfg')
  ctx.require_actions(rk, ['Interp', 'Upwind', 'Cutoff'])
  rd = ctx.tlc('Dataflow', 'Dataflow.cfg')
  ctx.require_actions(rd, ['Eval'])
  rn = ctx.tlc('CombNested', 'CombNested_quick.cfg')
  dn = {(c['class'], c['oro'], c['tracer']): c['nodes'] for c in rd.cases}
  nodes = {'dry': dn[('dry', True, False)], 'held_suarez': dn[('dry', True, False)], 'upwind': dn[('dry', True, False)],
           'moist': dn[('moist', True, False)], 'sw': dn[('sw', True, False)]}
  kc = rk.cases
  if q:
    kc = [c for i, c in enumerate(kc) if c['cfg']['kind'] != 'interp' or c['res']['kink'] or i % 7 == 0]
  grids = [dict(M=3, impl='real'), dict(M=2, impl='fast', mult=2), dict(M=3, L=5, impl='real', offset=0.3)]
  lin = [{'grid': g} for g in (grids if not q else grids[:2])]
  egrids = [dict(M=5, impl='real'), dict(M=4, impl='fast', mult=4)]
  entries = []
  i = 0
  for cls in ('dry', 'moist', 'held_suarez', 'sw', 'upwind'):
    for state in ('generic', 'rest', 'zero'):
      for g in (egrids if not q else [egrids[i % 2]]):
        entries.append({'class': cls, 'state': state, 'grid': g, 'seed': ctx.seed * 10 + i, 'nodes': nodes[cls],
                        'all_stacks': not q})
        i += 1
  lens_all = sorted({tuple(c['lens']) for c in rn.cases if 4 <= math.prod(c['lens']) <= (6 if q else 12)})
  scans = [{'lens': list(l)} for l in (lens_all[::3] if q else lens_all)]
  # one pool for everything: heavy items first, kink shards fill the gaps
  nshard = 24
  items = ([('entry', e) for e in entries] + [('linear', l) for l in lin] + [('scan', s_) for s_ in scans]
           + [('kinks', kc[j::nshard]) for j in range(nshard)])
  res = common.parallel_map('c08', 'replay_any', items, tag='all', outdir=os.path.join(ctx.out, 'par'))
  ctx.replayed += len(kc) + len(lin) + len(entries) + len(scans)
  for m in res:
    if m['sig'] == '__stat__':
      ctx.comparisons += m['n']
    else:
      kind = m['sig'].split(':')[0]
      kind = {'kink': 'kinks', 'linear': 'linear', 'scan': 'scan'}.get(kind, 'entry')
      ctx.mismatch(kind, [m['case']] if kind == 'kinks' and False else m['case'], m['sig'], m['detail'])
  ctx.comparisons += len(lin) * 40 + len(scans) * 5
  for c in kc:
    ctx.distinct.add(json.dumps(c['cfg'], sort_keys=True))
  ctx.sample(next(c for c in kc if c['cfg']['kind'] == 'interp' and c['res']['kink']))
  ctx.sample(next(c for c in kc if c['cfg']['kind'] == 'upwind' and c['cfg']['w'] == 0))
  ctx.sample({'degrees': sorted((n['n'], n['deg']) for n in nodes['dry'] if n['n'].startswith(('explicit.', 'implicit.')))})
  ctx.sample({'nestings': [s['lens'] for s in scans]})
  ctx.assumptions += [
      'forward-mode vs finite differences is decided only where the spec derives polynomial degree <= 4 (dry and shallow-water tendencies, '
      'one forward-backward Euler step): there the 5-point stencil is exact, not an approximation. For non-polynomial entry points (moist '
      'quotient, Held-Suarez powers / logs, multi-stage steps) only adjointness, finiteness and nesting / checkpoint invariance are decided',
      'at a kink of a piecewise-linear primitive any value between the one-sided slopes is accepted',
      'jax.lax.scan, jax.checkpoint, jax.jvp / vjp of smooth primitives are trusted']
  return ctx.finish(rule='one kink case per (nodes, data, half-integer query, extrapolation mode) x code paths, (w, a, b) upwind, cut-off side; '
                         'linear operators on 2-3 grids; entry points: class x {generic, rest, zero} state x grids x integrator/filter stacks; '
                         'nestings from CombNested')
