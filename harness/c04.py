"""C04: explicit + implicit tendency is independent of the reference-temperature split.
Spec: SplitConsistency (vertical identity H(c) = kappa c gp - vadv(sigma_dot, c) over every level set,
exact linear forms), SplitLedger (per-sub-term change ledger of explicit_terms / implicit_terms for
every equation class / option combination; Balanced).

Replay:
 * vertical: for every exported (level set, profile c, kappa) the real explicit operators
   (compute_diagnostic_state's sigma_dot, nodal_temperature_vertical_tendency,
   nodal_temperature_adiabatic_tendency) run on T' = c, div = e_s and the real implicit_terms on
   Tref = c must both equal the spec tables - the two halves are compared through the spec, never
   with each other.
 * ledger: for every exported configuration the same physical atmosphere is built under two
   reference profiles (A, B = A + c); every recorded sub-term must change by exactly the spec's
   ledger entry (atoms evaluated independently), and for claimed configurations the total
   explicit + implicit tendency must be identical to rounding.
"""
from __future__ import annotations

import json
import math
import os

from harness import common, dataflow, spectral
from harness.common import frac, fl

SQRT4PI = dataflow.SQRT4PI


# ----------------------------------------------------------------------------------------------
# vertical identity against the real operators
# ----------------------------------------------------------------------------------------------

def _form(f, alpha):
  """linear form [c0, c1..cK] (Rat each) -> float with atoms alpha[1..K]."""
  v = fl(f['0'])
  for k, q in f.items():
    if k != '0':
      v += fl(q) * alpha[int(k) - 1]
  return v


def _vertical_one(c):
  np, jax, jnp = spectral.np_jax()
  from dinosaur import coordinate_systems, primitive_equations as pe, scales, sigma_coordinates
  out = []
  b = np.array(c['b'], np.float64) / c['den']
  K = len(b) - 1
  prof = np.array(c['tref'], np.float64)
  kappa = fl(c['kappa'])
  key = dict(b=c['b'], tref=c['tref'], kappa=c['kappa'])

  def bad(sig, detail):
    out.append({'case': c, 'sig': sig, 'detail': f'{key}: {detail}'})

  grid = dataflow.make_grid(dict(M=2))
  vertical = sigma_coordinates.SigmaCoordinates(b)
  coords = coordinate_systems.CoordinateSystem(grid, vertical)
  Rgas = 1.5
  specs = pe.PrimitiveEquationsSpecs(radius=1.0, angular_velocity=1.0, gravity_acceleration=1.0,
                                     ideal_gas_constant=Rgas, water_vapor_gas_constant=2.0,
                                     water_vapor_isobaric_heat_capacity=3.0, kappa=kappa, scale=scales.DEFAULT_SCALE)
  centers = (b[1:] + b[:-1]) / 2
  alpha = [math.log(centers[j + 1] / centers[j]) / 2 for j in range(K - 1)] + [-math.log(centers[-1])]
  zeros = np.zeros((K,) + grid.modal_shape)
  eq_exp = pe.PrimitiveEquations(np.zeros(K), jnp.zeros(grid.modal_shape), coords, specs)       # Tref = 0, T' = c
  eq_imp = pe.PrimitiveEquations(prof, jnp.zeros(grid.modal_shape), coords, specs)               # Tref = c
  Tc = zeros.copy(); Tc[:, 0, 0] = prof * SQRT4PI
  tol = lambda e: 64 * spectral.EPS * (abs(e) + 1.0) * (1 + abs(prof).max())
  for s in range(K):
    div = zeros.copy(); div[s, 0, 0] = SQRT4PI
    st = pe.State(jnp.asarray(zeros), jnp.asarray(div), jnp.asarray(Tc), jnp.zeros((1,) + grid.modal_shape), {})
    aux = pe.compute_diagnostic_state(st, coords)
    sd = np.asarray(aux.sigma_dot_full)
    vert = np.asarray(eq_exp.nodal_temperature_vertical_tendency(aux)) * np.ones((K,) + grid.nodal_shape)
    adia = np.asarray(eq_exp.nodal_temperature_adiabatic_tendency(aux))
    for r in range(K - 1):
      e = fl(c['sigmadot'][s][r])
      if not np.all(np.abs(sd[r] - e) <= tol(e)):
        bad('vertical:sigma_dot', f'unit divergence at level {s}: sigma_dot[{r}+1/2] = {sd[r].ravel()[0]!r}, spec {e!r}')
    for r in range(K):
      e = fl(c['vadv'][s][r])
      if not np.all(np.abs(vert[r] - e) <= tol(e)):
        bad('vertical:vadv', f'unit divergence at level {s}: vertical advection of the profile at level {r} = {vert[r].ravel()[0]!r}, spec {e!r}')
      e = -kappa * prof[r] * _form(c['gpart'][s][r], alpha)
      if not np.all(np.abs(adia[r] - e) <= tol(e)):
        bad('vertical:adiabatic', f'unit divergence at level {s}: adiabatic term at level {r} = {adia[r].ravel()[0]!r}, spec {e!r}')
    # implicit half with Tref = c : -H[:, s]
    st0 = pe.State(jnp.asarray(zeros), jnp.asarray(div), jnp.asarray(zeros), jnp.zeros((1,) + grid.modal_shape), {})
    for method in ('dense', 'sparse'):
      eq_imp.vertical_matmul_method = method
      im = np.asarray(eq_imp.implicit_terms(st0).temperature_variation)[:, 0, 0] / SQRT4PI
      # the property itself, on the code alone: what the explicit half loses when c moves to Tref is what the
      # implicit half gains
      code_explicit = (adia + vert)[:, 0, 0]
      if not np.all(np.abs(code_explicit - im) <= 64 * spectral.EPS * (1 + np.abs(im)) * (1 + abs(prof).max())):
        r = int(np.argmax(np.abs(code_explicit - im)))
        bad(f'vertical:identity:{method}', f'unit divergence at level {s}, row {r}: explicit operators on T\' = c give {code_explicit[r]!r}, '
            f'implicit_terms with Tref = c gives {im[r]!r}')
      for r in range(K):
        e = -_form(c['H'][r][s], alpha)
        if abs(im[r] - e) > tol(e):
          bad(f'vertical:H:{method}', f'implicit temperature tendency of unit divergence at level {s}, row {r}: {im[r]!r}, spec {e!r}')
  return common.settle(out, lambda g: g.startswith('vertical:identity') or ':exception:' in g)


replay_vertical = common.per_case(_vertical_one, 'vertical')


# ----------------------------------------------------------------------------------------------
# ledger replay
# ----------------------------------------------------------------------------------------------

LEVELS = {1: [0, 1.0], 2: [0, 0.3, 1.0], 3: [0, 0.2, 0.55, 1.0], 4: [0, 0.1, 0.3, 0.7, 1.0], 5: [0, 0.05, 0.2, 0.45, 0.8, 1.0]}


def _profile(const, K, which):
  import numpy as np
  if const:
    return np.full(K, 250.0 if which == 'A' else 288.0)
  if which == 'A':
    return np.linspace(215.0, 290.0, K) if K > 1 else np.array([240.0])
  zig = np.array([231.0, 275.0, 248.0, 301.0, 262.0])[:K]
  return zig if K > 1 else np.array([263.0])


def _atoms(np, grid, coords, specs, c, recA, lnps, moist, cloud):
  """Change atoms of SplitLedger evaluated independently of primitive_equations.py."""
  K = len(c)
  L = grid.total_wavenumbers
  cols = grid.modal_shape[1]
  l = np.arange(cols)
  lam = np.where(l < L, -l * (l + 1) / grid.radius ** 2, 0.0)
  ck = c[:, None, None]
  dsig = np.asarray(coords.vertical.layer_thickness, np.float64)
  b = np.asarray(coords.vertical.boundaries, np.float64)
  centers = (b[1:] + b[:-1]) / 2
  alpha = np.array([math.log(centers[j + 1] / centers[j]) / 2 for j in range(K - 1)] + [-math.log(centers[-1])])
  div = recA['aux.divergence']
  at = {}
  at['RcLap'] = specs.R * ck * (lam[None, None, :] * lnps)
  at['cDiv'] = ck * div

  def sigma_dot(g):
    F = np.cumsum(g * dsig[:, None, None], axis=0)
    return (np.cumsum(dsig)[:, None, None] * F[-1:] - F)[:-1]

  def vadv(w, x):
    if K == 1:
      return np.zeros((1,) + w.shape[1:])
    dx = (x[1:] - x[:-1]) / ((dsig[1:] + dsig[:-1]) / 2)
    wx = w * dx[:, None, None]
    z = np.zeros((1,) + wx.shape[1:])
    wx = np.concatenate([z, wx, z], axis=0)
    return -0.5 * (wx[1:] + wx[:-1])
  at['VadvC'] = vadv(sigma_dot(div), c)
  at['VadvExpC'] = vadv(sigma_dot(recA['aux.u_dot_grad_log_sp']), c)
  F = np.cumsum(div * dsig[:, None, None], axis=0)
  aF = alpha[:, None, None] * F
  gp = (aF + np.concatenate([np.zeros((1,) + aF.shape[1:]), aF[:-1]], axis=0)) / dsig[:, None, None]
  at['KcGp'] = specs.kappa * ck * gp
  gx, gy = recA['aux.cos_lat_grad_log_sp.0'], recA['aux.cos_lat_grad_log_sp.1']
  sec2 = np.asarray(grid.sec2_lat)

  def grad_product(m):
    u = grid.to_modal(specs.R * ck * m * gx * sec2)
    v = grid.to_modal(specs.R * ck * m * gy * sec2)
    return (np.asarray(grid.div_cos_lat((u, v), clip=False)), np.asarray(grid.curl_cos_lat((u, v), clip=False)))
  if moist:
    m = (specs.R_vapor / specs.R - 1) * recA['aux.tracers.specific_humidity']
    at['MDiv'], at['MCurl'] = grad_product(m)
  if cloud:
    m = recA['aux.tracers.' + dataflow.CLOUD[0]] + recA['aux.tracers.' + dataflow.CLOUD[1]]
    at['CDiv'], at['CCurl'] = grad_product(m)
  return at


FIELDS = ('vorticity', 'divergence', 'temperature_variation', 'log_surface_pressure')


def _ledger_one(c):
  np, jax, jnp = spectral.np_jax()
  from dinosaur import primitive_equations as pe
  out = []
  cls = c['class']
  key = {k: c[k] for k in ('class', 'oro', 'ntracers', 'vadv', 'constA', 'constB', 'K', 'grid', 'amp')}

  def bad(sig, detail):
    out.append({'case': c, 'sig': sig, 'detail': f'{key}: {detail}'})

  grid = dataflow.make_grid(c['grid'])
  K = c['K']
  tnames = dataflow.tracer_names(cls, c['ntracers'])
  fields = dataflow.random_fields(grid, K, c['seed'], amp=c['amp'], tracers=tnames)
  A, B = _profile(c['constA'], K, 'A'), _profile(c['constB'], K, 'B')
  if c['constA'] and c['constB'] and c.get('same'):
    B = A.copy()
  cprof = B - A
  absolute_mean = fields['temperature_variation'][:, 0, 0] + SQRT4PI * 255.0
  recs, tots = {}, {}
  for tag, tref in (('A', A), ('B', B)):
    f = dict(fields)
    Tv = fields['temperature_variation'].copy()
    Tv[:, 0, 0] = absolute_mean - SQRT4PI * tref
    f['temperature_variation'] = Tv
    eq, st = dataflow.build_pe(cls, grid, LEVELS[K], tref, f, vadv=c['vadv'], oro=c['oro'])
    rec = dataflow.Recorder(eq).run(st)
    recs[tag] = rec
    tots[tag] = {k[len('explicit.'):]: rec[k] + rec['implicit.' + k[len('explicit.'):]]
                 for k in rec if k.startswith('explicit.')}
    coords, specs = eq.coords, eq.physics_specs
  L = grid.total_wavenumbers
  band = slice(0, L - 1)                       # total wavenumbers below the (clipped) top one
  at = _atoms(np, grid, coords, specs, cprof, recs['A'], fields['log_surface_pressure'],
              cls in ('moist', 'cloud'), cls == 'cloud')

  def modal(x):
    x = np.asarray(x)
    return x if x.shape[-2:] == tuple(grid.modal_shape) else np.asarray(grid.to_modal(x))

  def scale_of(*xs):
    return sum(float(np.abs(x).max()) for x in xs) + 1e-300

  # (1) every sub-term changes by its ledger entry
  ntr = 0
  for t in c['terms']:
    name = t['n']
    if name in ('sim_time', 'implicit.sim_time'):
      continue
    if cls == 'cloud' and name in ('curl_and_div_tendencies.vorticity', 'curl_and_div_tendencies.divergence',
                                   'vorticity_tendency_due_to_humidity', 'divergence_tendency_due_to_humidity'):
      continue          # the recorded finding lives in these terms; only the relation is asserted for this class
    if name == 'horizontal_scalar_advection.tracer':
      names = [f'horizontal_scalar_advection.tracer{ntr}.nodal', f'horizontal_scalar_advection.tracer{ntr}.modal']
      ntr += 1
    elif name == 'vertical_tendency.tracer':
      names = []          # recorded through _vertical_tendency.<i>; covered by the tracer totals
    elif name == 'implicit.tracers':
      names = [k for k in recs['A'] if k.startswith('implicit.tracers.')]
    else:
      names = [name]
    for nm in names:
      if nm not in recs['A'] or nm not in recs['B']:
        bad('ledger:missing', f'sub-term {nm} of the spec program was never computed by the code')
        continue
      xa, xb = recs['A'][nm], recs['B'][nm]
      exp = 0.0
      for atom, coef in t['d'].items():
        if coef:
          exp = exp + coef * at[atom]
      is_modal = np.ndim(xa) >= 2 and np.shape(xa)[-2:] == tuple(grid.modal_shape)
      d = np.asarray(xb, np.float64) - np.asarray(xa, np.float64)
      if is_modal:
        e = modal(exp) if not np.isscalar(exp) else np.zeros_like(d)
        d, e = d[..., band], np.broadcast_to(e, np.broadcast_shapes(np.shape(e), d.shape))[..., band]
      else:
        e = np.broadcast_to(exp, np.broadcast_shapes(np.shape(exp), d.shape)) if not np.isscalar(exp) else np.zeros_like(d)
      sc = scale_of(xa, xb, e)
      err = float(np.abs(d - e).max()) if d.size else 0.0
      if not np.isfinite(err) or err > 2e-10 * sc:
        bad(f'ledger:{cls}:{nm}', f'moving the profile {cprof.tolist()} from T\' to Tref changes this sub-term by something '
            f'other than {({a: v for a, v in t["d"].items() if v}) or 0}: |change - expected| = {err:.3e} (scale {sc:.3e})')
  # (2) totals
  for f in list(FIELDS) + [k for k in tots['A'] if k.startswith('tracers.')]:
    xa, xb = tots['A'][f], tots['B'][f]
    parts = [v for k, v in recs['A'].items() if k in ('explicit.' + f, 'implicit.' + f)]
    sc = scale_of(*parts)
    err = float(np.abs(xa - xb).max())
    ok = np.isfinite(err) and err <= 1e-10 * sc
    if c['claimed'] and not ok:
      bad(f'relation:{cls}:{f}', f'explicit+implicit tendency of the same atmosphere differs between reference profiles '
          f'{A.tolist()} and {B.tolist()}: max difference {err:.3e} (scale {sc:.3e})')
    elif not c['claimed'] and cls == 'cloud' and c['vadv'] and not ok:
      bad(f'relation:cloud:{f}', f'cloud-moisture class: total tendency depends on the reference profile, max difference {err:.3e} (scale {sc:.3e})')
  if 'explicit.sim_time' in recs['A']:
    if float(recs['A']['explicit.sim_time']) != 1.0 or float(recs['A']['implicit.sim_time']) != 0.0:
      bad('relation:sim_time', 'clock tendencies are not (1, 0)')
  return common.settle(out, lambda g: g.startswith('relation:') or ':exception:' in g)


replay_ledger = common.per_case(_ledger_one, 'ledger')
REPLAYERS = {'vertical': replay_vertical, 'ledger': replay_ledger}


def replay(ctx, kind, cases):
  for m in REPLAYERS[kind](cases):
    ctx.record(kind, m)


GRIDS_Q = [dict(M=5, impl='real'), dict(M=4, impl='fast', mult=4), dict(M=3, L=5, impl='real', offset=0.3)]
GRIDS_T = GRIDS_Q + [dict(M=6, impl='fast', mult=2), dict(M=5, L=7, impl='real', spacing='equiangular', J=17),
                     dict(M=7, impl='real')]


def _expand(cases, quick, seed):
  out = []
  for i, c in enumerate(cases):
    grids = GRIDS_Q if quick else GRIDS_T
    Ks = (3,) if quick else (1, 2, 3, 4, 5)
    picks = []
    for gi, g in enumerate(grids):
      for K in Ks:
        picks.append((g, K))
    if quick:
      picks = [picks[i % len(picks)], picks[(i + 1) % len(picks)]]
      extra_K = (1, 2, 4)[i % 3]
      picks.append((grids[i % len(grids)], extra_K))
    for j, (g, K) in enumerate(picks):
      if K == 1 and not (c['constA'] and c['constB']):
        continue        # one layer: every profile is constant
      d = dict(c)
      d.update(grid=g, K=K, seed=seed * 1000 + 17 * i + j, amp=(1.0, 10.0, 0.1)[(i + j) % 3])
      out.append(d)
  return out


def run(ctx):
  q = ctx.quick
  from concurrent.futures import ThreadPoolExecutor
  pool = ThreadPoolExecutor(4)          # independent machines, model checked side by side
  jobs = {
      'v': pool.submit(ctx.tlc, 'SplitConsistency', 'SplitConsistency_quick.cfg' if q else 'SplitConsistency_thorough.cfg', workers=4),
      'l': pool.submit(ctx.tlc, 'SplitLedger', 'SplitLedger.cfg', workers=4),
      'a': pool.submit(ctx.tlc, 'SplitLedger', 'SplitLedger_asfound.cfg', expect_violation=True, tag='asfound', coverage=False, workers=2),
      's': pool.submit(ctx.tlc, 'PrimitivePoly', 'PrimitivePoly_split.cfg', tag='split_poly', workers=4, timeout=3600),
      's3': pool.submit(ctx.tlc, 'PrimitivePoly', 'PrimitivePoly_split_deep.cfg', tag='split_poly3', workers=4, timeout=3600),
  }
  rv = jobs['v'].result()
  ctx.require_actions(rv, ['InitSplit'])
  if rv.depth < 4 or not rv.cases:
    raise common.MachineryError('SplitConsistency did not reach its terminal states')
  rl = jobs['l'].result()
  ctx.require_actions(rl, ['Term'])
  ra = jobs['a'].result()
  ctx.notes['design_level_counterexample'] = (
      'SplitLedger_asfound.cfg: BalancedIncludingCloud is violated (the cloud-condensate loading of the virtual '
      'temperature has no Tref counterpart): ' + str(ra.violated))
  if ra.violated != 'BalancedIncludingCloud':
    raise common.MachineryError('the as-found ledger was expected to refute BalancedIncludingCloud')
  # design level, horizontally structured states: the continuous-equation machine of C05 (PrimitivePoly.tla)
  # is evaluated for two splits of the same absolute temperature; temperature and divergence totals agree
  rs = jobs['s'].result()
  ctx.require_actions(rs, ['Diagnose', 'Divergence', 'Temperature', 'Rest'])
  rs3 = jobs['s3'].result()
  pool.shutdown()
  ctx.tlc_runs.sort(key=lambda r_: (r_.module, r_.cfg))
  ctx.require_actions(rs3, ['Diagnose', 'Divergence', 'Temperature', 'Rest'])
  ctx.notes['split_independence_of_the_continuous_machine'] = (
      f'{rs.states} + {rs3.states} states (two and three levels), SplitFree and HOfAgrees hold')
  vcases = rv.cases if not q else [c for i, c in enumerate(rv.cases) if i % 4 == 0 or len(c['b']) == 2]
  res = common.parallel_map('c04', 'replay_vertical', vcases, tag='v', outdir=os.path.join(ctx.out, 'par'))
  lcases = _expand(rl.cases, q, ctx.seed)
  res += common.parallel_map('c04', 'replay_ledger', lcases, tag='l', outdir=os.path.join(ctx.out, 'par'))
  ctx.replayed += len(vcases) + len(lcases)
  ctx.comparisons += sum((len(c['b']) - 1) ** 2 * 5 for c in vcases) + sum(len(c['terms']) + 5 for c in lcases)
  for c in vcases:
    ctx.distinct.add(json.dumps([c['b'], c['tref'], c['kappa']]))
  for c in lcases:
    ctx.distinct.add(json.dumps([c[k] for k in ('class', 'oro', 'ntracers', 'vadv', 'constA', 'constB', 'K', 'grid')]))
  for m in res:
    ctx.record('vertical' if m['sig'].startswith('vertical') else 'ledger', m)
  ctx.sample({k: vcases[3][k] for k in ('b', 'den', 'tref', 'kappa')} | {'H_row1': vcases[3]['H'][0]})
  ctx.sample({k: lcases[5][k] for k in ('class', 'oro', 'ntracers', 'vadv', 'constA', 'constB', 'claimed', 'K', 'grid', 'amp')}
             | {'terms': [t['n'] for t in lcases[5]['terms']]})
  ctx.assumptions += [
      'states are seeded random admissible states (zero-mean vorticity/divergence, top wavenumber clipped) at three amplitudes; '
      'the change of every sub-term is linear in the moved profile, so the two-profile comparison per configuration is complete '
      'for the profile direction but samples the state',
      'moist identities need alias-free products: grids are quadratic-truncation grids (3M+1 nodes)',
      'include_vertical_advection=False is not claimed (the ledger shows the imbalance vadv(sigma_dot_full, c)); it is replayed '
      'only for the per-sub-term ledger']
  return ctx.finish(rule='one vertical case per (level set, profile incl. unit vectors, kappa); one ledger case per '
                         '(class, orography, tracer count, vertical advection, constant/non-constant profile pair) x '
                         '(grid, layer count, amplitude)')
