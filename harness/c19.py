"""C19: persistence and restructuring round trips.  Spec modules: TreesDict, TreesArray, TreesAttrs,
TreesDataset, TreesResample.

Five machines, one per family of public calls; TLC enumerates every small configuration, checks
the round-trip clauses as invariants of the machine, and exports each terminal behaviour with the
spec's exact intermediate values.  The replay executes the same calls in the real library and
compares every intermediate (flat keys, packed arrays element by element, attribute values,
dimension names, positions of spectral labels) with the spec's, and the final value with the
original object.

  dict     flatten_dict / unflatten_dict / replace_with_matching_or_default on every nested
           dictionary (keys that are prefixes of each other, share a first character, contain a
           separator; empty sub-dictionaries anywhere)
  array    pack/unpack, stack/unstack, split_along_axis/concat_along_axis, split_axis and its
           inverses on pytrees of heterogeneous leaf shapes; documented argument errors
  attrs    CoordinateSystem.asdict -> coordinate_system_from_attrs, also through data_to_xarray
           + netCDF + coordinate_system_from_dataset
  dataset  data_to_xarray -> (netCDF) -> xarray_to_primitive_eq_data / _with_time / shallow_water
           / data_dict: dimension names, sizes, bit-identical values
  resample get_spectral_interpolate_fn (up / down / errors), label positions, up-down identity,
           same nodal values on the finer grid
"""
from __future__ import annotations

import functools
import os

from harness import common

EPS = 2.220446049250313e-16


def _jax():
  import numpy as np
  import jax
  # persistence must also be lossless under JAX's default configuration (x64 disabled): float64 numpy data
  # written to a dataset come back bit-identical; VERIF_X64=0 selects that configuration for a worker
  jax.config.update('jax_enable_x64', os.environ.get('VERIF_X64', '1') != '0')
  import jax.numpy as jnp
  return np, jax, jnp


# ==========================================================================================
# dict
# ==========================================================================================

def _tag(path):
  return 'leaf<' + '>'.join(path) + '>'


def _nested(leaves, empties, value_of, reverse=False):
  """Builds the nested dictionary with the given leaf / empty-branch paths."""
  entries = [(p, value_of(p)) for p in leaves] + [(p, None) for p in empties]
  entries.sort(key=lambda e: e[0], reverse=reverse)
  root = {}
  for path, v in entries:
    d = root
    for k in path[:-1]:
      d = d.setdefault(k, {})
    d[path[-1]] = {} if v is None else v
  return root


def _dict_brief(c):
  return {k: c[k] for k in ('sep', 'verdict', 'leaves', 'empty')}


def _one_dict(c):
  from dinosaur import pytree_utils as pu
  out = []
  sep = c['sep']
  leaves = [tuple(p) for p in c['leaves']]
  empties = [tuple(p) for p in c['empty']]
  rev = (len(leaves) + len(empties)) % 2 == 1
  x = _nested(leaves, empties, _tag, reverse=rev)

  def bad(sig, detail):
    out.append({'case': _dict_brief(c), 'sig': sig, 'detail': f'{detail} | input {x!r} sep={sep!r}'})

  if c['verdict'] == 'rejected':
    try:
      got = pu.flatten_dict(x, sep=sep)
      bad('flatten:sep_key_accepted', f'a key contains the separator but flatten_dict returned {got!r}')
    except ValueError as ex:
      if 'duplicate' in str(ex):
        bad('flatten:sep_key_wrong_error', f'rejected as duplicate instead of separator: {ex}')
    return out
  spec_flat = {''.join(e['key']): _tag(e['path']) for e in c['flat']}
  spec_empty = sorted(''.join(k) for k in c['emptykeys'])
  # -- flatten
  import copy
  x0 = copy.deepcopy(x)
  flat = None
  try:
    flat, emp = pu.flatten_dict(x, sep=sep)
  except ValueError as ex:
    if 'duplicate' in str(ex):
      bad('flatten:spurious_duplicate',
          f'all flat keys {sorted(spec_flat) + spec_empty} are distinct but flatten_dict raised: {ex}')
    else:
      bad('flatten:exception:ValueError', str(ex))
  if flat is not None:
    if not isinstance(flat, dict) or sorted(flat) != sorted(spec_flat):
      bad('flatten:keys', f'flat keys {sorted(flat)} spec {sorted(spec_flat)}')
    elif flat != spec_flat:
      bad('flatten:values', f'flat dict {flat!r} spec {spec_flat!r}')
    if sorted(emp) != spec_empty:
      bad('flatten:empty_keys', f'empty keys {sorted(emp)} spec {spec_empty}')
    flat0, emp0 = copy.deepcopy(flat), copy.deepcopy(emp)
    back = pu.unflatten_dict(flat, emp, sep=sep)
    if back != x0:
      bad('roundtrip:flatten_unflatten', f'unflatten(flatten(x)) = {back!r}')
    if x != x0 or flat != flat0 or list(emp) != list(emp0):
      bad('roundtrip:arguments_modified', f'the utilities changed their arguments: tree {x!r} (was {x0!r}), flat {flat!r} (was {flat0!r})')
    if sep == '&':      # the default arguments
      f2, e2 = pu.flatten_dict(x)
      if f2 != spec_flat or sorted(e2) != spec_empty or pu.unflatten_dict(f2, e2) != x:
        bad('roundtrip:default_sep', f'default-argument round trip differs: {f2!r} {e2!r}')
  # -- unflatten from the spec's flat form (independent of the code's flatten)
  for order in (False, True):
    items = sorted(spec_flat.items(), reverse=order)
    back = pu.unflatten_dict(dict(items), tuple(sorted(spec_empty, reverse=not order)), sep=sep)
    if back != x:
      bad('unflatten:from_spec', f'unflatten_dict({dict(items)!r}, {spec_empty!r}) = {back!r}')
      break
  # -- replace_with_matching_or_default (no sep argument: default separator only)
  if sep != '&' or not isinstance(c['result'], dict):
    return out
  for mode, exp in c['result'].items():
    if mode in ('extra', 'extra_unchecked'):
      sel = list(leaves)
    else:
      sel = [tuple(e['path']) for e in exp if e['src'] == 'replace']
    repl = _nested(sel, [], lambda p: 'R:' + _tag(p), reverse=not rev)
    if mode in ('extra', 'extra_unchecked'):
      repl['zz_unknown'] = 'R:extra'
    kw = {'check_used_all_replace_keys': False} if mode == 'extra_unchecked' else {}
    try:
      got = pu.replace_with_matching_or_default(x, repl, 'DEFAULT', **kw)
    except ValueError as ex:
      if mode == 'extra' and 'not present' in str(ex):
        continue
      if 'duplicate' in str(ex):
        bad('replace:spurious_duplicate', f'mode {mode}: {ex}')
      else:
        bad(f'replace:{mode}:exception:ValueError', str(ex))
      continue
    if mode == 'extra':
      bad('replace:unused_key_accepted', f'replacement key zz_unknown is not in x but result {got!r}')
      continue
    src = {tuple(e['path']): e['src'] for e in exp}
    want = _nested(leaves, empties, lambda p: 'R:' + _tag(p) if src[p] == 'replace' else 'DEFAULT')
    if got != want:
      bad(f'replace:{mode}:result', f'got {got!r} spec {want!r} (replace={repl!r})')
  return out


replay_dict = common.per_case(_one_dict, 'dict')


# ==========================================================================================
# array
# ==========================================================================================

def _leaf_arrays(np, shapes):
  return [np.arange(int(np.prod(s, dtype=int))).reshape(tuple(s)).astype(np.float64) + 100 * i
          for i, s in enumerate(shapes)]


def _as_tree(leaves, variant):
  """A pytree whose canonical leaf order is `leaves`."""
  n = len(leaves)
  if variant == 0 or n == 0:
    d = {}
    for i in reversed(range(n)):          # insertion order must not matter
      d[f'k{i}'] = leaves[i]
    return d
  if variant == 1:
    d = {'z': {f'k{i}': leaves[i] for i in reversed(range(1, n))}}
    if n == 1:
      d = {'z': {}}
    d['a'] = leaves[0]
    return d
  return tuple(leaves[:1]) + (list(leaves[1:]),)


def _arr_eq(np, got, exp):
  """exp: {'shape': [...], 'data': [...]} from the spec; got: array.  Returns '' or a message."""
  g = np.asarray(got)
  if tuple(g.shape) != tuple(exp['shape']):
    return f'shape {tuple(g.shape)} spec {tuple(exp["shape"])}'
  e = np.asarray(exp['data'], dtype=np.float64).reshape(tuple(exp['shape']))
  if not np.array_equal(g, e):
    return f'values {g.ravel().tolist()} spec {e.ravel().tolist()}'
  return ''


def _tree_eq(np, jax, got, want):
  gl, gd = jax.tree_util.tree_flatten(got)
  wl, wd = jax.tree_util.tree_flatten(want)
  if gd != wd:
    return f'tree structure {gd} expected {wd}'
  for i, (a, b) in enumerate(zip(gl, wl)):
    a, b = np.asarray(a), np.asarray(b)
    if a.shape != b.shape or not np.array_equal(a, b):
      return f'leaf {i}: shape {a.shape} values {a.ravel().tolist()} expected {b.shape} {b.ravel().tolist()}'
  return ''


def _one_array(c):
  np, jax, jnp = _jax()
  from dinosaur import pytree_utils as pu
  out = []
  op, axis, shapes = c['op'], c['axis'], c['shapes']
  leaves = _leaf_arrays(np, shapes)
  tree = _as_tree(leaves, (len(shapes) + axis) % 3)
  brief = {k: c[k] for k in ('op', 'axis', 'shapes', 'arg', 'flag', 'verdict')}

  def bad(sig, detail):
    out.append({'case': brief, 'sig': sig, 'detail': detail})

  if op in ('pack', 'stack'):
    fwd = pu.pack_pytree if op == 'pack' else pu.stack_pytree
    inv = pu.unpack_to_pytree if op == 'pack' else pu.unstack_to_pytree
    got = fwd(tree, axis)
    if c['mid'] == ['None']:
      if got is not None:
        bad(f'{op}:empty', f'empty pytree gave {got!r}, documented None')
      return out
    m = _arr_eq(np, got, c['mid'][0])
    if m:
      bad(f'{op}:forward', m)
    shp = pu.shape_structure(tree)
    m = _tree_eq(np, jax, inv(got, shp, axis), tree)
    if m:
      bad(f'roundtrip:{op}', m)
    spec_arr = jnp.asarray(np.asarray(c['mid'][0]['data'], dtype=np.float64).reshape(c['mid'][0]['shape']))
    m = _tree_eq(np, jax, inv(spec_arr, shp, axis), tree)
    if m:
      bad(f'{op}:inverse_from_spec', m)
    if (op == 'pack' and axis == -3) or (op == 'stack' and axis == 0):     # default arguments
      m = _tree_eq(np, jax, inv(fwd(tree), shp), tree)
      if m:
        bad(f'roundtrip:{op}:default_axis', m)
    return out

  if op == 'split':
    call = lambda: pu.split_along_axis(tree, c['arg'], axis, c['flag'])
    if c['verdict'] == 'rejected':
      try:
        call()
        bad('split:bad_arguments_accepted', 'documented ValueError not raised')
      except ValueError:
        pass
      return out
    try:
      first, second = call()
    except ValueError as ex:
      if not c['lenient']:
        bad('split:exception:ValueError', str(ex))
      return out
    for name, part, exp in (('first', first, c['mid'][0]), ('second', second, c['mid'][1])):
      pl, pd = jax.tree_util.tree_flatten(part)
      if pd != jax.tree_util.tree_structure(tree):
        bad(f'split:{name}:structure', str(pd))
        continue
      for i, (a, e) in enumerate(zip(pl, exp)):
        m = _arr_eq(np, a, e)
        if m:
          bad(f'split:{name}', f'leaf {i}: {m}')
          break
    m = _tree_eq(np, jax, pu.concat_along_axis([first, second], axis), tree)
    if m:
      bad('roundtrip:split_concat', m)
    spec_parts = [jax.tree_util.tree_unflatten(
        jax.tree_util.tree_structure(tree),
        [jnp.asarray(np.asarray(e['data'], dtype=np.float64).reshape(e['shape'])) for e in half])
                  for half in c['mid']]
    m = _tree_eq(np, jax, pu.concat_along_axis(spec_parts, axis), tree)
    if m:
      bad('concat:from_spec', m)
    return out

  if op == 'splitaxis':
    keep = c['flag']
    if c['verdict'] == 'rejected':
      try:
        pu.split_axis(tree, axis, keep)
        bad('splitaxis:unequal_extents_accepted', 'documented ValueError not raised')
      except ValueError:
        pass
      return out
    parts = pu.split_axis(tree, axis, keep)
    if not isinstance(parts, tuple) or len(parts) != len(c['mid']):
      bad('splitaxis:count', f'{len(parts)} parts, spec {len(c["mid"])}')
      return out
    for j, (part, exp) in enumerate(zip(parts, c['mid'])):
      pl, pd = jax.tree_util.tree_flatten(part)
      if pd != jax.tree_util.tree_structure(tree):
        bad('splitaxis:structure', str(pd))
        break
      ms = [_arr_eq(np, a, e) for a, e in zip(pl, exp)]
      if any(ms):
        bad('splitaxis:part', f'part {j}: {[m for m in ms if m][0]}')
        break
    if keep:
      back = pu.concat_along_axis(parts, axis)
    else:
      back = jax.tree_util.tree_map(lambda *a: jnp.stack(a, axis), *parts)
    m = _tree_eq(np, jax, back, tree)
    if m:
      bad('roundtrip:split_axis', m)
    return out
  raise common.MachineryError(f'unknown op {op}')


replay_array = common.per_case(_one_array, 'array')


# ==========================================================================================
# coordinate systems
# ==========================================================================================

def _f(q):
  return q[0] / q[1]


def _impl(mult):
  from dinosaur import spherical_harmonic as sh
  if not mult:
    return sh.RealSphericalHarmonics
  impl = functools.partial(sh.FastSphericalHarmonics, base_shape_multiple=mult,
                           transform_precision='highest')
  impl.__name__ = 'FastSphericalHarmonics'
  return impl


def _vertical(v):
  import numpy as np
  from dinosaur import sigma_coordinates as sc, layer_coordinates as lc, vertical_interpolation as vi
  if v['kind'] == 'SigmaCoordinates':
    return sc.SigmaCoordinates(np.array([_f(b) for b in v['boundaries']]))
  if v['kind'] == 'LayerCoordinates':
    return lc.LayerCoordinates(v['layers'])
  return vi.PressureCoordinates([_f(b) for b in v['centers']])


def _coords_fields(cs):
  """Projection of a real CoordinateSystem onto the spec's `back` record."""
  import numpy as np
  h = cs.horizontal
  hor = {k: getattr(h, k) for k in ('longitude_wavenumbers', 'total_wavenumbers', 'longitude_nodes',
                                    'latitude_nodes', 'latitude_spacing', 'longitude_offset', 'radius')}
  v = cs.vertical
  ver = {'kind': type(v).__name__}
  if ver['kind'] == 'SigmaCoordinates':
    ver['boundaries'] = np.asarray(v.boundaries).tolist()
  elif ver['kind'] == 'LayerCoordinates':
    ver['layers'] = v.layers
  else:
    ver['centers'] = np.asarray(v.centers).tolist()
  return hor, ver


def _spec_value(k, v):
  if k in ('longitude_offset', 'radius'):
    return _f(v)
  if k in ('boundaries', 'centers'):
    return [_f(q) for q in v]
  return v


_SPEC_VALUE = _spec_value


def _same(a, b):
  """exact comparison of attribute values (ints, strings, floats, lists of floats)."""
  import numpy as np
  if isinstance(b, list):
    a = np.asarray(a).tolist()
    return isinstance(a, list) and len(a) == len(b) and all(float(x) == float(y) for x, y in zip(a, b))
  if isinstance(b, str):
    return str(a) == b
  if isinstance(b, bool):
    return bool(a) == b
  return float(a) == float(b) and (not isinstance(b, int) or int(a) == b)


def _one_attrs(c):
  np, jax, jnp = _jax()
  import xarray
  from dinosaur import coordinate_systems as cs, spherical_harmonic as sh, xarray_utils as xu
  out = []
  g, v = c['grid'], c['vertical']
  brief = {'grid': g, 'vertical': v}

  def bad(sig, detail):
    out.append({'case': brief, 'sig': sig, 'detail': detail})

  radius = None if g['radius'] == [0, 1] else _f(g['radius'])
  impl = getattr(sh, g['spherical_harmonics_impl'])
  # The abstract configuration says nothing about how its numbers are represented: every case is
  # instantiated with python numbers and with numpy / jax scalars (sizes read from array shapes,
  # offsets inferred from float32 longitudes are realistic sources of the latter).
  for rep in ('python', 'np64', 'np32'):
    fl_t = {'python': float, 'np64': np.float64, 'np32': np.float32, 'jnp32': lambda x: jnp.float32(x)}[rep]
    int_t = {'python': int, 'np64': np.int64, 'np32': np.int32, 'jnp32': np.int64}[rep]
    brief['number_representation'] = rep
    grid = sh.Grid(longitude_wavenumbers=int_t(g['longitude_wavenumbers']), total_wavenumbers=int_t(g['total_wavenumbers']),
                   longitude_nodes=int_t(g['longitude_nodes']), latitude_nodes=int_t(g['latitude_nodes']),
                   latitude_spacing=g['latitude_spacing'], longitude_offset=fl_t(_f(g['longitude_offset'])),
                   radius=None if radius is None else fl_t(radius), spherical_harmonics_impl=impl)
    coords = cs.CoordinateSystem(grid, _vertical(v))
    cast = (lambda x: float(np.float32(x))) if rep in ('np32', 'jnp32') else float
    _attrs_roundtrip(c, g, v, coords, bad, np, cs, xu, xarray, cast)
  return out


def _attrs_roundtrip(c, g, v, coords, bad, np, cs, xu, xarray, cast):
  def _spec_value(k, x):      # numbers as stored in the chosen representation
    y = _SPEC_VALUE(k, x)
    return cast(y) if k in ('longitude_offset', 'radius') else y
  if coords.vertical.layers != c['layers']:
    bad('attrs:layers', f'{coords.vertical.layers} spec {c["layers"]}')
  attrs = coords.asdict()
  if sorted(attrs) != sorted(c['keys']):
    bad('asdict:keys', f'{sorted(attrs)} spec {sorted(c["keys"])}')
    return
  for k in c['keys']:
    want = _spec_value(k, c['attrs'][k])
    if not _same(attrs[k], want):
      bad(f'asdict:value:{k}', f'{attrs[k]!r} spec {want!r}')
  want_h = {k: _spec_value(k, x) for k, x in c['back']['horizontal'].items()}
  want_v = {k: _spec_value(k, x) for k, x in c['back']['vertical'].items()}

  def check(name, rec):
    if not isinstance(rec, cs.CoordinateSystem):
      bad(f'{name}:type', repr(type(rec)))
      return
    hor, ver = _coords_fields(rec)
    if sorted(hor) != sorted(want_h) or sorted(ver) != sorted(want_v):
      bad(f'{name}:fields', f'{hor} {ver} spec {want_h} {want_v}')
      return
    for k, w in list(want_h.items()) + list(want_v.items()):
      got = hor[k] if k in hor else ver[k]
      if not _same(got, w):
        bad(f'{name}:{k}', f'{got!r} spec {w!r}')
    if rec.vertical.layers != c['layers']:
      bad(f'{name}:layers', f'{rec.vertical.layers} spec {c["layers"]}')
    same_impl = g['spherical_harmonics_impl'] == 'RealSphericalHarmonics'
    if same_impl and not (rec == coords):
      bad(f'{name}:not_equal', f'reconstruction {rec} != original {coords}')

  def stage(name, thunk):
    try:
      rec = thunk()
    except Exception as ex:   # pylint: disable=broad-except
      bad(f'{name}:exception:{type(ex).__name__}', f'{type(ex).__name__}: {str(ex)[:200]} (attrs {attrs})')
      return
    check(name, rec)

  stage('from_attrs', lambda: xu.coordinate_system_from_attrs(attrs))
  ds = xu.data_to_xarray({'s': np.zeros(())}, coords=coords, times=None)
  stage('from_dataset', lambda: xu.coordinate_system_from_dataset(ds))
  # netCDF stores a one-element array attribute as a scalar (a property of the file format, not of
  # dinosaur): the file round trip is asserted only when no attribute is a one-element array.
  if not any(np.ndim(v) == 1 and np.size(v) == 1 for v in attrs.values()):
    ds2 = xarray.load_dataset(ds.to_netcdf())
    stage('from_netcdf', lambda: xu.coordinate_system_from_dataset(ds2))


replay_attrs = common.per_case(_one_attrs, 'attrs')


# ==========================================================================================
# datasets
# ==========================================================================================

def _grid_from_tuple(g, spacing='gauss'):
  from dinosaur import spherical_harmonic as sh
  M, L, I, J, mult = g
  return sh.Grid(longitude_wavenumbers=M, total_wavenumbers=L, longitude_nodes=I, latitude_nodes=J,
                 latitude_spacing=spacing, spherical_harmonics_impl=_impl(mult))


def _one_dataset(c):
  np, jax, jnp = _jax()
  import xarray
  from dinosaur import (coordinate_systems as cs, xarray_utils as xu, primitive_equations as pe,
                        shallow_water as sw, sigma_coordinates as sc, layer_coordinates as lc,
                        vertical_interpolation as vi)
  out = []
  brief = {k: c[k] for k in ('grid', 'K', 'eq', 'rep', 'ntr', 'sample', 'time', 'real')}

  def bad(sig, detail):
    out.append({'case': brief, 'sig': sig, 'detail': detail})

  K, eq = c['K'], c['eq']
  grid = _grid_from_tuple(c['grid'])
  if eq.startswith('primitive'):
    vertical = sc.SigmaCoordinates.equidistant(K)
  elif eq == 'shallow':
    vertical = lc.LayerCoordinates(K)
  else:
    vertical = vi.PressureCoordinates([100.0 * (k + 1) for k in range(K)])
  coords = cs.CoordinateSystem(grid, vertical)
  if list(grid.modal_shape) != c['modal'] or list(grid.nodal_shape) != c['nodal']:
    bad('dataset:grid_shapes', f'{grid.modal_shape} {grid.nodal_shape} spec {c["modal"]} {c["nodal"]}')
    return out
  arrays = {}
  for i, v in enumerate(c['vars']):
    n = int(np.prod(v['shape'], dtype=int))
    arrays[v['name']] = (np.arange(n, dtype=np.float64) * 0.5 + 1000.0 * (i + 1)).reshape(tuple(v['shape']))
  tracer_names = [v['name'] for v in c['vars'] if v['name'].startswith('tr_')]
  if eq == 'primitive':
    data = pe.State(**{k: a for k, a in arrays.items() if k not in tracer_names},
                    tracers={k: arrays[k] for k in tracer_names}).asdict()
  elif eq == 'primitive_with_time':
    data = pe.StateWithTime(**{k: a for k, a in arrays.items() if k not in tracer_names},
                            tracers={k: arrays[k] for k in tracer_names}).asdict()
  elif eq == 'shallow':
    data = sw.State(**arrays).asdict()
  else:
    data = dict(arrays)
  times = np.arange(c['time']) * 0.25 if c['time'] else None
  samples = np.arange(c['sample']) if c['sample'] else None
  ambiguous = any(v['ambiguous'] for v in c['vars'])
  tag = 'ambiguous' if ambiguous else 'write'
  try:
    extra = {'additional_coords': {'realization': np.array([0])}} if c.get('real') else {}
    ds = xu.data_to_xarray(data, coords=coords, times=times, sample_ids=samples, attrs={'note': 1.5}, **extra)
  except Exception as ex:   # pylint: disable=broad-except
    shapes = {v['name']: v['shape'] for v in c['vars']}
    bad(f'dataset:{tag}:exception:{type(ex).__name__}',
        f'data_to_xarray raised for shapes {shapes}: {str(ex)[:200]}')
    return out
  for v in c['vars']:
    if v['name'] not in ds:
      bad('dataset:missing_variable', v['name'])
      return out
    if not v['ambiguous'] and list(ds[v['name']].dims) != v['dims']:
      bad(f'dataset:dims:{c["rep"]}', f'{v["name"]} shape {v["shape"]}: dims {ds[v["name"]].dims} spec {v["dims"]}')
    if not np.array_equal(np.asarray(ds[v['name']].values), arrays[v['name']]):
      bad('dataset:values_in_dataset', v['name'])
  if not ambiguous:
    want = {e['dim']: e['n'] for e in c['sizes']}
    if dict(ds.sizes) != want:
      bad('dataset:sizes', f'{dict(ds.sizes)} spec {want}')
    for d in want:
      if d not in ds.coords:
        bad('dataset:coordinate_missing', d)
  if 'note' not in ds.attrs or 'horizontal_grid_type' not in ds.attrs:
    bad('dataset:attrs', str(sorted(ds.attrs)))
  if ambiguous and eq == 'datadict':
    return out
  stored = xarray.load_dataset(ds.to_netcdf())

  def read(d):
    if eq == 'primitive':
      return xu.xarray_to_primitive_eq_data(d, tracers_to_include=tuple(tracer_names))
    if eq == 'primitive_with_time':
      return xu.xarray_to_primitive_equations_with_time_data(d, tracers_to_include=tuple(tracer_names))
    if eq == 'shallow':
      return xu.xarray_to_shallow_water_eq_data(d)
    return xu.xarray_to_data_dict(d)

  for name, d in (('direct', ds), ('netcdf', stored)):
    if name == 'netcdf' and not ambiguous:
      for v in c['vars']:
        if list(d[v['name']].dims) != v['dims']:
          bad('dataset:dims:netcdf', f'{v["name"]}: {d[v["name"]].dims} spec {v["dims"]}')
    try:
      got = read(d)
    except Exception as ex:   # pylint: disable=broad-except
      bad(f'read:{name}:exception:{type(ex).__name__}', str(ex)[:300])
      continue
    if eq == 'datadict':
      if sorted(got) != sorted(arrays):
        bad(f'read:{name}:keys', f'{sorted(got)} expected {sorted(arrays)}')
        continue
      for b in c['back']:
        a = np.asarray(got[b['name']])
        if list(a.shape) != b['shape']:
          bad(f'read:{name}:shape', f'{b["name"]}: {a.shape} spec {b["shape"]}')
        elif not np.array_equal(a, arrays[b['name']].reshape(a.shape)):
          bad(f'read:{name}:values', b['name'])
      continue
    gl, gd = jax.tree_util.tree_flatten(got)
    wl, wd = jax.tree_util.tree_flatten(data)
    if gd != wd:
      bad(f'read:{name}:structure', f'{gd} expected {wd}')
      continue
    for (path, a), w in zip(jax.tree_util.tree_flatten_with_path(got)[0], wl):
      a = np.asarray(a)
      if a.shape != w.shape:
        bad(f'read:{name}:shape', f'{jax.tree_util.keystr(path)}: {a.shape} expected {w.shape}')
      elif a.dtype != w.dtype or a.tobytes() != np.ascontiguousarray(w).tobytes():
        bad(f'read:{name}:values', f'{jax.tree_util.keystr(path)} not bit-identical')
  return out


replay_dataset = common.per_case(_one_dataset, 'dataset')


# ==========================================================================================
# spectral resampling
# ==========================================================================================

def _one_resample(c):
  np, jax, jnp = _jax()
  from dinosaur import coordinate_systems as cs, spherical_harmonic as sh, sigma_coordinates as sc
  out = []
  brief = {k: c[k] for k in ('src', 'dst', 'mult', 'vertical', 'choice')}

  def bad(sig, detail):
    out.append({'case': brief, 'sig': sig, 'detail': detail})

  mult = c['mult']

  def grid(g, nodes_of=None):
    n = nodes_of or g
    return sh.Grid(longitude_wavenumbers=g['M'], total_wavenumbers=g['L'],
                   longitude_nodes=3 * n['M'] + 1, latitude_nodes=(3 * max(n['M'], n['L']) + 2) // 2,
                   spherical_harmonics_impl=_impl(mult))

  K = 2
  v_src = sc.SigmaCoordinates.equidistant(K)
  v_dst = v_src if c['vertical'] == 'same' else sc.SigmaCoordinates(np.array([0.0, 0.25, 1.0]))
  src = cs.CoordinateSystem(grid(c['src']), v_src)
  dst = cs.CoordinateSystem(grid(c['dst']), v_dst)
  if list(src.horizontal.modal_shape) != c['src_shape'] or list(dst.horizontal.modal_shape) != c['dst_shape']:
    bad('resample:modal_shapes', f'{src.horizontal.modal_shape} {dst.horizontal.modal_shape} '
                                 f'spec {c["src_shape"]} {c["dst_shape"]}')
    return out
  same = c['vertical'] != 'different_allowed'
  if c['choice'] == 'ValueError':
    try:
      cs.get_spectral_interpolate_fn(src, dst, expect_same_vertical=same)
      bad('resample:incompatible_accepted', 'documented ValueError not raised')
    except ValueError:
      pass
    return out
  fn = cs.get_spectral_interpolate_fn(src, dst, expect_same_vertical=same)
  labs = c['labels']
  x = np.zeros((K,) + tuple(c['src_shape']))
  for q, lab in enumerate(labs):
    x[0, lab['from'][0], lab['from'][1]] = q + 1.0
    x[1, lab['from'][0], lab['from'][1]] = -(q + 1.0) / 4
  state = {'u': jnp.asarray(x), 'surface': jnp.asarray(x[:1] * 2), 'sim_time': jnp.asarray(7.5)}
  y = fn(state)
  if sorted(y) != sorted(state):
    bad('resample:structure', str(sorted(y)))
    return out
  if np.asarray(y['sim_time']).shape != () or float(y['sim_time']) != 7.5:
    bad('resample:scalar_changed', repr(y['sim_time']))
  yu = np.asarray(y['u'])
  if yu.shape != (K,) + tuple(c['dst_shape']) or np.asarray(y['surface']).shape != (1,) + tuple(c['dst_shape']):
    bad(f'resample:{c["choice"]}:shape', f'{yu.shape} spec {(K,) + tuple(c["dst_shape"])}')
    return out
  exp = np.zeros_like(yu)
  for q, lab in enumerate(labs):
    if lab['to'] != [-1, -1] and (c['choice'] == 'up' or lab['in_target']):
      exp[0, lab['to'][0], lab['to'][1]] = q + 1.0
      exp[1, lab['to'][0], lab['to'][1]] = -(q + 1.0) / 4
  if c['choice'] == 'up' or mult == 0:
    ok = np.array_equal(yu, exp) and np.array_equal(np.asarray(y['surface']), exp[:1] * 2)
  else:   # padded layouts: positions outside the target's label set are not specified
    msk = exp != 0
    ok = np.array_equal(yu[msk], exp[msk])
  if not ok:
    i = np.argwhere(yu != exp)
    bad(f'resample:{c["choice"]}:positions', f'first differing index {i[0].tolist() if len(i) else None}: '
                                             f'code {yu[tuple(i[0])] if len(i) else None} spec {exp[tuple(i[0])] if len(i) else None}')
  # the two directions called directly are the function the dispatcher chose, and each rejects the other direction
  up = c['choice'] == 'up'
  direct = getattr(cs, 'get_spectral_upsample_fn' if up else 'get_spectral_downsample_fn', None)
  other = getattr(cs, 'get_spectral_downsample_fn' if up else 'get_spectral_upsample_fn', None)
  if direct is not None:
    y2 = direct(src, dst, expect_same_vertical=same)(state)
    for k in state:
      p_, q_ = np.asarray(y2[k]), np.asarray(y[k])
      if p_.shape != q_.shape or p_.tobytes() != q_.tobytes():
        bad(f'resample:{c["choice"]}:direct', f'{direct.__name__} and get_spectral_interpolate_fn disagree on leaf {k!r} ({p_.shape} vs {q_.shape})')
  strictly = all((a_ < b_) if up else (a_ > b_) for a_, b_ in zip(c['src_shape'], c['dst_shape']))
  if other is not None and mult == 0 and strictly:
    try:
      other(src, dst, expect_same_vertical=same)
      bad(f'resample:{c["choice"]}:wrong_direction_accepted', f'{other.__name__} accepted modal shapes {c["src_shape"]} -> {c["dst_shape"]}')
    except ValueError:
      pass
  # orography helpers are the same interpolation / clipping applied to a nodal field
  from dinosaur import primitive_equations as pe
  if hasattr(pe, 'filtered_modal_orography') and hasattr(pe, 'truncated_modal_orography'):
    nodal = np.asarray(src.horizontal.to_nodal(jnp.asarray(x[0])))
    scale0 = float(np.abs(x[0]).max()) + 1.0
    got = np.asarray(pe.filtered_modal_orography(nodal, dst, src))
    want = yu[0]
    msk = np.ones_like(want, bool) if (c['choice'] == 'up' or mult == 0) else (exp[0] != 0)
    if got.shape != want.shape or not np.all(np.abs(got - want)[msk] <= 2048 * EPS * scale0):
      bad(f'orography:filtered:{c["choice"]}', f'filtered_modal_orography differs from the spectral interpolation of the same field by '
                                                f'{np.abs(got - want)[msk].max() if got.shape == want.shape else "shape"}')
    L = c['src']['L']
    for nclip in (1, 2):
      if nclip >= L:
        continue
      got = np.asarray(pe.truncated_modal_orography(nodal, src, wavenumbers_to_clip=nclip))
      want = x[0].copy()
      want[:, L - nclip:] = 0
      if got.shape != want.shape or not np.all(np.abs(got - want) <= 2048 * EPS * scale0):
        j = np.unravel_index(np.argmax(np.abs(got - want)), want.shape) if got.shape == want.shape else None
        bad(f'orography:truncated:{nclip}', f'truncated_modal_orography(n={nclip}) at {j}: code {got[j] if j else got.shape}, '
                                            f'spec {want[j] if j else want.shape} (total wavenumbers >= {L - nclip} must vanish, the rest is kept)')
    try:
      pe.truncated_modal_orography(nodal[:-1], src)
      bad('orography:shape_accepted', 'nodal orography of the wrong shape accepted')
    except ValueError:
      pass
  if c['choice'] == 'up':
    # the reverse pair must choose down-sampling and restore the input bit for bit
    back_fn = cs.get_spectral_interpolate_fn(dst, src, expect_same_vertical=same)
    z = back_fn(y)
    for k in state:
      a, b = np.asarray(z[k]), np.asarray(state[k])
      if a.shape != b.shape or a.tobytes() != b.tobytes():
        bad('roundtrip:up_down', f'{k}: shape {a.shape} vs {b.shape}')
    # same function: nodal values on the target grid
    mixed = grid(c['src'], nodes_of=c['dst'])
    tgt = grid(c['dst'])
    n1 = np.asarray(tgt.to_nodal(y['u']))
    n0 = np.asarray(mixed.to_nodal(state['u']))
    scale = float(np.abs(n0).max()) + 1.0
    if n1.shape != n0.shape or not np.all(np.abs(n1 - n0) <= 512 * EPS * scale):
      bad('resample:up:nodal_values', f'max |diff| {np.abs(n1 - n0).max() if n1.shape == n0.shape else "shape"}')
  return out


replay_resample = common.per_case(_one_resample, 'resample')


# ==========================================================================================
# slicing and conditional maps over pytrees (TreesSlice.tla)
# ==========================================================================================

def _one_slice(c):
  np, jax, jnp = _jax()
  from dinosaur import pytree_utils as pu
  out = []
  brief = {k: c[k] for k in ('op', 'shapes', 'axis', 'same', 'ix')}

  def bad(sig, detail):
    out.append({'case': brief, 'sig': sig, 'detail': detail})
  leaves = [np.arange(int(np.prod(sh, dtype=int)), dtype=np.float64).reshape(tuple(sh)) + 100 * (i + 1)
            for i, sh in enumerate(c['shapes'])]
  tree = {'a': jnp.asarray(leaves[0])}
  if len(leaves) > 1:
    tree['nested'] = {'b': jnp.asarray(leaves[1])}
  if len(leaves) > 2:
    tree['nested']['c'] = jnp.asarray(leaves[2])
  order = lambda t: [t['a']] + ([t['nested']['b']] if len(leaves) > 1 else []) + ([t['nested']['c']] if len(leaves) > 2 else [])
  if c['op'] == 'slice':
    ix = c['ix']['lo'] if c['ix']['kind'] == 'int' else slice(c['ix']['lo'], c['ix']['hi'])
    try:
      got = pu.slice_along_axis(tree, c['axis'], ix, expect_same_dims=c['same'])
      err = False
    except ValueError:
      got, err = None, True
    if err != c['error'] and not (c['lenient'] and err):
      bad('slice:validation', f'slice_along_axis {"raised ValueError" if err else "accepted the arguments"}, spec: {"ValueError" if c["error"] else "accepted"}')
      return out
    if err:
      return out
  elif c['op'] == 'nonscalars':
    got = pu.tree_map_over_nonscalars(lambda x: 2 * x, tree, scalar_fn=lambda x: -x)
  else:
    got = pu.tree_map_where(lambda x: x.ndim == 2, lambda x: 2 * x, lambda x: -x, tree)
  if jax.tree_util.tree_structure(got) != jax.tree_util.tree_structure(tree):
    bad(f'{c["op"]}:structure', 'the tree structure changed')
    return out
  for i, (g, e) in enumerate(zip(order(got), c['out'])):
    g = np.asarray(g)
    want = np.array(e['data'], dtype=np.float64).reshape(tuple(e['shape']))
    if g.shape != want.shape or not np.array_equal(g, want):
      bad(f'{c["op"]}:leaf', f'leaf {i}: shape {g.shape} values {g.ravel().tolist()[:8]}, spec shape {want.shape} values {want.ravel().tolist()[:8]}')
  return out


replay_slice = common.per_case(_one_slice, 'slice')


# ==========================================================================================

_KINDS = {
    'dict': ('TreesDict', 'replay_dict', ['Flatten', 'FlattenReject', 'Unflatten', 'Replace']),
    'array': ('TreesArray', 'replay_array', ['Pack', 'Unpack', 'Stack', 'Unstack', 'SplitReject', 'SplitAlong',
                                             'ConcatAlong', 'SplitAxisReject', 'SplitAxis', 'Rejoin']),
    'attrs': ('TreesAttrs', 'replay_attrs', ['AsDict', 'Persist', 'FromAttrs']),
    'dataset': ('TreesDataset', 'replay_dataset', ['Write', 'Persist', 'Read']),
    'resample': ('TreesResample', 'replay_resample', ['Choose', 'Apply', 'Return']),
    'slice': ('TreesSlice', 'replay_slice', ['CallSlice', 'CallNonscalars', 'CallWhere']),
}


def replay(ctx, kind, cases):
  fn = globals()[_KINDS[kind][1]]
  for m in fn(cases):
    ctx.mismatch(kind, m['case'], m['sig'], m['detail'])


def replay_bins(bins):
  """bins: lists of [kind, case] pairs; a worker receives whole bins (see _bins)."""
  try:      # the generic worker pins itself to core i; several checks running at once then share
    os.sched_setaffinity(0, range(os.cpu_count() or 1))   # the first few cores.  Let the OS place us.
  except (OSError, AttributeError):
    pass
  out = []
  for items in bins:
    for kind, case in items:
      for m in globals()[_KINDS[kind][1]]([case]):
        m['kind'] = kind
        out.append(m)
  return out


_COST = {'dict': 0.5, 'array': 30.0, 'attrs': 3.0, 'dataset': 5.0, 'resample': 50.0, 'slice': 2.0}


def _bins(items, nproc):
  """Packs the cases into nproc bins.  Eager jax compiles one executable per distinct shape
  signature and workers do not share that cache, so cases that share signatures are kept together
  (same array op and leaf count, same spectral layout) and whole groups are bin-packed by cost."""
  groups = {}
  for kind, c in items:
    if kind == 'array':
      key = (kind, c['op'], len(c['shapes']), c['axis'] if c['op'] in ('split', 'splitaxis') else 0)
    elif kind == 'resample':
      key = (kind, c['mult'], c['src']['M'])
    else:
      key = (kind, 0)
    groups.setdefault(key, []).append([kind, c])
  bins = [[0.0, []] for _ in range(nproc)]
  for key, g in sorted(groups.items(), key=lambda kg: -_COST[kg[0][0]] * len(kg[1])):
    b = min(bins, key=lambda x: x[0])
    b[0] += _COST[key[0]] * len(g)
    b[1].extend(g)
  return [b[1] for b in bins if b[1]]


def _defect_class(c):
  """trees on which the as-found duplicate test (first character of the flat empty keys) fires"""
  firsts = [k[0] for k in c['emptykeys']]
  return len(set(firsts)) < len(firsts)


def run(ctx):
  q = ctx.quick
  tier = 'quick' if q else 'thorough'
  nproc = 4 if q else 8
  # design-level counterexamples of the two as-found behaviours (documentation; never a verdict)
  for mod, cfg, inv in (('TreesDict', 'TreesDict_asfound.cfg', 'NoSpuriousDuplicate'),
                        ('TreesDataset', 'TreesDataset_asfound.cfg', 'CodeTableAgrees')):
    r = common.run_tlc(mod, cfg, prop=ctx.prop, workers=1, expect_violation=True, coverage=False)
    if r.violated != inv:
      raise common.MachineryError(f'{cfg}: expected a counterexample to {inv}, got {r.violated}')
    ctx.notes[f'asfound_{mod}'] = f'TLC refutes {inv} for the as-found variant ({cfg})'
  per_kind = {}
  tlc_workers = {'TreesDict': 1 if q else 4}      # its Init enumeration is recomputed per worker
  from concurrent.futures import ThreadPoolExecutor
  with ThreadPoolExecutor(max_workers=3) as pool:
    futs = {kind: pool.submit(ctx.tlc, module, f'{module}_{tier}.cfg', workers=tlc_workers.get(module, 2))
            for kind, (module, _, _) in _KINDS.items()}
    runs = {kind: f.result() for kind, f in futs.items()}
  items = []
  for kind, (module, func, actions) in _KINDS.items():
    r = runs[kind]
    ctx.require_actions(r, actions)
    if not r.cases:
      raise common.MachineryError(f'{module}: no cases exported')
    items += [[kind, c] for c in r.cases]
  bins = _bins(items, nproc)
  res = common.parallel_map('c19', 'replay_bins', bins, nproc=len(bins), tag='all', outdir=os.path.join(ctx.out, 'par'))
  for m in res:
    ctx.mismatch(m['kind'], m['case'], m['sig'], m['detail'])
  # the same dataset round trips under JAX's default configuration (x64 disabled): float64 states must
  # still come back bit-identical
  ds32 = [['dataset', c] for c in runs['dataset'].cases[ctx.seed % 3::3]]
  res32 = common.parallel_map('c19', 'replay_bins', _bins(ds32, 2), nproc=2, tag='x64off', env={'VERIF_X64': '0'},
                              outdir=os.path.join(ctx.out, 'par'))
  for m in res32:
    ctx.mismatch(m['kind'], m['case'], m['sig'] + ':x64_disabled', m['detail'])
  ctx.replayed += len(ds32)
  ctx.notes['dataset_cases_under_default_precision'] = len(ds32)
  for kind in _KINDS:
    cases = runs[kind].cases
    ctx.replayed += len(cases)
    per_kind[kind] = len(cases)
    if kind == 'dict':
      ok = [c for c in cases if c['verdict'] == 'done']
      ctx.comparisons += 12 * len(ok) + (len(cases) - len(ok))
      ctx.notes['dict_trees'] = len(cases)
      ctx.notes['dict_trees_with_separator_key'] = len(cases) - len(ok)
      ctx.notes['dict_trees_in_first_character_class'] = sum(1 for c in ok if _defect_class(c))
      for c in cases:
        ctx.distinct.add(('dict', c['sep'], str(c['leaves']), str(c['empty'])))
      for c in [c for c in ok if len(c['empty']) >= 2 and len(c['leaves']) >= 1][:1]:
        ctx.sample({'kind': 'dict', 'sep': c['sep'], 'leaves': c['leaves'], 'empty': c['empty'],
                    'flat_keys': [''.join(e['key']) for e in c['flat']],
                    'empty_keys': [''.join(k) for k in c['emptykeys']]})
    elif kind == 'array':
      ctx.comparisons += 4 * len(cases)
      for c in cases:
        ctx.distinct.add(('array', c['op'], c['axis'], str(c['shapes']), c['arg'], c['flag']))
      for c in [c for c in cases if c['op'] == 'pack' and len(c['shapes']) == 2][:1]:
        ctx.sample({'kind': 'array', 'op': 'pack', 'axis': c['axis'], 'shapes': c['shapes'], 'packed': c['mid'][0]})
    elif kind == 'attrs':
      ctx.comparisons += 3 * 9 * len(cases)
      for c in cases:
        ctx.distinct.add(('attrs', str(c['grid']), str(c['vertical'])))
      ctx.sample({'kind': 'attrs', 'attrs': cases[len(cases) // 2]['attrs']})
    elif kind == 'dataset':
      ctx.comparisons += sum(4 * len(c['vars']) for c in cases)
      for c in cases:
        ctx.distinct.add(('dataset', str(c['grid']), c['K'], c['eq'], c['rep'], c['ntr'], c['sample'], c['time']))
      ctx.notes['dataset_cases_with_ambiguous_shapes'] = sum(1 for c in cases if any(v['ambiguous'] for v in c['vars']))
      for c in [c for c in cases if c['eq'] == 'primitive' and c['ntr'] and c['time'] and c['sample']][:1]:
        ctx.sample({'kind': 'dataset', 'K': c['K'], 'rep': c['rep'], 'vars': c['vars'][3:5], 'sizes': c['sizes']})
    elif kind == 'slice':
      ctx.comparisons += sum(max(1, len(c['out'])) for c in cases)
      for c in cases:
        ctx.distinct.add(('slice', c['op'], str(c['shapes']), c['axis'], c['same'], str(c['ix'])))
    else:
      ctx.comparisons += sum(len(c['labels']) + 1 for c in cases)
      for c in cases:
        ctx.distinct.add(('resample', str(c['src']), str(c['dst']), c['mult'], c['vertical']))
  ctx.notes['cases_per_machine'] = per_kind
  ctx.assumptions += [
      'structural comparisons (keys, dimension names, shapes, element positions, attribute values, '
      'read-back bytes) are exact; the only tolerance is 512 ulp (relative to max |value| + 1) for '
      'nodal values of an up-sampled field against the same coefficients synthesised on the target nodes',
      'leaf values are opaque tags (dict) / 100*leaf + row-major index (array), so every element names its origin',
      'the spherical harmonics implementation and device mesh are not part of "the same discretisation" '
      '(coordinate_system_from_attrs deliberately does not restore them)',
      'for shapes that are ambiguous in a configuration (nodal shape = modal shape) only "no exception, data '
      'preserved" is asserted; down-sampling on padded layouts is asserted on the target label set only',
      'split_along_axis with a negative axis and expect_same_dims=True is treated as unspecified (either outcome)',
      'zarr / tensorstore persistence is not exercised (netCDF bytes in memory only)',
  ]
  return ctx.finish(
      rule='one case per terminal behaviour of five machines: every nested dictionary with <= MaxNodes entries '
           'x separator; every (op, axis, leaf-shape list, argument) of the array utilities; every coordinate '
           'system of the Grid x vertical lattice; every (grid, layers, equation set, representation, tracers, '
           'sample/time axes) state; every ordered pair of grids x layout x vertical relation')
