"""C05: tendencies match the continuous equations; balanced states are exactly steady.
Spec: Balanced (polynomial algebra in mu = sin(lat) with rational coefficients): for three families of
analytically balanced states - solid-body rotation in gradient-wind balance with per-level
temperatures and uniform humidity (primitive equations, every reference-temperature split),
isothermal rest over orography (label by label), band-limited zonal jets of the layered
shallow-water system - TLC evaluates the divergence tendency of the *continuous* equations term by
term and checks that the total is the zero polynomial; the terms are exported.

Replay: each exported member is instantiated on real grids (both implementations) with real
equation objects; explicit_terms + implicit_terms must vanish relative to the size of the individual
terms, and the recorded sub-terms of the code (curl/div tendencies, kinetic energy, implicit
divergence, humidity correction, orography term) must equal the spec's continuous terms evaluated
pointwise at the grid nodes - which is what exposes a wrong factor in one term.
"""
from __future__ import annotations

import json
import math
import os

from harness import common, dataflow, spectral
from harness.common import frac, fl

SQRT4PI = dataflow.SQRT4PI


def _poly(p, mu):
  """evaluate a spec polynomial (list of [n, d]) at numpy array mu."""
  out = 0.0 * mu
  for i, c in enumerate(p):
    out = out + fl(c) * mu ** i
  return out


def _seq(x):
  """TLC exports functions with domain 1..n as lists; tolerate dict form."""
  if isinstance(x, dict):
    return [x[k] for k in sorted(x, key=int)]
  return x


LEVELS = {1: [0, 1.0], 2: [0, 0.3, 1.0], 3: [0, 0.2, 0.55, 1.0]}


def _solid_one(c):
  np, jax, jnp = spectral.np_jax()
  from dinosaur import primitive_equations as pe, scales
  out = []
  cfg, res = c['cfg'], _seq(c['out'])
  key = {k: cfg[k] for k in ('a', 'omega', 'A', 'U', 'mq', 'split')}

  def bad(sig, detail):
    out.append({'case': c, 'sig': sig, 'detail': f'{key} grid={c["grid"]} class={cls}: {detail}'})

  a, omega, A, Rgas, mq = fl(cfg['a']), fl(cfg['omega']), fl(cfg['A']), fl(cfg['gas']), fl(cfg['mq'])
  U = [fl(u) for u in cfg['U']]
  K = len(U)
  classes = ['dry', 'time'] if mq == 0 else ['moist', 'cloud']
  for cls in classes:
    q0 = 1.0 / 32
    Rv = Rgas * (1 + mq / q0) if mq else 1.61 * Rgas
    specs = pe.PrimitiveEquationsSpecs(radius=a, angular_velocity=omega, gravity_acceleration=1.0, ideal_gas_constant=Rgas,
                                       water_vapor_gas_constant=Rv, water_vapor_isobaric_heat_capacity=1.9 * Rgas * 3.5,
                                       kappa=2.0 / 7, scale=scales.DEFAULT_SCALE)
    grid = dataflow.make_grid(c['grid'], radius=a)
    lon, sinlat = grid.nodal_mesh
    mu = np.asarray(sinlat, np.float64)
    I, J = grid.longitude_nodes, grid.latitude_nodes
    tn = dataflow.tracer_names(cls, 0)
    modal = lambda nod: np.asarray(grid.to_modal(jnp.asarray(nod)))
    vor = np.stack([modal(_poly(res[k]['zeta'], mu)) for k in range(K)])
    fields = dict(vorticity=vor, divergence=np.zeros_like(vor),
                  temperature_variation=np.zeros_like(vor), log_surface_pressure=modal(0.1 + A * mu ** 2)[None],
                  orography=np.zeros(grid.modal_shape), tracers={})
    tref = np.array([fl(res[k]['Tref']) for k in range(K)])
    for k in range(K):
      fields['temperature_variation'][k, 0, 0] = (fl(res[k]['T']) - tref[k]) * SQRT4PI
    for t in tn:
      x = np.zeros_like(vor)
      if t == 'specific_humidity':
        x[:, 0, 0] = q0 * SQRT4PI
      fields['tracers'][t] = x
    eq, st = dataflow.build_pe(cls, grid, LEVELS[K], tref, fields, specs=specs)
    rec = dataflow.Recorder(eq).run(st)
    L = grid.total_wavenumbers

    def nodal_of(x):
      x = np.array(x, np.float64)
      x[..., L - 1:] = 0
      return np.asarray(grid.to_nodal(jnp.asarray(x)))[..., :I, :J]
    muv = mu[:I, :J]
    terms = {'curl_and_div_tendencies.divergence': 'curl_div_divergence', 'kinetic_energy_tendency': 'kinetic',
             'implicit.divergence': 'implicit_divergence'}
    if cls in ('moist', 'cloud'):
      terms['divergence_tendency_due_to_humidity'] = 'humidity_divergence'
    scale = 1e-300
    for name, sk in terms.items():
      got = nodal_of(rec[name])
      want = np.stack([_poly(res[k][sk], muv) for k in range(K)])
      scale = max(scale, np.abs(want).max())
      err = np.abs(got - want).max()
      if not err <= 1e-10 * max(np.abs(want).max(), 1e-3):
        k = int(np.unravel_index(np.argmax(np.abs(got - want)), got.shape)[0])
        bad(f'term:solid:{name}', f'level {k}: the code\'s sub-term differs from the continuous term {sk} = {res[k][sk]} by {err:.3e} '
            f'(term size {np.abs(want).max():.3e})')
    for f in ('vorticity', 'divergence', 'temperature_variation', 'log_surface_pressure'):
      tot = np.asarray(rec['explicit.' + f]) + np.asarray(rec['implicit.' + f])
      err = np.abs(tot).max()
      if not np.isfinite(err) or err > 1e-10 * scale:
        bad(f'steady:solid:{f}', f'total {f} tendency of the balanced rotation is {err:.3e}, individual terms are {scale:.3e}')
    for t in tn:
      tot = np.asarray(rec['explicit.tracers.' + t])
      if np.abs(tot).max() > 1e-10 * scale:
        bad(f'steady:solid:tracer', f'tendency of the uniform tracer {t} is {np.abs(tot).max():.3e}')
  return out


def _rest_one(c):
  np, jax, jnp = spectral.np_jax()
  from dinosaur import primitive_equations as pe, scales
  out = []
  cfg, res = c['cfg'], _seq(c['out'])
  key = {k: cfg[k] for k in ('a', 'l', 'T0', 'split')}

  def bad(sig, detail):
    out.append({'case': c, 'sig': sig, 'detail': f'{key} grid={c["grid"]}: {detail}'})
  a, l, g, Rgas, T0 = fl(cfg['a']), cfg['l'], fl(cfg['g']), fl(cfg['gas']), fl(cfg['T0'])
  K = 3
  specs = pe.PrimitiveEquationsSpecs(radius=a, angular_velocity=0.7, gravity_acceleration=g, ideal_gas_constant=Rgas,
                                     water_vapor_gas_constant=1.6 * Rgas, water_vapor_isobaric_heat_capacity=6.0 * Rgas,
                                     kappa=2.0 / 7, scale=scales.DEFAULT_SCALE)
  grid = dataflow.make_grid(c['grid'], radius=a)
  L = grid.total_wavenumbers
  if l > L - 2:
    return out
  ms = np.asarray(grid.modal_axes[0])
  mask = np.asarray(grid.mask)
  rows = [r for r in range(grid.modal_shape[0]) if mask[r, l]]
  tref = np.array([fl(res[k]['implicit']) / fl(res[k]['lnps']) for k in range(K)])    # = lam_a R Tref_k
  lam_a = l * (l + 1) / a ** 2
  tref = tref / (lam_a * Rgas)
  for cls in ('dry', 'moist'):
    for r in rows[:: max(1, len(rows) // 3)]:
      h = np.zeros(grid.modal_shape); h[r, l] = 1.0
      z = np.zeros((K,) + tuple(grid.modal_shape))
      T = z.copy()
      T[:, 0, 0] = (T0 - tref) * SQRT4PI
      lnps = (fl(res[0]['lnps']) * h)[None].copy()
      lnps[0, 0, 0] += 0.3
      tr = {'specific_humidity': z.copy()} if cls == 'moist' else {}
      fields = dict(vorticity=z, divergence=z, temperature_variation=T, log_surface_pressure=lnps, orography=h, tracers=tr)
      eq, st = dataflow.build_pe(cls, grid, LEVELS[K], tref, fields, specs=specs)
      rec = dataflow.Recorder(eq).run(st)
      for k in range(K):
        for name, sk in (('orography_tendency', 'orography'), ('curl_and_div_tendencies.divergence', 'explicit_pgrad'),
                         ('implicit.divergence', 'implicit')):
          x = np.asarray(rec[name])
          got = x[k, r, l] if x.ndim == 3 else x[r, l]
          want = fl(res[k][sk])
          if not abs(got - want) <= 1e-11 * (abs(want) + 1):
            bad(f'term:rest:{name}', f'{cls} level {k}, label row {r} (m={int(ms[r])}), l={l}: the code has {got!r}, the continuous term {sk} is {want!r}')
      for f in ('vorticity', 'divergence', 'temperature_variation', 'log_surface_pressure'):
        tot = np.asarray(rec['explicit.' + f]) + np.asarray(rec['implicit.' + f])
        sc = abs(fl(res[0]['orography'])) + 1e-300
        if not np.abs(tot).max() <= 1e-10 * sc:
          bad(f'steady:rest:{f}', f'{cls}: total {f} tendency of the resting isothermal atmosphere over orography (row {r}, l={l}) is '
              f'{np.abs(tot).max():.3e}; the orography term alone is {sc:.3e}')
  # the library's own constructor of the flat member of this family (primitive_equations_states.isothermal_rest_atmosphere,
  # no orography, no pressure perturbation): at rest, isothermal at T0 on every level, ln ps = ln p0 everywhere, and steady
  try:
    from dinosaur import primitive_equations_states as pes, xarray_utils, coordinate_systems, sigma_coordinates
  except ImportError:
    pes = None
  if pes is not None and hasattr(pes, 'isothermal_rest_atmosphere') and l == 1:
    units = scales.units
    coords = coordinate_systems.CoordinateSystem(grid, sigma_coordinates.SigmaCoordinates(np.asarray(LEVELS[K], np.float64)))
    for p0 in (3e4, 1e5):
      fn, aux = pes.isothermal_rest_atmosphere(coords, specs, tref=T0 * units.degK, p0=p0 * units.pascal)
      st = fn(jax.random.PRNGKey(int(p0) % 7))
      want_lnps = float(np.log(float(specs.nondimensionalize(p0 * units.pascal))))
      ref = np.asarray(aux[xarray_utils.REF_TEMP_KEY], np.float64)
      oro = np.asarray(aux[xarray_utils.OROGRAPHY], np.float64)
      if ref.shape != (K,) or not np.abs(ref - T0).max() <= 1e-13 * T0:
        bad('constructor:rest:reference_temperature', f'isothermal_rest_atmosphere(tref={T0} K) returns reference temperatures {ref.tolist()}')
      if np.abs(oro).max() != 0:
        bad('constructor:rest:orography', f'the flat isothermal_rest_atmosphere returns a non-zero orography (max {np.abs(oro).max():.3e})')
      for f in ('vorticity', 'divergence', 'temperature_variation'):
        x = np.asarray(getattr(st, f))
        if x.shape != (K,) + tuple(grid.modal_shape) or np.abs(x).max() != 0:
          bad(f'constructor:rest:{f}', f'the resting isothermal state has a non-zero (or mis-shaped, {x.shape}) {f}')
      nod = np.asarray(grid.to_nodal(st.log_surface_pressure))[..., :grid.longitude_nodes, :grid.latitude_nodes]   # padded layouts carry padding nodes
      if not np.abs(nod - want_lnps).max() <= 1e-11 * abs(want_lnps):
        bad('constructor:rest:log_surface_pressure', f'p0={p0} Pa: ln ps of the flat resting state ranges over [{nod.min()!r}, {nod.max()!r}], '
            f'ln of the non-dimensional p0 is {want_lnps!r}')
      eq = pe.PrimitiveEquations(ref, grid.to_modal(jnp.asarray(oro)), coords, specs)
      ex, im = eq.explicit_terms(st), eq.implicit_terms(st)
      sc = L * (L + 1) / a ** 2 * Rgas * T0 * abs(want_lnps) + 1e-300
      for f in ('vorticity', 'divergence', 'temperature_variation', 'log_surface_pressure'):
        err = np.abs(np.asarray(getattr(ex, f)) + np.asarray(getattr(im, f))).max()
        if not np.isfinite(err) or err > 1e-10 * sc:
          bad(f'steady:constructor:rest:{f}', f'p0={p0} Pa: total {f} tendency of the state built by isothermal_rest_atmosphere is {err:.3e} '
              f'(pressure-gradient scale {sc:.3e})')
  return out


def _jet_one(c):
  np, jax, jnp = spectral.np_jax()
  from dinosaur import coordinate_systems, layer_coordinates, shallow_water as sw, scales
  out = []
  cfg, res = c['cfg'], _seq(c['out'])
  key = {k: cfg[k] for k in ('a', 'omega', 'V', 'rho')}

  def bad(sig, detail):
    out.append({'case': c, 'sig': sig, 'detail': f'{key} grid={c["grid"]}: {detail}'})
  a, omega = fl(cfg['a']), fl(cfg['omega'])
  NL = len(res)
  rho = np.array([1.0] * NL) if cfg['rho'] == 'equal' else np.array([(i + 2) / 2.0 for i in range(NL)])
  specs = sw.ShallowWaterSpecs(densities=rho, radius=a, angular_velocity=omega, gravity_acceleration=1.0, scale=scales.DEFAULT_SCALE)
  grid = dataflow.make_grid(c['grid'], radius=a)
  coords = coordinate_systems.CoordinateSystem(grid, layer_coordinates.LayerCoordinates(NL))
  _, sinlat = grid.nodal_mesh
  mu = np.asarray(sinlat, np.float64)
  C = np.array([[fl(x) for x in _seq(res[i]['couple'])] for i in range(NL)])
  M = np.stack([_poly(res[i]['M'], mu) for i in range(NL)])
  phi = np.linalg.solve(C, M.reshape(NL, -1)).reshape(M.shape) + 3.0          # any constant may be added
  modal = lambda nod: np.asarray(grid.to_modal(jnp.asarray(nod)))
  vor = np.stack([modal(_poly(res[i]['zeta'], mu)) for i in range(NL)])
  pot = np.stack([modal(phi[i]) for i in range(NL)])
  eq = sw.ShallowWaterEquations(coords, specs, None, np.linspace(2.0, 1.0, NL))
  st = sw.State(jnp.asarray(vor), jnp.zeros_like(jnp.asarray(vor)), jnp.asarray(pot))
  ex, im = eq.explicit_terms(st), eq.implicit_terms(st)
  scale = float(np.abs(np.asarray(im.divergence)).max()) + 1e-300
  for f in ('vorticity', 'divergence', 'potential'):
    tot = np.asarray(getattr(ex, f)) + np.asarray(getattr(im, f))
    err = np.abs(tot).max()
    if not np.isfinite(err) or err > 1e-10 * scale:
      bad(f'steady:jet:{f}', f'{NL} layer(s), densities {rho.tolist()}: total {f} tendency of the balanced jet is {err:.3e}; the '
          f'pressure-gradient term alone is {scale:.3e}')
  # the library's own constructors of balanced jets (shallow_water_states.one_layer / multi_layer): the state they build is the
  # one the machine's Construct algebra predicts (vorticity, zero-mean layer potentials from the coupling matrix), and at the
  # rotation rate the constructor assumes (2 Omega = 1) it is steady on a sphere of any radius
  try:
    from dinosaur import shallow_water_states as sws
  except ImportError:
    sws = None
  if sws is not None and hasattr(sws, 'multi_layer') and 'Mc' in res[0]:
    mu1 = np.asarray(grid.nodal_axes[1], np.float64)
    u = np.stack([np.sqrt(1.0 - mu1 ** 2) * _poly(res[i]['V'], mu1) for i in range(NL)])
    lib = sws.multi_layer(jnp.asarray(u), rho, coords)
    Mc = np.stack([_poly(res[i]['Mc'], mu) for i in range(NL)])
    want_pot = np.stack([modal(x) for x in np.linalg.solve(C, Mc.reshape(NL, -1)).reshape(Mc.shape)])
    want_pot[:, 0, 0] = 0.0
    for f, want in (('vorticity', vor), ('divergence', np.zeros_like(vor)), ('potential', want_pot)):
      got = np.asarray(getattr(lib, f))
      err = np.abs(got - want).max() if got.shape == want.shape else np.inf
      if not err <= 1e-11 * (np.abs(want).max() + 1.0):
        bad(f'constructor:jet:{f}', f'{NL} layer(s), densities {rho.tolist()}: shallow_water_states.multi_layer returns a {f} that differs '
            f'from the balanced state of the specification by {err:.3e}')
    if NL == 1 and hasattr(sws, 'one_layer'):
      one = sws.one_layer(jnp.asarray(u[0]), grid)
      for f in ('vorticity', 'divergence', 'potential'):
        d = np.abs(np.asarray(getattr(one, f)) - np.asarray(getattr(lib, f))[0]).max()
        if not d <= 1e-12 * (np.abs(np.asarray(getattr(lib, f))).max() + 1.0):
          bad(f'constructor:jet:one_layer:{f}', f'one_layer and multi_layer with a single layer disagree on {f} by {d:.3e}')
    if abs(omega - 0.5) < 1e-15:
      ex, im = eq.explicit_terms(lib), eq.implicit_terms(lib)
      scale = float(np.abs(np.asarray(im.divergence)).max()) + 1e-300
      for f in ('vorticity', 'divergence', 'potential'):
        err = np.abs(np.asarray(getattr(ex, f)) + np.asarray(getattr(im, f))).max()
        if not np.isfinite(err) or err > 1e-10 * scale:
          bad(f'steady:constructor:{f}', f'{NL} layer(s), densities {rho.tolist()}, radius {a}: total {f} tendency of the state built by '
              f'shallow_water_states.multi_layer is {err:.3e}; the pressure-gradient term alone is {scale:.3e}')
  return out


_FAM = {'solid': _solid_one, 'rest': _rest_one, 'jet': _jet_one}


def _one(c):
  return common.settle(_FAM[c['cfg']['family']](c), lambda g: g.startswith('steady:') or ':exception:' in g)


replay_balanced = common.per_case(_one, 'balanced')


# ----------------------------------------------------------------------------------------------
# column family (ColumnTendency.tla): unbalanced states with exact non-zero tendencies
# ----------------------------------------------------------------------------------------------

def _column_group(cases):
  """All (d, tp) cases of one (level set, reference profile, kappa): one equation object, one
  vmapped evaluation of explicit_terms + implicit_terms; the (m=0, l=1) coefficient of every
  tendency must be the exported column value and every other coefficient must vanish."""
  import math
  np, jax, jnp = spectral.np_jax()
  from dinosaur import coordinate_systems, primitive_equations as pe, scales, sigma_coordinates
  from harness.c04 import _form
  out = []
  c0 = cases[0]
  b = np.array(c0['b'], np.float64) / c0['den']
  K = len(b) - 1
  kappa = fl(c0['kappa'])
  grid = dataflow.make_grid(c0.get('grid') or dict(M=3))
  coords = coordinate_systems.CoordinateSystem(grid, sigma_coordinates.SigmaCoordinates(b))
  specs = pe.PrimitiveEquationsSpecs(radius=1.0, angular_velocity=1.0, gravity_acceleration=1.0,
                                     ideal_gas_constant=1.5, water_vapor_gas_constant=2.0,
                                     water_vapor_isobaric_heat_capacity=3.0, kappa=kappa, scale=scales.DEFAULT_SCALE)
  centers = (b[1:] + b[:-1]) / 2
  alpha = [math.log(centers[j + 1] / centers[j]) / 2 for j in range(K - 1)] + [-math.log(centers[-1])]
  eq = pe.PrimitiveEquations(np.array(c0['tref'], np.float64), jnp.zeros(grid.modal_shape), coords, specs)
  i00, i01 = (0, 0), (0, 1)      # (m, l) = (0, 0) and (0, 1): row 0 is m = 0 in both layouts
  n = len(cases)
  zeros = np.zeros((n, K) + grid.modal_shape)
  div, tp = zeros.copy(), zeros.copy()
  div[(slice(None), slice(None)) + i01] = np.array([c['d'] for c in cases], np.float64)
  tp[(slice(None), slice(None)) + i00] = np.array([c['tp'] for c in cases], np.float64) * dataflow.SQRT4PI
  lnps = np.zeros((n, 1) + grid.modal_shape)
  lnps[(slice(None), slice(None)) + i00] = 0.25 * dataflow.SQRT4PI
  state = pe.State(jnp.asarray(zeros), jnp.asarray(div), jnp.asarray(tp), jnp.asarray(lnps), {'q': jnp.asarray(tp)})
  total = jax.vmap(lambda s: jax.tree_util.tree_map(lambda x, y: x + y, eq.explicit_terms(s), eq.implicit_terms(s)))(state)
  got = {'temperature': np.asarray(total.temperature_variation), 'tracer': np.asarray(total.tracers['q']),
         'lnps': np.asarray(total.log_surface_pressure)}
  for i, c in enumerate(cases):
    exp = {'temperature': np.array([_form(f, alpha) for f in c['temperature']]),
           'tracer': np.array([fl(v) for v in c['tracer']]), 'lnps': np.array([fl(c['lnps'])])}
    for name in ('temperature', 'tracer', 'lnps'):
      y = got[name][i]
      e = np.zeros_like(y)
      e[(slice(None),) + i01] = exp[name]
      scale = 1.0 + np.max(np.abs(exp[name])) + np.max(np.abs(c['d'])) * (1 + np.max(np.abs(c['tp'])) + np.max(np.abs(c['tref'])))
      err = np.max(np.abs(y - e))
      if not err <= 1e-12 * scale:
        j = np.unravel_index(np.argmax(np.abs(y - e)), y.shape)
        out.append({'case': c, 'sig': f'steady:column:{name}',
                    'detail': f'b={c["b"]}/{c["den"]} tref={c["tref"]} d={c["d"]} tp={c["tp"]}: total {name} tendency, level {int(j[0])}, '
                              f'modal index {tuple(int(v) for v in j[1:])}: code {y[j]!r}, continuous equations with the documented '
                              f'vertical differences {e[j]!r}'})
  return out


def replay_column(groups):
  out = []
  for g in groups:
    out.extend(common.per_case(lambda cs: _column_group(cs), 'steady:column')([g]))
  return out


# ----------------------------------------------------------------------------------------------
# polynomial fields on the sphere (SpherePoly.tla / ShallowWaterPoly.tla): non-zonal, unbalanced
# ----------------------------------------------------------------------------------------------

def _peval(terms, X, Y, Z):
  """exported polynomial [[i, j, k, n, d], ...] at the nodes."""
  np, _, _ = spectral.np_jax()
  out = np.zeros_like(X)
  for i, j, k, n, d in terms:
    out = out + (n / d) * X ** i * Y ** j * Z ** k
  return out


def _swpoly_one(c):
  np, jax, jnp = spectral.np_jax()
  from dinosaur import coordinate_systems, layer_coordinates, shallow_water as sw, scales
  out = []
  a, omega = fl(c['a']), fl(c['omega'])
  NL = len(c['layers'])
  brief = {'a': c['a'], 'omega': c['omega'], 'psi': [l['psi'] for l in c['layers']], 'chi': [l['chi'] for l in c['layers']],
           'phi': [l['phi'] for l in c['layers']], 'oro': c['oro'], 'grid': c['grid']}

  def bad(sig, detail):
    out.append({'case': c, 'sig': sig, 'detail': f'{brief}: {detail}'})
  rho = np.array([fl(r) for r in c['rho']])
  phibar = np.array([fl(r) for r in c['phibar']])
  specs = sw.ShallowWaterSpecs(densities=rho, radius=a, angular_velocity=omega, gravity_acceleration=1.0, scale=scales.DEFAULT_SCALE)
  grid = dataflow.make_grid(c['grid'], radius=a)
  coords = coordinate_systems.CoordinateSystem(grid, layer_coordinates.LayerCoordinates(NL))
  lon, sinlat = (np.asarray(v, np.float64) for v in grid.nodal_mesh)
  cosl = np.sqrt(1 - sinlat ** 2)
  X, Y, Z = cosl * np.cos(lon), cosl * np.sin(lon), sinlat
  real = np.zeros(X.shape, bool)
  real[:grid.longitude_nodes, :grid.latitude_nodes] = True      # padded layouts carry padding nodes
  modal = lambda nod: np.asarray(grid.to_modal(jnp.asarray(nod)))
  ev = lambda t: np.where(real, _peval(t, X, Y, Z), 0.0)
  vor = np.stack([modal(ev(l['zeta'])) for l in c['layers']])
  div = np.stack([modal(ev(l['delta'])) for l in c['layers']])
  pot = np.stack([modal(ev(l['phi'])) for l in c['layers']])
  oro = jnp.asarray(modal(ev(c['oro']))) if c['oro'] else None
  eq = sw.ShallowWaterEquations(coords, specs, oro, phibar)
  st = sw.State(jnp.asarray(vor), jnp.asarray(div), jnp.asarray(pot))
  ex, im = eq.explicit_terms(st), eq.implicit_terms(st)
  for f in ('vorticity', 'divergence', 'potential'):
    tot = np.asarray(grid.to_nodal(jnp.asarray(np.asarray(getattr(ex, f)) + np.asarray(getattr(im, f)))))
    exp = np.stack([ev(l[f]) for l in c['layers']])
    scale = 1.0 + float(np.abs(exp).max())
    err = np.where(real, np.abs(tot - exp), 0.0)
    if not np.all(np.isfinite(tot)) or err.max() > 2e-10 * scale:
      j = np.unravel_index(np.argmax(err), err.shape)
      bad(f'steady:swpoly:{f}', f'total {f} tendency at layer {int(j[0])}, node (lon {lon[j[1], j[2]]:.4f}, sin(lat) {sinlat[j[1], j[2]]:.4f}): '
          f'code {tot[j]!r}, continuous equations {exp[j]!r} (max |field| {scale - 1:.3g})')
  return out


replay_swpoly = common.per_case(_swpoly_one, 'steady:swpoly')


def _pepoly_one(c):
  """PrimitivePoly.tla: dry primitive equations with a tracer on two levels, polynomial fields."""
  import math
  np, jax, jnp = spectral.np_jax()
  from dinosaur import coordinate_systems, primitive_equations as pe, scales, sigma_coordinates
  out = []
  brief = {k: c[k] for k in ('b', 'tref', 'ch', 'grid')}

  def bad(sig, detail):
    out.append({'case': c, 'sig': sig, 'detail': f'{brief}: {detail}'})
  b = np.array(c['b'], np.float64) / c['den']
  K = len(b) - 1
  kappa, Rgas, omega = fl(c['kappa']), fl(c['gas']), fl(c['omega'])
  grav = 2.0
  grid = dataflow.make_grid(c['grid'])
  coords = coordinate_systems.CoordinateSystem(grid, sigma_coordinates.SigmaCoordinates(b))
  specs = pe.PrimitiveEquationsSpecs(radius=1.0, angular_velocity=omega, gravity_acceleration=grav,
                                     ideal_gas_constant=Rgas, water_vapor_gas_constant=2.0,
                                     water_vapor_isobaric_heat_capacity=3.0, kappa=kappa, scale=scales.DEFAULT_SCALE)
  centers = (b[1:] + b[:-1]) / 2
  alpha = [math.log(centers[j + 1] / centers[j]) / 2 for j in range(K - 1)] + [-math.log(centers[-1])]
  lon, sinlat = (np.asarray(v, np.float64) for v in grid.nodal_mesh)
  cosl = np.sqrt(1 - sinlat ** 2)
  X, Y, Z = cosl * np.cos(lon), cosl * np.sin(lon), sinlat
  real = np.zeros(X.shape, bool)
  real[:grid.longitude_nodes, :grid.latitude_nodes] = True
  ev = lambda t: np.where(real, _peval(t, X, Y, Z), 0.0)

  def aev(x):       # atom-linear polynomial: {'0': poly, '1': poly, ...} or list
    items = x.items() if isinstance(x, dict) else enumerate(x)
    tot = np.zeros_like(X)
    for a, t in items:
      a = int(a)
      tot = tot + (1.0 if a == 0 else alpha[a - 1]) * ev(t)
    return tot
  modal = lambda nod: np.asarray(grid.to_modal(jnp.asarray(nod)))
  lv = c['levels']
  st = pe.State(jnp.asarray(np.stack([modal(ev(l['zeta'])) for l in lv])), jnp.asarray(np.stack([modal(ev(l['delta'])) for l in lv])),
                jnp.asarray(np.stack([modal(ev(l['tp'])) for l in lv])), jnp.asarray(modal(ev(c['s']))[None]),
                {'q': jnp.asarray(np.stack([modal(ev(l['q'])) for l in lv]))})
  eq = pe.PrimitiveEquations(np.array(c['tref'], np.float64), jnp.asarray(modal(ev(c['oro']) / grav)), coords, specs)
  ex, im = eq.explicit_terms(st), eq.implicit_terms(st)
  tot = jax.tree_util.tree_map(lambda x, y: np.asarray(grid.to_nodal(x + y)), ex, im)
  exp = {'vorticity': np.stack([ev(l['vorticity']) for l in lv]), 'divergence': np.stack([aev(l['divergence']) for l in lv]),
         'temperature_variation': np.stack([aev(l['temperature']) for l in lv]), 'log_surface_pressure': ev(c['lnps'])[None],
         'tracer': np.stack([ev(l['tracer']) for l in lv])}
  got = {'vorticity': tot.vorticity, 'divergence': tot.divergence, 'temperature_variation': tot.temperature_variation,
         'log_surface_pressure': tot.log_surface_pressure, 'tracer': tot.tracers['q']}
  worst = [0.0]

  def compare(tag, got, exp):
    for f in exp:
      scale = 1.0 + float(np.abs(exp[f]).max())
      err = np.where(real, np.abs(got[f] - exp[f]), 0.0)
      if np.all(np.isfinite(err)):
        worst[0] = max(worst[0], float(err.max()) / scale)
      if not np.all(np.isfinite(got[f])) or err.max() > 2e-10 * scale:
        j = np.unravel_index(np.argmax(err), err.shape)
        bad(f'steady:pepoly:{tag}{f}', f'total {f} tendency at level {int(j[0])}, node (lon {lon[j[1], j[2]]:.4f}, sin(lat) {sinlat[j[1], j[2]]:.4f}): '
            f'code {got[f][j]!r}, continuous equations {exp[f][j]!r} (max |field| {scale - 1:.3g}, max error {err.max():.3e})')
  compare('', got, exp)
  # the equation classes are ordinary (mutable) dataclasses: an object whose orography is re-assigned after it has
  # been evaluated must behave like a freshly built one (nothing derived from the old field may be kept)
  import copy
  oro2 = jnp.asarray(modal(ev(c['oro']) / grav) * 2 + modal(ev(c['s'])))
  eq_mut = copy.copy(eq)
  eq_mut.orography = oro2
  eq_new = pe.PrimitiveEquations(np.array(c['tref'], np.float64), oro2, coords, specs)
  d_mut, d_new = np.asarray(eq_mut.explicit_terms(st).divergence), np.asarray(eq_new.explicit_terms(st).divergence)
  if not np.array_equal(d_mut, d_new):
    bad('steady:pepoly:reassigned_orography', f'explicit divergence tendency of an equation object whose orography was re-assigned after '
        f'an evaluation differs from a freshly built one by {np.abs(d_mut - d_new).max():.3e}')
  # moist momentum equations: the tracer as specific humidity (virtual temperature in the pressure-gradient and geopotential terms)
  if 'moist_vorticity' in lv[0]:
    specs_m = pe.PrimitiveEquationsSpecs(radius=1.0, angular_velocity=omega, gravity_acceleration=grav,
                                         ideal_gas_constant=Rgas, water_vapor_gas_constant=fl(c['gasv']),
                                         water_vapor_isobaric_heat_capacity=3.0, kappa=kappa, scale=scales.DEFAULT_SCALE)
    stm = pe.StateWithTime(st.vorticity, st.divergence, st.temperature_variation, st.log_surface_pressure,
                           tracers={'specific_humidity': st.tracers['q']}, sim_time=jnp.asarray(0.0))
    eqm = pe.MoistPrimitiveEquations(np.array(c['tref'], np.float64), jnp.asarray(modal(ev(c['oro']) / grav)), coords, specs_m)
    exm, imm = eqm.explicit_terms(stm), eqm.implicit_terms(stm)
    nod = lambda a, b_: np.asarray(grid.to_nodal(a + b_))
    gotm = {'vorticity': nod(exm.vorticity, imm.vorticity), 'divergence': nod(exm.divergence, imm.divergence),
            'log_surface_pressure': nod(exm.log_surface_pressure, imm.log_surface_pressure),
            'tracer': nod(exm.tracers['specific_humidity'], imm.tracers['specific_humidity'])}
    expm = {'vorticity': np.stack([ev(l['moist_vorticity']) for l in lv]), 'divergence': np.stack([aev(l['moist_divergence']) for l in lv]),
            'log_surface_pressure': exp['log_surface_pressure'], 'tracer': exp['tracer']}
    compare('moist:', gotm, expm)
  out.append({'sig': '__stat__', 'case': None, 'detail': '', 'worst_rel': worst[0]})
  return out


replay_pepoly = common.per_case(_pepoly_one, 'steady:pepoly')


def replay(ctx, kind, cases):
  if kind == 'column':
    for m in replay_column([cases]):
      ctx.record(kind, m)
    return
  if kind == 'swpoly':
    for m in replay_swpoly(cases):
      ctx.record(kind, m)
    return
  if kind == 'pepoly':
    for m in replay_pepoly(cases):
      ctx.record(kind, m)
    return
  for m in replay_balanced(cases):
    ctx.record(kind, m)


GRIDS = {'solid': [dict(M=5, impl='real'), dict(M=4, impl='fast', mult=4), dict(M=6, impl='real', offset=0.4)],
         'rest': [dict(M=5, impl='real'), dict(M=4, impl='fast', mult=2)],
         'jet': [dict(M=9, impl='real'), dict(M=8, impl='fast', mult=4)]}


def run(ctx):
  q = ctx.quick
  # the six machines are independent: model check them side by side (results are consumed below in the old order)
  from concurrent.futures import ThreadPoolExecutor
  pool = ThreadPoolExecutor(4)
  jobs = {
      'balanced': pool.submit(ctx.tlc, 'Balanced', 'Balanced.cfg', workers=4),
      'column': pool.submit(ctx.tlc, 'ColumnTendency', 'ColumnTendency_quick.cfg' if q else 'ColumnTendency_thorough.cfg', workers=4),
      'sw1': pool.submit(ctx.tlc, 'ShallowWaterPoly', 'ShallowWaterPoly_1.cfg', tag='swpoly1', workers=4),
      'sw2': pool.submit(ctx.tlc, 'ShallowWaterPoly', 'ShallowWaterPoly_2.cfg', tag='swpoly2', workers=4),
      'pe': pool.submit(ctx.tlc, 'PrimitivePoly', 'PrimitivePoly_quick.cfg' if q else 'PrimitivePoly_thorough.cfg', tag='pepoly', workers=4, timeout=7200),
      'pe3': pool.submit(ctx.tlc, 'PrimitivePoly', 'PrimitivePoly_deep.cfg' if q else 'PrimitivePoly_deep_thorough.cfg', tag='pepoly3', workers=4, timeout=7200),
  }
  r = jobs['balanced'].result()
  ctx.require_actions(r, ['Solid', 'Rest', 'Jet'])
  # the balanced-jet constructor as found (meridional derivatives without the metric factor 1/a) must be refuted by TLC
  ra = ctx.tlc('Balanced', 'Balanced_asfound.cfg', expect_violation=True, tag='asfound', coverage=False, workers=2)
  if not ra.violated:
    raise common.MachineryError('TLC did not refute the as-found balanced-jet constructor (Balanced_asfound.cfg)')
  items = []
  for i, c in enumerate(r.cases):
    fam = c['cfg']['family']
    gs = GRIDS[fam]
    for j, g in enumerate(gs):
      if q and (i + j) % len(gs):
        continue
      d = dict(c); d['grid'] = g
      items.append(d)
  res = common.parallel_map('c05', 'replay_balanced', items, tag='b', outdir=os.path.join(ctx.out, 'par'))
  ctx.replayed += len(items)
  ctx.comparisons += sum(8 if c['cfg']['family'] == 'solid' else 12 if c['cfg']['family'] == 'rest' else 3 for c in items)
  for c in items:
    ctx.distinct.add(json.dumps([c['cfg'], c['grid']], sort_keys=True))
  for m in res:
    ctx.record('balanced', m)
  for fam in ('solid', 'rest', 'jet'):
    ctx.sample(next(c for c in items if c['cfg']['family'] == fam))
  # column family: unbalanced states whose exact (non-zero) tendencies the machine derives
  rc = jobs['column'].result()
  ctx.require_actions(rc, ['BuildH', 'BuildHs', 'BuildG'])
  groups = {}
  for c in rc.cases:
    groups.setdefault(json.dumps([c['b'], c['tref'], c['kappa']]), []).append(c)
  groups = [sorted(g, key=lambda c: (c['d'], c['tp'])) for _, g in sorted(groups.items())]
  if len(groups) < 50 or not any(any(c['tp']) and len(c['b']) > 2 for g in groups for c in g):
    raise common.MachineryError('vacuous export of ColumnTendency')
  for i, g in enumerate(groups):
    if i % 3 == 1:
      for c in g:
        c['grid'] = dict(M=3, impl='fast', mult=2)
  for m in common.parallel_map('c05', 'replay_column', groups, tag='col', outdir=os.path.join(ctx.out, 'par')):
    ctx.record('column', m)
  ctx.replayed += len(rc.cases)
  ctx.comparisons += 3 * len(rc.cases)
  for c in rc.cases:
    ctx.distinct.add(json.dumps(['column', c['b'], c['tref'], c['kappa'], c['d'], c['tp']]))
  ctx.sample({'column': next(c for c in rc.cases if len(c['b']) == 4 and any(c['tp']))})
  ctx.notes['column_family_cases'] = len(rc.cases)
  # polynomial fields on the sphere: non-zonal unbalanced shallow-water states, total tendency pointwise
  sw_cases = []
  for layers in (1, 2):
    rs = jobs[f'sw{layers}'].result()
    ctx.require_actions(rs, ['Diagnose', 'Vorticity', 'Divergence', 'Potential'])
    cs = sorted(rs.cases, key=lambda c: json.dumps(c, sort_keys=True))
    if len(cs) < 100 or not any(l['vorticity'] for c in cs for l in c['layers']):
      raise common.MachineryError('vacuous export of ShallowWaterPoly')
    sw_cases += cs[ctx.seed % 4::4] if (q and layers == 1) else cs[ctx.seed % 2::2] if q else cs
  grids = [dict(M=6), dict(M=6, impl='fast', mult=4), dict(M=7, offset=0.3)]
  for i, c in enumerate(sw_cases):
    c['grid'] = grids[i % len(grids)]
  for m in common.parallel_map('c05', 'replay_swpoly', sw_cases, tag='swp', outdir=os.path.join(ctx.out, 'par')):
    ctx.record('swpoly', m)
  ctx.replayed += len(sw_cases)
  ctx.comparisons += 3 * len(sw_cases)
  for c in sw_cases:
    ctx.distinct.add(json.dumps(['swpoly', c['a'], c['omega'], c['oro'], [[l['psi'], l['chi'], l['phi']] for l in c['layers']], c['grid']]))
  ctx.sample({'shallow_water_polynomial_state': {k: sw_cases[len(sw_cases) // 2][k] for k in ('a', 'omega', 'oro', 'grid')},
              'layer0': sw_cases[len(sw_cases) // 2]['layers'][0]})
  ctx.notes['shallow_water_polynomial_cases'] = len(sw_cases)
  # ... and the dry primitive equations with a tracer on two levels (cubic products: larger grids)
  rp = jobs['pe'].result()
  ctx.require_actions(rp, ['Diagnose', 'Vorticity', 'Divergence', 'Temperature', 'Rest'])
  rp3 = jobs['pe3'].result()
  pool.shutdown()
  ctx.tlc_runs.sort(key=lambda r_: (r_.module, r_.cfg))
  ctx.require_actions(rp3, ['Diagnose', 'Vorticity', 'Divergence', 'Temperature', 'Rest'])     # three levels: an interior level
  if not any(len(c['b']) == 4 for c in rp3.cases):
    raise common.MachineryError('PrimitivePoly: no three-level case exported')
  pe_cases = sorted(rp.cases + rp3.cases, key=lambda c: json.dumps([c['b'], c['tref'], c['ch']]))
  if len(pe_cases) < 8:
    raise common.MachineryError('vacuous export of PrimitivePoly')
  pgrids = [dict(M=10), dict(M=10, impl='fast', mult=4), dict(M=11, offset=0.2)]
  for i, c in enumerate(pe_cases):
    c['grid'] = pgrids[(i + ctx.seed) % len(pgrids)]
  worst = 0.0
  for m in common.parallel_map('c05', 'replay_pepoly', pe_cases, tag='pep', outdir=os.path.join(ctx.out, 'par')):
    if m['sig'] == '__stat__':
      worst = max(worst, m['worst_rel'])
    else:
      ctx.record('pepoly', m)
  ctx.notes['primitive_polynomial_worst_relative_error'] = worst      # budget 2e-10
  ctx.replayed += len(pe_cases)
  ctx.comparisons += 5 * len(pe_cases)
  for c in pe_cases:
    ctx.distinct.add(json.dumps(['pepoly', c['b'], c['tref'], c['ch'], c['grid']]))
  ctx.sample({'primitive_polynomial_state': {k: pe_cases[0][k] for k in ('b', 'tref', 'ch', 's', 'oro', 'grid')},
              'level0_temperature_tendency': pe_cases[0]['levels'][0]['temperature']})
  ctx.notes['primitive_polynomial_cases'] = len(pe_cases)
  ctx.assumptions += [
      'the first clause in full generality (pointwise agreement with the continuous equations on all alias-free inputs) is decided only on '
      'the zonal-polynomial subspace, the resting family, the column family (one harmonic of divergence over horizontally uniform '
      'temperature / tracer / surface pressure: temperature, tracer and surface-pressure tendencies) and, for the layered shallow-water '
      'equations, on arbitrary (non-zonal, unbalanced) combinations of harmonics of degree <= 2 written as polynomials in (x, y, z) '
      '(SpherePoly.tla: products of fields are polynomials, no Gaunt coefficients needed), and for the dry primitive equations with a tracer on two levels (PrimitivePoly.tla: all five tendencies, log-sigma atoms kept symbolic); the moist variants and more than two levels are decided on the balanced / column families only '
      'arithmetic; steady_state_jw (transcendental profile) and the library-built shallow-water states are not used as oracles',
      'zero means < 1e-10 of the largest individual term of the same equation']
  return ctx.finish(rule='one case per balanced configuration of Balanced.tla (solid-body rotation: radius x rotation rate x surface-pressure '
                         'curvature x per-level winds x humidity x split; rest: radius x total wavenumber x split, 3 labels; jets: 1-3 layers x '
                         'polynomial profiles x densities) x grids; column family: one case per (level set, reference profile, divergence column, temperature column); shallow-water polynomial family: one case per (psi, chi, phi) menu choice x radius x rotation x orography x 1-2 layers x grid; primitive polynomial family: one case per (level set, reference profile, menu choice of psi/chi/temperature/ln ps/orography per level) x grid')
