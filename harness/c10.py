"""C10: dynamics are equivariant under grid-step rotations about the polar axis and the mirror.
Spec: Symmetry (group Z_I x Z_2 acting on nodes and on labels; d/dlon commutes with rotations),
SpectralAlgebra (ParityFlip: latitude operators flip the mirror sign), Dataflow (mirror typing of
every node of explicit_terms / implicit_terms; every constant field zonal).

Replay:
 * action: for every exported (I, J, k, mirror) the real synthesis of every basis label on real
   grids (both implementations) is rolled / flipped in nodal index space and analysed again: the
   result must be the spec's label action (turn fractions, quarter-turn matrices, (-1)^(l+m)).
 * model: for every Dataflow configuration the real equations run on x and on g.x (g applied in
   nodal index space; vorticity as a pseudo-scalar) with every sub-term recorded: each recorded
   node must transform with exactly the mirror sign the spec assigns to it and be rotation
   covariant; total tendencies and 3-step trajectories of every integrator / filter stack must
   commute with g.
"""
from __future__ import annotations

import functools
import json
import math
import os

from harness import common, dataflow, spectral
from harness.common import frac, fl

TWO_PI = 2 * math.pi


# ----------------------------------------------------------------------------------------------
# the action on labels vs real transforms
# ----------------------------------------------------------------------------------------------

def _rows_of(grid):
  """row -> (|m|, 'c' | 's' | None) with None for dead / padding rows."""
  import numpy as np
  ms = np.asarray(grid.modal_axes[0])
  M = grid.longitude_wavenumbers
  out, seen0 = [], False
  for r, m in enumerate(ms):
    m = int(m)
    if m == 0:
      out.append((0, 'c') if not seen0 else None)
      seen0 = True
    elif abs(m) < M:
      out.append((abs(m), 'c' if m > 0 else 's'))
    else:
      out.append(None)
  return out


def _action_one(c):
  np, jax, jnp = spectral.np_jax()
  out = []
  I, J, k, mir = c['I'], c['J'], c['k'], c['mir']
  act = c['act']
  act = {int(m): v for m, v in (act.items() if isinstance(act, dict) else enumerate(act))}
  key = dict(I=I, J=J, k=k, mirror=mir)

  def bad(sig, detail):
    out.append({'case': c, 'sig': sig, 'detail': f'{key}: {detail}'})

  Mw = min(len(act), J)
  for impl, offset, stacked in (('real', 0.0, None), ('fast', 0.37, False), ('real', TWO_PI / I, None), ('fast', 0.0, True)):
    g = dict(M=Mw, L=J, impl=impl, mult=2, I=I, J=J, offset=offset, stacked=stacked, reverse=stacked)
    try:
      grid = dataflow.make_grid(g)
    except Exception as ex:   # pylint: disable=broad-except
      bad('action:grid', f'{type(ex).__name__}: {ex}')
      continue
    rows = _rows_of(grid)
    L = grid.total_wavenumbers
    mask = np.asarray(grid.mask)
    for r, lab in enumerate(rows):
      if lab is None:
        continue
      m, ph = lab
      partner = next((q for q, lb in enumerate(rows) if lb == (m, 's' if ph == 'c' else 'c')), None)
      for l in range(m, L):
        if not mask[r, l]:
          continue
        e = np.zeros(grid.modal_shape); e[r, l] = 1.0
        x = np.asarray(grid.to_nodal(jnp.asarray(e)))
        y = x.copy()                                  # padded nodal layouts: only real nodes move
        y[:I, :J] = np.roll(x[:I, :J], k, axis=0)
        if mir:
          y[:I, :J] = y[:I, :J][:, ::-1]
        z = np.asarray(grid.to_modal(jnp.asarray(y)))
        a = TWO_PI * fl(act[m]['turn'])
        if act[m]['exact']:
          cc, cs, sc, ss = act[m]['mat']
        else:
          cc, cs, sc, ss = math.cos(a), -math.sin(a), math.sin(a), math.cos(a)
        sgn = (-1) ** (l + m) if mir else 1
        exp = np.zeros(grid.modal_shape)
        # unit c-coefficient -> (new_c, new_s) = (cc, sc); unit s-coefficient -> (cs, ss)
        own, other = (cc, sc) if ph == 'c' else (ss, cs)
        exp[r, l] = sgn * own
        if partner is not None:
          exp[partner, l] = sgn * other
        elif abs(other) > 1e-12:
          bad('action:rows', f'label m={m} has no partner row')
        err = np.abs(z - exp).max()
        if not err <= 256 * spectral.EPS * max(I, J):
          bad(f'action:{"mirror" if mir else "rotation"}:{impl}{":stacked" if stacked else ""}',
              f'label (m={m}, l={l}, {ph}): analysis of the moved harmonic differs from the spec action by {err:.3e} '
              f'(turn {act[m]["turn"]}, sign {sgn})')
  return out


replay_action = common.per_case(_action_one, 'action')


# ----------------------------------------------------------------------------------------------
# equivariance of the model
# ----------------------------------------------------------------------------------------------

class G:
  """group element acting on nodal arrays (.., lon, lat) and, through the transforms, on modal ones."""

  def __init__(self, grid, k, mir):
    self.grid, self.k, self.mir = grid, k, mir

  def nodal(self, x):
    import numpy as np
    I, J = self.grid.longitude_nodes, self.grid.latitude_nodes      # padded nodal layouts: only real nodes move
    y = np.array(x, dtype=np.float64)
    blk = np.roll(y[..., :I, :J], self.k, axis=-2)
    y[..., :I, :J] = blk[..., ::-1] if self.mir else blk
    return y

  def modal(self, x, pseudo=False):
    import numpy as np
    import jax.numpy as jnp
    y = np.asarray(self.grid.to_modal(jnp.asarray(self.nodal(self.grid.to_nodal(jnp.asarray(x))))))
    return -y if (pseudo and self.mir) else y

  def fields(self, f):
    out = dict(f)
    for kx in ('vorticity', 'divergence', 'temperature_variation', 'log_surface_pressure', 'orography', 'potential'):
      if kx in f and f[kx] is not None:
        out[kx] = self.modal(f[kx], pseudo=(kx == 'vorticity'))
    out['tracers'] = {kx: self.modal(v) for kx, v in f.get('tracers', {}).items()}
    return out


def _spec_nodes(c):
  return {n['n']: n for n in c['nodes']}


_ALIAS = {'specific_humidity': 'q', dataflow.CLOUD[0]: 'ql', dataflow.CLOUD[1]: 'qi', 'age0': 'q'}


def _spec_name(rec_name):
  for k, v in _ALIAS.items():
    if rec_name.endswith('.' + k):
      return rec_name[: -len(k)] + v
  return rec_name


def _compare_nodes(np, grid, g, recx, recg, nodes, bad, tag, tol=1e-10):
  import jax.numpy as jnp
  n_checked = 0
  for name in sorted(recx):
    sname = _spec_name(name)
    if sname not in nodes or name not in recg:
      continue
    a, b = np.asarray(recx[name]), np.asarray(recg[name])
    if a.ndim < 2:
      continue
    is_modal = a.shape[-2:] == tuple(grid.modal_shape) and nodes[sname]['form'] == 'modal'
    if is_modal:
      a, b = np.asarray(grid.to_nodal(jnp.asarray(a))), np.asarray(grid.to_nodal(jnp.asarray(b)))
    if a.shape[-2:] != tuple(grid.nodal_shape) or a.size == 0:       # (no inner boundaries on a single layer)
      continue
    ga = g.nodal(a)
    sc = max(np.abs(a).max(), np.abs(b).max(), 1e-300)
    ep, em = np.abs(b - ga).max() / sc, np.abs(b + ga).max() / sc
    want = nodes[sname]['mir'] if g.mir else 1
    n_checked += 1
    if np.abs(a).max() < 1e-290 and np.abs(b).max() < 1e-290:
      continue
    got = 1 if ep <= tol else (-1 if em <= tol else 0)
    if not np.all(np.isfinite(b)) or got != want:
      what = {1: 'as a scalar (+1)', -1: 'as a pseudo-scalar (-1)', 0: 'neither as +1 nor as -1'}[got]
      bad(f'{tag}:node:{sname}', f'under {"mirror" if g.mir else "rotation"} (k={g.k}) this node transforms {what} '
          f'(rel. residuals +:{ep:.2e} -:{em:.2e}); the spec types it {want:+d}')
  return n_checked


def _model_one(c):
  np, jax, jnp = spectral.np_jax()
  from dinosaur import (coordinate_systems, filtering, layer_coordinates, primitive_equations as pe, scales,
                        shallow_water as sw, time_integration as ti)
  out = []
  cls = c['class']
  key = {k: c[k] for k in ('class', 'oro', 'tracer', 'grid', 'K', 'seed')}

  def bad(sig, detail):
    out.append({'case': {k: v for k, v in c.items() if k != 'nodes'}, 'sig': sig, 'detail': f'{key}: {detail}'})

  grid = dataflow.make_grid(c['grid'])
  I = grid.longitude_nodes
  nodes = _spec_nodes(c)
  K = c['K']
  elements = [(0, True), (1, False), (c['seed'] % (I - 2) + 2, False), (I // 4 if I % 4 == 0 else 3, True)]
  if cls == 'sw':
    coords = coordinate_systems.CoordinateSystem(grid, layer_coordinates.LayerCoordinates(K))
    specs = sw.ShallowWaterSpecs.from_si(np.linspace(1.0, 1.6, K) * scales.units.kg / scales.units.m ** 3)
    f0 = dataflow.random_fields(grid, K, c['seed'])
    fields = dict(vorticity=f0['vorticity'], divergence=f0['divergence'], potential=f0['temperature_variation'] * 2e-2,
                  orography=f0['orography'] * 10 if c['oro'] else None)
    refpot = np.linspace(1.0, 0.5, K)

    def build(f):
      eq = sw.ShallowWaterEquations(coords, specs, None if f['orography'] is None else jnp.asarray(f['orography']), refpot)
      st = sw.State(jnp.asarray(f['vorticity']), jnp.asarray(f['divergence']), jnp.asarray(f['potential']))
      return eq, st
    dt = 2e-3
  else:
    tn = dataflow.tracer_names(cls, 1 if c['tracer'] else 0)
    fields = dataflow.random_fields(grid, K, c['seed'], tracers=tn)
    tref = np.linspace(220.0, 285.0, K)

    def build(f):
      return dataflow.build_pe(cls if cls != 'dry' or not c['tracer'] else 'dry', grid, dataflow_levels(K), tref, f)
    dt = 1e-3

  eq, st = build(fields)

  def run(eq_, st_):
    if cls == 'sw':
      ex, im = eq_.explicit_terms(st_), eq_.implicit_terms(st_)
      rec = {}
      for tag, t in (('explicit', ex), ('implicit', im)):
        for fk, v in t.asdict().items():
          rec[f'{tag}.{fk}'] = np.asarray(v)
      return rec
    return dataflow.Recorder(eq_).run(st_)
  recx = run(eq, st)
  ncmp = 0
  for (k, mir) in elements:
    g = G(grid, k, mir)
    eqg, stg = build(g.fields(fields))
    recg = run(eqg, stg)
    ncmp += _compare_nodes(np, grid, g, recx, recg, nodes, bad, f'equivariance:{cls}')
    if c['oro'] and (k, mir) == elements[1]:
      # the transformed problem posed by re-assigning the orography of the object that was already evaluated
      # (the equation classes are mutable dataclasses) must be the same problem as a freshly built one
      import copy
      eqm = copy.copy(eq)
      eqm.orography = eqg.orography
      a_, b_ = np.asarray(eqm.explicit_terms(stg).divergence), np.asarray(eqg.explicit_terms(stg).divergence)
      if not np.array_equal(a_, b_):
        bad(f'equivariance:{cls}:node:explicit.divergence:reassigned_orography',
            f'rotated problem (k={k}): an equation object whose orography was re-assigned after an evaluation gives a divergence '
            f'tendency that differs from a freshly built object by {np.abs(a_ - b_).max():.3e}')
  # trajectories: every integrator x filter stack, 3 steps
  stacks = [('imex_rk_sil3', []), ('crank_nicolson_rk2', ['exp']), ('crank_nicolson_rk3', ['diff']),
            ('backward_forward_euler', ['exp', 'diff']), ('crank_nicolson_rk4', [])]
  pick = stacks if c.get('all_stacks') else [stacks[c['seed'] % len(stacks)], stacks[(c['seed'] + 2) % len(stacks)]]

  def stepper(eq_, name, filt):
    fs = []
    for f_ in filt:
      fs.append(ti.exponential_step_filter(grid, dt, tau=0.01, order=2) if f_ == 'exp'
                else ti.horizontal_diffusion_step_filter(grid, dt, tau=0.05, order=1))
    return ti.step_with_filters(getattr(ti, name)(eq_, dt), fs)

  def leaves(s):
    d = s.asdict()
    o = {}
    for fk, v in d.items():
      if fk == 'tracers':
        for tk in sorted(v):
          o['tracers.' + tk] = np.asarray(v[tk])
      elif v is not None and np.ndim(v) >= 2:
        o[fk] = np.asarray(v)
    return o
  for name, filt in pick:
    s = st
    step = jax.jit(stepper(eq, name, filt))
    for _ in range(3):
      s = step(s)
    base = leaves(s)
    for (k, mir) in elements[::2] if not c.get('all_stacks') else elements:
      g = G(grid, k, mir)
      eqg, stg = build(g.fields(fields))
      sg = stg
      stepg = jax.jit(stepper(eqg, name, filt))
      for _ in range(3):
        sg = stepg(sg)
      got = leaves(sg)
      for fk, a in base.items():
        want = g.modal(a, pseudo=(fk == 'vorticity'))
        sc = max(np.abs(a).max(), 1e-300)
        err = np.abs(got[fk] - want).max() / sc
        if not np.isfinite(err) or err > 1e-9:
          bad(f'trajectory:{cls}:{name}:{fk}', f'3 steps ({"+".join(filt) or "no filter"}) of the {"mirrored" if mir else "rotated"} '
              f'state (k={k}) differ from the transformed trajectory by {err:.3e} (relative)')
  out.append({'case': None, 'sig': '__stat__', 'detail': '', 'n': ncmp})
  prop = lambda g: (':node:explicit.' in g or ':node:implicit.' in g or g.startswith('trajectory:') or ':exception:' in g)
  return common.settle(out, prop)


def dataflow_levels(K):
  return {1: [0, 1.0], 2: [0, 0.3, 1.0], 3: [0, 0.2, 0.55, 1.0], 4: [0, 0.1, 0.3, 0.7, 1.0]}[K]


replay_model = common.per_case(_model_one, 'model')
REPLAYERS = {'action': replay_action, 'model': replay_model}


def replay(ctx, kind, cases):
  for m in REPLAYERS[kind](cases):
    if m['sig'] != '__stat__':
      ctx.record(kind, m)


GRIDS = [dict(M=5, impl='real'), dict(M=4, impl='fast', mult=4, offset=0.2), dict(M=5, impl='real', I=17, J=9),
         dict(M=4, impl='fast', mult=1, I=16, J=8, stacked=True, reverse=True), dict(M=6, impl='fast', mult=2, stacked=True),
         dict(M=3, L=5, impl='real', offset=0.5), dict(M=4, impl='real', I=16, J=8)]


def _expand(cases, quick, seed):
  out = []
  for i, c in enumerate(cases):
    grids = GRIDS[:4] if quick else GRIDS
    for j, g in enumerate(grids):
      if quick and (i + j) % 2:
        continue
      d = dict(c)
      K = (3, 2, 4, 1)[(i + j) % 4] if c['class'] != 'sw' else (2, 1, 3)[(i + j) % 3]
      d.update(grid=g, K=K, seed=seed * 100 + 7 * i + j, all_stacks=not quick and j == 0)
      out.append(d)
  return out


def run(ctx):
  q = ctx.quick
  rs = ctx.tlc('Symmetry', 'Symmetry.cfg')
  ctx.require_actions(rs, ['NodeStep', 'LabelStep'])
  ra = ctx.tlc('SpectralAlgebra', 'SpectralAlgebra_quick.cfg')       # ParityFlip, Tridiagonal
  rd = ctx.tlc('Dataflow', 'Dataflow.cfg')
  ctx.require_actions(rd, ['Eval'])
  acases = [c for i, c in enumerate(rs.cases) if not q or i % 3 == 0]
  mcases = _expand(rd.cases, q, ctx.seed)
  res = common.parallel_map('c10', 'replay_action', acases, tag='a', outdir=os.path.join(ctx.out, 'par'))
  res += common.parallel_map('c10', 'replay_model', mcases, tag='m', outdir=os.path.join(ctx.out, 'par'))
  ctx.replayed += len(acases) + len(mcases)
  for m in res:
    if m['sig'] == '__stat__':
      ctx.comparisons += m['n']
    else:
      ctx.record('action' if m['sig'].startswith('action') else 'model', m)
  ctx.comparisons += len(acases) * 30
  for c in acases:
    ctx.distinct.add(json.dumps([c['I'], c['J'], c['k'], c['mir']]))
  for c in mcases:
    ctx.distinct.add(json.dumps([c['class'], c['oro'], c['tracer'], c['grid'], c['K']]))
  ctx.sample({k: acases[7][k] for k in ('I', 'J', 'k', 'mir', 'act')})
  ctx.sample({k: mcases[3][k] for k in ('class', 'oro', 'tracer', 'grid', 'K')}
             | {'typed_nodes': [(n['n'], n['mir']) for n in mcases[3]['nodes'] if n['n'].startswith(('curl', 'explicit'))]})
  ctx.assumptions += [
      'group elements are applied in nodal index space (roll / flip) and carried to modal space by the transforms; states are '
      'band limited so this is exact; arbitrary rotations and other axes are not symmetries of the discrete system',
      'states are seeded random admissible states: equivariance is a polynomial identity in the state, sampled not enumerated']
  return ctx.finish(rule='one action case per (I, J, k, mirror) x 3 grids x every label; one model case per Dataflow configuration x '
                         '(grid, layers) x 4 group elements (all recorded nodes) + 2..5 integrator/filter stacks x 3 steps')
