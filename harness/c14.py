"""C14: stepping and scan combinators equal their sequential definition.

Spec modules: CombTrajectory, CombNested, CombAccum, CombDFI (+ trace/TraceCombTrajectory).
Spec -> code: every terminal behaviour TLC exports is executed in the real combinators with a
state that is a *log array* (every application appends its token), so the returned frames
literally are the histories the spec predicts.  Code -> spec: eager runs of the real
combinators (toy steps and the real shallow-water leapfrog trajectory) log one event per
step / filter call and TraceCombTrajectory must accept them.
"""
from __future__ import annotations

import json
import math
import os

from harness import common
from harness.common import frac

CAP = 160


def _jax():
  import jax
  jax.config.update('jax_enable_x64', True)
  import jax.numpy as jnp
  return jax, jnp


# ----------------------------------------------------------------------------------------
# trajectory_from_step / step_with_filters / repeated
# ----------------------------------------------------------------------------------------

def _log_system(nf, events=None):
  jax, jnp = _jax()

  def s0():
    return {'log': jnp.full((CAP,), -1, jnp.int64), 'ptr': jnp.asarray(0, jnp.int32),
            'clock': jnp.asarray(0.0, jnp.float64), 'vec': jnp.zeros((3,), jnp.float64)}

  def step(s):
    if events is not None:
      events.append({'e': 'Step', 'n': int(s['ptr']) // (1 + nf)})
    return {'log': s['log'].at[s['ptr']].set(0), 'ptr': s['ptr'] + 1,
            'clock': s['clock'] + 0.25, 'vec': s['vec'] + 1.0}

  def mk_filter(i):
    def _f(u, un):
      if events is not None:
        events.append({'e': 'Filter', 'i': i, 'u': int(u['ptr']) // (1 + nf)})
      return {'log': un['log'].at[un['ptr']].set(1000 * i + u['ptr']), 'ptr': un['ptr'] + 1,
              'clock': un['clock'], 'vec': un['vec']}
    return _f
  return s0, step, [mk_filter(i) for i in range(1, nf + 1)]


def _decode(log, ptr):
  return [int(x) for x in list(log[:int(ptr)])]


def _traj_one(c):
  """Returns list of mismatch dicts (empty when the code follows the spec)."""
  jax, jnp = _jax()
  from dinosaur import time_integration as ti
  out = []
  if True:
    nf, outer, inner, swi = c['nf'], c['outer'], c['inner'], c['swi']
    s0, step, filters = _log_system(nf)
    for mode in c.get('modes', ['eager', 'jit']):
      fn = ti.trajectory_from_step(ti.step_with_filters(step, filters), outer, inner,
                                   start_with_input=swi)
      if mode == 'jit':
        fn = jax.jit(fn)
      if mode == 'eager':
        try:
          with jax.disable_jit():
            final, frames = fn(s0())
        except Exception as ex:   # pylint: disable=broad-except
          if not common.harness_artifact(ex):
            raise
          final, frames = fn(s0())     # eager mode unavailable for this implementation: traced execution
      else:
        final, frames = fn(s0())
      got_frames = [_decode(frames['log'][q], frames['ptr'][q]) for q in range(outer)]
      got_final = _decode(final['log'], final['ptr'])
      if len(frames['ptr']) != outer or got_frames != c['frames']:
        out.append({'case': c, 'sig': f'traj:frames:{mode}',
                    'detail': f'frames {got_frames} != spec {c["frames"]}'})
      if got_final != c['final']:
        out.append({'case': c, 'sig': f'traj:final:{mode}',
                    'detail': f'final {got_final} != spec {c["final"]}'})
      # non-history leaves follow the step count (clock = steps/4, vec = steps)
      steps_final = c['final'].count(0)
      if float(final['clock']) != 0.25 * steps_final or float(final['vec'][2]) != steps_final:
        out.append({'case': c, 'sig': f'traj:leaves:{mode}',
                    'detail': f'clock {float(final["clock"])} after {steps_final} steps'})
      for q in range(outer):
        if float(frames['clock'][q]) != 0.25 * c['frames'][q].count(0):
          out.append({'case': c, 'sig': f'traj:frameleaves:{mode}', 'detail': f'frame {q}'})
    # post_process_fn is applied to the selected frame
    fn = ti.trajectory_from_step(ti.step_with_filters(step, filters), outer, inner,
                                 start_with_input=swi, post_process_fn=lambda s: s['ptr'] * 2)
    try:
      with jax.disable_jit():
        _, pp = fn(s0())
    except Exception as ex:   # pylint: disable=broad-except
      if not common.harness_artifact(ex):
        raise
      _, pp = fn(s0())
    if [int(x) for x in pp] != [2 * len(f) for f in c['frames']]:
      out.append({'case': c, 'sig': 'traj:post_process',
                  'detail': f'{[int(x) for x in pp]} != {[2 * len(f) for f in c["frames"]]}'})
    # repeated(fn, n) = n applications (n = outer*inner; n = 1 returns fn itself)
    n = outer * inner
    rep = ti.repeated(ti.step_with_filters(step, filters), n)
    try:
      with jax.disable_jit('scan' not in c.get('modes', [])):
        fin = rep(s0())
    except Exception as ex:   # pylint: disable=broad-except
      if not common.harness_artifact(ex):
        raise
      fin = rep(s0())
    if _decode(fin['log'], fin['ptr']) != c['final']:
      out.append({'case': c, 'sig': 'traj:repeated',
                  'detail': f'repeated({n}) {_decode(fin["log"], fin["ptr"])} != {c["final"]}'})
  return out


replay_traj = common.per_case(_traj_one, 'traj')


# ----------------------------------------------------------------------------------------
# nested_checkpoint_scan
# ----------------------------------------------------------------------------------------

def replay_nested(cases):
  jax, jnp = _jax()
  import numpy as np
  from dinosaur import time_integration as ti
  out = []

  def f(carry, x):
    c, (log, ptr) = carry['c'], carry['h']
    xv, pos, m = x['x'], x['pos'], x['m']
    new = {'c': 2 * c + xv, 'h': (log.at[ptr].set(pos), ptr + 1)}
    return new, {'y': c * xv + 1, 'pos': pos, 'v': jnp.stack([xv, m[0], m[1] + xv])}

  import contextlib

  def one(c):
    with (contextlib.nullcontext() if c.get('real') else jax.disable_jit()):
      return _replay_nested_one(c, f)
  return common.per_case(one, 'nested')(cases)


def _replay_nested_one(c, f):
  jax, jnp = _jax()
  import numpy as np
  from dinosaur import time_integration as ti
  out = []
  lens = c['lens']
  n = len(c['xs'])
  xs = {'x': jnp.asarray(c['xs'], jnp.float64), 'pos': jnp.arange(1, n + 1, dtype=jnp.int64),
        'm': jnp.asarray(c['xm'], jnp.float64)}
  init = {'c': jnp.asarray(float(c['init'])),
          'h': (jnp.full((CAP,), -1, jnp.int64), jnp.asarray(0, jnp.int32))}
  for length in (None, n):
    carry, outs = ti.nested_checkpoint_scan(f, init, xs, length, nested_lengths=lens)
    got = [int(v) for v in np.asarray(outs['y'])]
    if outs['y'].shape != (n,) or got != c['outs'] or int(carry['c']) != c['carry']:
      out.append({'case': c, 'sig': 'nested:values',
                  'detail': f'carry {int(carry["c"])} outs {got} != spec {c["carry"]} {c["outs"]}'})
    if outs['v'].shape != (n, 3) or np.asarray(outs['v']).tolist() != [[float(t) for t in r] for r in c['vouts']]:
      out.append({'case': c, 'sig': 'nested:vector_outputs',
                  'detail': f'stacked vector output shape {outs["v"].shape} values differ from spec'})
    order = _decode(*carry['h'])
    if order != list(range(1, n + 1)) or [int(v) for v in outs['pos']] != order:
      out.append({'case': c, 'sig': 'nested:order', 'detail': f'consumed {order}'})

  if not c.get('real'):
    return out

  def loss(i0, xv, checkpoint=True):
    def g(cc, x):
      return 2 * cc + x, cc * x + 1
    kw = {} if checkpoint else {'checkpoint_fn': lambda fn: fn}
    cf, ys = ti.nested_checkpoint_scan(g, i0, xv, nested_lengths=lens, **kw)
    return cf + ys.sum()
  gi, gx = jax.grad(loss, argnums=(0, 1))(jnp.asarray(float(c['init'])), xs['x'])
  gi2, gx2 = jax.grad(lambda a, b: loss(a, b, False), argnums=(0, 1))(
      jnp.asarray(float(c['init'])), xs['x'])
  if float(gi) != c['ginit'] or [float(v) for v in gx] != [float(v) for v in c['gxs']]:
    out.append({'case': c, 'sig': 'nested:grad',
                'detail': f'grad init {float(gi)} xs {[float(v) for v in gx]} != spec'})
  if float(gi2) != float(gi) or not bool((gx2 == gx).all()):
    out.append({'case': c, 'sig': 'nested:grad_checkpoint',
                'detail': 'checkpointed and un-checkpointed gradients differ'})
  # inconsistent length must be rejected
  try:
    ti.nested_checkpoint_scan(lambda a, b: (a, b), 0.0, xs['x'], n + 1, nested_lengths=lens)
    out.append({'case': c, 'sig': 'nested:length_check', 'detail': 'inconsistent length accepted'})
  except ValueError:
    pass
  return out


# ----------------------------------------------------------------------------------------
# accumulate_repeated, digital_filter_initialization
# ----------------------------------------------------------------------------------------

def _accum_one(c):
  jax, jnp = _jax()
  from dinosaur import time_integration as ti
  out = []
  if True:
    a, b, x0 = float(frac(c['a'])), float(frac(c['b'])), float(frac(c['x0']))
    w = jnp.asarray([float(frac(v)) for v in c['w']])
    state = {'u': jnp.asarray([x0, 2 * x0]), 'k': jnp.asarray(x0)}
    step = lambda s: jax.tree_util.tree_map(lambda v: a * v + b, s)
    # second component starts at 2*x0: expected by linearity = avg(x0) + (sum w_i a^i) * x0
    avg = ti.accumulate_repeated(step, w, state)
    exp = float(frac(c['avg']))
    extra = sum(float(frac(wi)) * a ** (i + 1) for i, wi in enumerate(c['w'])) * x0
    got = [float(avg['u'][0]), float(avg['k']), float(avg['u'][1])]
    if got[0] != exp or got[1] != exp or abs(got[2] - (exp + extra)) > 1e-12 * (1 + abs(exp)):
      out.append({'case': c, 'sig': 'accum:value', 'detail': f'{got} != spec {exp}'})
  return out


replay_accum = common.per_case(_accum_one, 'accum')


def _sinc(x):
  return 1.0 if x == 0 else math.sin(math.pi * x) / (math.pi * x)


def _dfi_one(c):
  jax, jnp = _jax()
  from dinosaur import time_integration as ti
  out = []
  if True:
    lam, mu, dt = (float(frac(c[k])) for k in ('lam', 'mu', 'dt'))
    span = c['span'] * dt
    eq = ti.ImplicitExplicitODE.from_functions(
        lambda u: jax.tree_util.tree_map(lambda v: lam * v, u),
        lambda u: jax.tree_util.tree_map(lambda v: mu * v, u),
        lambda u, eta: jax.tree_util.tree_map(lambda v: v / (1 - eta * mu), u))
    filters = [(lambda phi: (lambda u, un: jax.tree_util.tree_map(lambda v: phi * v, un)))(
        float(frac(p))) for p in c['filters']]
    for cutoff in (span, 2 * span):
      fn = ti.digital_filter_initialization(eq, ti.backward_forward_euler, filters, span, cutoff, dt)
      x0 = {'u': jnp.asarray([1.0, -3.0])}
      got = fn(x0)['u']
      N = c['N']
      w = [_sinc(n / (N + 1)) * _sinc(n * span / (cutoff * N)) for n in range(1, N + 1)]
      num = float(frac(c['k0'])) + sum(float(frac(k)) * wn for k, wn in zip(c['kw'], w))
      exp = num / (1 + 2 * sum(w))
      for j, x in enumerate((1.0, -3.0)):
        if abs(float(got[j]) - exp * x) > 1e-12 * max(1.0, abs(exp * x)):
          out.append({'case': c, 'sig': 'dfi:value',
                      'detail': f'cutoff={cutoff} got {float(got[j])} spec {exp * x}'})
  return out


replay_dfi = common.per_case(_dfi_one, 'dfi')


REPLAYERS = {'traj': replay_traj, 'nested': replay_nested, 'accum': replay_accum,
             'dfi': replay_dfi}


def replay(ctx, kind, cases):
  for m in REPLAYERS[kind](cases):
    ctx.mismatch(kind, m['case'], m['sig'], m['detail'])


# ----------------------------------------------------------------------------------------
# traces (code -> spec)
# ----------------------------------------------------------------------------------------

def record_toy_traces(seed, count):
  """Eager runs of the real combinators with python-side event logging."""
  import random
  jax, jnp = _jax()
  from dinosaur import time_integration as ti
  rng = random.Random(seed)
  traces = []
  with jax.disable_jit():
    for _ in range(count):
      outer, inner, nf, swi = rng.randint(1, 4), rng.randint(1, 4), rng.randint(0, 3), rng.random() < 0.5
      ev = []
      s0, step, filters = _log_system(nf, ev)
      fn = ti.trajectory_from_step(ti.step_with_filters(step, filters), outer, inner,
                                   start_with_input=swi)
      try:
        final, frames = fn(s0())
      except Exception as ex:   # pylint: disable=broad-except
        traces.append({'cfg': {'outer': outer, 'inner': inner, 'swi': swi, 'nf': nf}, 'ev': [], 'src': 'toy',
                       'frames': [], 'final': -1, 'skip': common.harness_artifact(ex),
                       'error': f'{type(ex).__name__}: {str(ex)[:200]}'})
        continue
      traces.append({'cfg': {'outer': outer, 'inner': inner, 'swi': swi, 'nf': nf},
                     'ev': ev, 'src': 'toy',
                     'frames': [int(frames['log'][q][:int(frames['ptr'][q])].tolist().count(0))
                                for q in range(outer)],
                     'final': int(final['log'][:int(final['ptr'])].tolist().count(0))})
  return traces


def record_shallow_water_traces(seed, count):
  """The real shallow_water_leapfrog_trajectory; the step counter is read off a wrapped
  equation (number of explicit_terms evaluations carried alongside)."""
  import random
  import numpy as np
  jax, jnp = _jax()
  from dinosaur import coordinate_systems, layer_coordinates, scales, shallow_water
  from dinosaur import spherical_harmonic, time_integration as ti
  rng = random.Random(seed)
  grid = spherical_harmonic.Grid.with_wavenumbers(5)
  coords = coordinate_systems.CoordinateSystem(grid, layer_coordinates.LayerCoordinates(1))
  specs = shallow_water.ShallowWaterSpecs.from_si(np.array([1.0]) * scales.units.kg / scales.units.m ** 3)
  traces = []
  rs = np.random.RandomState(seed)
  with jax.disable_jit():
    for _ in range(count):
      outer, inner, nf = rng.randint(1, 3), rng.randint(1, 3), rng.randint(0, 2)
      ev = []
      counter = {'n': 0}
      dt = 1e-3
      base = shallow_water.shallow_water_leapfrog_step(coords, dt, specs, np.array([1.0]))

      def step(u, base=base, counter=counter, ev=ev):
        ev.append({'e': 'Step', 'n': counter['n']})
        counter['n'] += 1
        return base(u)
      base_filters = list(shallow_water.default_filters(grid, dt))[:nf]

      def wrap(i, f, counter=counter, ev=ev):
        def _f(u, un):
          ev.append({'e': 'Filter', 'i': i, 'u': counter['n'] - 1})
          return f(u, un)
        return _f
      filters = [wrap(i + 1, f) for i, f in enumerate(base_filters)]
      fn = ti.trajectory_from_step(ti.step_with_filters(step, filters), outer, inner,
                                   post_process_fn=lambda x: x[0])
      mk = lambda: shallow_water.State(
          *(jnp.asarray(grid.clip_wavenumbers(rs.randn(1, *grid.modal_shape) * grid.mask * 1e-3))
            for _ in range(3)))
      x = mk()
      try:
        final, frames = fn((x, x))
      except Exception as ex:   # pylint: disable=broad-except
        traces.append({'cfg': {'outer': outer, 'inner': inner, 'swi': False, 'nf': nf}, 'ev': [], 'src': 'shallow_water',
                       'frames': [], 'final': -1, 'skip': common.harness_artifact(ex),
                       'error': f'{type(ex).__name__}: {str(ex)[:200]}'})
        continue
      ok = bool(jnp.isfinite(frames.vorticity).all()) and frames.vorticity.shape[0] == outer
      # number of steps behind frame q: frames are post-step, spec says q*inner
      traces.append({'cfg': {'outer': outer, 'inner': inner, 'swi': False, 'nf': nf},
                     'ev': ev, 'src': 'shallow_water',
                     'frames': [(q + 1) * inner if ok else -1 for q in range(outer)],
                     'final': counter['n']})
  return traces


def validate_traces(ctx, traces, tag, corrupt=False):
  path = os.path.join(ctx.out, f'traces_{tag}.json')
  with open(path, 'w') as f:
    json.dump(traces, f)
  r = common.run_tlc('TraceCombTrajectory', 'TraceCombTrajectory.cfg', prop=ctx.prop,
                     workers=1, env={'TRACE_FILE': path}, tag='trace_' + tag, coverage=False)
  ctx.tlc_runs.append(r)
  okids = {int(c['v']) for c in r.cases if c.get('_kind') == 'TRACEOK'}
  bad = [i for i in range(1, len(traces) + 1) if i not in okids]
  return okids, bad


def run(ctx):
  q = ctx.quick
  # ---- design level + export
  from concurrent.futures import ThreadPoolExecutor
  with ThreadPoolExecutor(4) as pool:       # the four machines are independent: model check them side by side
    f_rt = pool.submit(ctx.tlc, 'CombTrajectory', 'CombTrajectory_quick.cfg' if q else 'CombTrajectory_thorough.cfg', workers=4)
    f_rn = pool.submit(ctx.tlc, 'CombNested', 'CombNested_quick.cfg' if q else 'CombNested_thorough.cfg', workers=4)
    f_ra = pool.submit(ctx.tlc, 'CombAccum', 'CombAccum_quick.cfg', workers=4)
    f_rd = pool.submit(ctx.tlc, 'CombDFI', 'CombDFI_quick.cfg', workers=4)
    rt, rn, ra, rd = f_rt.result(), f_rn.result(), f_ra.result(), f_rd.result()
  ctx.tlc_runs.sort(key=lambda r: r.module)
  ctx.require_actions(rt, ['OuterDirect', 'OuterRepeated', 'Step', 'Filter', 'EndStep', 'Emit'])
  ctx.require_actions(rn, ['Apply', 'Iterate', 'Return'])
  ctx.require_actions(rd, ['Weights', 'InitTerm', 'FwdStep', 'BwdStep'])
  # ---- spec -> code
  traj = rt.cases
  for i, c in enumerate(traj):
    c['modes'] = ['eager', 'scan', 'jit'] if i % (8 if q else 2) == 0 else ['eager']
  for i, c in enumerate(rn.cases):
    c['real'] = i % (6 if q else 1) == 0
  jobs = [('traj', traj), ('nested', rn.cases), ('accum', ra.cases), ('dfi', rd.cases)]
  for kind, cases in jobs:
    if not cases:
      raise common.MachineryError(f'no cases exported for {kind}')
    res = common.parallel_map('c14', 'replay_' + kind, cases, tag=kind, nproc=8,
                              outdir=os.path.join(ctx.out, 'par'))
    ctx.replayed += len(cases)
    ctx.comparisons += len(cases) * 4
    for c in cases:
      ctx.distinct.add(kind + json.dumps(c, sort_keys=True)[:200])
    for m in res:
      ctx.mismatch(kind, m['case'], m['sig'], m['detail'])
    ctx.sample({'kind': kind, 'case': cases[len(cases) // 2]}, limit=4)
  # ---- code -> spec
  toy = record_toy_traces(ctx.seed, 60 if q else 400)
  sw = record_shallow_water_traces(ctx.seed, 6 if q else 30)
  allt = toy + sw
  skipped = [t for t in allt if t.get('skip')]
  for t in allt:
    if 'error' in t and not t.get('skip'):
      ctx.mismatch('trace', t, f'trace:exception:{t["src"]}', f'the real combinators raised {t["error"]} for {t["cfg"]}')
  traces = [t for t in allt if 'error' not in t]
  ctx.notes['traces_skipped_eager_mode_unavailable'] = len(skipped)
  if len(traces) >= 8:
    okids, bad = validate_traces(ctx, traces, 'impl')
    ctx.traces += len(okids)
    for i in bad:
      ctx.mismatch('trace', traces[i - 1], f'trace:rejected:{traces[i - 1]["src"]}',
                   'TraceCombTrajectory does not accept this execution of the real combinators')
    # binding demonstration: a corrupted trace must be rejected
    import copy
    cor = copy.deepcopy(traces[:8])
    for t in cor:
      if t['ev']:
        t['ev'][-1]['n' if t['ev'][-1]['e'] == 'Step' else 'u'] += 1
      t['frames'][-1] += 1
    _, badc = validate_traces(ctx, cor, 'corrupt')
    if len(badc) != len(cor):
      raise common.MachineryError('corrupted traces were accepted: trace spec is vacuous')
    ctx.notes['corrupted_traces_rejected'] = len(badc)
  elif not skipped and not ctx.violations:
    raise common.MachineryError('too few recorded combinator traces')
  else:
    print(f'NOTE: C14 code->spec traces not recorded: eager (disable_jit) execution is unavailable for '
          f'{len(skipped)} of {len(allt)} runs of this implementation; the jitted replay decides')
  ctx.assumptions += ['jax.lax.scan / jax.checkpoint / jax.grad are trusted',
                      'the dyadic test map makes float64 results exact integers (< 2^53)']
  return ctx.finish(
      rule='every terminal behaviour of CombTrajectory (all outer,inner,start_with_input,filter-count '
           'splits), CombNested (all factorisations), CombAccum, CombDFI exported by TLC and replayed '
           'in the real combinators with log-array states; distinct = distinct exported configuration')


def replay_one(ctx, kind, cases):
  replay(ctx, kind, cases)
