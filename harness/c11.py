"""C11: structural invariants survive any number of steps.  Spec: Dycore (+ IntegratorPrograms),
TraceDycore.

TLC checks on the abstract model that one step of every integrator x filter stack keeps the
truncation, the vorticity/divergence (and thickness) means, uniform tracers and advances the clock
by exactly dt, and predicts what happens to inadmissible inputs.  Binding: (1) trace validation:
real runs of every integrator x filter stack x equation class x layout are executed eagerly with
every callback wrapped; each call is projected onto the structural state and TraceDycore checks
the contract of each action and the trajectory invariants at *every* call; (2) replay: the
exported (in)admissible cases are run in the real model and the predicted flags compared.
"""
from __future__ import annotations

import functools
import json
import os

from harness import common, spectral


def _setup(eqname, impl, seed, tu=False, top0=False, out0=False):
  np, jax, jnp = spectral.np_jax()
  from dinosaur import coordinate_systems, layer_coordinates, primitive_equations as pe, scales
  from dinosaur import shallow_water as sw, sigma_coordinates, spherical_harmonic as sh
  M = 5
  kw = dict(longitude_wavenumbers=M, total_wavenumbers=M + 1, longitude_nodes=3 * M + 1,
            latitude_nodes=(3 * M + 2) // 2)
  if impl == 'real':
    grid = sh.Grid(**kw)
  else:
    grid = sh.Grid(**kw, spherical_harmonics_impl=functools.partial(sh.FastSphericalHarmonics, base_shape_multiple=4))
  rs = np.random.RandomState(seed)
  mask = np.asarray(grid.mask, np.float64)
  L = grid.total_wavenumbers

  def field(k, amp, zero_mean=False):
    a = rs.randn(k, *grid.modal_shape) * mask * amp
    a[..., L - 1:] = 0
    if zero_mean is not None and zero_mean:
      a[:, 0, 0] = 0
    if top0:
      a[..., L - 1] = rs.randn(k, grid.modal_shape[0]) * mask[:, L - 1] * amp
    if out0:
      a[..., ~np.asarray(grid.mask)] = amp
    return jnp.asarray(a)
  def orography():
    # orography is a configuration, not part of the state: it may have energy in every wavenumber
    return jnp.asarray(rs.randn(*grid.modal_shape) * mask * 1e-3)
  if eqname == 'sw':
    coords = coordinate_systems.CoordinateSystem(grid, layer_coordinates.LayerCoordinates(2))
    specs = sw.ShallowWaterSpecs.from_si(np.array([1.0, 1.3]) * scales.units.kg / scales.units.m ** 3)
    oro = orography() if seed % 3 else None
    eq = sw.ShallowWaterEquations(coords, specs, oro, np.array([1.0, 0.6]))
    st = sw.State(field(2, 1e-2, True), field(2, 1e-2, True), field(2, 1e-2))
    return grid, eq, st, 2e-3
  K = 3
  vertical = sigma_coordinates.SigmaCoordinates(np.array([0, 0.2, 0.55, 1.0]))
  coords = coordinate_systems.CoordinateSystem(grid, vertical)
  specs = pe.PrimitiveEquationsSpecs.from_si()
  tref = np.array([230.0, 255.0, 285.0])
  oro = orography()
  if tu:
    q = np.zeros((K,) + grid.modal_shape); q[:, 0, 0] = 0.37
    tracers = {'specific_humidity': jnp.asarray(q)} if eqname == 'moist' else {'age': jnp.asarray(q)}
  else:
    tracers = {'specific_humidity': field(K, 1e-3)} if eqname == 'moist' else {'age': field(K, 1e-2)}
  vor, div, T, lnps = field(K, 1e-2, True), field(K, 1e-2, True), field(K, 0.5), field(1, 1e-2)
  if eqname == 'dry':
    eq = pe.PrimitiveEquations(tref, oro, coords, specs)
    st = pe.State(vor, div, T, lnps, tracers)
  else:
    cls = pe.MoistPrimitiveEquations if eqname == 'moist' else pe.PrimitiveEquationsWithTime
    eq = cls(tref, oro, coords, specs)
    st = pe.StateWithTime(vor, div, T, lnps, sim_time=0.0, tracers=tracers)
  return grid, eq, st, 1e-3


class Projector:
  """Projection pi of a model state onto the structural state of Dycore.tla."""

  def __init__(self, grid):
    np, _, _ = spectral.np_jax()
    self.np = np
    self.outside = ~np.asarray(grid.mask)
    self.topmask = np.asarray(grid.mask)[:, grid.total_wavenumbers - 1]
    self.L = grid.total_wavenumbers

  def leaves(self, s):
    d = s.asdict() if hasattr(s, 'asdict') else dict(s._asdict())
    return d

  def proj(self, s, tendency=False):
    np = self.np
    d = self.leaves(s)
    spectral_leaves = []
    tracers = d.get('tracers') or {}
    for k, v in d.items():
      if k in ('tracers', 'sim_time'):
        continue
      spectral_leaves.append(np.asarray(v))
    tl = [np.asarray(v) for v in tracers.values()]
    allv = spectral_leaves + tl
    top = any(np.any(a[..., self.L - 1][..., self.topmask] != 0) for a in allv)
    outside = any(np.any(a[..., self.outside] != 0) for a in allv)

    def mean_zero(a):
      a = np.asarray(a)
      return bool(np.all(np.abs(a[..., 0, 0]) <= 1e-12 * max(np.abs(a).max(), 1e-300)))
    vor, div = np.asarray(d['vorticity']), np.asarray(d['divergence'])
    h = np.asarray(d['potential']) if 'potential' in d else None

    def uniform(a):
      b = a.copy(); m00 = b[..., 0, 0].copy(); b[..., 0, 0] = 0
      sc = max(np.abs(m00).max(), 1e-300)
      return bool(np.all(np.abs(b) <= 1e-10 * sc) and np.all(np.abs(m00 - m00.flat[0]) <= 1e-10 * sc))
    tu = all(uniform(a) for a in tl) if tl else True
    tzero = all(bool(np.all(np.abs(a) <= 1e-10 * self._tscale)) for a in tl) if tl else True
    p = {'top': bool(top), 'outside': bool(outside), 'vmean_zero': mean_zero(vor), 'dmean_zero': mean_zero(div),
         'hmean_zero': mean_zero(h) if h is not None else True, 'tu': tu, 'tzero': tzero,
         'vzero': bool(np.all(vor == 0))}
    if tendency:
      if 'sim_time' in d:
        c = float(d['sim_time'])
        p['clock'] = 'one' if c == 1.0 else 'zero' if c == 0.0 else 'other'
      else:
        p['clock'] = 'none'
    return p

  _tscale = 1.0

  def rel(self, a, b, dt=None):
    """relations between two states (input a, output b)."""
    np = self.np
    da, db = self.leaves(a), self.leaves(b)

    def same_mean(x, y):
      sc = max(np.abs(np.asarray(x)).max(), np.abs(np.asarray(y)).max(), 1e-300)   # field magnitude
      x, y = np.asarray(x)[..., 0, 0], np.asarray(y)[..., 0, 0]
      return bool(np.all(np.abs(x - y) <= 1e-10 * sc))
    r = {'vmean_same': same_mean(da['vorticity'], db['vorticity']),
         'dmean_same': same_mean(da['divergence'], db['divergence']),
         'hmean_same': same_mean(da['potential'], db['potential']) if 'potential' in da else True,
         'vor_same': bool(np.array_equal(np.asarray(da['vorticity']), np.asarray(db['vorticity']))),
         'tracers_same': all(np.array_equal(np.asarray(da['tracers'][k]), np.asarray(db['tracers'][k]))
                             for k in (da.get('tracers') or {}))}
    r['hmean_same_if_dmean_zero'] = r['hmean_same'] or not bool(
        np.all(np.asarray(da['divergence'])[..., 0, 0] == 0))
    if 'sim_time' in da:
      ca, cb = float(da['sim_time']), float(db['sim_time'])
      r['clock_same'] = ca == cb
      if dt is not None:
        delta = (cb - ca) / dt
        r['clock_delta'] = 'one' if abs(delta - 1) <= 1e-9 else f'{delta:.6g}'
    else:
      r['clock_same'] = True
      r['clock_delta'] = 'none'
    return r


def _stack(grid, dt, names, leapfrog):
  from dinosaur import time_integration as ti
  out = []
  for n in names:
    if n == 'exp':
      out.append((ti.exponential_leapfrog_step_filter if leapfrog else ti.exponential_step_filter)(grid, dt, tau=0.01, order=2, cutoff=0.4))
    elif n == 'diff':
      f = ti.horizontal_diffusion_step_filter(grid, dt, tau=0.02, order=2)
      out.append(ti.leapfrog_step_filter(lambda s, f=f: f(None, s)) if leapfrog else f)
    elif n == 'ra':
      out.append(ti.robert_asselin_leapfrog_filter(0.03))
  return out


def _run_one(c):
  """Executes one configured run eagerly and returns its trace (a dict)."""
  np, jax, jnp = spectral.np_jax()
  from dinosaur import time_integration as ti
  from harness.c06 import _step_fn
  grid, eq, st, dt = _setup(c['eq'], c['impl'], c['seed'], tu=c.get('tu', False),
                            top0=c.get('top0', False), out0=c.get('out0', False))
  P = Projector(grid)
  tl = (st.asdict() if hasattr(st, 'asdict') else st._asdict()).get('tracers') or {}
  P._tscale = max([float(np.abs(np.asarray(v)).max()) for v in tl.values()] + [1e-300])
  ev = []
  leap = c['ig'] == 'leapfrog'
  fut = (lambda s: s[1]) if leap else (lambda s: s)

  def F(s):
    o = eq.explicit_terms(s)
    ev.append({'k': 'F', 'i': P.proj(s), 'o': P.proj(o, True), 'rel': {}})
    return o

  def G(s):
    o = eq.implicit_terms(s)
    ev.append({'k': 'G', 'i': P.proj(s), 'o': P.proj(o, True), 'rel': {}})
    return o

  def Ginv(s, eta):
    o = eq.implicit_inverse(s, eta)
    ev.append({'k': 'Ginv', 'i': P.proj(s), 'o': P.proj(o), 'rel': P.rel(s, o)})
    return o
  weq = ti.ImplicitExplicitODE.from_functions(F, G, Ginv)
  base = _step_fn(c['ig'], weq, dt, 0.5)
  filters = []
  for f in _stack(grid, dt, c['filters'], leap):
    def wf(u, un, f=f):
      o = f(u, un)
      ev.append({'k': 'Filter', 'i': P.proj(fut(un)), 'o': P.proj(fut(o)), 'rel': P.rel(fut(un), fut(o))})
      if leap:   # the other slice keeps its mean and clock too
        r0 = P.rel(un[0], o[0])
        for k in ('vmean_same', 'dmean_same', 'hmean_same', 'clock_same'):
          ev[-1]['rel'][k] = ev[-1]['rel'][k] and r0[k]
        p0 = P.proj(o[0])
        ev[-1]['o']['top'] = ev[-1]['o']['top'] or (p0['top'] and not P.proj(un[0])['top'] and not P.proj(u[0])['top'] and not P.proj(u[1])['top'])
      return o
    filters.append(wf)
  step = ti.step_with_filters(base, filters)
  if leap:
    prev = st
    if hasattr(st, 'sim_time'):
      prev = st.replace(sim_time=-dt) if hasattr(st, 'replace') else st
      try:
        import dataclasses
        prev = dataclasses.replace(st, sim_time=-dt)
      except Exception:   # pylint: disable=broad-except
        pass
    u = (prev, st)
  else:
    u = st
  init = P.proj(fut(u))
  clock0 = float(fut(u).sim_time) if hasattr(fut(u), 'sim_time') else None
  with jax.disable_jit():
    for _ in range(c['steps']):
      un = step(u)
      ev.append({'k': 'Step', 'i': P.proj(fut(u)), 'o': P.proj(fut(un)), 'rel': P.rel(fut(u), fut(un), dt)})
      u = un
  finite = all(bool(np.all(np.isfinite(np.asarray(v)))) for v in jax.tree_util.tree_leaves(u))
  if clock0 is None:
    fc = 'none'
  else:
    n = (float(fut(u).sim_time) - clock0) / dt
    fc = 'steps' if abs(n - c['steps']) <= 1e-9 * c['steps'] else f'{n:.9g}'
    # time_integration.maybe_fix_sim_time_roundoff snaps the clock to the exact multiple of dt and touches nothing else
    fix = getattr(ti, 'maybe_fix_sim_time_roundoff', None)
    if fc == 'steps' and fix is not None:
      last = fut(u)
      snapped = fix(jax.tree_util.tree_map(lambda x: x, last), dt)
      a, b = P.leaves(last), P.leaves(snapped)
      same = all(np.array_equal(np.asarray(a[k]), np.asarray(b[k])) for k in a if k not in ('tracers', 'sim_time'))
      same = same and all(np.array_equal(np.asarray(a['tracers'][k]), np.asarray(b['tracers'][k])) for k in (a.get('tracers') or {}))
      if not same:
        fc = 'fix_roundoff:changed_other_leaves'
      elif float(b['sim_time']) != dt * (round(clock0 / dt) + c['steps']):
        fc = f'fix_roundoff:{float(b["sim_time"])!r}!={dt * (round(clock0 / dt) + c["steps"])!r}'
      else:
        # accumulated round-off of either sign is removed
        for eps in (-1e-12, 1e-12):
          drift = jax.tree_util.tree_map(lambda x: x, last)
          drift.sim_time = last.sim_time * (1.0 + eps)
          got = float(fix(drift, dt).sim_time)
          if got != dt * (round(clock0 / dt) + c['steps']):
            fc = f'fix_roundoff:drift{eps:+.0e}:{got!r}'
  return {'cfg': c, 'steps': c['steps'] if finite else -1, 'init': init, 'ev': ev, 'final_clock': fc,
          'final': P.proj(fut(u))}


def record(cases):
  out = []
  for c in cases:
    try:
      out.append(_run_one(c))
    except Exception as ex:   # pylint: disable=broad-except
      import traceback
      out.append({'cfg': c, 'steps': -2, 'init': {}, 'ev': [], 'final_clock': 'error', 'skip': common.harness_artifact(ex),
                  'error': f'{type(ex).__name__}: {str(ex)[:300]} | ' + ' / '.join(traceback.format_exc().splitlines()[-5:])})
  return out


def _flags_one(c):
  """Replay of an exported Dycore case: predicted flags after one step (in)admissible input."""
  out = []
  filters = ['exp', 'diff'][:c['nf']] + (['ra'] if c['ra'] else [])
  for eqname, impl in (('time', 'real'), ('sw', 'fast')):
    if eqname == 'sw' and not c['tu0']:
      continue   # shallow water has no tracers: run it once per flag combination only
    t = _run_one({'eq': eqname, 'impl': impl, 'seed': 3, 'ig': c['ig'], 'filters': filters, 'steps': 1,
                  'tu': c['tu0'], 'top0': c['top0'], 'out0': c['out0']})
    f = t['final']
    got = {'top': f['top'], 'outside': f['outside'], 'tu': f['tu']}
    exp = {'top': c['top'], 'outside': c['outside'], 'tu': c['tu'] if eqname != 'sw' else True}
    if got != exp:
      out.append({'case': c, 'sig': f'flags:{eqname}:{c["ig"]}',
                  'detail': f'{eqname}/{impl} after one step: flags {got} spec predicts {exp} (input top0={c["top0"]} out0={c["out0"]} tu0={c["tu0"]})'})
  return out


replay_flags = common.per_case(_flags_one, 'flags')


def replay(ctx, kind, cases):
  if kind == 'flags':
    for m in replay_flags(cases):
      ctx.mismatch(kind, m['case'], m['sig'], m['detail'])
  else:
    traces = record([c['cfg'] if 'cfg' in c else c for c in cases])
    _validate(ctx, traces, 'replay')


def _configs(quick, seed):
  cfgs = []
  igs = ['euler', 'cnrk2', 'rk3', 'rk4', 'sil3', 'leapfrog']
  stacks = {False: [[], ['exp'], ['exp', 'diff']], True: [[], ['exp', 'ra'], ['exp', 'diff', 'ra']]}
  i = 0
  for eq in ('dry', 'time', 'moist', 'sw'):
    for ig in igs:
      for fs in stacks[ig == 'leapfrog']:
        for impl in ('real', 'fast'):
          i += 1
          if quick and (i + seed) % 5:
            continue
          cfgs.append({'eq': eq, 'ig': ig, 'filters': fs, 'impl': impl, 'steps': 2 if quick else 3,
                       'seed': i, 'tu': i % 2 == 0})
  return cfgs


def _strip(t):
  return {'steps': t['steps'], 'init': t['init'], 'final_clock': t['final_clock'],
          'ev': [{k: e[k] for k in ('k', 'i', 'o', 'rel')} for e in t['ev']]}


def _validate(ctx, traces, tag):
  path = os.path.join(ctx.out, f'traces_{tag}.json')
  with open(path, 'w') as f:
    json.dump([_strip(t) for t in traces], f)
  r = common.run_tlc('TraceDycore', 'TraceDycore.cfg', prop=ctx.prop, workers=1,
                     env={'TRACE_FILE': path}, tag='trace_' + tag, coverage=False)
  ctx.tlc_runs.append(r)
  okids = {int(c['v']) for c in r.cases if c.get('_kind') == 'TRACEOK'}
  pos = {}
  for c in r.cases:
    if c.get('_kind') == 'TRACEBAD':
      pass
  bad = [i for i in range(1, len(traces) + 1) if i not in okids]
  for i in bad:
    t = traces[i - 1]
    # locate the first event that violates its contract (same rules, evaluated by TLC on the single trace)
    single = os.path.join(ctx.out, f'trace_{tag}_{i}.json')
    with open(single, 'w') as f:
      json.dump([_strip(t)], f)
    rr = common.run_tlc('TraceDycore', 'TraceDycore_diag.cfg', prop=ctx.prop, workers=1,
                        env={'TRACE_FILE': single}, tag=f'diag_{tag}_{i}', coverage=False)
    reached = max([int(c['v']) for c in rr.cases if c.get('_kind') == 'TRACEBAD'] + [0])
    e = t['ev'][reached - 1] if 0 < reached <= len(t['ev']) else None
    what = (f'event {reached} ({e["k"]}) violates its contract: i={e["i"]} o={e["o"]} rel={e["rel"]}'
            if e else f'steps={t["steps"]} final_clock={t["final_clock"]} {t.get("error", "")}')
    c = t['cfg']
    ctx.mismatch('trace', t['cfg'], f'trace:{c["eq"]}:{c["ig"]}:{e["k"] if e else "end"}', what)
  return okids, bad


def run(ctx):
  q = ctx.quick
  r = ctx.tlc('Dycore', 'Dycore_quick.cfg')
  ctx.require_actions(r, ['ExecF', 'ExecG', 'ExecGinv', 'ExecLin', 'Filter', 'RobertAsselin'])
  cfgs = _configs(q, ctx.seed)
  traces = common.parallel_map('c11', 'record', cfgs, nproc=4 if q else 8, tag='rec',
                               outdir=os.path.join(ctx.out, 'par'))
  ctx.notes['traces_skipped_eager_mode_unavailable'] = sum(1 for t in traces if t.get('skip'))
  traces = [t for t in traces if not t.get('skip')]
  okids, bad = _validate(ctx, traces, 'impl')
  ctx.traces += len(okids)
  nev = sum(len(t['ev']) for t in traces)
  ctx.comparisons += nev
  ctx.notes['trace_events_checked'] = nev
  for c in cfgs:
    ctx.distinct.add(json.dumps([c['eq'], c['ig'], c['filters'], c['impl']]))
  # spec -> code: predicted flags for (in)admissible inputs
  flags = [c for i, c in enumerate(r.cases) if (not q) or (c['top0'] or c['out0']) and i % 2 == 0 or i % 9 == 0]
  res = common.parallel_map('c11', 'replay_flags', flags, nproc=4, tag='flags', outdir=os.path.join(ctx.out, 'par'))
  ctx.replayed += len(flags)
  for m in res:
    ctx.mismatch('flags', m['case'], m['sig'], m['detail'])
  # binding demonstration
  import copy
  cor = copy.deepcopy([t for t in traces if t['steps'] > 0][:4])
  for t in cor:
    k = next(i for i, e in enumerate(t['ev']) if e['k'] == 'F')
    t['ev'][k]['o']['top'] = True
  okc, badc = _validate_quiet(ctx, cor)
  if okc:
    raise common.MachineryError('corrupted dycore traces accepted')
  ctx.notes['corrupted_traces_rejected'] = len(cor)
  t0 = traces[0]
  ctx.sample({'cfg': t0['cfg'], 'first_events': [{k: e[k] for k in ('k', 'o')} for e in t0['ev'][:3]]})
  ctx.sample({'flags_case': flags[0]})
  ctx.assumptions += ['means / clock compared to 1e-10 relative, structural zeros exactly',
                      'RK4 (decimal coefficients) is covered by traces only, not by the Dycore model']
  return ctx.finish(rule='traces: integrator(6) x filter stack(3) x equation class(dry, with time, moist, shallow water) x '
                         'layout(reference, fast padded), 2-3 steps each (quick: a seeded fifth), one event per '
                         'callback/filter/step call; replay: Dycore cases with admissible and inadmissible inputs',
                    exhaustive=not q)


def _validate_quiet(ctx, traces):
  path = os.path.join(ctx.out, 'traces_corrupt.json')
  with open(path, 'w') as f:
    json.dump([_strip(t) for t in traces], f)
  r = common.run_tlc('TraceDycore', 'TraceDycore.cfg', prop=ctx.prop, workers=1,
                     env={'TRACE_FILE': path}, tag='trace_corrupt', coverage=False)
  ctx.tlc_runs.append(r)
  okids = {int(c['v']) for c in r.cases if c.get('_kind') == 'TRACEOK'}
  return okids, [i for i in range(1, len(traces) + 1) if i not in okids]
