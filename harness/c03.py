"""C03: the implicit solve is the exact resolvent.  Spec modules: ImplicitSolve, ShallowWaterImplicit.

ImplicitSolve gives, per (level set, reference profile, kappa), Durran's H and G as exact
linear forms over the log-sigma atoms, proves dense == cumulative-sum evaluation on every level
set (design level), and exports the tables.  Replay: the real tables, implicit_terms on basis
states, the block matrix, and the resolvent identity for all 3 x 2 solve strategies and step
sizes of both signs.  ShallowWaterImplicit is fully rational: the real implicit_terms /
implicit_inverse are compared with exact values.
"""
from __future__ import annotations

import math
import os
from fractions import Fraction

from harness import common
from harness.common import frac

EPS = 2.220446049250313e-16


def _np():
  import numpy as np
  import jax
  jax.config.update('jax_enable_x64', True)
  import jax.numpy as jnp
  return np, jax, jnp


def _form(f, alpha):
  """linear form {"0": q0, "1": q1, ...} -> float, and its absolute scale."""
  v = float(frac(f['0']))
  s = abs(v)
  for k, q in f.items():
    if k == '0':
      continue
    t = float(frac(q)) * alpha[int(k) - 1]
    v += t
    s += abs(t)
  return v, s


def _tables(c):
  np, _, _ = _np()
  K = len(c['b']) - 1
  den = c['den']
  centers = [Fraction(c['b'][k] + c['b'][k + 1], 2 * den) for k in range(K)]
  logc = [math.log(v.numerator / v.denominator) for v in centers]
  alpha = [(logc[k + 1] - logc[k]) / 2 for k in range(K - 1)] + [-logc[K - 1]]
  H = np.zeros((K, K)); Hs = np.zeros((K, K)); G = np.zeros((K, K)); Gs = np.zeros((K, K))
  for r in range(K):
    for s in range(K):
      H[r, s], Hs[r, s] = _form(c['H'][r][s], alpha)
      G[r, s], Gs[r, s] = _form(c['G'][r][s], alpha)
  return K, np.array(alpha), H, Hs, G, Gs


def _pe_one(c):
  np, jax, jnp = _np()
  from dinosaur import coordinate_systems, primitive_equations as pe, scales
  from dinosaur import sigma_coordinates, spherical_harmonic as sh, time_integration as ti
  out = []
  key = {k: c[k] for k in ('b', 'den', 'tref', 'kappa')}

  def bad(sig, detail):
    out.append({'case': c, 'sig': sig, 'detail': detail})

  K, alpha, H, Hs, G, Gs = _tables(c)
  bounds = np.array(c['b'], dtype=np.float64) / c['den']
  vertical = sigma_coordinates.SigmaCoordinates(bounds)
  tref = np.array(c['tref'], dtype=np.float64)
  kappa = float(frac(c['kappa']))
  Rgas = 1.5
  radius = c.get('radius', 2.0)
  impl = sh.FastSphericalHarmonics if c.get('fast') else sh.RealSphericalHarmonics
  grid = sh.Grid(longitude_wavenumbers=3, total_wavenumbers=4, longitude_nodes=8, latitude_nodes=4,
                 radius=radius, spherical_harmonics_impl=impl)
  coords = coordinate_systems.CoordinateSystem(grid, vertical)
  specs = pe.PrimitiveEquationsSpecs(radius=radius, angular_velocity=1.0, gravity_acceleration=1.0,
                                     ideal_gas_constant=Rgas, water_vapor_gas_constant=2.0,
                                     water_vapor_isobaric_heat_capacity=3.0, kappa=kappa,
                                     scale=scales.DEFAULT_SCALE)
  dsig = np.array([float(frac(v)) for v in c['dsigma']])
  mshape = grid.modal_shape
  mask = np.asarray(grid.mask, dtype=np.float64)
  mi, li = np.meshgrid(np.arange(mshape[0]), np.arange(mshape[1]), indexing='ij')
  P = (1.0 + mi + 2.0 * li) * mask                       # depends on m and l: exposes any m-dependence
  lam = np.asarray(grid.laplacian_eigenvalues)           # per l index
  ltrue = np.asarray(grid.modal_axes[1], dtype=np.float64)
  lam_spec = -ltrue * (ltrue + 1) / radius ** 2

  def close(name, got, exp, scale):
    got, exp, scale = np.asarray(got, np.float64), np.asarray(exp, np.float64), np.asarray(scale, np.float64)
    if got.shape != exp.shape:
      bad(name + ':shape', f'{got.shape} != {exp.shape}')
      return
    tol = 64 * EPS * (np.abs(exp) + scale) + 1e-300
    if not np.all(np.isfinite(got)) or not np.all(np.abs(got - exp) <= tol):
      i = np.unravel_index(np.argmax(np.abs(got - exp) - tol), got.shape)
      bad(name + ':value', f'entry {tuple(int(v) for v in i)}: code {got[i]!r} spec {exp[i]!r}')

  # (a) tables
  close('Hweights', pe.get_temperature_implicit_weights(vertical, tref, kappa), H, Hs)
  X = np.concatenate([np.eye(K), np.array([[(-1.0) ** k * (k + 1)] for k in range(K)])], axis=1)
  for method in ('dense', 'sparse'):
    got = np.asarray(pe.get_temperature_implicit(jnp.asarray(X[:, None, :]), vertical, tref, kappa,
                                                 method=method))[:, 0, :]
    close(f'Hdiv:{method}', got, -H @ X, Hs @ np.abs(X))
  # (b) implicit_terms on basis states, both vertical matmul methods
  zeros3 = np.zeros((K,) + mshape)
  zeros1 = np.zeros((1,) + mshape)
  eqs = {}
  for vm in ('dense', 'sparse'):
    eqs[vm] = pe.PrimitiveEquations(tref, jnp.zeros(mshape), coords, specs, vertical_matmul_method=vm)
  for vm, eq in eqs.items():
    for s in range(K):
      e = zeros3.copy(); e[s] = P
      # divergence basis -> temperature and lnps tendencies
      st = pe.State(jnp.asarray(zeros3), jnp.asarray(e), jnp.asarray(zeros3), jnp.asarray(zeros1),
                    {'q': jnp.asarray(e)})
      t = eq.implicit_terms(st)
      close(f'L:T_from_div:{vm}', t.temperature_variation, -H[:, s][:, None, None] * P, Hs[:, s][:, None, None] * np.abs(P))
      close(f'L:lnps_from_div:{vm}', t.log_surface_pressure, (-dsig[s] * P)[None], np.abs(P)[None] * 0)
      if np.any(np.asarray(t.vorticity) != 0) or np.any(np.asarray(t.tracers['q']) != 0) \
          or np.any(np.asarray(t.divergence) != 0):
        bad(f'L:structure:{vm}', 'divergence input leaked into vorticity/divergence/tracer tendency')
      # temperature basis -> divergence tendency
      st = pe.State(jnp.asarray(e), jnp.asarray(zeros3), jnp.asarray(e), jnp.asarray(zeros1))
      t = eq.implicit_terms(st)
      exp = -lam_spec[None, None, :] * Rgas * G[:, s][:, None, None] * P
      close(f'L:div_from_T:{vm}', t.divergence, exp, np.abs(lam_spec)[None, None, :] * Rgas * Gs[:, s][:, None, None] * np.abs(P))
      if np.any(np.asarray(t.vorticity) != 0) or np.any(np.asarray(t.temperature_variation) != 0):
        bad(f'L:structure:{vm}', 'temperature/vorticity input leaked')
    st = pe.State(jnp.asarray(zeros3), jnp.asarray(zeros3), jnp.asarray(zeros3), jnp.asarray(P[None]))
    t = eq.implicit_terms(st)
    exp = -lam_spec[None, None, :] * Rgas * tref[:, None, None] * P
    close(f'L:div_from_lnps:{vm}', t.divergence, exp, 0 * exp)
  # (c) the block matrix  I - eta L  per wavenumber
  # (a private helper: compared when present; the resolvent identity below binds the solve in any case)
  get_matrix = getattr(pe, '_get_implicit_term_matrix', None)
  for eta in ((0.25, -1.5) if get_matrix else ()):
    try:
      M = get_matrix(eta, coords, tref, kappa, Rgas)
    except TypeError:      # signature changed by a refactoring
      break
    n = 2 * K + 1
    exp = np.zeros((mshape[1], n, n)); sc = np.zeros_like(exp)
    for j in range(mshape[1]):
      E = np.eye(n)
      E[:K, K:2 * K] = eta * lam_spec[j] * Rgas * G
      sc[j, :K, K:2 * K] = abs(eta * lam_spec[j]) * Rgas * Gs
      E[:K, 2 * K] = eta * lam_spec[j] * Rgas * tref
      E[K:2 * K, :K] = eta * H
      sc[j, K:2 * K, :K] = abs(eta) * Hs
      E[2 * K, :K] = eta * dsig
      exp[j] = E
    close(f'matrix:eta{eta}', M, exp, sc)
  # (d) resolvent identity, every strategy, both signs of eta.  "Returns x to rounding": the forward error of a
  # backward-stable solve is rounding times the condition number of the operator, which the harness takes
  # from the spec's own block matrix (largest over the total wavenumbers of the grid)
  def spec_cond(eta):
    n = 2 * K + 1
    worst = 1.0
    for j in range(mshape[1]):
      E = np.eye(n)
      E[:K, K:2 * K] = eta * lam_spec[j] * Rgas * G
      E[:K, 2 * K] = eta * lam_spec[j] * Rgas * tref
      E[K:2 * K, :K] = eta * H
      E[2 * K, :K] = eta * dsig
      worst = max(worst, float(np.linalg.cond(E)))
    return worst
  rs = np.random.RandomState(1234)
  fields = {
      'all': (1, 1, 1), 'div': (1, 0, 0), 'temp': (0, 1, 0), 'lnps': (0, 0, 1)}
  base_d = rs.randint(-3, 4, size=(K,) + mshape) * mask
  base_t = rs.randint(-3, 4, size=(K,) + mshape) * mask
  base_p = rs.randint(-3, 4, size=(1,) + mshape) * mask
  vort = rs.randint(-3, 4, size=(K,) + mshape) * mask
  for fname, (fd, ft, fp) in fields.items():
    x = pe.State(jnp.asarray(vort), jnp.asarray(fd * base_d), jnp.asarray(ft * base_t),
                 jnp.asarray(fp * base_p), {'q': jnp.asarray(vort * 2)})
    for eta in c.get('etas', (0.25, -0.25, 2.0, -1.5)):
      budget = max(2e-9, 512 * 2.220446049250313e-16 * spec_cond(eta) * 4.0)
      for vm, eq in eqs.items():
        Lx = eq.implicit_terms(x)
        y = jax.tree_util.tree_map(lambda a, b: a - eta * b, x, Lx)
        for method in ('split', 'stacked', 'blockwise'):
          z = eq.implicit_inverse(y, eta, method=method)
          for f in ('divergence', 'temperature_variation', 'log_surface_pressure'):
            got, exp = np.asarray(getattr(z, f)), np.asarray(getattr(x, f))
            err = np.max(np.abs(got - exp)) if np.all(np.isfinite(got)) else np.inf
            if not err <= budget:
              bad(f'resolvent:{method}:{vm}', f'{fname} eta={eta}: {f} max error {err:.3e} (budget {budget:.1e})')
          if np.any(np.asarray(z.vorticity) != np.asarray(x.vorticity)) or \
             np.any(np.asarray(z.tracers['q']) != np.asarray(x.tracers['q'])):
            bad(f'resolvent:passthrough:{method}', 'vorticity/tracers changed by the solve')
      # time-reversed equation: (1 + eta L)^-1
      eq = eqs['dense']
      rev = ti.TimeReversedImExODE(eq)
      Lr = rev.implicit_terms(x)
      y = jax.tree_util.tree_map(lambda a, b: a - eta * b, x, Lr)
      z = rev.implicit_inverse(y, eta)
      for f in ('divergence', 'temperature_variation', 'log_surface_pressure'):
        err = np.max(np.abs(np.asarray(getattr(z, f)) - np.asarray(getattr(x, f))))
        if not err <= budget:
          bad('resolvent:time_reversed', f'{fname} eta={eta}: {f} max error {err:.3e} (budget {budget:.1e})')
  return out


replay_pe = common.per_case(_pe_one, 'pe')


def _sw_one(g):
  """g: a group of spec cases sharing (r, eta, x0); covers all l and all ref potentials."""
  np, jax, jnp = _np()
  from dinosaur import coordinate_systems, layer_coordinates, scales, shallow_water as sw
  from dinosaur import spherical_harmonic as sh
  out = []
  r = float(frac(g['r'])); eta = float(frac(g['eta']))
  x0 = [float(frac(v)) for v in g['x0']]
  refs = g['refs']
  n = len(refs)
  impl = sh.FastSphericalHarmonics if g.get('fast') else sh.RealSphericalHarmonics
  L = g['maxl'] + 1
  grid = sh.Grid(longitude_wavenumbers=L, total_wavenumbers=L, longitude_nodes=2 * L + 2, latitude_nodes=L + 1,
                 radius=r, spherical_harmonics_impl=impl)
  coords = coordinate_systems.CoordinateSystem(grid, layer_coordinates.LayerCoordinates(n))
  specs = sw.ShallowWaterSpecs(densities=np.arange(1.0, n + 1), radius=r, angular_velocity=1.0,
                               gravity_acceleration=1.0, scale=scales.DEFAULT_SCALE)
  refv = np.array([float(frac(v)) for v in refs])
  eq = sw.ShallowWaterEquations(coords, specs, None, refv)
  mshape = grid.modal_shape
  mask = np.asarray(grid.mask, np.float64)
  mi, li = np.meshgrid(np.arange(mshape[0]), np.arange(mshape[1]), indexing='ij')
  P = (1.0 + mi + 2.0 * li) * mask
  ltrue = np.asarray(grid.modal_axes[1])
  ones = np.ones((n, 1, 1))
  x = sw.State(jnp.asarray(3 * ones * P), jnp.asarray(x0[0] * ones * P), jnp.asarray(x0[1] * ones * P))
  t = eq.implicit_terms(x)
  y = jax.tree_util.tree_map(lambda a, b: a - eta * b, x, t)
  z = eq.implicit_inverse(y, eta)
  e1 = eq.implicit_inverse(sw.State(jnp.asarray(0 * ones * P), jnp.asarray(ones * P), jnp.asarray(0 * ones * P)), eta)
  e2 = eq.implicit_inverse(sw.State(jnp.asarray(0 * ones * P), jnp.asarray(0 * ones * P), jnp.asarray(ones * P)), eta)

  def chk(name, got, exp, case):
    tol = 32 * EPS * max(1.0, abs(exp))
    if not (abs(got - exp) <= tol):
      out.append({'case': case, 'sig': f'sw:{name}', 'detail': f'code {got!r} spec {exp!r}'})

  for c in g['cases']:
    k = refs.index(c['ref'])
    l = c['l']
    # pick an (m, l) entry inside the mask with that l: m index 0 and the last admissible one
    for i in sorted({0, min(2 * l - 1, mshape[0] - 1) if l > 0 else 0}):
      if mask[i, l] == 0:
        continue
      p = P[i, l]
      chk('terms_div', float(t.divergence[k, i, l]) / p, float(frac(c['terms'][0])), c)
      chk('terms_pot', float(t.potential[k, i, l]) / p, float(frac(c['terms'][1])), c)
      chk('shift_div', float(y.divergence[k, i, l]) / p, float(frac(c['shifted'][0])), c)
      chk('shift_pot', float(y.potential[k, i, l]) / p, float(frac(c['shifted'][1])), c)
      chk('resolvent_div', float(z.divergence[k, i, l]) / p, x0[0], c)
      chk('resolvent_pot', float(z.potential[k, i, l]) / p, x0[1], c)
      chk('inverse_e1_div', float(e1.divergence[k, i, l]) / p, float(frac(c['solve_e1'][0])), c)
      chk('inverse_e1_pot', float(e1.potential[k, i, l]) / p, float(frac(c['solve_e1'][1])), c)
      chk('inverse_e2_div', float(e2.divergence[k, i, l]) / p, float(frac(c['solve_e2'][0])), c)
      chk('inverse_e2_pot', float(e2.potential[k, i, l]) / p, float(frac(c['solve_e2'][1])), c)
  if np.any(np.asarray(t.vorticity) != 0) or np.any(np.asarray(z.vorticity) != np.asarray(x.vorticity)):
    out.append({'case': g['cases'][0], 'sig': 'sw:vorticity', 'detail': 'vorticity touched by implicit part'})
  return out


replay_sw = common.per_case(_sw_one, 'sw')


def _group_sw(cases, maxl, fast_every=3):
  groups = {}
  refs = []
  for c in cases:
    if c['ref'] not in refs:
      refs.append(c['ref'])
  for c in cases:
    k = (tuple(c['r']), tuple(c['eta']), tuple(map(tuple, c['x0'])))
    groups.setdefault(k, []).append(c)
  out = []
  for i, (k, cs) in enumerate(sorted(groups.items())):
    out.append({'r': list(k[0]), 'eta': list(k[1]), 'x0': [list(v) for v in k[2]], 'refs': refs,
                'maxl': maxl, 'cases': cs, 'fast': i % fast_every == 0})
  return out


REPLAYERS = {'pe': replay_pe, 'sw': replay_sw}


def replay(ctx, kind, cases):
  for m in REPLAYERS[kind](cases):
    ctx.mismatch(kind, m['case'], m['sig'], m['detail'])


def run(ctx):
  q = ctx.quick
  r = ctx.tlc('ImplicitSolve', 'ImplicitSolve_quick.cfg' if q else 'ImplicitSolve_thorough.cfg')
  ctx.require_actions(r, ['BuildH', 'BuildHs', 'BuildG'])
  # the design-level counterexample for the cumulative-sum form as it was found
  ra = common.run_tlc('ImplicitSolve', 'ImplicitSolve_asfound.cfg', prop=ctx.prop, workers=1,
                      expect_violation=True, coverage=False)
  if ra.violated != 'AsFoundAgrees':
    raise common.MachineryError('spec no longer distinguishes the as-found cumulative-sum form')
  ctx.notes['as_found_sparse_H_refuted_by_TLC'] = True
  rs = ctx.tlc('ShallowWaterImplicit', 'ShallowWaterImplicit_quick.cfg')
  ctx.require_actions(rs, ['Terms', 'Shift', 'Solve'])
  pe_cases = r.cases
  for i, c in enumerate(pe_cases):
    c['fast'] = i % 5 == 0
    c['radius'] = 2.0 if i % 2 == 0 else 0.5
    if q and i % 3:
      c['etas'] = (0.25, -1.5)
  res = common.parallel_map('c03', 'replay_pe', pe_cases, nproc=4 if q else 8, tag='pe',
                            outdir=os.path.join(ctx.out, 'par'))
  ctx.replayed += len(pe_cases)
  ctx.comparisons += len(pe_cases) * 150
  for c in pe_cases:
    ctx.distinct.add(('pe', tuple(c['b']), tuple(c['tref']), tuple(c['kappa'])))
  for m in res:
    cc = {k: m['case'][k] for k in m['case'] if k not in ('H', 'G')}
    cc.update({k: m['case'][k] for k in ('H', 'G')})
    ctx.mismatch('pe', m['case'], m['sig'], m['detail'])
  groups = _group_sw(rs.cases, 5)
  res = common.parallel_map('c03', 'replay_sw', groups, nproc=4, tag='sw',
                            outdir=os.path.join(ctx.out, 'par'))
  ctx.replayed += len(rs.cases)
  ctx.comparisons += len(rs.cases) * 10
  for c in rs.cases:
    ctx.distinct.add(('sw', c['l'], tuple(c['r']), tuple(c['ref']), tuple(c['eta']), str(c['x0'])))
  for m in res:
    ctx.mismatch('sw', m['case'], m['sig'], m['detail'])
  c0 = pe_cases[len(pe_cases) // 2]
  ctx.sample({'kind': 'pe', 'b': c0['b'], 'den': c0['den'], 'tref': c0['tref'], 'kappa': c0['kappa'],
              'H_forms_over_[1,alpha_1..alpha_K]': c0['H']})
  ctx.sample({'kind': 'sw', 'case': rs.cases[len(rs.cases) // 2]})
  ctx.assumptions += [
      'the primitive-equation inverse is verified by the resolvent identity on a spanning set of states '
      '(tolerance 2e-9, condition of the block matrix bounded on the lattice), not against an exact inverse',
      'linear forms over alpha_j are evaluated with math.log; budget 64 ulp relative to sum |coef*atom|']
  return ctx.finish(
      rule='one case per (level set on k/Den, reference profile in {constant, increasing, decreasing, zig-zag}, '
           'kappa) and one per (l, radius, ref potential, eta, basis vector) for shallow water; each primitive '
           'case replays tables, basis implicit_terms (2 matmul methods), block matrix, and the resolvent for '
           '3 x 2 strategies x up to 4 step sizes x 4 field subsets')
