"""Shared machinery of the term-level checks (C04, C10, C12): building one primitive-equation /
shallow-water problem from a small description, and recording every sub-term the code factors out
(one record per method call) while explicit_terms / implicit_terms run eagerly.

The recorded names are the node names of spec/Dataflow.tla and spec/SplitLedger.tla.
"""
from __future__ import annotations

import contextlib
import functools
import math

from harness import spectral

SQRT4PI = math.sqrt(4 * math.pi)

CLOUD = ('specific_cloud_liquid_water_content', 'specific_cloud_ice_water_content')


def make_grid(g, radius=1.0):
  """g: dict(M, L?, impl, mult?, offset?, linear?) -> Grid (quadratic truncation unless 'linear')."""
  from dinosaur import spherical_harmonic as sh
  M = g['M']
  L = g.get('L', M + 1)
  if g.get('linear'):
    I, J = 2 * M + 2, M + 2
  else:
    I, J = 3 * M + 1, (3 * M + 2) // 2
  I, J = g.get('I', I), g.get('J', J)
  kw = dict(longitude_wavenumbers=M, total_wavenumbers=L, longitude_nodes=I, latitude_nodes=J,
            longitude_offset=g.get('offset', 0.0), radius=radius,
            latitude_spacing=g.get('spacing', 'gauss'))
  if g.get('impl', 'real') == 'fast':
    opts = dict(base_shape_multiple=g.get('mult', 4), transform_precision='highest')
    if g.get('stacked') is not None:
      opts['stacked_fourier_transforms'] = g['stacked']
    if g.get('reverse') is not None:
      opts['reverse_einsum_arg_order'] = g['reverse']
    kw['spherical_harmonics_impl'] = functools.partial(sh.FastSphericalHarmonics, **opts)
  return sh.Grid(**kw)


def random_fields(grid, K, seed, amp=1.0, tracers=(), top=False):
  """Admissible random modal state on `grid` (top total wavenumber clipped, zero-mean vor/div)."""
  np, jax, jnp = spectral.np_jax()
  rs = np.random.RandomState(seed)
  mask = np.asarray(grid.mask, np.float64)
  L = grid.total_wavenumbers

  def field(k, a, zero_mean=False):
    x = rs.randn(k, *grid.modal_shape) * mask * a
    if not top:
      x[..., L - 1:] = 0
    if zero_mean:
      x[:, 0, 0] = 0
    return x
  out = dict(vorticity=field(K, 1e-2 * amp, True), divergence=field(K, 1e-2 * amp, True),
             temperature_variation=field(K, 0.5 * amp), log_surface_pressure=field(1, 1e-2 * amp),
             orography=field(1, 1e-3)[0], tracers={})
  for t in tracers:
    out['tracers'][t] = field(K, 1e-3 * amp)
  return out


def real_modal_to(grid_to, grid_from, x):
  """Re-lay a modal array of `grid_from` onto `grid_to` (same M, L; different implementation) through
  nodal space is NOT used: both grids share the nodal mesh, so to_modal(to_nodal(x)) transfers exactly
  only below the band limit.  Use label copying instead."""
  raise NotImplementedError


METHODS = ('curl_and_div_tendencies', 'kinetic_energy_tendency', 'orography_tendency',
           'horizontal_scalar_advection', 'nodal_temperature_vertical_tendency',
           'nodal_temperature_adiabatic_tendency', 'nodal_log_pressure_tendency',
           '_t_omega_over_sigma_sp', '_vertical_tendency', 'vorticity_tendency_due_to_humidity',
           'divergence_tendency_due_to_humidity')


class Recorder:
  """Wraps the sub-term methods of one equation object (instance attributes; the class is untouched)."""

  def __init__(self, eq):
    self.eq = eq
    self.rec = {}
    self.counts = {}
    self._installed = []
    for name in METHODS:
      if hasattr(type(eq), name):
        bound = getattr(eq, name)
        object.__setattr__(eq, name, self._wrap(name, bound))
        self._installed.append(name)

  def uninstall(self):
    for name in self._installed:
      try:
        object.__delattr__(self.eq, name)
      except AttributeError:
        pass

  def _put(self, name, value):
    np, _, _ = spectral.np_jax()
    self.rec[name] = np.asarray(value, np.float64) if not isinstance(value, (int, float)) else np.float64(value)

  def _wrap(self, name, fn):
    def wrapped(*a, **kw):
      out = fn(*a, **kw)
      i = self.counts.get(name, 0)
      self.counts[name] = i + 1
      if name == 'curl_and_div_tendencies':
        self._put('curl_and_div_tendencies.vorticity', out[0])
        self._put('curl_and_div_tendencies.divergence', out[1])
      elif name == 'horizontal_scalar_advection':
        tag = 'temperature' if i == 0 else f'tracer{i - 1}'
        self._put(f'horizontal_scalar_advection.{tag}.nodal', out[0])
        self._put(f'horizontal_scalar_advection.{tag}.modal', out[1])
      elif name in ('_t_omega_over_sigma_sp', '_vertical_tendency'):
        self._put(f'{name}.{i}', out)
      else:
        self._put(name, out)
      return out
    return wrapped

  @contextlib.contextmanager
  def diagnostics(self):
    from dinosaur import primitive_equations as pe
    orig = pe.compute_diagnostic_state

    def wrapped(state, coords):
      aux = orig(state, coords)
      for f in ('vorticity', 'divergence', 'temperature_variation', 'sigma_dot_explicit',
                'sigma_dot_full', 'u_dot_grad_log_sp'):
        self._put('aux.' + f, getattr(aux, f))
      self._put('aux.cos_lat_u.0', aux.cos_lat_u[0])
      self._put('aux.cos_lat_u.1', aux.cos_lat_u[1])
      self._put('aux.cos_lat_grad_log_sp.0', aux.cos_lat_grad_log_sp[0])
      self._put('aux.cos_lat_grad_log_sp.1', aux.cos_lat_grad_log_sp[1])
      for k in sorted(aux.tracers):
        self._put('aux.tracers.' + k, aux.tracers[k])
      return aux
    pe.compute_diagnostic_state = wrapped
    try:
      yield
    finally:
      pe.compute_diagnostic_state = orig

  def run(self, state):
    """explicit_terms and implicit_terms of `state`, everything recorded; returns the record."""
    self.rec, self.counts = {}, {}
    try:
      with self.diagnostics():
        ex = self.eq.explicit_terms(state)
      im = self.eq.implicit_terms(state)
    finally:
      self.uninstall()
    for tag, t in (('explicit', ex), ('implicit', im)):
      d = t.asdict() if hasattr(t, 'asdict') else dict(t)
      for f, v in d.items():
        if f == 'tracers':
          for k in sorted(v):
            self._put(f'{tag}.tracers.{k}', v[k])
        elif v is not None:
          self._put(f'{tag}.{f}', v)
    return dict(self.rec)


def build_pe(cls_name, grid, boundaries, tref, fields, specs=None, vadv=True, oro=True, sim_time=0.0,
             matmul=None):
  """Equation object + state for one of dry / time / moist / cloud."""
  np, jax, jnp = spectral.np_jax()
  from dinosaur import coordinate_systems, primitive_equations as pe, sigma_coordinates
  vertical = sigma_coordinates.SigmaCoordinates(np.asarray(boundaries, np.float64))
  coords = coordinate_systems.CoordinateSystem(grid, vertical)
  specs = specs or pe.PrimitiveEquationsSpecs.from_si()
  cls = {'dry': pe.PrimitiveEquations, 'time': pe.PrimitiveEquationsWithTime,
         'moist': pe.MoistPrimitiveEquations, 'cloud': pe.MoistPrimitiveEquationsWithCloudMoisture}[cls_name]
  orography = jnp.asarray(fields['orography']) if oro else jnp.zeros(grid.modal_shape)
  eq = cls(np.asarray(tref, np.float64), orography, coords, specs, vertical_matmul_method=matmul,
           include_vertical_advection=vadv)
  tr = {k: jnp.asarray(v) for k, v in fields['tracers'].items()}
  args = [jnp.asarray(fields[k]) for k in ('vorticity', 'divergence', 'temperature_variation', 'log_surface_pressure')]
  if cls_name == 'dry':
    st = pe.State(*args, tr)
  else:
    st = pe.StateWithTime(*args, sim_time=sim_time, tracers=tr)
  return eq, st


def tracer_names(cls_name, ntracers):
  names = []
  if cls_name in ('moist', 'cloud'):
    names.append('specific_humidity')
  if cls_name == 'cloud':
    names += list(CLOUD)
  names += [f'age{i}' for i in range(ntracers)]
  return names
