"""C02: spectral differential operators are exact on band-limited fields.
Spec: SpectralAlgebra (exact surd tables, validated by identities in TLC) + SpectralIndex (layouts).

Replay: on every grid configuration and for every label, each public operator of Grid is applied
to the unit coefficient vector and compared coefficient by coefficient with the table (composites
are composed from the primitive tables the way the code composes them).  On grids that resolve
products, the vector-calculus identities are checked through nodal space on the band the
truncation leaves intact, and nodal values of derivatives are compared with the analytic
derivatives of low-degree harmonics.
"""
from __future__ import annotations

import math
import os

from harness import common, spectral
from harness.spectral import EPS

_TABLES = None


def _tables():
  global _TABLES
  if _TABLES is None:
    import json
    with open(os.path.join(common.OUT, 'C02', 'algebra_cases.json')) as f:
      _TABLES = spectral.Tables(json.load(f))
  return _TABLES


def _grid_one(c):
  np, jax, jnp = spectral.np_jax()
  from dinosaur import spherical_harmonic as sh
  T = _tables()
  out = []
  key = {k: c[k] for k in ('M', 'L', 'I', 'J', 'spacing', 'impl', 'mult', 'nodes')}

  def bad(sig, detail):
    out.append({'case': c, 'sig': sig, 'detail': f'{key}: {detail}'})

  L = c['L']
  X = spectral.unit_batch(c)
  Xj = jnp.asarray(X)
  Z = jnp.zeros_like(Xj)
  for radius in c.get('radii', [1.0]):
    grid = spectral.make_grid(c, radius=radius)
    if tuple(grid.modal_shape) != tuple(c['modal_shape']):
      bad('shape', 'modal shape differs from the spec layout')
      return out
    E = lambda op, rpow=0: spectral.expected_linear(c, T, op, rpow, radius)
    DL = lambda rpow=0: spectral.expected_dlon(c, rpow, radius)
    npad = c['modal_pad'][1]
    ncols = c['modal_shape'][1]

    def clipped(A, n=1):
      B = A.copy()
      B[..., L - n:] = 0
      return B

    def chk(name, got, exp, cols=L, whole_zero_from=None):
      ok, idx, g, e = spectral.cmp_cols(np, got, exp, cols, scale=0.0, ulps=64)
      if not ok:
        lab = c['labels'][idx[0]] if isinstance(idx, tuple) and idx and isinstance(idx[0], int) and idx[0] < len(c['labels']) else None
        bad(name, f'radius={radius} input label {lab and (lab["m"], lab["l"], lab["s"])} output index {idx}: code {g!r} spec {e!r}')
      if whole_zero_from is not None:
        tail = np.asarray(got)[..., whole_zero_from:]
        if np.any(tail != 0):
          bad(name + ':not_clipped', f'radius={radius} columns >= {whole_zero_from} are not exactly zero')
      if not np.all(np.isfinite(np.asarray(got))):
        bad(name + ':finite', 'non-finite output')

    chk('d_dlon', grid.d_dlon(Xj), DL())
    chk('cos_lat_d_dlat', grid.cos_lat_d_dlat(Xj), E('CosD'))
    chk('sec_lat_d_dlat_cos2', grid.sec_lat_d_dlat_cos2(Xj), E('SecDCos2'))
    chk('laplacian', grid.laplacian(Xj), E('Lap', -2), cols=ncols)
    chk('inverse_laplacian', grid.inverse_laplacian(Xj), E('InvLap', 2), cols=ncols)
    for n in (1, 2):
      if n < L:
        chk(f'clip{n}', grid.clip_wavenumbers(Xj, n), clipped(X, n), cols=ncols, whole_zero_from=L - n)
    for clip in (True, False):
      f = (lambda A: clipped(A)) if clip else (lambda A: A)
      zf = L - 1 if clip else None
      gu, gv = grid.cos_lat_grad(Xj, clip=clip)
      chk(f'cos_lat_grad.u:clip={clip}', gu, f(DL(-1)), whole_zero_from=zf)
      chk(f'cos_lat_grad.v:clip={clip}', gv, f(E('CosD', -1)), whole_zero_from=zf)
      chk(f'div_cos_lat(e,0):clip={clip}', grid.div_cos_lat((Xj, Z), clip=clip), f(DL(-1)), whole_zero_from=zf)
      chk(f'div_cos_lat(0,e):clip={clip}', grid.div_cos_lat((Z, Xj), clip=clip), f(E('SecDCos2', -1)), whole_zero_from=zf)
      chk(f'curl_cos_lat(e,0):clip={clip}', grid.curl_cos_lat((Xj, Z), clip=clip), f(-E('SecDCos2', -1)), whole_zero_from=zf)
      chk(f'curl_cos_lat(0,e):clip={clip}', grid.curl_cos_lat((Z, Xj), clip=clip), f(DL(-1)), whole_zero_from=zf)
      # get_cos_lat_vector: psi = invlap(vor), chi = invlap(div); v = grad(chi) + k x grad(psi)
      il = E('InvLap', 2)                       # diagonal: il[q, row(q), col(q)]
      ilq = np.array([il[q, lab['row'], lab['col']] for q, lab in enumerate(c['labels'])])[:, None, None]
      u, v = sh.get_cos_lat_vector(Xj, Z, grid, clip=clip)      # vorticity = e
      chk(f'cos_lat_vector(vor).u:clip={clip}', u, f(-ilq * E('CosD', -1)), whole_zero_from=zf)
      chk(f'cos_lat_vector(vor).v:clip={clip}', v, f(ilq * DL(-1)), whole_zero_from=zf)
      u, v = sh.get_cos_lat_vector(Z, Xj, grid, clip=clip)      # divergence = e
      chk(f'cos_lat_vector(div).u:clip={clip}', u, f(ilq * DL(-1)), whole_zero_from=zf)
      chk(f'cos_lat_vector(div).v:clip={clip}', v, f(ilq * E('CosD', -1)), whole_zero_from=zf)
    ku, kv = grid.k_cross((Xj, 2 * Xj))
    if not (np.array_equal(np.asarray(ku), -2 * X) and np.array_equal(np.asarray(kv), X)):
      bad('k_cross', 'k x (a, b) != (-b, a)')
    # ---- identities through nodal space on grids that resolve products
    if c['L'] >= 4 and (c['nodes'] == 'fine' or
                        (c['nodes'] == 'quadratic' and c['spacing'] == 'gauss' and c['L'] - c['M'] == 1)):
      zm = np.array([0.0 if (lab['m'], lab['l']) == (0, 0) else 1.0 for lab in c['labels']])[:, None, None]
      Xz = jnp.asarray(X * zm)                                  # zero-mean inputs
      N = max(c['I'], c['J'])
      for clip, top in ((True, L - 3), (False, L - 2)):
        band = np.array([lab['l'] <= top for lab in c['labels']])
        for which in ('vor', 'div'):
          a, b = (Xz, Z) if which == 'vor' else (Z, Xz)
          un, vn = sh.vor_div_to_uv_nodal(grid, a, b, clip=clip)
          vor, div = sh.uv_nodal_to_vor_div_modal(grid, un, vn, clip=clip)
          gv, gd = (np.asarray(vor), np.asarray(div))
          ev, ed = (np.asarray(a), np.asarray(b))
          err = max(np.abs(gv - ev)[band][..., :top + 1].max(initial=0), np.abs(gd - ed)[band][..., :top + 1].max(initial=0))
          if not err <= 1e-11 * radius ** 0:
            bad(f'roundtrip_uv:{which}:clip={clip}', f'radius={radius}: vor/div -> wind -> vor/div error {err:.3e} on l <= {top}')
      # div grad = laplacian, curl grad = 0, div (k x grad) = 0, below the top wavenumber
      gu, gv_ = grid.cos_lat_grad(Xj, clip=False)
      sec2 = jnp.asarray(grid.sec2_lat)
      U = grid.to_modal(grid.to_nodal(gu) * sec2)
      V = grid.to_modal(grid.to_nodal(gv_) * sec2)
      low = np.array([lab['l'] <= L - 3 for lab in c['labels']])
      dg = np.asarray(grid.div_cos_lat((U, V), clip=False))[low][..., :L - 2]
      lap = np.asarray(grid.laplacian(Xj))[low][..., :L - 2]
      cg = np.asarray(grid.curl_cos_lat((U, V), clip=False))[low][..., :L - 2]
      dk = np.asarray(grid.div_cos_lat(grid.k_cross((U, V)), clip=False))[low][..., :L - 2]
      scale = L * L / radius ** 2
      for nm, arr, ref in (('div_grad=laplacian', dg, lap), ('curl_grad=0', cg, 0 * cg), ('div_kxgrad=0', dk, 0 * dk)):
        err = np.abs(arr - ref).max(initial=0)
        if not err <= 1e-11 * scale:
          bad(f'identity:{nm}', f'radius={radius}: max error {err:.3e}')
      # analytic derivatives of low-degree harmonics at the nodes (unit sphere factors / radius)
      I, J = c['I'], c['J']
      lon, mu = grid.nodal_mesh
      lon, mu = np.asarray(lon)[:I, :J], np.asarray(mu)[:I, :J]
      cs = np.sqrt(1 - mu ** 2)
      qidx = {(lab['m'], lab['l'], lab['s']): q for q, lab in enumerate(c['labels'])}
      a11 = -math.sqrt(3 / (4 * math.pi)); a01 = math.sqrt(3 / (4 * math.pi)); a12 = -math.sqrt(15 / (4 * math.pi))
      want = {  # label -> (d/dlon, cos(lat) d/dlat) of the unit-sphere harmonic
          (0, 1, 'c'): (0 * mu, a01 * cs * cs),
          (1, 1, 'c'): (-a11 * cs * np.sin(lon), -a11 * mu * cs * np.cos(lon)),
          (1, 1, 's'): (a11 * cs * np.cos(lon), -a11 * mu * cs * np.sin(lon)),
          (1, 2, 'c'): (-a12 * mu * cs * np.sin(lon), a12 * (cs ** 2 - mu ** 2) * cs * np.cos(lon)),
      }
      dl_n = np.asarray(grid.to_nodal(grid.d_dlon(Xj)))[:, :I, :J]
      dt_n = np.asarray(grid.to_nodal(grid.cos_lat_d_dlat(Xj)))[:, :I, :J]
      for k, (wl, wt) in want.items():
        if k in qidx:
          e1 = np.abs(dl_n[qidx[k]] - wl).max(); e2 = np.abs(dt_n[qidx[k]] - wt).max()
          if not max(e1, e2) <= 256 * EPS * N:
            bad('analytic_derivative', f'label {k}: nodal derivative differs from the analytic one by {max(e1, e2):.3e}')
  return out


replay_grids = common.per_case(_grid_one, 'ops')


# ----------------------------------------------------------------------------------------------
# analytic derivatives of polynomial fields (OperatorsPoly.tla)
# ----------------------------------------------------------------------------------------------

def _poly_one(c):
  """Spectral operators of the real Grid vs the analytic derivatives of the synthesised function, at every node."""
  np, jax, jnp = spectral.np_jax()
  from harness import dataflow
  from harness.common import fl
  out = []
  a = fl(c['a'])

  def peval(terms, X, Y, Z):
    tot = np.zeros_like(X)
    for i, j, k, n, d in terms:
      tot = tot + (n / d) * X ** i * Y ** j * Z ** k
    return tot
  for g in (dict(M=5, L=6), dict(M=5, L=6, impl='fast', mult=2), dict(M=6, L=7, offset=0.4)):
    grid = dataflow.make_grid(g, radius=a)
    lon, sinlat = (np.asarray(v, np.float64) for v in grid.nodal_mesh)
    cosl = np.sqrt(1 - sinlat ** 2)
    X, Y, Z = cosl * np.cos(lon), cosl * np.sin(lon), sinlat
    real = np.zeros(X.shape, bool)
    real[:grid.longitude_nodes, :grid.latitude_nodes] = True
    ev = lambda t: np.where(real, peval(t, X, Y, Z), 0.0)
    fm = grid.to_modal(jnp.asarray(ev(c['f'])))
    gu, gv = grid.cos_lat_grad(fm, clip=False)
    got = {'dlon': grid.d_dlon(fm), 'cosdlat': grid.cos_lat_d_dlat(fm), 'secdlatcos2': grid.sec_lat_d_dlat_cos2(fm),
           'laplacian': grid.laplacian(fm), 'gradu': gu, 'gradv': gv}
    for name, modal in got.items():
      nod = np.asarray(grid.to_nodal(modal))
      exp = ev(c[name])
      scale = 1.0 + float(np.abs(exp).max())
      err = np.where(real, np.abs(nod - exp), 0.0)
      if not np.all(np.isfinite(nod)) or err.max() > 1e-11 * scale:
        j = np.unravel_index(np.argmax(err), err.shape)
        out.append({'case': c, 'sig': f'analytic:{name}',
                    'detail': f'grid {g} radius {a}: {name} of the synthesised field at node (lon {lon[j]:.4f}, sin(lat) {sinlat[j]:.4f}): '
                              f'code {nod[j]!r}, analytic derivative {exp[j]!r}'})
    # inverse Laplacian undoes the Laplacian on the zero-mean part
    back = np.asarray(grid.to_nodal(grid.inverse_laplacian(got['laplacian'])))
    f0 = ev(c['f'])
    mean = float(np.asarray(grid.to_modal(jnp.asarray(f0)))[0, 0]) / dataflow.SQRT4PI / a ** 0
    zm = np.where(real, f0 - np.asarray(grid.to_nodal(jnp.zeros(grid.modal_shape).at[0, 0].set(np.asarray(grid.to_modal(jnp.asarray(f0)))[0, 0]))), 0.0)
    err = np.where(real, np.abs(back - zm), 0.0)
    if err.max() > 1e-11 * (1.0 + np.abs(zm).max()):
      out.append({'case': c, 'sig': 'analytic:inverse_laplacian',
                  'detail': f'grid {g} radius {a}: inverse_laplacian(laplacian(f)) differs from the zero-mean part of f by {err.max():.3e}'})
  return out


replay_poly = common.per_case(_poly_one, 'analytic')


def replay(ctx, kind, cases):
  if kind == 'analytic':
    for m in replay_poly(cases):
      ctx.mismatch(kind, m['case'], m['sig'], m['detail'])
    return
  _ensure_tables(ctx)
  for m in replay_grids(cases):
    ctx.mismatch(kind, m['case'], m['sig'], m['detail'])


def _ensure_tables(ctx):
  import json
  path = os.path.join(common.OUT, 'C02', 'algebra_cases.json')
  if not os.path.exists(path):
    ra = common.run_tlc('SpectralAlgebra', 'SpectralAlgebra_quick.cfg', prop='C02', workers=6)
    os.makedirs(os.path.dirname(path), exist_ok=True)
    with open(path, 'w') as f:
      json.dump(ra.cases, f)


def run(ctx):
  import json
  q = ctx.quick
  ra = ctx.tlc('SpectralAlgebra', 'SpectralAlgebra_quick.cfg', workers=6)
  ctx.require_actions(ra, ['Build'])
  if len(ra.cases) != 6:
    raise common.MachineryError('expected one table per m in 0..5')
  with open(os.path.join(common.OUT, 'C02', 'algebra_cases.json'), 'w') as f:
    json.dump(ra.cases, f)
  r = ctx.tlc('SpectralIndex', 'SpectralIndex_quick.cfg' if q else 'SpectralIndex_thorough.cfg')
  cases = [c for c in r.cases if c['spacing'] == 'gauss' or c['nodes'] in ('quadratic', 'fine')]
  if q:      # the fine-latitude grids are expensive: one per spacing in the quick tier
    cases = [c for c in cases if c['nodes'] != 'fine' or (c['spacing'], c['impl']) in (('gauss', 'real'), ('equiangular', 'fast'))]
  for i, c in enumerate(cases):
    c['radii'] = [2.0] if c['nodes'] == 'fine' else [1.0, 2.0] if i % 2 == 0 else [0.5]
  res = common.parallel_map('c02', 'replay_grids', cases, nproc=4 if q else 8, tag='ops',
                            outdir=os.path.join(ctx.out, 'par'))
  ctx.replayed += len(cases)
  nlab = sum(len(c['labels']) * len(c['radii']) for c in cases)
  ctx.comparisons += nlab * 30
  ctx.notes['operator_applications'] = nlab * 30
  for c in cases:
    ctx.distinct.add((c['M'], c['L'], c['I'], c['J'], c['spacing'], c['impl'], c['mult']))
  for m in res:
    ctx.mismatch('ops', m['case'], m['sig'], m['detail'])
  # the analytic side: derivatives of polynomial fields on the sphere, pointwise
  rp = ctx.tlc('OperatorsPoly', 'OperatorsPoly.cfg', workers=2)
  ctx.require_actions(rp, ['First', 'Second'])
  if len(rp.cases) < 12:
    raise common.MachineryError('OperatorsPoly: too few cases')
  for m in common.parallel_map('c02', 'replay_poly', rp.cases, nproc=4, tag='poly', outdir=os.path.join(ctx.out, 'par')):
    ctx.mismatch('analytic', m['case'], m['sig'], m['detail'])
  ctx.replayed += len(rp.cases)
  ctx.comparisons += 7 * 3 * len(rp.cases)
  ctx.sample({'analytic_case': {k: rp.cases[0][k] for k in ('f', 'a', 'dlon', 'cosdlat')}})
  ctx.sample({'table': 'CosD', 'm': ra.cases[1]['m'], 'entries': ra.cases[1]['CosD'][:4]})
  s = cases[len(cases) // 2]
  ctx.sample({k: s[k] for k in ('M', 'L', 'I', 'J', 'spacing', 'impl', 'mult', 'modal_shape', 'radii')})
  ctx.assumptions += ['rounding budget 64 ulp per coefficient for single operators; 1e-11 (scaled) for identities '
                      'evaluated through nodal space',
                      'behaviour in the top total wavenumber of composites and in padding columns is unspecified '
                      '(only finiteness, and exact zeros after clipping, are asserted there)']
  return ctx.finish(
      rule='every grid configuration of SpectralIndex (gauss or quadratic nodes) x radius in {1, 2, 1/2}; every '
           'label is a unit input to ~30 operator/composite applications compared coefficient-wise with the exact '
           'tables of SpectralAlgebra')
