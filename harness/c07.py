"""C07: sharded (model-parallel) execution equals single-device execution.
Spec: Collectives (ring all-gather / reduce-scatter matmul, prefix sums), Meshes (mesh shapes,
padded layouts, shard-local wavenumbers).

Replay on 8 virtual CPU devices: (a) sharded_einsum on every axis size n in {2,4,6,8}, both
strategies and argument orders, for the einsum patterns of the transforms, on integer data
(exact) plus tag decoding of which (lhs chunk, rhs chunk) products each device formed, which
must be the terminal state of Collectives.tla; prefix sums in both directions; (b) for every
mesh exported by Meshes.tla: the Grid built on the mesh has the spec's padded shapes, and the
transforms, derivatives, clip, (inverse) Laplacian, filters, cumulative integrals, implicit
terms / inverse and explicit terms / a full step equal the unsharded results after removing
padding and are finite.
"""
from __future__ import annotations

import functools
import json
import os

from harness import common

ENV8 = {'XLA_FLAGS': '--xla_force_host_platform_device_count=8'}


def _jx():
  import numpy as np
  import jax
  jax.config.update('jax_enable_x64', True)
  import jax.numpy as jnp
  if len(jax.devices()) < 8:
    raise common.MachineryError('needs 8 virtual CPU devices (XLA_FLAGS not applied)')
  return np, jax, jnp


def _einsum_one(c):
  np, jax, jnp = _jx()
  from dinosaur import jax_numpy_utils as jnu
  P = jax.sharding.PartitionSpec
  out = []
  n = c['n']
  axis = c['axis']            # 'x' or 'y'
  shape = (1, n, 1) if axis == 'x' else (1, 1, n)
  mesh = jax.sharding.Mesh(np.array(jax.devices()[:n]).reshape(shape), ['z', 'x', 'y'])
  rs = np.random.RandomState(c['seed'])
  # the patterns of the fast transforms (reduce axis and transfer axis both on `axis`)
  if axis == 'x':
    pats = [('im,mj->ij', (2 * n, 3 * n), (3 * n, 4), P('x', 'y'), P('x', 'y')),
            ('im,zmj->zij', (2 * n, 2 * n), (2, 2 * n, 4), P(None, 'x', 'y'), P(None, 'x', 'y')),
            ('ism,zsmj->zij', (2 * n, 2, n), (2, 2, n, 3), P(None, None, 'x', 'y'), P(None, 'x', 'y'))]
  else:
    pats = [('mjl,zsml->zsmj', (3, 2 * n, 3 * n), (2, 2, 3, 3 * n), P(None, None, 'x', 'y'), P(None, None, 'x', 'y')),
            ('mjl,sml->smj', (2, n, 2 * n), (2, 2, 2 * n), P(None, 'x', 'y'), P(None, 'x', 'y'))]
  for subs, ls, rsh, in_spec, out_spec in pats:
    lhs = rs.randint(-3, 4, size=ls).astype(np.float64)
    rhs = rs.randint(-3, 4, size=rsh).astype(np.float64)
    ref = np.einsum(subs, lhs, rhs)
    for gather in (True, False, None):
      for rev in (False, True):
        got = np.asarray(jnu.sharded_einsum(subs, lhs, jnp.asarray(rhs), gather_inputs=gather,
                                            reverse_arg_order=rev, precision='highest', mesh=mesh,
                                            rhs_spec=in_spec, out_spec=out_spec))
        if got.shape != ref.shape or not np.array_equal(got, ref):
          out.append({'case': c, 'sig': f'einsum:{"gather" if gather else "scatter" if gather is False else "auto"}:n={n}',
                      'detail': f'{subs} reverse={rev} axis={axis}: sharded result differs from einsum (max {np.abs(got - ref).max() if got.shape == ref.shape else "shape"})'})
  # tag decoding for the all-gather strategy: which lhs chunk met rhs chunk s on device d
  if c.get('pairs') and axis == 'x':
    subs, in_spec, out_spec = 'im,mj->ij', P('x', 'y'), P('x', 'y')
    for s in range(n):
      lhs = np.zeros((n, n))                     # row block d (one row per device), column chunk j
      for j in range(n):
        lhs[:, j] = 4.0 ** j
      rhs = np.zeros((n, 1)); rhs[s, 0] = 1.0    # only rhs chunk s is non-zero
      got = np.asarray(jnu.sharded_einsum(subs, lhs, jnp.asarray(rhs), gather_inputs=True, precision='highest',
                                          mesh=mesh, rhs_spec=in_spec, out_spec=out_spec))[:, 0]
      for d in range(n):
        v = int(round(got[d]))
        met = []
        j = 0
        while v:
          met += [j] * (v % 4)
          v //= 4
          j += 1
        exp = [p[0] for p in c['pairs'][str(d)] if p[1] == s]
        if sorted(met) != sorted(exp):
          out.append({'case': c, 'sig': f'pairs:allgather:n={n}',
                      'detail': f'device {d}: rhs chunk {s} was multiplied with lhs chunks {met}, spec {exp}'})
  return out


replay_einsum = common.per_case(_einsum_one, 'einsum')


def _pad(np, a, shape):
  out = np.zeros(a.shape[:-2] + tuple(shape))
  out[..., :a.shape[-2], :a.shape[-1]] = a
  return out


def _mesh_one(c):
  np, jax, jnp = _jx()
  from dinosaur import coordinate_systems, filtering, jax_numpy_utils as jnu, primitive_equations as pe
  from dinosaur import sigma_coordinates, spherical_harmonic as sh, time_integration as ti
  out = []
  z, x, y = c['mesh']
  M, K = c['M'], c['K']
  key = {'mesh': c['mesh'], 'M': M, 'K': K}

  def bad(sig, detail):
    out.append({'case': c, 'sig': sig, 'detail': f'{key}: {detail}'})

  mesh = jax.sharding.Mesh(np.array(jax.devices()[:z * x * y]).reshape((z, x, y)), ['z', 'x', 'y'])
  kw = dict(longitude_wavenumbers=M, total_wavenumbers=c['L'], longitude_nodes=c['I'], latitude_nodes=c['J'])
  impl = functools.partial(sh.FastSphericalHarmonics, transform_precision='highest')
  gu = sh.Grid(**kw, spherical_harmonics_impl=impl)
  gd = sh.Grid(**kw, spherical_harmonics_impl=impl, spmd_mesh=mesh)
  if tuple(gd.modal_shape) != tuple(c['modal']) or tuple(gd.nodal_shape) != tuple(c['nodal']):
    bad('shapes', f'sharded grid shapes {gd.modal_shape} {gd.nodal_shape} != spec {c["modal"]} {c["nodal"]}')
    return out
  rs = np.random.RandomState(11)
  mask = np.asarray(gu.mask, np.float64)
  mu, nu = gu.modal_shape, gu.nodal_shape
  xm = rs.randn(K, *mu) * mask
  xm[..., -1] = 0
  xd = jnp.asarray(_pad(np, xm, gd.modal_shape))
  xu = jnp.asarray(xm)

  def close(name, a_d, a_u, modal=True):
    a_d, a_u = np.asarray(a_d), np.asarray(a_u)
    sl = a_d[..., :a_u.shape[-2], :a_u.shape[-1]]
    if not np.all(np.isfinite(a_d)):
      bad(f'{name}:nonfinite', 'non-finite values in the sharded result')
      return
    sc = max(np.abs(a_u).max(), 1e-30)
    if sl.shape != a_u.shape or np.abs(sl - a_u).max() > 1e-11 * sc:
      bad(name, f'sharded result differs from the unsharded one by {np.abs(sl - a_u).max() / sc:.3e} (relative)')
    if modal:
      pad = a_d.copy(); pad[..., :a_u.shape[-2], :a_u.shape[-1]] = 0
      if name.startswith(('clip', 'inverse_laplacian', 'to_modal', 'filter')) and np.any(pad != 0):
        bad(f'{name}:padding', 'padding entries are non-zero')

  nd, nuu = gd.to_nodal(xd), gu.to_nodal(xu)
  close('to_nodal', nd, nuu, modal=False)
  close('to_modal', gd.to_modal(nd), gu.to_modal(nuu))
  close('d_dlon', gd.d_dlon(xd), gu.d_dlon(xu))
  close('cos_lat_d_dlat', gd.clip_wavenumbers(gd.cos_lat_d_dlat(xd)), gu.clip_wavenumbers(gu.cos_lat_d_dlat(xu)))
  close('clip', gd.clip_wavenumbers(xd), gu.clip_wavenumbers(xu))
  close('laplacian', gd.laplacian(xd), gu.laplacian(xu))
  close('inverse_laplacian', gd.inverse_laplacian(xd), gu.inverse_laplacian(xu))
  dt = 0.01
  for nm, mk in (('filter:exponential', lambda g: filtering.exponential_filter(g, 4.0, 2, 0.3)),
                 ('filter:diffusion_step', lambda g: (lambda s: ti.horizontal_diffusion_step_filter(g, dt, 0.05, 2)(None, s))),
                 ('filter:exponential_step', lambda g: (lambda s: ti.exponential_step_filter(g, dt, 0.02, 3, 0.2)(None, s)))):
    close(nm, mk(gd)(xd), mk(gu)(xu))
  # cumulative sums along a sharded vertical axis
  if K % z == 0:
    sharding = jax.sharding.NamedSharding(mesh, jax.sharding.PartitionSpec('z', 'x', 'y'))
    for rev, f in ((False, jnu.cumsum), (True, jnu.reverse_cumsum)):
      a = f(jax.device_put(xd, sharding), 0, sharding=sharding)
      b = (np.cumsum(xm[::-1], axis=0)[::-1] if rev else np.cumsum(xm, axis=0))
      close(f'cumsum:reverse={rev}', a, b)
    # primitive equations: implicit terms / inverse / explicit terms / one step
    if c.get('model'):
      bounds = np.array([0, 0.1, 0.35, 0.7, 1.0]) if K == 4 else np.linspace(0, 1, K + 1) ** 1.5
      vert = sigma_coordinates.SigmaCoordinates(bounds)
      specs = pe.PrimitiveEquationsSpecs.from_si()
      tref = np.linspace(220.0, 290.0, K)
      res = {}
      for name, g, m, conv in (('u', gu, None, lambda a: jnp.asarray(a)),
                               ('d', gd, mesh, lambda a: jnp.asarray(_pad(np, a, gd.modal_shape)))):
        coords = coordinate_systems.CoordinateSystem(g, vert, spmd_mesh=m)
        g2 = coords.horizontal
        mk = lambda k, amp: (lambda a: (a.__setitem__((Ellipsis, -1), 0), a)[1])(np.random.RandomState(5 + k).randn(k, *mu) * mask * amp)
        vor, div = mk(K, 1e-2), mk(K, 1e-2)
        vor[:, 0, 0] = 0; div[:, 0, 0] = 0
        st = pe.State(conv(vor), conv(div), conv(mk(K, 1.0)), conv(mk(1, 1e-2)), {'q': conv(mk(K, 1e-3))})
        if m is not None:
          st = coords.with_dycore_sharding(st)
        eq = pe.PrimitiveEquations(tref, conv(mk(1, 1e-2)[0]), coords, specs)
        r = {'implicit_terms': eq.implicit_terms(st), 'explicit_terms': jax.jit(eq.explicit_terms)(st)}
        for method in ('split', 'stacked', 'blockwise'):
          r[f'implicit_inverse:{method}'] = eq.implicit_inverse(st, 0.02, method=method)
        step = ti.step_with_filters(ti.imex_rk_sil3(eq, 1e-3), [ti.exponential_step_filter(g2, 1e-3, 0.01, 2, 0.3)])
        r['step'] = jax.jit(step)(st)
        res[name] = r
      for nm in res['u']:
        for f in ('vorticity', 'divergence', 'temperature_variation', 'log_surface_pressure'):
          close(f'model:{nm}:{f}', getattr(res['d'][nm], f), getattr(res['u'][nm], f))
        close(f'model:{nm}:tracer', res['d'][nm].tracers['q'], res['u'][nm].tracers['q'])
  return out


replay_mesh = common.per_case(_mesh_one, 'mesh')
REPLAYERS = {'einsum': replay_einsum, 'mesh': replay_mesh}


def replay(ctx, kind, cases):
  res = common.parallel_map('c07', 'replay_' + kind, cases, nproc=1, env=ENV8, tag='rp', outdir=os.path.join(ctx.out, 'par'))
  for m in res:
    ctx.mismatch(kind, m['case'], m['sig'], m['detail'])


def run(ctx):
  q = ctx.quick
  rc = ctx.tlc('Collectives', 'Collectives.cfg' if q else 'Collectives_thorough.cfg', workers=1)
  ctx.require_actions(rc, ['AGStart', 'AGRound', 'RSStart', 'RSRound', 'RSFinal', 'PSAll'])
  rm = ctx.tlc('Meshes', 'Meshes.cfg')
  pairs = {c['n']: c['pairs'] for c in rc.cases if c['alg'] == 'allgather'}
  ein = []
  for n in (2, 4, 6, 8):
    for axis in ('x', 'y'):
      ein.append({'n': n, 'axis': axis, 'seed': n, 'pairs': pairs[n] if (n in (4, 6) or not q) else None})
  meshes = rm.cases
  sel_quick = {(2, 1, 1), (1, 2, 2), (1, 6, 1), (1, 1, 6), (3, 1, 2), (2, 2, 2)}
  model_quick = {(2, 1, 1), (1, 2, 2)}
  chosen = []
  for c in meshes:
    t = tuple(c['mesh'])
    if t == (1, 1, 1):
      continue
    if q and (t not in sel_quick or c['K'] != (4 if t[0] in (1, 2, 4) else 3)):
      continue
    if not c['spans'] and (q or t[1] * t[2] > 2) and any(d['spans'] and d['mesh'] == c['mesh'] and d['M'] != c['M'] for d in meshes):
      continue      # the small grid (all data on the first shard) only where it is cheap; the spanning grid always
    c['model'] = ((t in model_quick) if q else (c['K'] % t[0] == 0 and t[1] * t[2] <= 4)) and c['M'] <= 12
    chosen.append(c)
  if not all(c['spans'] for c in chosen if c['mesh'][1] * c['mesh'][2] > 1 and q):
    raise common.MachineryError('quick tier: a horizontally sharded mesh without data on every shard was chosen')
  res = common.parallel_map('c07', 'replay_einsum', ein, nproc=2, env=ENV8, tag='ein', outdir=os.path.join(ctx.out, 'par'))
  res += common.parallel_map('c07', 'replay_mesh', chosen, nproc=3 if q else 4, env=ENV8, tag='mesh',
                             outdir=os.path.join(ctx.out, 'par'), timeout=7200)
  ctx.replayed += len(ein) + len(chosen)
  ctx.comparisons += len(ein) * 18 + len(chosen) * 14
  for c in ein:
    ctx.distinct.add(('einsum', c['n'], c['axis']))
  for c in chosen:
    ctx.distinct.add(('mesh', tuple(c['mesh']), c['K']))
  for m in res:
    ctx.mismatch('einsum' if m['sig'].startswith(('einsum', 'pairs')) else 'mesh', m['case'], m['sig'], m['detail'])
  ctx.sample({'collective': 'allgather', 'n': 4, 'pairs_per_device': pairs[4]})
  ctx.sample({k: chosen[0][k] for k in ('mesh', 'M', 'K', 'modal', 'nodal', 'zpad')})
  ctx.assumptions += ['virtual CPU devices only; XLA SPMD partitioner trusted; no multi-host communication',
                      'float64, tolerance 1e-11 of range for whole operations; integer data exact for sharded_einsum']
  return ctx.finish(rule='Collectives: n in {1,2,4,6,8,10,12,16} (thorough: up to 64) x {all-gather, reduce-scatter, prefix sum} exhaustively in TLC; '
                         'replay: sharded_einsum for n in {2,4,6,8} x axis x 5 patterns x 3 strategies x 2 argument orders, '
                         'tag decoding against the spec; every mesh (z,x,y) on <= 8 devices from Meshes.tla (quick: 8 of 27)',
                    exhaustive=not q)
