"""Shared machinery: TLC driver, CASE export parser, evidence, findings, violation reports.

Everything a check needs that is not specific to one property lives here so that the
per-property modules only contain (a) which TLA+ module/config to run and (b) how a
TLC-exported behaviour is replayed into the real library (imported from /repo).
"""
from __future__ import annotations

import dataclasses
import json
import os
import re
import shutil
import subprocess
import sys
import time
from fractions import Fraction
from typing import Any, Callable, Iterable, Optional

VERIF = os.path.dirname(os.path.dirname(os.path.abspath(__file__)))
REPO = os.environ.get('VERIF_REPO', '/repo')
SPEC = os.path.join(VERIF, 'spec')
OUT = os.environ.get('VERIF_OUT') or os.path.join(VERIF, 'out')
EVID = os.environ.get('VERIF_EVID') or os.path.join(VERIF, 'evidence')
FINDINGS = os.path.join(VERIF, 'known_findings.json')
NCPU = os.cpu_count() or 4
TLC_CP = '/opt/veriftools/tla/tla2tools.jar:/opt/veriftools/tla/CommunityModules-deps.jar'


HARNESS_ERROR = '__harness_error__'


class MachineryError(Exception):
  """Something in the verification machinery itself failed (exit 2, never a verdict)."""


# ----------------------------------------------------------------------------------------
# TLC
# ----------------------------------------------------------------------------------------

@dataclasses.dataclass
class TLCResult:
  module: str
  cfg: str
  ok: bool                      # TLC finished with "No error has been found"
  states: int                   # distinct states
  transitions: int              # states generated
  depth: int
  cases: list                   # parsed CASE payloads
  violated: Optional[str]       # name of violated invariant / property, if any
  coverage: dict                # action name -> count (when -coverage given)
  wall_s: float
  stdout: str
  mode: str = 'bfs'

  def brief(self):
    return dict(module=self.module, cfg=self.cfg, mode=self.mode, states=self.states,
                transitions=self.transitions, depth=self.depth, cases=len(self.cases),
                actions=self.coverage, wall_s=round(self.wall_s, 2))


_CASE_RE = re.compile(r'^<<"(CASE|TRACEOK|TRACEBAD)", "(.*)">>\s*$')
_ACT_RE = re.compile(r'^<(\w+) line \d+, col \d+ to line \d+, col \d+ of module (\w+)>: (\d+):(\d+)')


def _unescape_tla_string(s: str) -> str:
  # TLC prints strings with \" and \\ escapes.
  return s.replace('\\\\', '\x00').replace('\\"', '"').replace('\x00', '\\')


def run_tlc(module: str, cfg: str, *, prop: str, workers: int | str = 1,
            simulate: Optional[str] = None, depth: Optional[int] = None,
            seed: Optional[int] = None, env: Optional[dict] = None, timeout: int = 1800,
            coverage: bool = True, tag: str = '', expect_violation: bool = False,
            deque: bool = False) -> TLCResult:
  """Runs TLC on spec/<module>.tla with spec/mc/<cfg>; parses summary, CASE lines, coverage."""
  meta = os.path.join(OUT, prop, 'tlc_' + (tag or cfg.replace('.cfg', '')))
  shutil.rmtree(meta, ignore_errors=True)
  os.makedirs(meta, exist_ok=True)
  cfg_path = cfg if os.path.isabs(cfg) else os.path.join(SPEC, 'mc', cfg)
  cmd = ['java', '-XX:+UseParallelGC', '-Xmx8g', '-Xss256m']
  if deque:
    cmd.append('-Dtlc2.tool.queue.IStateQueue=StateDeque')
  cmd += ['-cp', TLC_CP, 'tlc2.TLC', '-workers', str(workers), '-metadir', meta,
          '-noGenerateSpecTE', '-config', cfg_path]
  if coverage and simulate is None:
    cmd += ['-coverage', '1']
  if simulate is not None:
    cmd += ['-simulate', simulate]
  if depth is not None:
    cmd += ['-depth', str(depth)]
  if seed is not None:
    cmd += ['-seed', str(seed)]
  cmd.append(module + '.tla')
  e = dict(os.environ)
  e.update(env or {})
  t0 = time.time()
  try:
    p = subprocess.run(cmd, cwd=SPEC, env=e, capture_output=True, text=True, timeout=timeout)
  except subprocess.TimeoutExpired as ex:
    raise MachineryError(f'TLC timeout after {timeout}s: {module} {cfg}') from ex
  wall = time.time() - t0
  out = p.stdout + p.stderr
  with open(os.path.join(meta, 'stdout.txt'), 'w') as f:
    f.write(out)
  shutil.rmtree(os.path.join(meta, 'states'), ignore_errors=True)
  cases, cov = [], {}
  for line in out.splitlines():
    m = _CASE_RE.match(line)
    if m:
      try:
        payload = json.loads(_unescape_tla_string(m.group(2)))
      except json.JSONDecodeError as ex:
        raise MachineryError(f'unparsable CASE line from TLC: {line[:200]}') from ex
      if m.group(1) != 'CASE':
        payload = {'_kind': m.group(1), 'v': payload}
      cases.append(payload)
      continue
    m = _ACT_RE.match(line)
    if m:      # actions of extended modules count too (ColumnTendency runs ImplicitSolve's actions)
      cov[m.group(1)] = cov.get(m.group(1), 0) + int(m.group(4))
  states = transitions = depth_found = 0
  m = re.search(r'(\d+) states generated, (\d+) distinct states found', out)
  if m:
    transitions, states = int(m.group(1)), int(m.group(2))
  if simulate is not None:
    m = re.search(r'The number of states generated: (\d+)', out)
    if m:
      transitions = states = int(m.group(1))
  m = re.search(r'depth of the complete state graph search is (\d+)', out)
  if m:
    depth_found = int(m.group(1))
  violated = None
  m = re.search(r'Error: Invariant (\w+) is violated', out)
  if m:
    violated = m.group(1)
  m2 = re.search(r'Error: Action property (\w+) is violated', out) or re.search(
      r'Error: Temporal properties were violated', out)
  if m2 and not violated:
    violated = m2.group(1) if m2.groups() else 'temporal'
  ok = ('No error has been found' in out) or (simulate is not None and violated is None
                                               and 'Error:' not in out)
  if not ok and violated is None:
    tail = '\n'.join(out.splitlines()[-40:])
    raise MachineryError(f'TLC failed on {module}/{cfg} (see {meta}/stdout.txt):\n{tail}')
  if violated and not expect_violation:
    pass  # caller decides (a design-level counterexample)
  return TLCResult(module, os.path.basename(cfg_path), ok, states, transitions, depth_found,
                   cases, violated, cov, wall, out, 'simulate' if simulate else 'bfs')


def tlc_error_trace(stdout: str) -> str:
  i = stdout.find('Error:')
  return stdout[i:i + 6000] if i >= 0 else ''


# ----------------------------------------------------------------------------------------
# Rationals exported by the spec as [n, d]
# ----------------------------------------------------------------------------------------

def frac(x) -> Fraction:
  if isinstance(x, (list, tuple)):
    return Fraction(int(x[0]), int(x[1]))
  return Fraction(x)


def fl(x) -> float:
  f = frac(x)
  return f.numerator / f.denominator


# ----------------------------------------------------------------------------------------
# Findings
# ----------------------------------------------------------------------------------------

def load_findings() -> dict:
  if not os.path.exists(FINDINGS):
    return {'known': [], 'fixed': []}
  with open(FINDINGS) as f:
    return json.load(f)


# ----------------------------------------------------------------------------------------
# Check context
# ----------------------------------------------------------------------------------------

class Ctx:
  """Accumulates what a run covered and what it found; writes evidence; prints verdicts."""

  def __init__(self, prop: str, tier: str, seed: int):
    self.prop, self.tier, self.seed = prop, tier, seed
    self.t0 = time.time()
    self.tlc_runs: list[TLCResult] = []
    self.replayed = 0            # spec behaviours executed against the implementation
    self.traces = 0              # implementation traces accepted by a trace spec
    self.comparisons = 0         # individual expected-vs-observed comparisons
    self.samples: list = []
    self.violations: list = []   # (signature, detail, replay_path)
    self.known_hits: list = []
    self.harness_errors: list = []
    self.drift: dict = {}        # internal sub-term differs from the spec although the property holds
    self.assumptions: list[str] = []
    self.notes: dict = {}
    self.distinct: set = set()
    self.out = os.path.join(OUT, prop)
    os.makedirs(self.out, exist_ok=True)
    for fn in os.listdir(self.out):
      if fn.startswith('viol_'):
        os.remove(os.path.join(self.out, fn))
    self._known = [k for k in load_findings().get('known', []) if k['property'] == prop]
    self._nviol = 0

  @property
  def quick(self):
    return self.tier == 'quick'

  # -- TLC ------------------------------------------------------------------------------
  def tlc(self, module, cfg, **kw) -> TLCResult:
    kw.setdefault('workers', 'auto')
    r = run_tlc(module, cfg, prop=self.prop, **kw)
    self.tlc_runs.append(r)
    if r.violated and not kw.get('expect_violation'):
      # The machine itself admits a bad state: report as a violation of the design-level
      # property with TLC's counterexample as replay file.
      path = os.path.join(self.out, f'viol_tlc_{module}_{r.violated}.txt')
      with open(path, 'w') as f:
        f.write(tlc_error_trace(r.stdout))
      self.violations.append((f'tlc:{module}:{r.violated}',
                              f'TLC: {r.violated} violated in {module}/{cfg}', path))
    return r

  def require_actions(self, r: TLCResult, names: Iterable[str]):
    """Anti-vacuity: every listed action must have been taken at least once."""
    if r.violated:
      return        # TLC stopped at a counterexample (already recorded as a violation): coverage is partial
    missing = [n for n in names if r.coverage.get(n, 0) == 0]
    if missing:
      raise MachineryError(f'vacuous model run {r.module}/{r.cfg}: actions never taken: '
                           f'{missing}; coverage={r.coverage}')

  # -- replay ---------------------------------------------------------------------------
  def sample(self, obj, limit=4):
    if len(self.samples) < limit:
      self.samples.append(obj)

  def record(self, kind: str, m: dict):
    """Routes one replay result: property-level mismatches are violations; mismatches of internal
    sub-terms in a case whose property-level comparisons all pass are recorded as drift."""
    if m.get('drift'):
      d = self.drift.setdefault(m['sig'], {'n': 0, 'example': m['detail'][:400]})
      d['n'] += 1
    else:
      self.mismatch(kind, m['case'], m['sig'], m['detail'])

  def mismatch(self, kind: str, case: Any, signature: str, detail: str, extra: Any = None):
    """Records a spec/code disagreement. Known findings are reported but do not fail."""
    if signature.startswith(HARNESS_ERROR):
      self.harness_errors.append(detail)     # the machinery failed on this case: never a verdict about the code
      return
    for k in self._known:
      if re.fullmatch(k['signature'], signature):
        hit = (k['signature'], k['what'])
        if hit not in self.known_hits:
          self.known_hits.append(hit)
        return
    self._nviol += 1
    if self._nviol > 25:     # enough replay files; still counted
      self.violations.append((signature, detail, self.violations[-1][2]))
      return
    path = os.path.join(self.out, f'viol_{self._nviol:03d}.json')
    with open(path, 'w') as f:
      json.dump({'property': self.prop, 'kind': kind, 'signature': signature,
                 'detail': detail, 'case': case, 'extra': extra}, f, indent=1, default=str)
    self.violations.append((signature, detail, path))

  # -- finish ---------------------------------------------------------------------------
  def finish(self, rule: str, level_note: str = '', exhaustive: bool = True) -> int:
    states = sum(r.states for r in self.tlc_runs)
    trans = sum(r.transitions for r in self.tlc_runs)
    cov = {
        'states': states, 'transitions': trans,
        'traces_validated_against_impl': self.replayed + self.traces,
        'replayed_spec_behaviours': self.replayed,
        'accepted_impl_traces': self.traces,
        'comparisons': self.comparisons,
        'evaluations': self.replayed + self.traces,
        'distinct_nontrivial': len(self.distinct) if self.distinct else self.replayed + self.traces,
        'rule': rule,
        'samples': self.samples or [{'note': 'no sample recorded'}],
        'exhaustive': bool(exhaustive and all(r.mode == 'bfs' for r in self.tlc_runs)),
        'tlc_runs': [r.brief() for r in self.tlc_runs],
        'known_findings_hit': [h[1] for h in self.known_hits],
        'spec_drift': self.drift,
    }
    cov.update(self.notes)
    ev = {
        'property_id': self.prop, 'tier': self.tier, 'seed': int(self.seed),
        'level': 'model_checking', 'coverage': cov,
        'assumptions': self.assumptions + ([level_note] if level_note else []),
        'wall_s': round(time.time() - self.t0, 2),
        'violations': len(self.violations),
    }
    os.makedirs(EVID, exist_ok=True)
    with open(os.path.join(EVID, f'{self.prop}.json'), 'w') as f:
      json.dump(ev, f, indent=1, default=str)
    for sig, what in self.known_hits:
      print(f'KNOWN-FINDING: property={self.prop} {what}')
    for sig, d in sorted(self.drift.items()):
      print(f'NOTE: {self.prop} sub-term {sig} differs from the specification in {d["n"]} case(s) although the property-level '
            f'comparisons of those cases pass (the code was restructured; not a violation): {d["example"][:200]}')
    if self.harness_errors:
      print(f'NOTE: {self.prop}: the replay harness itself failed on {len(self.harness_errors)} case(s) (not a verdict about the code): '
            f'{self.harness_errors[0][:600]}', file=sys.stderr)
      if not self.violations:
        raise MachineryError(f'replay harness failed on {len(self.harness_errors)} case(s): {self.harness_errors[0][:1500]}')
    if self.violations:
      seen = set()
      for sig, detail, path in self.violations:
        if path in seen:
          continue
        seen.add(path)
        print(f'VIOLATION property={self.prop} replay={path}')
        print(f'  {sig}: {detail}')
      counts, first = {}, {}
      for sig, det, _ in self.violations:
        counts[sig] = counts.get(sig, 0) + 1
        first.setdefault(sig, det)
      for sig, n in sorted(counts.items(), key=lambda kv: -kv[1])[:40]:
        print(f'  [{n:6d}] {sig}  e.g. {first[sig][:260]}')
      print(f'{self.prop}: {len(self.violations)} violation(s); states={states} '
            f'replayed={self.replayed} traces={self.traces}')
      return 1
    print(f'{self.prop}: OK tier={self.tier} states={states} transitions={trans} '
          f'replayed={self.replayed} traces={self.traces} comparisons={self.comparisons} '
          f'wall={ev["wall_s"]}s')
    return 0


# ----------------------------------------------------------------------------------------
# Parallel replay: shard a list of cases over subprocesses (jax does not like fork)
# ----------------------------------------------------------------------------------------

def parallel_map(module: str, func: str, items: list, nproc: Optional[int] = None,
                 env: Optional[dict] = None, tag: str = 'shard', outdir: Optional[str] = None,
                 timeout: int = 3600) -> list:
  """Runs harness.<module>.<func>(items_shard) -> list in nproc subprocesses; concatenates."""
  nproc = max(1, min(nproc or NCPU, len(items)))
  if nproc == 1 and os.environ.get('VERIF_INPROC', '1') == '1' and env is None:
    import importlib
    return getattr(importlib.import_module('harness.' + module), func)(items)
  outdir = outdir or os.path.join(OUT, 'par_' + module)
  os.makedirs(outdir, exist_ok=True)
  procs = []
  for i in range(nproc):
    shard = items[i::nproc]
    fin = os.path.join(outdir, f'{tag}_{i}.in.json')
    fout = os.path.join(outdir, f'{tag}_{i}.out.json')
    with open(fin, 'w') as f:
      json.dump(shard, f)
    e = dict(os.environ)
    e['XLA_FLAGS'] = (e.get('XLA_FLAGS', '') + ' --xla_cpu_multi_thread_eigen=false '
                      'intra_op_parallelism_threads=1').strip()
    e['OMP_NUM_THREADS'] = e['OPENBLAS_NUM_THREADS'] = e['MKL_NUM_THREADS'] = '1'
    e['NPROC'] = '1'
    e['VERIF_PIN_CORE'] = str(i)
    e.update(env or {})
    p = subprocess.Popen([sys.executable, '-m', 'harness.worker', module, func, fin, fout],
                         cwd=VERIF, env=e, stdout=subprocess.PIPE, stderr=subprocess.STDOUT,
                         text=True)
    procs.append((p, fin, fout))
  res = []
  for p, fin, fout in procs:
    try:
      so, _ = p.communicate(timeout=timeout)
    except subprocess.TimeoutExpired as ex:
      p.kill()
      raise MachineryError(f'replay worker timeout {module}.{func}') from ex
    if p.returncode != 0:
      raise MachineryError(f'replay worker failed {module}.{func}:\n{so[-4000:]}')
    with open(fout) as f:
      part = json.load(f)
    if isinstance(part, dict) and '__library_error__' in part:
      raise LibraryError(part['__library_error__'])
    res.extend(part)
    os.remove(fin)
    os.remove(fout)
  return res


class LibraryError(Exception):
  """The library under test raised while executing a behaviour the specification allows, outside a
  per-case wrapper (e.g. while a trace was being recorded).  A verdict (exit 1), not a machinery
  failure: carries the formatted traceback."""


def library_raised(ex: BaseException) -> bool:
  """True when the innermost frame that is neither the python/jax runtime nor the harness lies in the
  library under test ($VERIF_REPO/dinosaur): the code, not the machinery, raised."""
  import traceback
  repo = os.path.realpath(os.path.join(REPO, 'dinosaur')) + os.sep
  here = os.path.realpath(VERIF) + os.sep
  frames = [f for f in traceback.extract_tb(ex.__traceback__)
            if '/site-packages/' not in f.filename and '/lib/python' not in f.filename and not f.filename.startswith('<')]
  if not frames or harness_artifact(ex):
    return False
  inner = os.path.realpath(frames[-1].filename)
  return inner.startswith(repo) and not inner.startswith(here)


def harness_artifact(ex: BaseException) -> bool:
  """True for exceptions that exist only because the harness runs the library with jax.disable_jit()
  (python-side event logging needs eager execution), e.g. 'zero-length scan is not supported in
  disable_jit() mode'.  Such an execution says nothing about the code: the caller skips the eager
  mode (the jitted replay of the same behaviour still decides) instead of raising an alarm."""
  return 'disable_jit' in str(ex)


def per_case(one: Callable[[Any], list], kind: str = '') -> Callable[[list], list]:
  """Lifts a per-case replay (returning mismatch dicts) to a list; an exception raised by the
  library while replaying a behaviour the spec allows is itself a mismatch, not a crash."""
  import traceback

  def _run(c):
    try:
      return list(one(c))
    except MachineryError:
      raise
    except Exception as ex:   # pylint: disable=broad-except
      if not library_raised(ex) and os.environ.get('VERIF_STRICT_EXC', '1') == '1':
        # raised by the harness itself (or by numpy/jax called directly from the harness), not by the library:
        # a defect of the machinery, never a verdict about the code
        return [{'case': c, 'sig': HARNESS_ERROR,
                 'detail': f'replay harness raised {type(ex).__name__}: {str(ex)[:300]} | ' + ' / '.join(traceback.format_exc().splitlines()[-8:])[:1200]}]
      tb = traceback.format_exc().splitlines()
      return [{'case': c, 'sig': f'{kind}:exception:{type(ex).__name__}',
               'detail': f'code raised {type(ex).__name__}: {str(ex)[:300]} | ' + ' / '.join(tb[-6:])[:600]}]

  def _many(cases):
    out, first = [], None
    for i, c in enumerate(cases):
      res = _run(c)
      if i == 0:
        first = [m.get('sig') for m in res if m.get('sig') != '__stat__']
      out.extend(res)
    # state across calls: the first behaviour is executed once more after all the others (caches,
    # memoised tables, arrays modified in place); whatever it did not report then, it must not report now
    if len(cases) > 1 and os.environ.get('VERIF_NO_REPEAT') != '1':
      for m in _run(cases[0]):
        if m.get('sig') != '__stat__' and m.get('sig') not in first:
          m = dict(m, sig=str(m.get('sig')) + ':after_other_calls',
                   detail='(the same behaviour executed again after the other cases of this worker) ' + str(m.get('detail')))
          out.append(m)
    return out
  _many.__name__ = getattr(one, '__name__', 'replay')
  return _many


def settle(out: list, is_property: Callable[[str], bool]) -> list:
  """Per-case policy: a mismatch of an *internal* sub-term (which method computes which part) is a
  violation only if the same case also fails a property-level comparison; otherwise the property
  holds on this case and the mismatch is downgraded to drift (reported, exit status unaffected)."""
  real = [m for m in out if m.get('sig') != '__stat__' and not str(m.get('sig')).startswith(HARNESS_ERROR)]
  if any(is_property(m['sig']) for m in real):
    return out
  for m in real:
    m['drift'] = True
  return out
