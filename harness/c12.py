"""C12: physical results do not depend on the non-dimensionalisation scale.
Spec: ScalePairs (binary-exponent arithmetic of rescaling: round trip, composition, the exponent
-k*e_d by which a node of dimension e changes), Dataflow (dimension vector of every node of
explicit_terms / implicit_terms; sums of equal dimension; the scale-dependent offset of the log
surface pressure never leaks).

Replay: for every exported (class, base scale, dimension d, power k) the same SI problem (constants,
radius, rotation, state, time step) is built under the base scale and under the scale whose unit of
d is 2^k times larger.  Every recorded node of the real run must change by exactly 2^(-k e_d) with e
from Dataflow (power-of-two rescaling is exact in binary floating point, so the comparison is at a
few ulps), i.e. the *measured* dimension of every sub-term equals the spec's; dimensionalised
tendencies and 3-step trajectories (every class, incl. Held-Suarez forcing and shallow water) agree.
A non-power-of-two pair (DEFAULT vs ATMOSPHERIC vs an irrational scale) is compared at 1e-9.
"""
from __future__ import annotations

import json
import math
import os

from harness import common, dataflow, spectral

SQRT4PI = dataflow.SQRT4PI
LEVELS = [0, 0.15, 0.5, 1.0]
DIMS = ('[length]', '[time]', '[mass]', '[temperature]')


def _scale(u):
  from dinosaur import scales
  un = scales.units
  return scales.Scale((2.0 ** u[0]) * un.m, (2.0 ** u[1]) * un.s, (2.0 ** u[2]) * un.kg, (2.0 ** u[3]) * un.degK)


def _si_problem(grid_desc, seed, cls):
  """SI description of one problem: dimensional fields on a unit-free modal layout."""
  np, jax, jnp = spectral.np_jax()
  g0 = dataflow.make_grid(grid_desc)
  K = 3
  tn = dataflow.tracer_names('moist' if cls == 'moist' else 'dry', 0)
  f = dataflow.random_fields(g0, K, seed, tracers=tn)
  si = dict(vorticity=f['vorticity'] * 1e-3, divergence=f['divergence'] * 1e-4,       # 1/s
            temperature_variation=f['temperature_variation'] * 8.0,                    # K
            log_ps_pa=f['log_surface_pressure'].copy(),                                 # ln(ps / Pa), modal
            orography=f['orography'] * 2e5,                                             # m
            tracers={k: v for k, v in f['tracers'].items()},
            potential=f['temperature_variation'][:2] * 40.0,                            # m^2/s^2
            tref=np.array([215.0, 250.0, 288.0]), dt=300.0)
  si['log_ps_pa'][0, 0, 0] += math.log(1.0e5) * SQRT4PI
  return si


def _build(cls, grid_desc, si, scale):
  """Equation + state of the SI problem under `scale`; also returns the per-field unit exponent tables."""
  np, jax, jnp = spectral.np_jax()
  from dinosaur import (coordinate_systems, held_suarez, layer_coordinates, primitive_equations as pe, scales,
                        shallow_water as sw, sigma_coordinates, time_integration as ti)
  un = scales.units
  nd = scale.nondimensionalize
  if cls == 'sw':
    specs = sw.ShallowWaterSpecs.from_si(np.array([1.0, 1.4]) * un.kg / un.m ** 3, scale=scale)
    grid = dataflow.make_grid(grid_desc, radius=specs.radius)
    coords = coordinate_systems.CoordinateSystem(grid, layer_coordinates.LayerCoordinates(2))
    refpot = np.asarray(nd(np.array([9.0e4, 5.0e4]) * un.m ** 2 / un.s ** 2))
    oro = jnp.asarray(si['orography'] * 9.8 * float(nd(1.0 * un.m ** 2 / un.s ** 2)))
    eq = sw.ShallowWaterEquations(coords, specs, oro, refpot)
    st = sw.State(jnp.asarray(si['vorticity'][:2] * float(nd(1 / un.s))), jnp.asarray(si['divergence'][:2] * float(nd(1 / un.s))),
                  jnp.asarray(si['potential'] * float(nd(1.0 * un.m ** 2 / un.s ** 2))))
    return eq, st, grid, specs
  specs = pe.PrimitiveEquationsSpecs.from_si(scale=scale)
  grid = dataflow.make_grid(grid_desc, radius=specs.radius)
  lnps = si['log_ps_pa'].copy()
  lnps[0, 0, 0] += math.log(float(nd(1.0 * un.pascal))) * SQRT4PI
  fields = dict(vorticity=si['vorticity'] * float(nd(1 / un.s)), divergence=si['divergence'] * float(nd(1 / un.s)),
                temperature_variation=si['temperature_variation'] * float(nd(1.0 * un.degK)),
                log_surface_pressure=lnps, orography=si['orography'] * float(nd(1.0 * un.m)), tracers=si['tracers'])
  tref = si['tref'] * float(nd(1.0 * un.degK))
  eq, st = dataflow.build_pe('moist' if cls == 'moist' else ('time' if cls == 'dry' else 'dry'), grid, LEVELS, tref, fields, specs=specs)
  if cls == 'held_suarez':
    hs = held_suarez.HeldSuarezForcing(eq.coords, specs, tref)
    return (eq, hs), st, grid, specs
  return eq, st, grid, specs


# dimension vectors of the prognostic variables (Dataflow: inputs)
VAR_DIM = {'vorticity': (0, -1, 0, 0), 'divergence': (0, -1, 0, 0), 'temperature_variation': (0, 0, 0, 1),
           'log_surface_pressure': (0, 0, 0, 0), 'potential': (2, -2, 0, 0), 'tracers': (0, 0, 0, 0), 'sim_time': (0, 1, 0, 0)}


def _leaves(s):
  import numpy as np
  d = s.asdict() if hasattr(s, 'asdict') else dict(s)
  o = {}
  for fk, v in d.items():
    if fk == 'tracers':
      for tk in sorted(v or {}):
        o['tracers.' + tk] = np.asarray(v[tk], np.float64)
    elif v is not None:
      o[fk] = np.asarray(v, np.float64)
  return o


def _pair_one(c):
  np, jax, jnp = spectral.np_jax()
  from dinosaur import time_integration as ti, scales
  out = []
  cls, d, k = c['class'], c['d'] - 1, c['k']
  key = {kk: c[kk] for kk in ('class', 'basename', 'd', 'k', 'grid')}

  def bad(sig, detail):
    out.append({'case': {kk: v for kk, v in c.items() if kk != 'nodes'}, 'sig': sig, 'detail': f'{key}: {detail}'})

  si = _si_problem(c['grid'], c['seed'], cls)
  nodes = {n['n']: n for n in c['nodes']}
  A, B = _scale(c['base']), _scale(c['scale'])
  runs = {}
  for tag, scale in (('A', A), ('B', B)):
    eq, st, grid, specs = _build(cls, c['grid'], si, scale)
    forcing = None
    if cls == 'held_suarez':
      eq, forcing = eq
    if cls == 'sw':
      rec = {}
      ex, im = eq.explicit_terms(st), eq.implicit_terms(st)
      for t_, t in (('explicit', ex), ('implicit', im)):
        for fk, v in t.asdict().items():
          rec[f'{t_}.{fk}'] = np.asarray(v, np.float64)
    else:
      rec = dataflow.Recorder(eq).run(st)
    if forcing is not None:
      for fk, v in _leaves(forcing.explicit_terms(st)).items():
        rec['forcing.' + fk] = v
    # three steps with the SI time step
    dt = float(scale.nondimensionalize(si['dt'] * scales.units.s))
    tau = float(scale.nondimensionalize(3600.0 * scales.units.s))
    ode = eq if forcing is None else ti.compose_equations([eq, forcing])
    step = ti.step_with_filters(ti.imex_rk_sil3(ode, dt), [ti.exponential_step_filter(grid, dt, tau=tau, order=2)])
    step = jax.jit(step)
    s = st
    for _ in range(3):
      s = step(s)
    runs[tag] = dict(rec=rec, final=_leaves(s), grid=grid)
    if cls == 'sw':
      # the library's constructor of balanced jets, fed with the same SI wind under either scale
      try:
        from dinosaur import shallow_water_states as sws
      except ImportError:
        sws = None
      if sws is not None and hasattr(sws, 'multi_layer'):
        mu1 = np.asarray(grid.nodal_axes[1], np.float64)
        u_si = np.sqrt(1.0 - mu1 ** 2) * np.stack([20.0 + 10.0 * mu1, 15.0 - 5.0 * mu1 ** 2])
        u_nd = u_si * float(scale.nondimensionalize(1.0 * scales.units.m / scales.units.s))
        runs[tag]['jet'] = _leaves(sws.multi_layer(jnp.asarray(u_nd), np.asarray(specs.densities, np.float64), eq.coords))
  ra, rb = runs['A']['rec'], runs['B']['rec']
  ncmp = 0
  # (1) every recorded node scales with its spec dimension
  for name in sorted(ra):
    sname = name
    for kx, v in {'specific_humidity': 'q', 'age0': 'q'}.items():
      if sname.endswith('.' + kx):
        sname = sname[: -len(kx)] + v
    if name.startswith('forcing.'):
      var = name.split('.')[1]
      e = tuple(x + y for x, y in zip(VAR_DIM[var], (0, -1, 0, 0)))
    elif sname in nodes:
      e = tuple(nodes[sname]['dim'])
    elif sname.endswith('sim_time'):
      continue
    else:
      continue
    a, b = np.asarray(ra[name], np.float64), np.asarray(rb[name], np.float64)
    if a.shape != b.shape:
      bad(f'node:{sname}:shape', f'{a.shape} vs {b.shape}')
      continue
    want = 2.0 ** (-k * e[d])
    sc = max(np.abs(a).max() * want, np.abs(b).max(), 1e-300)
    err = np.abs(b - a * want).max() / sc
    ncmp += 1
    if not np.isfinite(err) or err > 1e-11:
      # measured exponent, for the message
      i = np.unravel_index(np.argmax(np.abs(a)), a.shape)
      ratio = b[i] / a[i] if a[i] != 0 else float('nan')
      meas = -math.log2(abs(ratio)) / k if ratio and np.isfinite(ratio) and ratio != 0 else float('nan')
      bad(f'dimension:{cls}:{sname}', f'unit of {DIMS[d]} enlarged by 2^{k}: the node changes by a factor {ratio!r} '
          f'(measured exponent {meas:.4f}), the spec dimension {list(e)} requires exponent {e[d]} (rel. residual {err:.2e})')
  # (2) trajectories, dimensionalised
  fa, fb = runs['A']['final'], runs['B']['final']
  for fk in fa:
    var = fk.split('.')[0]
    e = VAR_DIM[var]
    want = 2.0 ** (-k * e[d])
    a, b = fa[fk] * want, fb[fk]
    if fk == 'log_surface_pressure':
      # the (0,0) coefficient carries ln of the pressure unit: compare after removing the offset
      pe_ = (-1, -2, 1, 0)
      shift = -k * pe_[d] * math.log(2.0) * SQRT4PI
      a = a.copy(); a[0, 0, 0] += shift
    sc = max(np.abs(a).max(), 1e-300)
    err = np.abs(b - a).max() / sc
    ncmp += 1
    if not np.isfinite(err) or err > 1e-10:
      bad(f'trajectory:{cls}:{fk}', f'3 SIL3 steps (dt = {si["dt"]} s, exponential filter) under the two scales differ by {err:.3e} '
          f'after conversion to SI')
  # (3) the constructed balanced jet is the same physical state under either scale.  The constructor hard-wires the Coriolis
  # parameter to sin(lat) (2 Omega = 1 in its time unit), so its potential is homogeneous in every unit except the time unit
  ja, jb = runs['A'].get('jet'), runs['B'].get('jet')
  if ja is not None and jb is not None:
    for fk in ('vorticity', 'divergence', 'potential'):
      if fk == 'potential' and d == 1:
        continue
      want = 2.0 ** (-k * VAR_DIM[fk][d])
      a, b = ja[fk] * want, jb[fk]
      sc = max(np.abs(a).max(), np.abs(b).max(), 1e-300)
      err = np.abs(b - a).max() / sc if a.shape == b.shape else float('inf')
      ncmp += 1
      if not np.isfinite(err) or err > 1e-11:
        bad(f'constructor:sw:{fk}', f'unit of {DIMS[d]} enlarged by 2^{k}: the {fk} of the state built by shallow_water_states.multi_layer '
            f'from the same SI wind differs by {err:.3e} after conversion (dimension {list(VAR_DIM[fk])})')
  out.append({'case': None, 'sig': '__stat__', 'detail': '', 'n': ncmp})
  prop = lambda g: (g.startswith('trajectory:') or ':exception:' in g or g.startswith('constructor:') or
                    (g.startswith('dimension:') and g.split(':')[2].startswith(('explicit.', 'implicit.', 'forcing.'))))
  return common.settle(out, prop)


replay_pairs = common.per_case(_pair_one, 'pair')


def _generic_one(c):
  """non power-of-two scale pairs: totals only, 1e-9."""
  np, jax, jnp = spectral.np_jax()
  from dinosaur import scales
  un = scales.units
  out = []
  cls = c['class']

  def bad(sig, detail):
    out.append({'case': c, 'sig': sig, 'detail': f'{c}: {detail}'})
  si = _si_problem(c['grid'], c['seed'], cls)
  named = {'default': scales.DEFAULT_SCALE, 'atmospheric': scales.ATMOSPHERIC_SCALE,
           'odd': scales.Scale(1234.5 * un.m, 17.25 * un.s, 3.3e7 * un.kg, 0.73 * un.degK)}
  res = {}
  for nm, scale in named.items():
    eq, st, grid, specs = _build(cls, c['grid'], si, scale)
    forcing = None
    if cls == 'held_suarez':
      eq, forcing = eq
    ex, im = _leaves(eq.explicit_terms(st)), _leaves(eq.implicit_terms(st))
    tot = {fk: ex[fk] + im[fk] for fk in ex if np.ndim(ex[fk]) >= 2}
    if forcing is not None:
      for fk, v in _leaves(forcing.explicit_terms(st)).items():
        tot[fk] = tot[fk] + v
    # to SI
    sis = {}
    for fk, v in tot.items():
      e = VAR_DIM[fk.split('.')[0]]
      unit = un.m ** e[0] * un.s ** (e[1] - 1) * un.kg ** e[2] * un.degK ** e[3]
      sis[fk] = np.asarray(scale.dimensionalize(v, unit).magnitude, np.float64)
    res[nm] = sis
  for nm in ('atmospheric', 'odd'):
    for fk, a in res['default'].items():
      b = res[nm][fk]
      sc = max(np.abs(a).max(), 1e-300)
      err = np.abs(a - b).max() / sc
      if not np.isfinite(err) or err > 1e-9:
        bad(f'generic:{cls}:{fk}', f'SI tendency under the {nm} scale differs from the default scale by {err:.3e} (relative)')
  return out


replay_generic = common.per_case(_generic_one, 'generic')
REPLAYERS = {'pair': replay_pairs, 'generic': replay_generic}


def replay(ctx, kind, cases):
  for m in REPLAYERS[kind](cases):
    if m['sig'] != '__stat__':
      ctx.record(kind, m)


GRIDS = [dict(M=5, impl='real'), dict(M=4, impl='fast', mult=4), dict(M=3, L=5, impl='real', offset=0.3)]


def run(ctx):
  q = ctx.quick
  rp = ctx.tlc('ScalePairs', 'ScalePairs.cfg')
  ctx.require_actions(rp, ['First', 'Second'])
  rd = ctx.tlc('Dataflow', 'Dataflow.cfg')
  ctx.require_actions(rd, ['Eval'])
  dnodes = {}
  for c in rd.cases:
    dnodes[(c['class'], c['oro'], c['tracer'])] = c['nodes']
  node_of = {'dry': dnodes[('dry', True, False)], 'held_suarez': dnodes[('dry', True, False)],
             'moist': dnodes[('moist', True, False)], 'sw': dnodes[('sw', True, False)]}
  # distinct (class, base, d, k)
  seen, pairs = set(), []
  for c in rp.cases:
    kk = (c['class'], c['basename'], c['d'], c['k'])
    if kk in seen:
      continue
    seen.add(kk)
    pairs.append(c)
  pairs.sort(key=lambda c: (c['class'], c['basename'], c['d'], c['k']))
  if q:
    pairs = [c for i, c in enumerate(pairs) if c['basename'] != 'small' and (c['k'] in (-3, 2) or i % 5 == 0)]
  items = []
  for i, c in enumerate(pairs):
    dd = dict(c)
    dd.update(grid=GRIDS[i % len(GRIDS)], seed=ctx.seed * 100 + i, nodes=node_of[c['class']])
    items.append(dd)
  generic = [dict(**{'class': cl}, grid=GRIDS[j % 3], seed=ctx.seed + j) for j, cl in enumerate(('dry', 'moist', 'held_suarez', 'sw'))]
  res = common.parallel_map('c12', 'replay_pairs', items, tag='p', outdir=os.path.join(ctx.out, 'par'))
  res += common.parallel_map('c12', 'replay_generic', generic, nproc=4, tag='g', outdir=os.path.join(ctx.out, 'par'))
  ctx.replayed += len(items) + len(generic)
  for m in res:
    if m['sig'] == '__stat__':
      ctx.comparisons += m['n']
    else:
      ctx.record('generic' if m['sig'].startswith('generic') else 'pair', m)
  for c in items:
    ctx.distinct.add(json.dumps([c['class'], c['basename'], c['d'], c['k']]))
  ctx.sample({k: items[2][k] for k in ('class', 'basename', 'base', 'd', 'k', 'scale', 'expect')})
  ctx.sample({'typed_nodes': [(n['n'], n['dim']) for n in node_of['moist'] if n['n'].startswith(('kinetic', 'orography', 'divergence_t', 'nodal_t'))]})
  ctx.assumptions += [
      'power-of-two rescaling is exact in binary floating point; the comparison budget is 1e-11 (pint conversions of the constants '
      'introduce a few ulps)',
      'states are seeded random admissible states; the scale dependence of a node is a monomial law, sampled over (base scale, '
      'dimension, power) pairs',
      'filters are given their time scale tau in SI (3600 s); a filter built with a non-dimensional tau is scale dependent by '
      'construction and is not part of the claim']
  return ctx.finish(rule='one pair case per (class, base scale, rescaled dimension, power of two): every recorded node + 3-step '
                         'trajectory; one generic case per class: DEFAULT vs ATMOSPHERIC vs an irrational scale')
