"""C16: conservative regridding preserves constants, bounds and integrals.

Spec modules: RegridVert (hybrid -> sigma, rationals), RegridLon (discrete circle Z_P, geometric
oracle next to a model of the library's phase-alignment algorithm), RegridLat (lattice of
latitudes, areas as linear forms over the atoms S[j] = sin(bound j)).

TLC enumerates every configuration within the bounds, checks the property's clauses on the
exact machine (non-negativity, rows summing to one by telescoping, constants, range,
width/area/thickness-weighted integral, identity on identical grids, the NaN lattice) and
exports the exact tables.  The replay feeds the same configurations to
  conservative_regrid_weights / HybridCoordinates.get_sigma_boundaries / regrid_hybrid_to_sigma /
  vertical ConservativeRegridder,
  conservative_longitude_weights / conservative_latitude_weights,
  ConservativeRegridder(source_grid, target_grid, skipna)(field) on real Grid objects
and compares weights, regridded fields and NaN placement with the spec's values.
"""
from __future__ import annotations

import math
import os

from harness import common
from harness.common import fl

EPS = 2.220446049250313e-16
TOL_IRR = 1e-12     # weights built from floats of 2*pi*k/P or of sines: |w| <= 1, a handful of roundings
STAT = '__stats__'

_CACHE = {}


def _jax():
  import jax
  jax.config.update('jax_enable_x64', True)
  import jax.numpy as jnp
  return jax, jnp


def _jit(name, fn):
  if name not in _CACHE:
    jax, _ = _jax()
    _CACHE[name] = jax.jit(fn)
  return _CACHE[name]


def _fr(x):
  return x[0] / x[1]


def _mat(rows):
  import numpy as np
  return np.array([[_fr(v) for v in r] for r in rows], dtype=np.float64)


class _Rec:
  """Collects mismatches of one replayed case."""

  def __init__(self, case):
    self.case, self.out, self.n = case, [], 0

  def bad(self, sig, detail):
    self.out.append({'case': self.case, 'sig': sig, 'detail': detail})

  def close(self, name, got, exp, tol, rel=False):
    """Entrywise comparison; NaN in `exp` means 'must be NaN'. Returns True when equal."""
    import numpy as np
    got, exp = np.asarray(got, dtype=np.float64), np.asarray(exp, dtype=np.float64)
    self.n += int(exp.size)
    if got.shape != exp.shape:
      self.bad(name + ':shape', f'shape {got.shape} != {exp.shape}')
      return False
    en, gn = np.isnan(exp), np.isnan(got)
    if (en != gn).any():
      i = tuple(int(v) for v in np.argwhere(en != gn)[0])
      self.bad(name + ':nan', f'entry {i}: code {got[i]!r} spec {exp[i]!r}')
      return False
    t = tol * (np.maximum(1.0, np.abs(exp)) if rel else 1.0)
    d = np.where(en, 0.0, np.abs(got - np.where(en, 0.0, exp)))
    if not (d <= t).all():
      i = np.unravel_index(np.argmax(d - t), d.shape)
      self.bad(name + ':value', f'entry {tuple(int(v) for v in i)}: code {got[i]!r} spec {exp[i]!r}')
      return False
    return True

  def done(self):
    return self.out + [{'sig': STAT, 'n': self.n}]


# ----------------------------------------------------------------------------------------
# vertical: one item = one (hybrid coefficient set, target sigma levels) pair, all surface pressures
# ----------------------------------------------------------------------------------------

def _vert(item):
  import numpy as np
  jax, jnp = _jax()
  from dinosaur import vertical_interpolation as vi
  from dinosaur import sigma_coordinates as sc
  r = _Rec(item)
  bden = item['bden']
  a = np.array(item['a'], dtype=np.float64)
  b = np.array(item['bn'], dtype=np.float64) / bden
  tb = np.array(item['tn'], dtype=np.float64) / bden
  ks, kt = len(a) - 1, len(tb) - 1
  hybrid = vi.HybridCoordinates(a_boundaries=a, b_boundaries=b)
  if hybrid.layers != ks:
    r.bad('vert:layers', f'{hybrid.layers} != {ks}')
  sps = item['sps']
  wfn = _jit('vert_w', vi.conservative_regrid_weights)
  for c in sps:
    sp = c['sp']
    dyadic = (sp & (sp - 1)) == 0
    tol = (8 if dyadic else 64) * EPS
    sb = np.array([_fr(v) for v in c['sb']])
    got_sb = np.asarray(hybrid.get_sigma_boundaries(float(sp)), dtype=np.float64)
    r.close('vert:sigma_boundaries', got_sb, sb, 4 * EPS, rel=True)
    cov = np.array(c['covered'], dtype=bool)
    exp_w = np.full((kt, ks), np.nan)
    for t in range(kt):
      if cov[t]:
        exp_w[t] = [_fr(v) for v in c['w'][t]]
    got = np.asarray(wfn(got_sb, tb), dtype=np.float64)
    # rows of layers the source does not reach are 0/0 in the code; the property is silent
    r.close('vert:weights', got[cov], exp_w[cov], tol)
    if item.get('eager'):
      got_e = np.asarray(vi.conservative_regrid_weights(got_sb, tb), dtype=np.float64)
      r.close('vert:weights_eager', got_e[cov], exp_w[cov], tol)
    if cov.any() and got.shape == exp_w.shape:
      r.n += 2
      if (got[cov] < 0).any():
        r.bad('vert:weights:negative', f'sp={sp}: negative weight {got[cov].min()!r}')
      rs = got[cov].sum(axis=1)
      if not (np.abs(rs - 1) <= 8 * EPS).all():
        r.bad('vert:weights:rowsum', f'sp={sp}: row sums {rs.tolist()}')
  if not item.get('regrid', True):
    return r.done()
  # regrid_hybrid_to_sigma: axes (layer, x = field, y = surface pressure); one compilation per
  # (hybrid, sigma) pair, hence only on a deterministic subset of the pairs
  sigma = sc.SigmaCoordinates(tb)
  field = np.array(sps[0]['field'], dtype=np.float64)
  cols = np.concatenate([np.eye(ks), field[:, None], np.full((ks, 1), 7.0)], axis=1)   # ks x nf
  nf, nsp = cols.shape[1], len(sps)
  fld = np.repeat(cols[:, :, None], nsp, axis=2)
  spp = np.repeat(np.array([[float(c['sp']) for c in sps]]), nf, axis=0)
  got = np.asarray(vi.regrid_hybrid_to_sigma(fld, hybrid, sigma, spp), dtype=np.float64)
  if got.shape != (kt, nf, nsp):
    r.bad('vert:regrid:shape', f'{got.shape} != {(kt, nf, nsp)}')
    return r.done()
  for y, c in enumerate(sps):
    sp = c['sp']
    tol = (16 if (sp & (sp - 1)) == 0 else 128) * EPS
    cov = np.array(c['covered'], dtype=bool)
    if not cov.any():
      continue
    W = np.array([[_fr(v) for v in c['w'][t]] for t in range(kt) if cov[t]])
    r.close('vert:regrid:basis', got[cov, :ks, y], W, tol)
    r.close('vert:regrid:field', got[cov, ks, y], [_fr(c['out'][t]) for t in range(kt) if cov[t]], tol,
            rel=True)
    r.close('vert:regrid:constant', got[cov, ks + 1, y], np.full(int(cov.sum()), 7.0), 8 * tol)
  # the class wrapper on a pytree
  reg = vi.ConservativeRegridder(hybrid, sigma)
  got2 = reg({'f': fld}, spp)
  g2 = np.asarray(got2['f'], dtype=np.float64)
  r.n += 1
  if g2.shape != got.shape or not np.array_equal(np.nan_to_num(g2, nan=-9.0), np.nan_to_num(got, nan=-9.0)):
    r.bad('vert:regridder_class', 'ConservativeRegridder differs from regrid_hybrid_to_sigma')
  return r.done()


# ----------------------------------------------------------------------------------------
# longitude
# ----------------------------------------------------------------------------------------

def _lon_expect(c):
  """(truth weights, weights of the spec's model of the library algorithm, algorithm == truth).
  The algorithm counts as geometric only if it is under both tie rules of the alignment."""
  import numpy as np
  truth = _mat(c['w'])
  alg = np.array(c['algov'], dtype=np.float64)
  rs = alg.sum(axis=1, keepdims=True)
  with np.errstate(invalid='ignore', divide='ignore'):
    algw = alg / rs
  return truth, algw, c['algov'] == c['ov'] and c['algov2'] == c['ov']


def _lon_sig(c, algok):
  # Configurations inside the documented domain (no cell wider than half a period) on which the
  # library's one-bound-at-a-time phase alignment does not compute the geometric overlap.
  return 'lon' if algok else 'lon:phase_alignment'


def _lonw(c):
  import numpy as np
  from dinosaur import horizontal_interpolation as hi
  r = _Rec(c)
  P = c['key']['P']
  src = 2 * math.pi * np.array(c['key']['src'], dtype=np.float64) / P
  tgt = 2 * math.pi * np.array(c['key']['tgt'], dtype=np.float64) / P
  truth, algw, algok = _lon_expect(c)
  if not algok:
    raise common.MachineryError('spec inconsistency: documented configuration with algorithm != geometry')
  got = np.asarray(_jit('lon_w', hi.conservative_longitude_weights)(src, tgt), dtype=np.float64)
  # (1) the code follows the spec's model of its algorithm (also where that algorithm is wrong);
  # not decidable when some alignment is an exact half-period tie (rounding decides)
  if not c['edge']:
    r.close('lon:algorithm_model', got, algw, TOL_IRR)
  # (2) the code computes the geometric weights
  pre = _lon_sig(c, algok)
  same = r.close(pre + ':weights', got, truth, TOL_IRR)
  if c.get('eager'):
    s0, t0 = src.copy(), tgt.copy()
    got_e = np.asarray(hi.conservative_longitude_weights(src, tgt), dtype=np.float64)
    r.close(pre + ':weights_eager', got_e, truth, TOL_IRR)
    got_e = np.asarray(hi.conservative_longitude_weights(src, tgt), dtype=np.float64)      # same argument objects again
    r.close(pre + ':weights_eager_second_call', got_e, truth, TOL_IRR)
    if not (np.array_equal(src, s0) and np.array_equal(tgt, t0)):
      r.bad(pre + ':arguments_modified', 'conservative_longitude_weights changed its coordinate arguments in place')
  if same:
    r.n += 3
    if (got < 0).any():
      r.bad(pre + ':weights:negative', f'negative weight {got.min()!r}')
    rs = got.sum(axis=1)
    if not (np.abs(rs - 1) <= 8 * EPS).all():
      r.bad(pre + ':weights:rowsum', f'row sums {rs.tolist()}')
    f = np.array(c['field'], dtype=np.float64)
    tw = np.array([v[1] for v in c['tcell']], dtype=np.float64)
    sw = np.array([v[1] for v in c['scell']], dtype=np.float64)
    lhs, rhs = float(tw @ (got @ f)), float(sw @ f)
    if abs(lhs - rhs) > TOL_IRR * 2 * P * max(1.0, np.abs(f).max()):
      r.bad(pre + ':conservation', f'sum_t width_t out_t = {lhs!r} but sum_s width_s in_s = {rhs!r}')
  return r.done()


def _grid(nlon, nlat, spacing, offset):
  from dinosaur import spherical_harmonic as sh
  return sh.Grid(longitude_wavenumbers=0, total_wavenumbers=0, longitude_nodes=nlon,
                 latitude_nodes=nlat, latitude_spacing=spacing, longitude_offset=offset)


def _check_axis(r, name, got, exp):
  import numpy as np
  got = np.asarray(got, dtype=np.float64)
  exp = np.asarray(exp, dtype=np.float64)
  r.n += 1
  if got.shape != exp.shape or not (np.abs(got - exp) <= 1e-12).all():
    r.bad(name, f'Grid axis {got.tolist()} is not the lattice configuration {exp.tolist()}')
    return False
  return True


def _nan_cmp(r, name, got, nan_exp, val_exp, tol):
  """got: 1-D code output; nan_exp: True / False / None (unspecified); val_exp where a number."""
  import numpy as np
  for t in range(len(nan_exp)):
    r.n += 1
    g = float(got[t])
    if nan_exp[t] is None:
      continue
    if nan_exp[t]:
      if not math.isnan(g):
        r.bad(name + ':missing_nan', f'target cell {t}: code {g!r}, spec NaN')
    elif math.isnan(g):
      r.bad(name + ':spurious_nan', f'target cell {t}: code NaN, spec {val_exp[t]!r}')
    elif abs(g - val_exp[t]) > tol * max(1.0, abs(val_exp[t])):
      r.bad(name + ':value', f'target cell {t}: code {g!r}, spec {val_exp[t]!r}')


NAN_GREY = 2.5e-3


def _threshold(nan_exp, W, mask):
  """skipna=False declares a cell missing when its not-null weight fraction is not
  isclose(1, rtol=1e-3): missing weight below ~1e-3 is ignored by design.  Entries whose
  missing weight lies in (0, NAN_GREY) are left unasserted."""
  out = []
  for t, e in enumerate(nan_exp):
    miss = sum(W[t][s - 1] for s in mask)
    out.append(None if (e and 0 < miss < NAN_GREY) else e)
  return out


def _lona(item):
  """ConservativeRegridder along longitude: Grid pairs with one latitude node."""
  import numpy as np
  from dinosaur import horizontal_interpolation as hi
  c = item['w']
  r = _Rec(item)
  P = c['key']['P']
  src, tgt = c['key']['src'], c['key']['tgt']
  ns, nt = len(src), len(tgt)
  truth, algw, algok = _lon_expect(c)
  pre = _lon_sig(c, algok) + ':regridder'
  gs = _grid(ns, 1, 'gauss', 2 * math.pi * src[0] / P)
  gt = _grid(nt, 1, 'gauss', 2 * math.pi * tgt[0] / P)
  if not (_check_axis(r, 'lon:grid_longitudes', gs.longitudes, 2 * math.pi * np.array(src) / P)
          and _check_axis(r, 'lon:grid_longitudes', gt.longitudes, 2 * math.pi * np.array(tgt) / P)):
    return r.done()
  f = np.array(c['field'], dtype=np.float64)
  aps = item['applies']
  fld = np.repeat(f[None, :, None], len(aps), axis=0)
  for i, ap in enumerate(aps):
    for s in ap['mask']:
      fld[i, s - 1, 0] = np.nan
  for skipna in (False, True):
    reg = hi.ConservativeRegridder(gs, gt, skipna=skipna)
    if not skipna:
      r.close(pre + ':lon_weights', reg.lon_weights, truth, TOL_IRR)
    got = np.asarray(reg(fld), dtype=np.float64)
    if got.shape != (len(aps), nt, 1):
      r.bad(pre + ':shape', f'{got.shape} != {(len(aps), nt, 1)}')
      continue
    for i, ap in enumerate(aps):
      res = ap['res']
      if skipna:
        ne = [{'nan': True, 'num': False, 'either': None}[x['nanT']] for x in res]
        ve = [_fr(x['valT']) for x in res]
      else:
        ne = _threshold([bool(x['nanF']) for x in res], truth, ap['mask'])
        ve = [_fr(x['valF']) for x in res]
      _nan_cmp(r, pre + (':skipna' if skipna else ':propagate'), got[i, :, 0], ne, ve, TOL_IRR)
  return r.done()


# ----------------------------------------------------------------------------------------
# latitude
# ----------------------------------------------------------------------------------------

def _atoms(N, mode):
  """S[j] for doubled positions j in -2N..2N and the latitude unit of one lattice step."""
  if mode == 'pi':
    u = math.pi / (2 * N)
  else:
    u = 2.0 ** math.floor(math.log2(1.5 / N))      # dyadic, N * u <= 1.5 < pi / 2
  S = {j: math.sin(j * u / 2) for j in range(-2 * N + 1, 2 * N)}
  S[-2 * N], S[2 * N] = -1.0, 1.0
  return S, u


def _form(sparse, S):
  return math.fsum(co * S[j] for j, co in sparse)


def _lat_points(pos, N, mode, u):
  import numpy as np
  if mode == 'pi':
    return np.array([(p / N) * (math.pi / 2) for p in pos], dtype=np.float64)
  return np.array([p * u for p in pos], dtype=np.float64)


def _lat_weights(c, S):
  import numpy as np
  nt, ns = len(c['ov']), len(c['ov'][0])
  W = np.zeros((nt, ns))
  for t in range(nt):
    den = _form(c['row'][t], S)
    for s in range(ns):
      hi_, lo_ = c['ov'][t][s]
      W[t, s] = (S[hi_] - S[lo_]) / den if hi_ != lo_ else 0.0
  return W


def _latw(c):
  import numpy as np
  from dinosaur import horizontal_interpolation as hi
  r = _Rec(c)
  N = c['key']['N']
  fn = _jit('lat_w', hi.conservative_latitude_weights)
  f = np.array(c['field'], dtype=np.float64)
  for mode in ('pi', 'dyadic'):
    S, u = _atoms(N, mode)
    src = _lat_points(c['key']['src'], N, mode, u)
    tgt = _lat_points(c['key']['tgt'], N, mode, u)
    W = _lat_weights(c, S)
    got = np.asarray(fn(src, tgt), dtype=np.float64)
    same = r.close(f'lat:weights:{mode}', got, W, TOL_IRR)
    if c.get('eager'):
      s0, t0 = np.array(src, copy=True), np.array(tgt, copy=True)
      got_e = np.asarray(hi.conservative_latitude_weights(src, tgt), dtype=np.float64)
      r.close(f'lat:weights_eager:{mode}', got_e, W, TOL_IRR)
      got_e = np.asarray(hi.conservative_latitude_weights(src, tgt), dtype=np.float64)     # same argument objects again
      r.close(f'lat:weights_eager_second_call:{mode}', got_e, W, TOL_IRR)
      if not (np.array_equal(np.asarray(src), s0) and np.array_equal(np.asarray(tgt), t0)):
        r.bad(f'lat:arguments_modified:{mode}', 'conservative_latitude_weights changed its coordinate arguments in place')
    if not same:
      continue
    r.n += 4
    if (got < 0).any():
      r.bad('lat:weights:negative', f'{mode}: negative weight {got.min()!r}')
    rs = got.sum(axis=1)
    if not (np.abs(rs - 1) <= 8 * EPS).all():
      r.bad('lat:weights:rowsum', f'{mode}: row sums {rs.tolist()}')
    if mode == 'dyadic' and (got[W == 0.0] != 0.0).any():
      # bounds are exact in floating point here, so an empty intersection is exactly empty
      r.bad('lat:weights:empty_overlap', f'non-zero weight {got[W == 0.0].tolist()} where the cells do not overlap')
    ta = np.array([S[c['tb'][t + 1]] - S[c['tb'][t]] for t in range(len(c['tb']) - 1)])
    sa = np.array([S[c['sb'][s + 1]] - S[c['sb'][s]] for s in range(len(c['sb']) - 1)])
    lhs, rhs = float(ta @ (got @ f)), float(sa @ f)
    if abs(lhs - rhs) > 4 * TOL_IRR * max(1.0, np.abs(f).max()):
      r.bad('lat:conservation', f'{mode}: sum_t area_t out_t = {lhs!r} but sum_s area_s in_s = {rhs!r}')
  return r.done()


def _lata(item):
  """ConservativeRegridder along latitude: Grid pairs, 4 identical longitudes."""
  import numpy as np
  from dinosaur import horizontal_interpolation as hi
  c = item['w']
  r = _Rec(item)
  N = c['key']['N']
  src, tgt = c['key']['src'], c['key']['tgt']
  ns, nt = len(src), len(tgt)
  S, u = _atoms(N, 'pi')
  gs = _grid(4, ns, c['key']['skind'], 0.0)
  gt = _grid(4, nt, c['key']['tkind'], 0.0)
  if not (_check_axis(r, 'lat:grid_latitudes', gs.latitudes, _lat_points(src, N, 'pi', u))
          and _check_axis(r, 'lat:grid_latitudes', gt.latitudes, _lat_points(tgt, N, 'pi', u))):
    return r.done()
  W = _lat_weights(c, S)
  f = np.array(c['field'], dtype=np.float64)
  aps = item['applies']
  fld = np.repeat(np.repeat(f[None, None, :], 4, axis=1), len(aps), axis=0)
  for i, ap in enumerate(aps):
    for s in ap['mask']:
      fld[i, :, s - 1] = np.nan
  for skipna in (False, True):
    reg = hi.ConservativeRegridder(gs, gt, skipna=skipna)
    if not skipna:
      r.close('lat:regridder:lat_weights', reg.lat_weights, W, TOL_IRR)
    got = np.asarray(reg(fld), dtype=np.float64)
    if got.shape != (len(aps), 4, nt):
      r.bad('lat:regridder:shape', f'{got.shape} != {(len(aps), 4, nt)}')
      continue
    for i, ap in enumerate(aps):
      res = ap['res']
      if skipna:
        ne = [{'nan': True, 'num': False, 'either': None}[x['nanT']] for x in res]
        ve = [(_form(x['numT'], S) / _form(x['denT'], S)) if x['nanT'] == 'num' else 0.0 for x in res]
      else:
        ne = _threshold([bool(x['nanF']) for x in res], W, ap['mask'])
        ve = [(_form(x['numF'], S) / _form(x['denF'], S)) if not x['nanF'] else 0.0 for x in res]
      for lon in (0, 3):
        _nan_cmp(r, 'lat:regridder' + (':skipna' if skipna else ':propagate'), got[i, lon, :], ne, ve,
                 TOL_IRR)
  return r.done()


# ----------------------------------------------------------------------------------------
# both axes at once
# ----------------------------------------------------------------------------------------

def _prod(item):
  """2-D regridder on a product of a longitude and a latitude configuration.  Expected values
  are tensor products of the two exported tables (the documented einsum); for Gauss latitudes
  (not on the lattice) only latitude-independent fields are used, whose image is fixed by the
  longitude table alone because latitude rows sum to one."""
  import numpy as np
  from dinosaur import horizontal_interpolation as hi
  r = _Rec(item)
  cl, ca = item['lon'], item.get('lat')
  P = cl['key']['P']
  src, tgt = cl['key']['src'], cl['key']['tgt']
  nls, nlt = len(src), len(tgt)
  Wlon, _, algok = _lon_expect(cl)
  if not algok:
    return r.done()
  if ca is not None:
    N = ca['key']['N']
    S, u = _atoms(N, 'pi')
    nas, nat = len(ca['key']['src']), len(ca['key']['tgt'])
    ks, kt = ca['key']['skind'], ca['key']['tkind']
    Wlat = _lat_weights(ca, S)
  else:
    nas, nat = item['gauss']
    ks = kt = 'gauss'
    Wlat = None
  gs = _grid(nls, nas, ks, 2 * math.pi * src[0] / P)
  gt = _grid(nlt, nat, kt, 2 * math.pi * tgt[0] / P)
  g = np.array(cl['field'], dtype=np.float64)
  F = np.array([[((3 * b + 5 * d + b * d) % 7) - 3 for d in range(nas)] for b in range(nls)],
               dtype=np.float64)
  lonfield = np.repeat(g[:, None], nas, axis=1)
  b0, d0 = item['hole']
  b0, d0 = b0 % nls, d0 % nas
  holed = F.copy()
  holed[b0, d0] = np.nan
  fld = np.stack([F, lonfield, np.full_like(F, -2.5), holed])
  lon_hit = Wlon[:, b0] > 0
  for skipna in (False, True):
    reg = hi.ConservativeRegridder(gs, gt, skipna=skipna)
    got = np.asarray(reg(fld), dtype=np.float64)
    if got.shape != (4, nlt, nat):
      r.bad('prod:shape', f'{got.shape} != {(4, nlt, nat)}')
      continue
    r.close('prod:lon_only_field', got[1], np.repeat((Wlon @ g)[:, None], nat, axis=1), 4 * TOL_IRR, rel=True)
    r.close('prod:constant', got[2], np.full((nlt, nat), -2.5), 4 * TOL_IRR)
    if Wlat is None:
      r.n += 1
      if np.isnan(got[0]).any() or got[0].min() < F.min() - 1e-12 or got[0].max() > F.max() + 1e-12:
        r.bad('prod:range', f'output [{got[0].min()!r}, {got[0].max()!r}] leaves input range [{F.min()}, {F.max()}]')
      continue
    full = Wlon @ F @ Wlat.T
    r.close('prod:field', got[0], full, 4 * TOL_IRR, rel=True)
    # one missing cell: NaN pattern is the outer product of the 1-D patterns
    lat_hit = Wlat[:, d0] > 0
    hit = np.outer(lon_hit, lat_hit)
    grey = hit & (np.outer(Wlon[:, b0], Wlat[:, d0]) < NAN_GREY)
    gn = np.isnan(got[3])
    r.n += int(hit.size)
    if skipna:
      # every target cell also overlaps other source cells unless the hole is all it sees
      alone = np.outer((Wlon > 0).sum(axis=1) == 1, (Wlat > 0).sum(axis=1) == 1) & hit
      if (gn & ~alone).any():
        r.bad('prod:skipna:spurious_nan', f'NaN at {np.argwhere(gn & ~alone)[0].tolist()} for a single missing cell')
      ok = ~hit & ~gn
      if not (np.abs(got[3][ok] - full[ok]) <= 4 * TOL_IRR * np.maximum(1, np.abs(full[ok]))).all():
        r.bad('prod:skipna:value', 'cells not overlapping the missing cell changed')
      inside = ~gn
      if inside.any() and (got[3][inside].min() < F.min() - 1e-12 or got[3][inside].max() > F.max() + 1e-12):
        r.bad('prod:skipna:range', 'output leaves the range of the inputs')
    else:
      if ((gn != hit) & ~grey).any():
        i = np.argwhere((gn != hit) & ~grey)[0].tolist()
        r.bad('prod:propagate:nan', f'NaN pattern differs at {i}: code {bool(gn[tuple(i)])}, spec {bool(hit[tuple(i)])}')
      ok = ~hit & ~gn
      if not (np.abs(got[3][ok] - full[ok]) <= 4 * TOL_IRR * np.maximum(1, np.abs(full[ok]))).all():
        r.bad('prod:propagate:value', 'cells not overlapping the missing cell changed')
  return r.done()


def _nanband(item):
  """RegridNaNBand: strongly coarsening aligned longitude pair with k missing cells of weight 1/r."""
  import numpy as np
  from dinosaur import horizontal_interpolation as hi
  c = item['c']
  r = _Rec(item)
  R, nt, k = c['r'], c['nt'], c['k']
  ns = R * nt
  # aligned cells: the first target cell spans source cells 1..r, so the target centre is offset by (r-1)/2 source cells
  gs = _grid(ns, 1, 'gauss', 0.0)
  gt = _grid(nt, 1, 'gauss', (R - 1) / 2 * 2 * math.pi / ns)
  f = np.array([((s % 5) - 2) for s in range(1, ns + 1)], dtype=np.float64)
  holed = f.copy()
  for s in c['missing']:
    holed[s - 1] = np.nan
  fld = np.stack([f, holed])[:, :, None]
  mean = np.array([fl(x['mean']) for x in c['res']])
  skip = np.array([fl(x['skip']) for x in c['res']])
  for skipna in (False, True):
    got = np.asarray(hi.ConservativeRegridder(gs, gt, skipna=skipna)(fld), dtype=np.float64)[:, :, 0]
    r.close('nanband:complete_field', got[0], mean, 1e-6)
    for t in range(nt):
      r.n += 1
      g = got[1, t]
      if skipna:
        if math.isnan(g) or abs(g - skip[t]) > 1e-6:
          r.bad('nanband:skipna:value', f'ratio {R}, {k} missing cell(s) of weight 1/{R}: target cell {t}: code {g!r}, mean over the present cells {skip[t]!r}')
        continue
      want = c['res'][t]['propagate']
      if want == 'nan' and not math.isnan(g):
        r.bad('nanband:propagate:not_missing',
              f'ratio {R}: {k} missing source cell(s) carry weight {k}/{R} = {k / R:.5f} of target cell {t}, which must be missing; code returns {g!r}')
      elif want == 'num' and (math.isnan(g) or abs(g - mean[t]) > 1e-6):
        r.bad('nanband:propagate:untouched_cell', f'ratio {R}: target cell {t} has no missing neighbour: code {g!r}, spec {mean[t]!r}')
  return r.done()


# ----------------------------------------------------------------------------------------
# dispatch
# ----------------------------------------------------------------------------------------

_KINDS = {'vert': _vert, 'lonw': _lonw, 'lona': _lona, 'latw': _latw, 'lata': _lata, 'prod': _prod, 'nanband': _nanband}
_LIFTED = {k: common.per_case(f, k) for k, f in _KINDS.items()}


def replay_items(items):
  try:     # the worker pins each shard to one low-numbered core shared with every other check
    os.sched_setaffinity(0, set(range(os.cpu_count() or 1)))
  except (OSError, AttributeError):
    pass
  _jax()          # float64 before anything touches jax
  out = []
  for it in items:
    out.extend(_LIFTED[it['kind']]([it]))
  return out


def replay(ctx, kind, cases):
  for m in replay_items(cases):
    if m['sig'] != STAT:
      ctx.mismatch(kind, m['case'], m['sig'], m['detail'])


def _key(k):
  return tuple((n, tuple(v) if isinstance(v, list) else v) for n, v in sorted(k.items()))


def _group(cases, wkind, akind):
  ws, aps = {}, {}
  for c in cases:
    if c['kind'] == wkind:
      ws[_key(c['key'])] = c
    elif c['kind'] == akind:
      aps.setdefault(_key(c['key']), {})[tuple(sorted(c['mask']))] = c
  groups = []
  for k, lst in aps.items():
    if k not in ws:
      raise common.MachineryError(f'{akind} case without its {wkind} case: {k}')
    groups.append({'kind': akind, 'w': ws[k],
                   'applies': [{'mask': a['mask'], 'res': a['res']} for _, a in sorted(lst.items())]})
  return list(ws.values()), groups


def run(ctx):
  q = ctx.quick
  tier = 'quick' if q else 'thorough'
  # the three machines are independent: model-check them side by side
  import concurrent.futures as cf
  with cf.ThreadPoolExecutor(max_workers=3) as ex:
    futs = [ex.submit(ctx.tlc, m, f'{m}_{tier}.cfg', workers=2 if q else 4)
            for m in ('RegridVert', 'RegridLon', 'RegridLat')]
    rv, rl, ra = [f.result() for f in futs]
  ctx.tlc_runs.sort(key=lambda r: r.module)
  # design-level counterexample of the repaired defect: aligning the two ends of a source interval
  # separately (as found) is not geometric inside the documented domain
  rf = ctx.tlc('RegridLon', 'RegridLon_asfound.cfg', expect_violation=True, tag='asfound', coverage=False, workers=4)
  if rf.violated != 'AsFoundSound':
    raise common.MachineryError('RegridLon_asfound.cfg was expected to refute AsFoundSound')
  ctx.notes['design_level_counterexample'] = 'RegridLon_asfound.cfg: AsFoundSound violated (end-by-end phase alignment, repaired in /repo)'
  rf2 = ctx.tlc('RegridLon', 'RegridLon_asfound2.cfg', expect_violation=True, tag='asfound2', coverage=False, workers=4)
  if rf2.violated != 'TwoCellAsFoundSound':
    raise common.MachineryError('RegridLon_asfound2.cfg was expected to refute TwoCellAsFoundSound')
  ctx.notes['design_level_counterexample_two_cells'] = ('RegridLon_asfound2.cfg: TwoCellAsFoundSound violated (cell bounds of a grid '
                                                        'with two longitudes coincide: half-period tie, repaired in /repo)')
  ctx.require_actions(rv, ['SigmaBoundaries', 'Overlap', 'Normalize', 'Regrid'])
  ctx.require_actions(rl, ['Bounds', 'Overlap', 'Normalize', 'Apply'])
  ctx.require_actions(ra, ['Bounds', 'Overlap', 'Normalize', 'Apply'])

  # vertical: group the surface pressures of one (hybrid, target) pair
  vg = {}
  for c in rv.cases:
    k = (tuple(c['a']), tuple(c['bn']), tuple(c['tn']))
    vg.setdefault(k, {})[c['sp']] = c
  vitems = []
  for i, (k, d) in enumerate(sorted(vg.items())):
    vitems.append({'kind': 'vert', 'a': list(k[0]), 'bn': list(k[1]), 'tn': list(k[2]),
                   'bden': next(iter(d.values()))['bden'], 'eager': i % 16 == 0,
                   'regrid': i % (8 if q else 3) == 0,
                   'sps': [{f: c[f] for f in ('sp', 'sb', 'covered', 'w', 'field', 'out')}
                           for _, c in sorted(d.items())]})
  lonw, lona = _group(rl.cases, 'lonw', 'lona')
  latw, lata = _group(ra.cases, 'latw', 'lata')
  for lst in (lonw, latw):
    lst.sort(key=lambda c: _key(c['key']))
    for i, c in enumerate(lst):
      c['eager'] = i % 16 == 0
  if not (vitems and lonw and lona and latw and lata):
    raise common.MachineryError('an export is empty')
  # products of Grid configurations of both axes (+ Gauss latitudes)
  glon = [c for c in lonw if c['grid'] and c['algov'] == c['ov'] and c['algov2'] == c['ov']]
  glat = [c for c in latw if c['key']['skind'] != 'place']
  nprod = 24 if q else 300
  prods = []
  for i in range(nprod):
    cl = glon[(i * 7919) % len(glon)]
    ca = glat[(i * 104729 + 3) % len(glat)]
    prods.append({'kind': 'prod', 'lon': cl, 'lat': ca, 'hole': [i, i // 3]})
  gauss = [(1, 1), (2, 3), (3, 2), (4, 4), (5, 2), (2, 6)]
  for i in range(6 if q else 48):
    prods.append({'kind': 'prod', 'lon': glon[(i * 31 + 5) % len(glon)], 'gauss': list(gauss[i % len(gauss)]),
                  'hole': [i, i + 1]})
  rb = ctx.tlc('RegridNaNBand', 'RegridNaNBand.cfg', workers=2)
  ctx.require_actions(rb, ['Apply'])
  if not any(x['propagate'] == 'nan' for c in rb.cases for x in c['res']) or not any(x['propagate'] == 'grey' for c in rb.cases for x in c['res']):
    raise common.MachineryError('vacuous export of RegridNaNBand')
  nanband = [{'kind': 'nanband', 'c': c} for c in rb.cases]
  items = vitems + lonw + lona + latw + lata + prods + nanband
  # heavy (jit-compiling) items first in every shard
  weight = {'vert': 3, 'lona': 4, 'lata': 4, 'prod': 4, 'lonw': 0, 'latw': 0, 'nanband': 1}
  items.sort(key=lambda it: -weight[it['kind']])
  res = common.parallel_map('c16', 'replay_items', items, nproc=4, tag='c16',
                            outdir=os.path.join(ctx.out, 'par'))
  counts = {}
  for it in items:
    counts[it['kind']] = counts.get(it['kind'], 0) + 1
  ctx.replayed += len(rv.cases) + len(rl.cases) + len(ra.cases) + len(prods)
  nbroken = sum(1 for c in lonw if c['algov'] != c['ov'] or c['algov2'] != c['ov'])
  for m in res:
    if m['sig'] == STAT:
      ctx.comparisons += m['n']
    else:
      ctx.mismatch(m['case']['kind'], m['case'], m['sig'], m['detail'])
  for c in lonw:
    ctx.distinct.add(('lon',) + _key(c['key']))
  for c in latw:
    ctx.distinct.add(('lat',) + _key(c['key']))
  for it in vitems:
    ctx.distinct.add(('vert', tuple(it['a']), tuple(it['bn']), tuple(it['tn'])))
  v0 = vitems[len(vitems) // 2]
  ctx.sample({'kind': 'vert', 'a': v0['a'], 'b': [f'{x}/{v0["bden"]}' for x in v0['bn']],
              'target': [f'{x}/{v0["bden"]}' for x in v0['tn']], 'sp': v0['sps'][0]['sp'],
              'weights': v0['sps'][0]['w'], 'out': v0['sps'][0]['out']})
  l0 = next(c for c in lonw if c['safe'] and not c['grid'])
  ctx.sample({'kind': 'lon', 'key': l0['key'], 'overlap_doubled_units': l0['ov'], 'weights': l0['w']})
  lb = next((c for c in lonw if c['grid'] and c['algov'] != c['ov'] and len(c['key']['src']) > 2
             and len(c['key']['tgt']) > 2), None)
  if lb:
    ctx.sample({'kind': 'lon (library algorithm differs from geometry)', 'key': lb['key'],
                'geometric_overlap': lb['ov'], 'algorithm_overlap': lb['algov']})
  a0 = latw[len(latw) // 2]
  ctx.sample({'kind': 'lat', 'key': a0['key'], 'bands_hi_lo': a0['ov'], 'row_forms': a0['row']})
  ctx.notes['items'] = counts
  ctx.notes['lon_configurations_where_library_algorithm_is_not_geometric'] = nbroken
  ctx.assumptions += [
      'longitudes are multiples of 2*pi/P and Grid latitudes multiples of pi/(2N): weights are compared '
      'to the spec rationals / sine forms within 1e-12 (a handful of roundings of O(1) numbers); vertical '
      'weights within 8 ulp for power-of-two surface pressures, 64 ulp otherwise',
      'atoms S[j] = sin(bound j) are substituted with math.sin; latitude placements are replayed on a '
      'pi/(2N) lattice and on a dyadic lattice (exact bounds, where empty overlaps must be exactly 0)',
      'target layers the hybrid source does not reach (0/0 in the code) are not asserted',
      'skipna=True with all overlapping cells missing but a merely touching neighbour present is '
      'unspecified ("either") and not asserted; skipna=False ignores NaN weight below the 1e-3 '
      'isclose threshold, which no lattice configuration reaches (smallest positive weight > 1e-2)',
      'irregular longitude placements are enumerated with neighbouring centres closer than half a '
      'period; all of them satisfy the documented condition that no cell is wider than half a period',
  ]
  return ctx.finish(
      rule='vert: one case per (hybrid a/b set, surface pressure, sigma level set); lon: one case per '
           '(source, target) placement on Z_P plus every pair of equispaced Grid longitudes with offsets, '
           'and one per NaN mask of the Grid pairs; lat: one case per pair of placements on -N..N plus '
           'every pair of equiangular / with-poles Grid latitudes, and one per NaN mask; prod: 2-D '
           'regridders on products of exported lon and lat Grid configurations')
