"""MANIFEST.setup_cmd: offline sanity of the toolchain; parses every TLA+ module with SANY."""
import glob
import os
import subprocess
import sys

VERIF = os.path.dirname(os.path.dirname(os.path.abspath(__file__)))
CP = '/opt/veriftools/tla/tla2tools.jar:/opt/veriftools/tla/CommunityModules-deps.jar'


def main():
  ok = True
  for exe in ('java', '/venv/bin/python'):
    if subprocess.call(['which', exe], stdout=subprocess.DEVNULL) != 0:
      print('missing', exe)
      ok = False
  mods = sorted(glob.glob(os.path.join(VERIF, 'spec', '*.tla')))
  for m in mods:
    p = subprocess.run(['java', '-cp', CP, 'tla2sany.SANY', os.path.basename(m)],
                       cwd=os.path.join(VERIF, 'spec'), capture_output=True, text=True)
    bad = p.returncode != 0 or 'Semantic errors' in p.stdout or 'Fatal errors' in p.stdout \
        or '*** Errors' in p.stdout or 'Parse Error' in p.stdout
    print(('FAIL ' if bad else 'ok   ') + os.path.basename(m))
    if bad:
      print(p.stdout[-2000:])
      ok = False
  p = subprocess.run(['/venv/bin/python', '-c', 'import jax, numpy, dinosaur; print("jax", jax.__version__)'],
                     env=dict(os.environ, PYTHONPATH='/repo', JAX_PLATFORMS='cpu'), capture_output=True, text=True)
  print(p.stdout.strip() or p.stderr[-500:])
  ok = ok and p.returncode == 0
  os.makedirs(os.path.join(VERIF, 'out'), exist_ok=True)
  os.makedirs(os.path.join(VERIF, 'evidence'), exist_ok=True)
  return 0 if ok else 1


if __name__ == '__main__':
  sys.exit(main())
