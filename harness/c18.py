"""C18: unit and time conversions are mutually inverse and multiplicative.

Spec modules: Units (Scale.__init__/nondimensionalize/dimensionalize over compound pint units,
exponent arithmetic with the non-dyadic parts of the scales kept as atoms), TimeDelta
(nondimensionalize_timedelta64/dimensionalize_timedelta64 on every whole second of a range)
and TimeConv (proleptic Gregorian minute calendar, model time, orbital/synodic phases).

TLC enumerates scales x quantities x calls (resp. blocks of durations, reference x calendar
stamps), checks the property's clauses on the exact machine and exports every terminal
behaviour; the replay performs the same public calls on the real library (float64) and
compares with the spec's exact values (monomials evaluated with fractions.Fraction, phases
as rational turns times 2*pi).
"""
from __future__ import annotations

import datetime
import math
import os
import warnings
from fractions import Fraction

from harness import common

EPS = Fraction(1, 2 ** 52)
TWO_PI = 2 * math.pi
DIMNAMES = ('[length]', '[time]', '[mass]', '[temperature]')
ULP_ONE = 32        # one conversion (a handful of float multiplications / pint factor lookups)
ULP_TWO = 64        # a conversion of a converted value

_cache: dict = {}


def _lib():
  if 'lib' not in _cache:
    warnings.filterwarnings('ignore', category=DeprecationWarning)
    import numpy as np
    import jax
    jax.config.update('jax_enable_x64', True)
    from dinosaur import scales, primitive_equations, xarray_utils, radiation
    _cache['lib'] = (np, scales, primitive_equations, xarray_utils, radiation)
  return _cache['lib']


def _f(r) -> Fraction:
  return Fraction(int(r[0]), int(r[1]))


def _close(got, exp: Fraction, ulps: int, exact: bool = False) -> bool:
  g = float(got)
  if not math.isfinite(g):
    return False
  if exact:
    return Fraction(g) == exp
  return abs(Fraction(g) - exp) <= ulps * EPS * abs(exp)


# ----------------------------------------------------------------------------------------
# Units
# ----------------------------------------------------------------------------------------

def _unit(name):
  _, scales, *_ = _lib()
  if name == 'dimensionless':
    return scales.units.dimensionless
  return scales.units.Unit(name)


def _atoms(sc):
  return [_f(a['r']) * Fraction(10) ** a['p10'] for a in sc['atoms']]


def _mono(m, atoms):
  """Exact values of a monomial [c, e, a]."""
  base = Fraction(2) ** m['e']
  for d in range(4):
    if m['a'][d]:
      base *= atoms[d] ** m['a'][d]
  return [_f(c) * base for c in m['c']]


def _build_scale(sc):
  np, scales, *_ = _lib()
  if sc['id'] == 'default':
    return scales.DEFAULT_SCALE
  if sc['id'] == 'atmos':
    return scales.ATMOSPHERIC_SCALE
  ents = []
  for e in sc['es']:
    v = _f(e['c']) * Fraction(10) ** e['p10'] * Fraction(2) ** e['k']
    ents.append(float(v) * _unit(e['u']))
  return scales.Scale(*ents)


def _specs_for(scale, key):
  """PrimitiveEquationsSpecs on top of a scale (needs all four dimensions)."""
  _, _, pe, *_ = _lib()
  k = ('specs', key)
  if k not in _cache:
    _cache[k] = pe.PrimitiveEquationsSpecs.from_si(scale=scale)
  return _cache[k]


def _units_one(c):
  np, scales, pe, _, _ = _lib()
  out = []
  sc = c['scale']
  q1, q2 = c['q1'], c['q2']
  ident = {'scale': sc['id'], 'q1': q1, 'q2': q2}
  ncmp = [0]

  def bad(sig, detail):
    out.append({'case': c, 'sig': sig, 'detail': f'{detail} | {ident}'})

  # ---- Scale.__init__
  if not sc['valid']:
    try:
      _build_scale(sc)
      bad(f'scale:accepted:{sc["id"]}', 'invalid scale specification accepted by Scale()')
    except ValueError:
      pass
    ncmp[0] += 1
    out.append({'sig': None, 'n': ncmp[0]})
    return out
  try:
    scale = _build_scale(sc)
  except ValueError as ex:
    bad(f'scale:rejected:{sc["id"]}', f'valid scale rejected: {ex}')
    return out
  atoms = _atoms(sc)
  dyadic_scale = all(a == 1 for a in atoms)
  nent = sum(1 for h in sc['has'] if h)
  if len(scale) != nent or sorted(scale) != sorted(DIMNAMES[d] for d in range(4) if sc['has'][d]):
    bad('scale:mapping', f'Scale mapping has keys {sorted(scale)}')
  for d in range(4):
    if sc['has'][d]:
      got = scale[DIMNAMES[d]]
      exp = atoms[d] * Fraction(2) ** sc['k'][d]
      ncmp[0] += 1
      if not _close(got.to_base_units().magnitude, exp, 4) or len(got.dimensionality) != 1:
        bad('scale:entry', f'scale[{DIMNAMES[d]}] = {got!r}, spec {float(exp)!r}')

  arr = len(q1['ms']) > 1

  def value(ms, e, integer=False):
    if integer:
      return int(ms[0]) * 2 ** e
    vals = [float(m) * 2.0 ** e for m in ms]
    return np.array(vals, dtype=np.float64) if len(ms) > 1 else vals[0]

  def check(name, got, mono, ulps, exact=False, shape_of=None):
    """Compares a magnitude (scalar or array) with a spec monomial."""
    exp = _mono(mono, atoms)
    g = np.asarray(got)
    want_shape = (len(exp),) if (shape_of if shape_of is not None else arr) else ()
    ncmp[0] += len(exp)
    if g.shape != want_shape:
      bad(f'{name}:shape', f'result shape {g.shape}, expected {want_shape}')
      return False
    flat = g.reshape(-1)
    for i, ex in enumerate(exp):
      if not _close(flat[i], ex, ulps, exact):
        bad(f'{name}:value', f'entry {i}: code {float(flat[i])!r} spec {float(ex)!r} '
                             f'(= {ex.numerator}/{ex.denominator})' + (' [exact]' if exact else ''))
        return False
    return True

  def call_nd(name, quantity, mono, ulps=ULP_ONE, exact=False, shape_of=None):
    """scale.nondimensionalize(quantity) against a monomial or the expected error."""
    if 'err' in mono:
      ncmp[0] += 1
      try:
        r = scale.nondimensionalize(quantity)
        bad(f'{name}:missing_dimension_accepted', f'no scale for a dimension of {quantity.units}, got {r!r}')
      except ValueError:
        pass
      return None
    r = scale.nondimensionalize(quantity)
    if hasattr(r, 'units'):
      bad(f'{name}:not_a_number', f'nondimensionalize returned {type(r).__name__}')
      return None
    return r if check(name, r, mono, ulps, exact, shape_of) else None

  res = c['res']
  u1, u2 = _unit(q1['u']), _unit(q2['u'])
  f1 = _f(c['f1'])
  Q1 = value(q1['ms'], q1['e']) * u1
  Q2 = value(q2['ms'], q2['e']) * u2
  ex1 = dyadic_scale and f1 == 1
  nd1 = call_nd('nondim', Q1, res['Nondim1'], exact=ex1)
  call_nd('nondim', Q2, res['Nondim2'], shape_of=False, exact=dyadic_scale and _f(c['f2']) == 1)
  if all(sc['has']) and 'err' not in res['Nondim1']:
    specs = _specs_for(scale, sc['id'])
    w = specs.nondimensionalize(Q1)
    ncmp[0] += 1
    if nd1 is not None and not np.array_equal(np.asarray(w), np.asarray(nd1)):
      bad('specs:nondimensionalize', f'PrimitiveEquationsSpecs.nondimensionalize {w!r} != Scale {nd1!r}')
  # python int magnitudes
  if not arr and q1['e'] == 0 and 'err' not in res['Nondim1']:
    call_nd('nondim:int', value(q1['ms'], 0, integer=True) * u1, res['Nondim1'], exact=ex1)

  # ---- dimensionalize(nondimensionalize(q), u') for every compatible unit
  if nd1 is not None:
    for r in res['Redim']:
      un = _unit(r['u'])
      back = scale.dimensionalize(nd1, un)
      if not hasattr(back, 'units') or back.units != un:
        bad('redim:unit', f'dimensionalize(., {r["u"]}) returned {back!r}')
        continue
      ok = check(f'redim', back.magnitude, r['v'], ULP_TWO, exact=ex1 and _mono_is_plain(r, q1))
      # the statement itself: the same physical quantity
      if ok:
        same = np.asarray(back.to(u1).magnitude, dtype=np.float64).reshape(-1)
        orig = np.asarray(Q1.magnitude, dtype=np.float64).reshape(-1)
        ncmp[0] += len(orig)
        if not np.all(np.abs(same - orig) <= 4 * ULP_TWO * float(EPS) * np.abs(orig)):
          bad('redim:quantity', f'round trip through {r["u"]}: {same!r} != {orig!r}')
    if all(sc['has']):
      specs = _specs_for(scale, sc['id'])
      b = specs.dimensionalize(nd1, u1)
      ncmp[0] += 1
      if not np.array_equal(np.asarray(b.magnitude), np.asarray(scale.dimensionalize(nd1, u1).magnitude)):
        bad('specs:dimensionalize', 'PrimitiveEquationsSpecs.dimensionalize differs from Scale.dimensionalize')
  # ---- independent of the unit the quantity is expressed in
  for r in res['Reexpress']:
    call_nd('reexpress', Q1.to(_unit(r['u'])), r['v'], ulps=ULP_TWO)
  # ---- products, quotients, powers
  if 'skip' not in res['Prod']:
    p = call_nd('product', Q1 * Q2, res['Prod'], ulps=ULP_TWO)
    if p is not None and nd1 is not None:
      nd2 = scale.nondimensionalize(Q2)
      ncmp[0] += 1
      if not np.allclose(np.asarray(p), np.asarray(nd1) * nd2, rtol=float(4 * ULP_TWO * EPS), atol=0):
        bad('product:relation', f'nondim(q1*q2) {p!r} != nondim(q1)*nondim(q2) {np.asarray(nd1) * nd2!r}')
  if 'skip' not in res['Quot']:
    call_nd('quotient', Q1 / Q2, res['Quot'], ulps=ULP_TWO)
  for r in res['Pow']:
    call_nd(f'power', Q1 ** r['p'], r['v'], ulps=ULP_TWO * max(1, abs(r['p'])))
  # ---- nondimensionalize(dimensionalize(x, u)) = x
  dn = res['DimNondim']
  x = value(q1['ms'], q1['e'])
  if 'err' in dn['dim']:
    ncmp[0] += 1
    try:
      r = scale.dimensionalize(x, u1)
      bad('dim:missing_dimension_accepted', f'no scale for a dimension of {q1["u"]}, got {r!r}')
    except ValueError:
      pass
  else:
    dq = scale.dimensionalize(x, u1)
    if not hasattr(dq, 'units') or dq.units != u1:
      bad('dim:unit', f'dimensionalize(x, {q1["u"]}) returned {dq!r}')
    elif check('dim', dq.magnitude, dn['dim'], ULP_ONE, exact=ex1):
      call_nd('dim_nondim', dq, dn['back'], ulps=ULP_TWO, exact=ex1)
  # ---- offset unit
  ce = res['Celsius']
  if 'skip' not in ce:
    qc = scales.units.Quantity(value(q1['ms'], 0), scales.units.degC)
    ndc = scale.nondimensionalize(qc)
    if check('celsius:nondim', ndc, ce['nd'], ULP_ONE):
      for key, un in (('degC', scales.units.degC), ('kelvin', scales.units.kelvin)):
        back = scale.dimensionalize(ndc, un)
        g = np.asarray(back.magnitude, dtype=np.float64).reshape(-1)
        ncmp[0] += len(g)
        for i, ex in enumerate(ce[key]):
          if abs(Fraction(float(g[i])) - _f(ex)) > ULP_TWO * EPS * 320:
            bad(f'celsius:{key}', f'entry {i}: code {g[i]!r} spec {float(_f(ex))!r}')
            break
  # ---- jax arrays as magnitudes
  if arr and q1['e'] == 0 and sc['id'] in ('p2', 'default') and nd1 is not None:
    import jax.numpy as jnp
    j = scale.nondimensionalize(jnp.asarray(value(q1['ms'], 0)) * u1)
    check('nondim:jax', np.asarray(j), res['Nondim1'], ULP_ONE)
    jb = scale.dimensionalize(jnp.asarray(nd1), u1)
    if res['Redim']:
      mine = [r for r in res['Redim'] if r['u'] == q1['u']][0]
      check('redim:jax', np.asarray(jb.magnitude), mine['v'], ULP_TWO)
  out.append({'sig': None, 'n': ncmp[0]})
  return out


def _mono_is_plain(r, q1):
  """Re-dimensionalising into a unit whose factor is 1 is exact on dyadic scales."""
  return r['u'] == q1['u']


replay_units = common.per_case(_units_one, 'units')


# ----------------------------------------------------------------------------------------
# whole-second durations
# ----------------------------------------------------------------------------------------

def _time_specs(sc):
  """PrimitiveEquationsSpecs whose time scale is c * 2^k seconds (default: the library's)."""
  np, scales, pe, *_ = _lib()
  key = ('tspecs', sc['id'])
  if key not in _cache:
    if sc['id'] == 'default':
      _cache[key] = pe.PrimitiveEquationsSpecs.from_si()
    else:
      u = scales.units
      T = float(_f(sc['c']) * Fraction(2) ** sc['k'])
      _cache[key] = pe.PrimitiveEquationsSpecs.from_si(
          scale=scales.Scale(1 * u.m, T * u.s, 1 * u.kg, 1 * u.degK))
  return _cache[key]


def _delta_one(c):
  np, *_ = _lib()
  sc = c['scale']
  specs = _time_specs(sc)
  T = _f(sc['c']) * Fraction(2) ** sc['k']
  Tf = float(T)
  lo, hi, sign, path = c['lo'], c['hi'], c['sign'], c['path']
  ident = {k: c[k] for k in ('lo', 'hi', 'sign', 'path')}
  ident['scale'] = sc['id']
  tag = f'{path}:{sc["id"]}' + (':negative' if sign < 0 else '')
  out = []
  ncmp = 0
  assert c['back']['a'] == 0 and c['back']['e'] == 0 and c['nd']['a'] == -1
  n = sign * np.arange(lo, hi + 1, dtype=np.int64)
  short = []        # (duration, returned)
  if path == 'array':
    td = n.astype('timedelta64[s]')
    x = specs.nondimensionalize_timedelta64(td)
    xa = np.asarray(x, dtype=np.float64)
    if xa.shape != n.shape:
      out.append({'case': c, 'sig': f'timedelta:nondim:shape:{tag}', 'detail': f'shape {xa.shape} | {ident}'})
      return out
    exp = n / Tf
    dev = np.abs(xa - exp) > 8 * float(EPS) * np.abs(exp)
    for i in (0, len(n) - 1, len(n) // 2):     # a few entries exactly
      if not _close(xa[i], Fraction(int(n[i])) / T, 8):
        dev[i] = True
    ncmp += len(n)
    if dev.any():
      i = int(np.argmax(dev))
      out.append({'case': c, 'sig': f'timedelta:nondim:value:{tag}',
                  'detail': f'{int(n[i])} s -> code {xa[i]!r}, spec {int(n[i])}/{Tf!r} = {exp[i]!r} | {ident}'})
      return out
    back = specs.dimensionalize_timedelta64(x)
    if not isinstance(back, np.ndarray) or back.dtype.kind != 'm' or back.shape != n.shape:
      out.append({'case': c, 'sig': f'timedelta:dim:type:{tag}',
                  'detail': f'returned {type(back).__name__} {getattr(back, "dtype", None)} | {ident}'})
      return out
    b = (back / np.timedelta64(1, 's'))
    ncmp += len(n)
    for i in np.nonzero(b != n)[0]:
      short.append((int(n[i]), float(b[i])))
  else:
    for v in n.tolist():
      td = np.timedelta64(v, 's')
      x = specs.nondimensionalize_timedelta64(td)
      ncmp += 2
      if np.ndim(x) != 0 or not _close(x, Fraction(v) / T, 8):
        out.append({'case': c, 'sig': f'timedelta:nondim:value:{tag}',
                    'detail': f'{v} s -> code {x!r}, spec {float(Fraction(v) / T)!r} | {ident}'})
        return out
      if v % 60 == 0:    # the same duration expressed in minutes
        xm = specs.nondimensionalize_timedelta64(np.timedelta64(v // 60, 'm'))
        if not _close(xm, Fraction(v) / T, 8):
          out.append({'case': c, 'sig': f'timedelta:nondim:minutes:{tag}',
                      'detail': f'{v // 60} min -> code {xm!r}, spec {float(Fraction(v) / T)!r} | {ident}'})
          return out
      back = specs.dimensionalize_timedelta64(x)
      if not isinstance(back, np.timedelta64):
        out.append({'case': c, 'sig': f'timedelta:dim:type:{tag}',
                    'detail': f'returned {type(back).__name__} | {ident}'})
        return out
      if back != td:
        short.append((v, float(back / np.timedelta64(1, 's'))))
  if short:
    devs = sorted({int(b - v) for v, b in short})
    out.append({'case': c, 'sig': f'timedelta:roundtrip:{tag}',
                'detail': f'{len(short)} of {len(n)} whole-second durations in [{sign * lo}, {sign * hi}] s do not '
                          f'survive nondimensionalize_timedelta64 -> dimensionalize_timedelta64 (time scale '
                          f'{sc["id"]}, T = {Tf!r} s): returned - expected in {devs} s, e.g. '
                          f'{[v for v, _ in short][:12]}',
                'failing': [v for v, _ in short]})
  out.append({'sig': None, 'n': ncmp})
  return out


replay_deltas = common.per_case(_delta_one, 'timedelta')


# ----------------------------------------------------------------------------------------
# calendar / model time / orbital phases
# ----------------------------------------------------------------------------------------

def _iso(s):
  return f'{s[0]:04d}-{s[1]:02d}-{s[2]:02d}T{s[3]:02d}:{s[4]:02d}'


def _solar(sc, ref, kind):
  np, scales, pe, xu, rad = _lib()
  key = ('solar', sc['id'], tuple(ref), kind)
  if key not in _cache:
    if 'coords' not in _cache:
      from dinosaur import coordinate_systems, spherical_harmonic, sigma_coordinates
      _cache['coords'] = coordinate_systems.CoordinateSystem(
          spherical_harmonic.Grid(longitude_wavenumbers=4, total_wavenumbers=5,
                                  longitude_nodes=8, latitude_nodes=4),
          sigma_coordinates.SigmaCoordinates.equidistant(2))
    r = datetime.datetime(*ref) if kind == 'datetime' else np.datetime64(_iso(ref))
    _cache[key] = rad.SolarRadiation(_cache['coords'], _time_specs(sc), r)
  return _cache[key]


def _time_one(c):
  np, scales, pe, xu, rad = _lib()
  sc = c['scale']
  specs = _time_specs(sc)
  T = _f(sc['c']) * Fraction(2) ** sc['k']
  ref, when, res = c['ref'], c['when'], c['res']
  ident = {'ref': _iso(ref), 'when': _iso(when), 'scale': sc['id']}
  out = []
  ncmp = [0]
  notes = {'neg': 0, 'ge2pi': 0}

  def bad(sig, detail):
    out.append({'case': c, 'sig': sig, 'detail': f'{detail} | {ident}'})

  def nondim(minutes):
    return Fraction(60 * minutes) / T

  ref64, when64 = np.datetime64(_iso(ref)), np.datetime64(_iso(when))
  refdt, whendt = datetime.datetime(*ref), datetime.datetime(*when)
  e = res['ToNondim']
  exp_t = nondim(e)
  # ---- datetime64_to_nondim_time (scalar, arrays, other datetime64 resolutions)
  xs = {}
  for name, w in (('scalar', when64), ('array', np.array([when64, ref64])),
                  ('s', np.array([when64]).astype('datetime64[s]')),
                  ('ns', np.array([when64]).astype('datetime64[ns]'))):
    x = xu.datetime64_to_nondim_time(w, specs, ref64)
    x0 = np.asarray(x, dtype=np.float64).reshape(-1)[0]
    xs[name] = x
    ncmp[0] += 1
    if not _close(x0, exp_t, 16):
      bad(f'to_nondim:{name}', f'code {x0!r} spec {float(exp_t)!r} ({e} min)')
  x1 = np.asarray(xs['array'], dtype=np.float64).reshape(-1)[1]
  ncmp[0] += 1
  if x1 != 0.0:
    bad('to_nondim:reference', f'reference datetime maps to {x1!r}, not 0')
  # ---- nondim_time_to_datetime64: the library's own value and the spec's value
  want = np.datetime64(_iso(res['ToDatetime']))
  for name, t in (('lib_scalar', xs['scalar']), ('lib_array', xs['array']),
                  ('spec', np.float64(float(exp_t))), ('spec_array', np.array([float(exp_t), 0.0]))):
    back = xu.nondim_time_to_datetime64(t, specs, ref64)
    b0 = np.asarray(back).reshape(-1)[0]
    ncmp[0] += 1
    if not np.issubdtype(np.asarray(back).dtype, np.datetime64) or b0 != want:
      bad(f'to_datetime:{name}', f'code {b0!r} spec {want!r} (t = {np.asarray(t).reshape(-1)[0]!r})')
    if name.endswith('array'):
      b1 = np.asarray(back).reshape(-1)[1]
      ncmp[0] += 1
      if b1 != ref64:
        bad(f'to_datetime:{name}:reference', f't = 0 maps to {b1!r}, reference {ref64!r}')
  # ---- radiation.datetime_to_time, all argument type combinations
  for wn, w in (('dt', whendt), ('dt64', when64)):
    for rn, r in (('dt', refdt), ('dt64', ref64)):
      t = rad.datetime_to_time(w, specs, r)
      ncmp[0] += 1
      if np.ndim(t) != 0 or not _close(t, nondim(res['DatetimeToTime']), 16):
        bad(f'datetime_to_time:{wn}:{rn}', f'code {t!r} spec {float(exp_t)!r}')
  # ---- datetime_to_orbital_time
  def phase_exact(name, got, turns, ulps=8):
    ncmp[0] += 1
    ex = _f(turns)
    g = float(got)
    if not math.isfinite(g) or abs(g - TWO_PI * float(ex)) > ulps * float(EPS) * TWO_PI * float(ex):
      bad(name, f'code {g!r} spec 2*pi*{ex} = {TWO_PI * float(ex)!r}')

  ot = rad.datetime_to_orbital_time(whendt)
  phase_exact('orbital_of_datetime:orbital', ot.orbital_phase, res['OrbitalOfWhen']['oy'])
  phase_exact('orbital_of_datetime:synodic', ot.synodic_phase, res['OrbitalOfWhen']['sy'])
  # ---- SolarRadiation
  for kind in ('datetime', 'datetime64'):
    sr = _solar(sc, ref, kind)
    phase_exact(f'solar_init:{kind}:orbital', sr.reference_orbital_time.orbital_phase, res['SolarInit']['oy'])
    phase_exact(f'solar_init:{kind}:synodic', sr.reference_orbital_time.synodic_phase, res['SolarInit']['sy'])
  sr = _solar(sc, ref, 'datetime')
  t_lib = sr.datetime_to_time(when64)
  ncmp[0] += 1
  if not _close(t_lib, exp_t, 16):
    bad('solar:datetime_to_time', f'code {t_lib!r} spec {float(exp_t)!r}')
  r_oy, r_sy = _f(res['SolarInit']['oy']), _f(res['SolarInit']['sy'])

  def phases(name, t, minutes, ph):
    """time_to_orbital_time(t) against rational turns; circular distance, rounding budget
    proportional to the unreduced angle."""
    o = sr.time_to_orbital_time(t)
    for which, got, turns, unred in (
        ('orbital', o.orbital_phase, ph['oy'], r_oy + Fraction(minutes, 525960)),
        ('synodic', o.synodic_phase, ph['sy'], r_sy + Fraction(minutes, 1440))):
      g = float(got)
      ex = TWO_PI * float(_f(turns))
      tol = 32 * float(EPS) * TWO_PI * (abs(float(unred)) + 1)
      ncmp[0] += 2
      if not math.isfinite(g) or g < -tol or g > TWO_PI + tol:
        bad(f'time_to_orbital:{name}:{which}:range', f'phase {g!r} outside [0, 2*pi) at t = {float(t)!r}')
        continue
      if g < 0:
        notes['neg'] += 1
      if g >= TWO_PI:
        notes['ge2pi'] += 1
      d = abs(g - ex)
      d = min(d, TWO_PI - d)
      if d > tol:
        bad(f'time_to_orbital:{name}:{which}',
            f'code {g!r} spec 2*pi*{_f(turns)} = {ex!r} at {minutes} min (t = {float(t)!r})')

  tt = res['TimeToOrbital']
  phases('at', float(exp_t), e, tt['at'])
  phases('at_lib_time', t_lib, e, tt['at'])
  phases('at_np', np.float64(float(exp_t)), e, tt['at'])
  phases('next_minute', float(nondim(e + 1)), e + 1, tt['next']['ph'])
  for r in tt['days']:
    phases('day_shift', float(nondim(e + r['de'])), e + r['de'], r['ph'])
  for r in tt['years']:
    phases('year_shift', float(nondim(e + r['de'])), e + r['de'], r['ph'])
  import jax.numpy as jnp
  phases('at_jax', jnp.float64(float(exp_t)), e, tt['at'])
  # ---- time axis
  for a in res['AxisDelta']:
    exp_d = nondim(a['delta'])
    ax = np.array([np.datetime64(_iso(s)) for s in a['axis']])
    variants = [('m', ax), ('s', ax.astype('datetime64[s]')), ('ns', ax.astype('datetime64[ns]'))]
    if a['step'] % 60 == 0 and when[4] == 0:
      variants.append(('h', ax.astype('datetime64[h]')))
    for name, axis in variants:
      d = xu.nondim_time_delta_from_time_axis(axis, specs)
      ncmp[0] += 1
      if not _close(d, exp_d, 16):
        bad(f'axis_delta:{name}', f'step {a["step"]} min: code {d!r} spec {float(exp_d)!r}')
    base = [float(nondim(e + j * a['step'])) for j in range(3)]
    d = xu.nondim_time_delta_from_time_axis(np.array(base), specs)
    ncmp[0] += 1
    if abs(float(d) - float(exp_d)) > 4 * float(EPS) * (abs(base[0]) + abs(base[1]) + abs(float(exp_d))):
      bad('axis_delta:float', f'step {a["step"]} min: code {d!r} spec {float(exp_d)!r}')
  out.append({'sig': None, 'n': ncmp[0], 'notes': notes})
  return out


replay_times = common.per_case(_time_one, 'time')

_REPLAYERS = {'units': replay_units, 'timedelta': replay_deltas, 'time': replay_times}


def replay(ctx, kind, cases):
  for m in _REPLAYERS[kind](cases):
    if m.get('sig'):
      ctx.mismatch(kind, m['case'], m['sig'], m['detail'])


def _collect(ctx, kind, res, notes=None):
  """Counts comparisons; aggregates the per-block duration mismatches per signature."""
  agg = {}
  for m in res:
    if not m.get('sig'):
      ctx.comparisons += m.get('n', 0)
      if notes is not None and 'notes' in m:
        for k, v in m['notes'].items():
          notes[k] = notes.get(k, 0) + v
      continue
    if 'failing' in m:
      a = agg.setdefault(m['sig'], {'first': m, 'failing': [], 'blocks': 0})
      a['failing'] += m['failing']
      a['blocks'] += 1
      continue
    ctx.mismatch(kind, m['case'], m['sig'], m['detail'])
  for sig, a in sorted(agg.items()):
    f = sorted(a['failing'], key=abs)
    ctx.mismatch(kind, a['first']['case'], sig,
                 f'{len(f)} whole-second durations in {a["blocks"]} block(s) come back changed; smallest: '
                 f'{f[:24]}; first failing block: {a["first"]["detail"][:160]}...',
                 extra={'failing_durations': f[:5000]})
    ctx.notes.setdefault('timedelta_failing_durations', {})[sig] = {'count': len(f), 'smallest': f[:60]}


def run(ctx):
  q = ctx.quick
  tier = 'quick' if q else 'thorough'
  nproc = 1      # measured: in-process replay beats 4 pinned workers for these pint-bound cases
  # ---- Units
  r = ctx.tlc('Units', f'Units_{tier}.cfg')
  ctx.require_actions(r, ['Construct', 'RejectScale', 'Nondimensionalize1', 'Nondimensionalize2',
                          'Redimensionalize', 'Reexpress', 'NondimProduct', 'NondimQuotient',
                          'NondimPower', 'DimThenNondim', 'Celsius'])
  ucases = r.cases
  if not ucases:
    raise common.MachineryError('no unit cases exported')
  res = common.parallel_map('c18', 'replay_units', ucases, nproc=nproc, tag='units',
                            outdir=os.path.join(ctx.out, 'par'))
  ctx.replayed += len(ucases)
  _collect(ctx, 'units', res)
  for c in ucases:
    ctx.distinct.add(('u', c['scale']['id'], c['q1']['u'], c['q1']['e'], len(c['q1']['ms']), c['q2']['u']))
  ctx.notes['unit_cases'] = len(ucases)
  ctx.notes['invalid_scales'] = sum(1 for c in ucases if not c['scale']['valid'])
  for c in ucases:
    if c['scale']['id'] == 'atmos' and c['q1']['u'] == 'hPa' and len(c['q1']['ms']) == 3:
      ctx.sample({'scale': 'atmos', 'q1': c['q1'], 'q2': c['q2'], 'Nondim1': c['res']['Nondim1'],
                  'Prod': c['res']['Prod'], 'Redim': c['res']['Redim']})
      break
  # ---- whole-second durations
  r = ctx.tlc('TimeDelta', f'TimeDelta_{tier}.cfg')
  ctx.require_actions(r, ['NondimTimedelta', 'DimTimedelta'])
  dcases = r.cases
  if not dcases or not any(c['path'] == 'scalar' for c in dcases) or not any(c['sign'] < 0 for c in dcases):
    raise common.MachineryError('duration blocks missing (scalar / negative)')
  # scalar blocks are the expensive ones: spread them evenly over the workers
  dcases.sort(key=lambda c: (c['path'] != 'scalar', c['scale']['id'], c['lo']))
  res = common.parallel_map('c18', 'replay_deltas', dcases, nproc=nproc, tag='delta',
                            outdir=os.path.join(ctx.out, 'par'))
  ctx.replayed += len(dcases)
  _collect(ctx, 'timedelta', res)
  for c in dcases:
    ctx.distinct.add(('d', c['scale']['id'], c['lo'], c['sign'], c['path']))
  ctx.notes['duration_blocks'] = len(dcases)
  ctx.notes['durations_covered_s'] = {
      'array': [0, max(c['hi'] for c in dcases if c['path'] == 'array')],
      'scalar': [0, max(c['hi'] for c in dcases if c['path'] == 'scalar')],
      'negative': [-max(c['hi'] for c in dcases if c['sign'] < 0), 0]}
  ctx.sample({'timedelta_block': {k: dcases[0][k] for k in ('scale', 'lo', 'hi', 'sign', 'path', 'back')}})
  # ---- calendar and phases
  r = ctx.tlc('TimeConv', f'TimeConv_{tier}.cfg')
  ctx.require_actions(r, ['DatetimeToNondim', 'NondimToDatetime', 'DatetimeToTime', 'DatetimeToOrbital',
                          'SolarInit', 'TimeToOrbital', 'AxisDelta'])
  tcases = r.cases
  if not tcases:
    raise common.MachineryError('no calendar cases exported')
  tcases.sort(key=lambda c: (c['scale']['id'], c['ref']))
  if {c['scale']['id'] for c in tcases} != {s for s in ('default', 'p2', 'hour', 'day')
                                            if any(c['scale']['id'] == s for c in tcases)} or \
      len({(c['scale']['id'], tuple(c['ref'])) for c in tcases}) < 2 * len({tuple(c['ref']) for c in tcases}):
    raise common.MachineryError('calendar cases do not pair every reference with several time scales')
  res = common.parallel_map('c18', 'replay_times', tcases, nproc=nproc, tag='time',
                            outdir=os.path.join(ctx.out, 'par'))
  ctx.replayed += len(tcases)
  notes = {}
  _collect(ctx, 'time', res, notes)
  for c in tcases:
    ctx.distinct.add(('t', c['scale']['id'], tuple(c['ref']), tuple(c['when'])))
  ctx.notes['calendar_cases'] = len(tcases)
  ctx.notes['phase_float_excursions_within_rounding'] = {
      'negative': notes.get('neg', 0), 'at_or_above_float_2pi': notes.get('ge2pi', 0)}
  c = tcases[len(tcases) // 2]
  ctx.sample({'ref': c['ref'], 'when': c['when'], 'elapsed_min': c['res']['ToNondim'],
              'OrbitalOfWhen': c['res']['OrbitalOfWhen'], 'at': c['res']['TimeToOrbital']['at']})
  ctx.assumptions += [
      'non-dyadic scale values (RADIUS, 1/(2 Omega), mass of the atmosphere, km, hour, ...) are atoms of the '
      'spec, exported as exact decimal rationals and evaluated with fractions.Fraction; rounding budget '
      f'{ULP_ONE} ulp per conversion ({ULP_TWO} for a conversion of a converted value, x|p| for powers); '
      'dyadic scales with factor-one units are compared exactly',
      'whole-second round trips are compared exactly (integers); only whole seconds are asserted, the '
      'rounding direction for fractional seconds is left unspecified',
      'phases are compared as circular distances with budget 32 eps * 2 pi * (unreduced turns + 1); the '
      'half-open bound [0, 2 pi) is asserted up to that budget (a float result equal to fl(2 pi) or -1e-16 '
      'at an exact period boundary is counted in phase_float_excursions_within_rounding, not reported)',
      'minute-resolution stamps only (the property states minute resolution)']
  return ctx.finish(
      rule='Units: one case per (scale specification, quantity 1 = unit x binary exponent x scalar/array '
           'mantissas, quantity 2 unit), each replaying nondimensionalize / dimensionalize into every compatible '
           'unit / re-expression / product / quotient / powers / offset unit; TimeDelta: one case per block of '
           'consecutive whole seconds x time scale x sign x scalar-or-array path, every second of the block '
           'round-tripped; TimeConv: one case per (reference stamp, stamp, time scale) with all seven calendar / '
           'orbital calls')
