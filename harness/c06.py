"""C06: IMEX integrators.  Spec modules: IntegratorPrograms, Integrators, IntegratorArgs, ImexTableaux, RK4Order (BigInt),
TraceIntegrators.

Integrators.tla interprets the stage program of every integrator over (i) complex rationals
(exact amplification factors, exported), (ii) bivariate power series (order, reductions), (iii)
symbolic stage combinations (Butcher tableau, nonlinear order conditions).  Replay: the real
step functions on the linear test problem must reproduce every exported factor; the stiff
lattice 1e-3..1e6 must not amplify; constructors must reject exactly the length tuples the
spec rejects.  Traces: call sequences (kind, eta/dt) of the real integrators on toy and on real
equations must be behaviours of the stage programs.
"""
from __future__ import annotations

import json
import os
from fractions import Fraction

from harness import common
from harness.common import frac


def _jax():
  import jax
  jax.config.update('jax_enable_x64', True)
  import jax.numpy as jnp
  return jax, jnp


def _c(z):
  return complex(float(frac(z[0])), float(frac(z[1])))


def _step_fn(ig, eq, dt, alpha):
  from dinosaur import time_integration as ti
  if ig == 'euler':
    return ti.backward_forward_euler(eq, dt)
  if ig == 'cnrk2':
    return ti.crank_nicolson_rk2(eq, dt)
  if ig == 'rk3':
    return ti.crank_nicolson_rk3(eq, dt)
  if ig == 'rk4':
    return ti.crank_nicolson_rk4(eq, dt)
  if ig == 'sil3':
    return ti.imex_rk_sil3(eq, dt)
  if ig == 'leapfrog':
    return ti.semi_implicit_leapfrog(eq, dt, alpha)
  raise ValueError(ig)


def _linear_eq(lam, mu, log=None):
  jax, jnp = _jax()
  from dinosaur import time_integration as ti
  tm = jax.tree_util.tree_map

  def F(u):
    if log is not None:
      log.append(('F', None))
    return tm(lambda v: lam * v, u)

  def G(u):
    if log is not None:
      log.append(('G', None))
    return tm(lambda v: mu * v, u)

  def Ginv(u, eta):
    if log is not None:
      log.append(('Ginv', float(eta)))
    return tm(lambda v: v / (1 - eta * mu), u)
  return ti.ImplicitExplicitODE.from_functions(F, G, Ginv)


def _amp_one(c):
  jax, jnp = _jax()
  out = []
  lam, mu = _c(c['lam']), _c(c['mu'])
  dt = float(frac(c['dt']))
  alpha = float(frac(c['alpha']))
  exp = _c(c['out'])
  eq = _linear_eq(lam, mu)
  step = _step_fn(c['ig'], eq, dt, alpha)
  for shape in ((), (2,)):
    one = jnp.ones(shape, jnp.complex128)
    if c['ig'] == 'leapfrog':
      u = ({'a': 1.0 * one}, {'a': (0.5 + 1j) * one})
      got = step(u)
      val = complex(jnp.ravel(got[1]['a'])[0])
      cur = complex(jnp.ravel(got[0]['a'])[0])
      if cur != 0.5 + 1j:
        out.append({'case': c, 'sig': 'amp:leapfrog_shift', 'detail': f'current slot {cur}'})
    else:
      got = step({'a': one})
      val = complex(jnp.ravel(got['a'])[0])
    if not abs(val - exp) <= 1e-13 * max(1.0, abs(exp)):
      out.append({'case': c, 'sig': f'amp:{c["ig"]}', 'detail': f'code factor {val!r} spec {exp!r}'})
  # exact modulus check of the spec's own factor (unbounded integers): purely implicit, Re(mu) <= 0
  if c['ig'] != 'leapfrog' and all(int(v[0]) == 0 for v in c['lam']):
    re, im = frac(c['out'][0]), frac(c['out'][1])
    if re * re + im * im > 1 and frac(c['mu'][0]) <= 0:
      out.append({'case': c, 'sig': 'astable:spec_factor', 'detail': f'|R|^2 = {float(re*re+im*im)} > 1'})
  return out


replay_amp = common.per_case(_amp_one, 'amp')


def _stiff_one(c):
  """Stiff lattice: purely implicit linear dynamics, eigenvalues in the closed left half plane."""
  jax, jnp = _jax()
  import numpy as np
  out = []
  ig = c['ig']
  mags = [10.0 ** k for k in range(-3, 7)]
  dirs = [(-1, 0), (0, 1), (0, -1), (-1, 1), (-1, -1000), (-1000, 1), (-1e-6, 1)]
  mus = []
  for m in mags:
    for a, b in dirs:
      z = complex(a, b)
      mus.append(m * z / abs(z))
  mu = jnp.asarray(np.array(mus))
  for dt in (1.0, 1e-2, 37.0):
    eq = _linear_eq(0.0, mu / dt)
    alphas = (0.5, 0.75, 1.0) if ig == 'leapfrog' else (0.5,)
    for alpha in alphas:
      step = _step_fn(ig, eq, dt, alpha)
      one = jnp.ones(mu.shape, jnp.complex128)
      if ig == 'leapfrog':
        # two-level scheme: amplification of the pair; with F = 0:
        # future = (1 + 2 z (1-alpha)) / (1 - 2 z alpha) * previous
        got = step((one, 0 * one))[1]
      else:
        got = step(one)
      amp = np.abs(np.asarray(got))
      worst = int(np.argmax(amp))
      if not np.all(np.isfinite(amp)) or amp[worst] > 1 + 1e-12:
        out.append({'case': c, 'sig': f'stiff:{ig}',
                    'detail': f'dt={dt} alpha={alpha} dt*mu={mus[worst]!r}: |amplification| = {amp[worst]!r} > 1'})
  return out


replay_stiff = common.per_case(_stiff_one, 'stiff')


def _args_one(c):
  from dinosaur import time_integration as ti
  out = []
  eq = _linear_eq(0.5, -1.0)
  lens = c['lens']
  if c['kind'] == 'low_storage':
    a = [i / max(1, lens[0] - 1) for i in range(lens[0])]
    b = [0.0] + [-0.5] * (lens[1] - 1)
    g = [0.5] * lens[2]
    try:
      ti.low_storage_runge_kutta_crank_nicolson(a, b, g, eq, 0.1)
      ok = True
    except ValueError:
      ok = False
  else:
    n = lens[2]
    a_ex = [[0.5] * (i + 1) for i in range(lens[0])]
    a_im = [[0.25] * (i + 2) for i in range(lens[1])]
    try:
      ti.ImExButcherTableau(a_ex=a_ex, a_im=a_im, b_ex=[0.5] * lens[2], b_im=[0.5] * lens[3])
      ok = True
    except ValueError:
      ok = False
  if ok != c['accepted']:
    out.append({'case': c, 'sig': f'lengths:{c["kind"]}:{"accepted" if ok else "rejected"}',
                'detail': f'lengths {lens}: code {"accepts" if ok else "rejects"}, spec {"accepts" if c["accepted"] else "rejects"}'})
  return out


replay_args = common.per_case(_args_one, 'args')

def _tableau_one(c):
  """A user supplied tableau: the generic driver must compute the textbook IMEX-RK value."""
  jax, jnp = _jax()
  from dinosaur import time_integration as ti
  out = []
  tb = c['tb']
  fr = lambda row: [float(frac(v)) for v in row]
  import numpy as np
  lam, mu = _c(c['lam']), _c(c['mu'])
  exp = _c(c['out'])
  log = []
  # coefficient containers: python lists or float64 arrays (both are Sequence[float]); the same coefficient
  # objects serve a second stepper with another step size (only dt*lam and dt*mu matter: same factor)
  as_arrays = (len(json.dumps(tb)) % 2 == 0)
  box = (lambda row: np.array(row, np.float64)) if as_arrays else (lambda row: list(row))
  if c['id'] == 'lowstorage':
    coefs = (box(fr(tb['alphas'])), box(fr(tb['betas'])), box(fr(tb['gammas'])))
    make = lambda eq, dt: ti.low_storage_runge_kutta_crank_nicolson(coefs[0], coefs[1], coefs[2], eq, dt)
  else:
    tableau = ti.ImExButcherTableau(a_ex=[box(fr(r)) for r in tb['a_ex']], a_im=[box(fr(r)) for r in tb['a_im']],
                                    b_ex=box(fr(tb['b_ex'])), b_im=box(fr(tb['b_im'])))
    make = lambda eq, dt: ti.imex_runge_kutta(tableau, eq, dt)
  step = make(_linear_eq(lam, mu, log), 1.0)
  got = step({'a': jnp.ones((), jnp.complex128)})
  val = complex(got['a'])
  if not abs(val - exp) <= 2e-13 * max(1.0, abs(exp)):
    out.append({'case': c, 'sig': f'tableau:{c["id"]}:value',
                'detail': f'n={c["n"]} coefficients {tb}: code factor {val!r}, '
                          f'{"low-storage recurrence" if c["id"] == "lowstorage" else "textbook IMEX-RK"} value {exp!r}'})
  for dt in (0.5, 0.25):           # later steppers built from the same coefficient objects
    again = complex(make(_linear_eq(lam / dt, mu / dt), dt)({'a': jnp.ones((), jnp.complex128)})['a'])
    if not abs(again - exp) <= 2e-13 * max(1.0, abs(exp)):
      out.append({'case': c, 'sig': f'tableau:{c["id"]}:reused_coefficients',
                  'detail': f'a stepper built from the same coefficient objects ({"float64 arrays" if as_arrays else "lists"}) with dt={dt} '
                            f'(same dt*lam, dt*mu) gives {again!r}, first stepper {val!r}, spec {exp!r}'})
      break
  want = [(e['k'], float(frac(e['eta'])) if e['k'] == 'Ginv' else None) for e in c['calls']]
  have = [(k, e if k == 'Ginv' else None) for k, e in log]
  if [k for k, _ in want] != [k for k, _ in have] or any(
      a is not None and abs(a - b) > 1e-15 for (_, a), (_, b) in zip(want, have)):
    out.append({'case': c, 'sig': f'tableau:{c["id"]}:calls', 'drift': not out,
                'detail': f'call sequence {have} differs from the stage program {want}'})
  return out


replay_tableau = common.per_case(_tableau_one, 'tableau')

def _fixed(x):
  """exported fixed-point number [s, m (little-endian base-10^4 limbs), e] -> Fraction."""
  m = 0
  for limb in reversed(x['m']):
    m = m * 10000 + int(limb)
  return Fraction(int(x['s']) * m, 10 ** (16 * int(x['e'])))


def _rk4_one(c):
  """Carpenter-Kennedy RK4: the code must hand exactly the spec's coefficients to the low-storage
  driver, and its explicit amplification factor must be the spec's stability polynomial."""
  jax, jnp = _jax()
  import numpy as np
  from dinosaur import time_integration as ti
  out = []
  co = {k: [_fixed(v) for v in c[k]] for k in ('alphas', 'betas', 'gammas')}
  if c['dom'] == 'tableau':
    # coefficient capture (how the factory obtains its step function is an implementation detail:
    # if the generic driver is not called the comparison is skipped and the factor replay decides)
    seen = {}
    orig = ti.low_storage_runge_kutta_crank_nicolson

    def spy(alphas, betas, gammas, equation, time_step):
      seen.update(alphas=list(alphas), betas=list(betas), gammas=list(gammas))
      return orig(alphas, betas, gammas, equation, time_step)
    ti.low_storage_runge_kutta_crank_nicolson = spy
    try:
      ti.crank_nicolson_rk4(_linear_eq(0.5, -0.5), 0.1)
    finally:
      ti.low_storage_runge_kutta_crank_nicolson = orig
    for k in ('alphas', 'betas', 'gammas'):
      if k in seen:
        want = [float(v) for v in co[k]]
        if [float(v) for v in seen[k]] != want:
          out.append({'case': c, 'sig': f'rk4:coefficients:{k}', 'drift': True,
                      'detail': f'crank_nicolson_rk4 passes {k} = {seen[k]} to the low-storage driver, published scheme {want}'})
    # the whole scheme against the generic driver fed with the spec's coefficients (lam, mu lattice)
    for lam in (0.0, 0.3, 0.5j, -0.2 + 0.4j):
      for mu in (0.0, -0.7, 2.0j, -3.0 - 1.0j, -1e3):
        for dt in (0.125, 1.0):
          one = jnp.ones((), jnp.complex128)
          a = complex(ti.crank_nicolson_rk4(_linear_eq(lam, mu), dt)({'a': one})['a'])
          b = complex(orig([float(v) for v in co['alphas']], [float(v) for v in co['betas']],
                           [float(v) for v in co['gammas']], _linear_eq(lam, mu), dt)({'a': one})['a'])
          if not abs(a - b) <= 4e-15 * max(1.0, abs(b)):
            out.append({'case': c, 'sig': 'amp:rk4:scheme',
                        'detail': f'lam={lam} mu={mu} dt={dt}: crank_nicolson_rk4 factor {a!r}, low-storage driver with the published coefficients {b!r}'})
    return out
  o = c['out']
  poly = [_fixed(o[k]) for k in sorted(o, key=int)] if isinstance(o, dict) else [_fixed(v) for v in o]
  for z in (0.5, -0.25, 1.0, 0.3j, -0.4 + 0.7j, 1e-3, -2.0):
    for dt in (1.0, 0.125):
      lam = z / dt
      got = complex(ti.crank_nicolson_rk4(_linear_eq(lam, 0.0), dt)({'a': jnp.ones((), jnp.complex128)})['a'])
      exp = sum(complex(float(p)) * z ** j for j, p in enumerate(poly))
      if not abs(got - exp) <= 2e-14 * max(1.0, abs(exp)):
        out.append({'case': c, 'sig': 'amp:rk4:explicit',
                    'detail': f'z = dt*lam = {z}: code factor {got!r}, stability polynomial of the published scheme {exp!r}'})
  return out


replay_rk4 = common.per_case(_rk4_one, 'rk4')

REPLAYERS = {'rk4': replay_rk4, 'amp': replay_amp, 'stiff': replay_stiff, 'args': replay_args, 'tableau': replay_tableau}


def replay(ctx, kind, cases):
  for m in REPLAYERS[kind](cases):
    ctx.mismatch(kind, m['case'], m['sig'], m['detail'])


# ----------------------------------------------------------------------------------------
# traces
# ----------------------------------------------------------------------------------------

def _eta_frac(eta, dt):
  f = Fraction(eta / dt).limit_denominator(4096)
  if abs(float(f) - eta / dt) > 1e-12:
    f = Fraction(round(eta / dt * 10 ** 6), 10 ** 6)
  return [f.numerator, f.denominator]


def record_traces(seed, quick):
  """Call sequences of the real integrators: on the toy equation and on real equations."""
  import random
  import numpy as np
  jax, jnp = _jax()
  from dinosaur import coordinate_systems, layer_coordinates, primitive_equations as pe, scales
  from dinosaur import shallow_water as sw, sigma_coordinates, spherical_harmonic as sh
  from dinosaur import time_integration as ti
  rng = random.Random(seed)
  traces = []
  igs = ['euler', 'cnrk2', 'rk3', 'rk4', 'sil3', 'leapfrog']
  with jax.disable_jit():
    for ig in igs:
      for steps in (1, 3):
        for alpha in ((0.5, 0.75, 1.0) if ig == 'leapfrog' else (0.5,)):
          dt = rng.choice([0.125, 0.3, 2.0])
          log = []
          try:
            step = _step_fn(ig, _linear_eq(0.3, -0.7, log), dt, alpha)
            u = (jnp.ones(2), jnp.ones(2)) if ig == 'leapfrog' else jnp.ones(2)
            for _ in range(steps):
              u = step(u)
          except Exception as ex:   # pylint: disable=broad-except
            traces.append({'ig': ig, 'alpha': list(Fraction(alpha).as_integer_ratio()), 'steps': steps, 'src': 'toy', 'ev': [],
                           'skip': common.harness_artifact(ex), 'error': f'{type(ex).__name__}: {str(ex)[:200]}'})
            continue
          traces.append({'ig': ig, 'alpha': list(Fraction(alpha).as_integer_ratio()), 'steps': steps,
                         'src': 'toy',
                         'ev': [{'k': k, 'eta': _eta_frac(e, dt) if e is not None else [0, 1]} for k, e in log]})
    # real equations with recording wrappers
    grid = sh.Grid.with_wavenumbers(4)
    rs = np.random.RandomState(seed)

    def wrap(eq, log):
      return ti.ImplicitExplicitODE.from_functions(
          lambda s: (log.append(('F', None)), eq.explicit_terms(s))[1],
          lambda s: (log.append(('G', None)), eq.implicit_terms(s))[1],
          lambda s, eta: (log.append(('Ginv', float(eta))), eq.implicit_inverse(s, eta))[1])
    vertical = sigma_coordinates.SigmaCoordinates(np.array([0, 0.2, 0.55, 1.0]))
    coords = coordinate_systems.CoordinateSystem(grid, vertical)
    specs = pe.PrimitiveEquationsSpecs.from_si()
    peq = pe.PrimitiveEquationsWithTime(np.array([250.0, 260.0, 280.0]), jnp.zeros(grid.modal_shape), coords, specs)
    mk3 = lambda amp: jnp.asarray(grid.clip_wavenumbers(rs.randn(3, *grid.modal_shape) * grid.mask * amp))
    st = pe.StateWithTime(mk3(1e-3).at[:, 0, 0].set(0), mk3(1e-3).at[:, 0, 0].set(0), mk3(1e-1),
                          jnp.asarray(grid.clip_wavenumbers(rs.randn(1, *grid.modal_shape) * grid.mask * 1e-2)),
                          sim_time=0.0)
    swc = coordinate_systems.CoordinateSystem(grid, layer_coordinates.LayerCoordinates(2))
    swspecs = sw.ShallowWaterSpecs.from_si(np.array([1.0, 2.0]) * scales.units.kg / scales.units.m ** 3)
    sweq = sw.ShallowWaterEquations(swc, swspecs, None, np.array([1.0, 2.0]))
    mk2 = lambda amp: jnp.asarray(grid.clip_wavenumbers(rs.randn(2, *grid.modal_shape) * grid.mask * amp))
    sws = sw.State(mk2(1e-3), mk2(1e-3), mk2(1e-2))
    for name, eq, x0 in (('primitive', peq, st), ('shallow_water', sweq, sws)):
      for ig in (igs if not quick else ['rk3', 'sil3', 'leapfrog', 'rk4']):
        dt = 1e-3
        log = []
        nsteps = 2
        try:
          step = _step_fn(ig, wrap(eq, log), dt, 0.5)
          u = (x0, x0) if ig == 'leapfrog' else x0
          for _ in range(nsteps):
            u = step(u)
        except Exception as ex:   # pylint: disable=broad-except
          traces.append({'ig': ig, 'alpha': [1, 2], 'steps': nsteps, 'src': name, 'ev': [],
                         'skip': common.harness_artifact(ex), 'error': f'{type(ex).__name__}: {str(ex)[:200]}'})
          continue
        leaves = jax.tree_util.tree_leaves(u)
        finite = all(bool(jnp.isfinite(v).all()) for v in leaves)
        traces.append({'ig': ig, 'alpha': [1, 2], 'steps': nsteps if finite else -1, 'src': name,
                       'ev': [{'k': k, 'eta': _eta_frac(e, dt) if e is not None else [0, 1]} for k, e in log]})
  return traces


def validate_traces(ctx, traces, tag):
  path = os.path.join(ctx.out, f'traces_{tag}.json')
  with open(path, 'w') as f:
    json.dump(traces, f)
  r = common.run_tlc('TraceIntegrators', 'TraceIntegrators.cfg', prop=ctx.prop, workers=1,
                     env={'TRACE_FILE': path}, tag='trace_' + tag, coverage=False)
  ctx.tlc_runs.append(r)
  okids = {int(c['v']) for c in r.cases if c.get('_kind') == 'TRACEOK'}
  return okids, [i for i in range(1, len(traces) + 1) if i not in okids]


def run(ctx):
  q = ctx.quick
  from concurrent.futures import ThreadPoolExecutor
  pool = ThreadPoolExecutor(4)          # independent machines, model checked side by side
  jobs = {
      'i': pool.submit(ctx.tlc, 'Integrators', 'Integrators_quick.cfg', workers=4),
      'a': pool.submit(ctx.tlc, 'IntegratorArgs', 'IntegratorArgs.cfg', workers=2),
      'r4': pool.submit(ctx.tlc, 'RK4Order', 'RK4Order.cfg', workers=2),
      'rp': pool.submit(ctx.tlc, 'RK4Order', 'RK4Order_perturbed.cfg', workers=2, expect_violation=True, tag='rk4_perturbed', coverage=False),
      't': pool.submit(ctx.tlc, 'ImexTableaux', 'ImexTableaux_quick.cfg' if q else 'ImexTableaux.cfg', workers=6),
  }
  if not q:
    jobs['t4'] = pool.submit(ctx.tlc, 'ImexTableaux', 'ImexTableaux_n4.cfg', tag='imex_n4', timeout=7200, workers=6)
  r = jobs['i'].result()
  ctx.require_actions(r, ['ExecF', 'ExecG', 'ExecGinv', 'ExecLin'])
  ra = jobs['a'].result()
  amp = r.cases
  if len(amp) < 100:
    raise common.MachineryError('too few amplification cases exported')
  res = common.parallel_map('c06', 'replay_amp', amp, nproc=4, tag='amp', outdir=os.path.join(ctx.out, 'par'))
  res += replay_stiff([{'ig': ig} for ig in ('euler', 'cnrk2', 'rk3', 'rk4', 'sil3', 'leapfrog')])
  res += replay_args(ra.cases)
  ctx.replayed += len(amp) + 6 + len(ra.cases)
  ctx.comparisons += 2 * len(amp) + 6 * 70 * 3 + len(ra.cases)
  for c in amp:
    ctx.distinct.add(json.dumps([c['ig'], c['alpha'], c['lam'], c['mu'], c['dt']]))
  for c in ra.cases:
    ctx.distinct.add(json.dumps([c['kind'], c['lens']]))
  for m in res:
    kind = m['sig'].split(':')[0]
    kind = {'astable': 'amp', 'lengths': 'args'}.get(kind, kind)
    ctx.mismatch(kind, m['case'], m['sig'], m['detail'])
  # Carpenter-Kennedy RK4 in arbitrary-precision fixed point: full order-4 conditions in TLC, coefficients
  # and explicit amplification factors replayed; a perturbed coefficient table must be refuted by TLC
  r4 = jobs['r4'].result()
  ctx.require_actions(r4, ['Stage'])
  if len(r4.cases) != 2:
    raise common.MachineryError('RK4Order: expected two exported behaviours')
  rp = jobs['rp'].result()
  if not rp.violated:
    raise common.MachineryError('RK4Order: a coefficient perturbed by 1e-9 is not refuted by the order conditions')
  ctx.notes['rk4_perturbed_coefficient_refuted_by_TLC'] = rp.violated
  res4 = replay_rk4(r4.cases)
  for m in res4:
    ctx.record('rk4', m)
  res += [m for m in res4 if not m.get('drift')]
  ctx.replayed += 2
  ctx.comparisons += 14 + 40 + 3
  # user supplied tableaux: every zero/non-zero pattern of 2- and 3-stage tableaux + named pairs
  rt = jobs['t'].result()
  ctx.require_actions(rt, ['ExecF', 'ExecG', 'ExecGinv', 'ExecLin'])
  if not q:      # four stages: explicit and implicit halves varied separately (9,216 patterns)
    rt4 = jobs['t4'].result()
    rt.cases.extend(c for c in rt4.cases if c['id'] == 'pattern')
  if len(rt.cases) < 100:
    raise common.MachineryError('too few tableau cases exported')
  tab_res = common.parallel_map('c06', 'replay_tableau', rt.cases, tag='tab', outdir=os.path.join(ctx.out, 'par'))
  for m in tab_res:
    ctx.record('tableau', m)
  ctx.replayed += len(rt.cases)
  ctx.comparisons += 2 * len(rt.cases)
  for c in rt.cases:
    ctx.distinct.add(json.dumps([c['id'], c['tb'], c['lam'], c['mu']]))
  ctx.sample({'kind': 'tableau', 'case': rt.cases[len(rt.cases) // 2]})
  ctx.sample({'kind': 'amp', 'case': amp[len(amp) // 3]})
  ctx.sample({'kind': 'args', 'case': ra.cases[7]})
  # traces
  allt = record_traces(ctx.seed, q)
  for t in allt:
    if 'error' in t and not t.get('skip'):
      ctx.mismatch('trace', t, f'trace:exception:{t["ig"]}:{t["src"]}', f'the real integrator raised {t["error"]}')
  traces = [t for t in allt if 'error' not in t]
  ctx.notes['traces_skipped_eager_mode_unavailable'] = sum(1 for t in allt if t.get('skip'))
  okids, bad = validate_traces(ctx, traces, 'impl') if traces else (set(), [])
  ctx.traces += len(okids)
  # Which callbacks an integrator evaluates in which order is not part of the property: a rejected
  # call sequence is a violation only if a value-level comparison of the same integrator fails too
  # (drift policy, DESIGN section 11); otherwise it is reported as a NOTE.
  value_bad = {ig for ig in ('euler', 'cnrk2', 'rk3', 'rk4', 'sil3', 'leapfrog')
               if any(m['sig'].startswith((f'amp:{ig}', f'stiff:{ig}')) for m in res)}
  if any(m['sig'].startswith('tableau:') and not m.get('drift') for m in tab_res):
    value_bad.add('sil3')
  for i in bad:
    t = traces[i - 1]
    ctx.record('trace', {'case': t, 'sig': f'trace:rejected:{t["ig"]}:{t["src"]}',
                         'drift': t['ig'] not in value_bad,
                         'detail': 'call sequence of the real integrator is not a behaviour of its stage program'})
  import copy
  cor = copy.deepcopy([t for t in traces if t['ig'] != 'rk4' and (i_ := traces.index(t) + 1) in okids][:6])
  for t in cor:
    gi = [i for i, e in enumerate(t['ev']) if e['k'] == 'Ginv']
    t['ev'][gi[-1]]['eta'][0] += 1
  if cor:
    _, badc = validate_traces(ctx, cor, 'corrupt')
    if len(badc) != len(cor):
      raise common.MachineryError('corrupted integrator traces accepted')
    ctx.notes['corrupted_traces_rejected'] = len(badc)
  if traces:
    ctx.sample({'kind': 'trace', 'case': {k: traces[-1][k] for k in ('ig', 'src', 'steps')},
                'events': traces[-1]['ev'][:6]})
  ctx.assumptions += [
      'Carpenter-Kennedy RK4: order conditions hold to the accuracy of the published 13 digits; decided to 1e-12 in '
      'decimal fixed point (BigInt.tla) for G = 0; its IMEX behaviour is bound through the generic low-storage driver',
      'order for nonlinear F beyond the order-3 tree conditions and nonlinear F with G != 0 beyond order 2 '
      'are not decided', 'complex |R|^2 <= 1 of the exported exact factors is evaluated with Python integers']
  return ctx.finish(
      rule='TLC: every integrator x domain (complex-rational lattice of dt*lam, dt*mu; power series to degree 4; '
           'tableau extraction); replay: every exported (integrator, lam, mu, dt, alpha) factor on scalar and '
           'vector states, stiff lattice 1e-3..1e6 x 7 directions x 3 dt, all length tuples <= 5; ImexTableaux: every zero pattern of '
           '2-/3-stage user tableaux (quick: explicit and implicit halves varied separately for 3 stages), 4 named pairs x 9 (lam, mu), '
           'every 1-3 stage low-storage coefficient list; RK4Order: both interpretations of the Carpenter-Kennedy scheme in fixed point')
