"""Shared helpers for the spectral checks (C01, C02, C09, C15, ...): building the real Grid that
corresponds to a SpectralIndex case, unit coefficient batches, and the exact operator tables
exported by SpectralAlgebra evaluated in float64."""
from __future__ import annotations

import functools
import math

from harness.common import frac

EPS = 2.220446049250313e-16


def np_jax():
  import numpy as np
  import jax
  jax.config.update('jax_enable_x64', True)
  import jax.numpy as jnp
  return np, jax, jnp


def make_grid(c, radius=1.0, offset=0.0, stacked=None, reverse=None):
  from dinosaur import spherical_harmonic as sh
  if c['impl'] == 'real':
    impl = sh.RealSphericalHarmonics
  else:
    kw = dict(base_shape_multiple=c['mult'], transform_precision='highest')
    if stacked is not None:
      kw['stacked_fourier_transforms'] = stacked
    if reverse is not None:
      kw['reverse_einsum_arg_order'] = reverse
    impl = functools.partial(sh.FastSphericalHarmonics, **kw)
    impl.__name__ = 'FastSphericalHarmonics'
  return sh.Grid(longitude_wavenumbers=c['M'], total_wavenumbers=c['L'], longitude_nodes=c['I'],
                 latitude_nodes=c['J'], latitude_spacing=c['spacing'], longitude_offset=offset,
                 radius=radius, spherical_harmonics_impl=impl)


def unit_batch(c):
  """(n_labels, rows, cols) array with a 1 at each label's (row, col)."""
  np, _, _ = np_jax()
  labs = c['labels']
  X = np.zeros((len(labs),) + tuple(c['modal_shape']))
  for q, lab in enumerate(labs):
    X[q, lab['row'], lab['col']] = 1.0
  return X


def label_pos(c):
  return {(lab['m'], lab['l'], lab['s']): (lab['row'], lab['col']) for lab in c['labels']}


class Tables:
  """Exact operator tables from SpectralAlgebra: op -> m -> {(li, lo): float}."""

  def __init__(self, cases):
    self.t = {}
    self.top = cases[0]['top']
    for c in cases:
      for op in ('CosD', 'SecDCos2', 'MulSin', 'Lap', 'InvLap'):
        d = self.t.setdefault(op, {}).setdefault(c['m'], {})
        for e in c[op]:
          k = frac(e['k'])
          rad = frac(e['rad'])
          d[(e['li'], e['lo'])] = float(k) * math.sqrt(rad.numerator / rad.denominator)

  def col(self, op, m, li):
    return {lo: v for (a, lo), v in self.t[op][m].items() if a == li}


def expected_linear(c, tables, op, rpow, radius, phase_swap=False):
  """Expected output batch (n_labels, rows, cols) of a latitude/diagonal operator applied to every
  unit label, restricted to columns < L (entries the grid can hold)."""
  np, _, _ = np_jax()
  pos = label_pos(c)
  labs = c['labels']
  E = np.zeros((len(labs),) + tuple(c['modal_shape']))
  for q, lab in enumerate(labs):
    for lo, v in tables.col(op, lab['m'], lab['l']).items():
      if lo < c['L'] and lo >= lab['m']:
        r, cc = pos[(lab['m'], lo, lab['s'])]
        E[q, r, cc] = v * radius ** rpow
  return E


def expected_dlon(c, radius_pow=0, radius=1.0):
  np, _, _ = np_jax()
  pos = label_pos(c)
  labs = c['labels']
  E = np.zeros((len(labs),) + tuple(c['modal_shape']))
  for q, lab in enumerate(labs):
    if lab['m'] == 0:
      continue
    if lab['s'] == 'c':
      r, cc = pos[(lab['m'], lab['l'], 's')]
      E[q, r, cc] = -lab['m'] * radius ** radius_pow
    else:
      r, cc = pos[(lab['m'], lab['l'], 'c')]
      E[q, r, cc] = lab['m'] * radius ** radius_pow
  return E


def cmp_cols(np, got, exp, ncols, scale=1.0, ulps=256):
  """max violation of |got-exp| <= tol on columns < ncols; returns (ok, index, got, exp)."""
  g = np.asarray(got, dtype=np.float64)[..., :ncols]
  e = np.asarray(exp, dtype=np.float64)[..., :ncols]
  if g.shape != e.shape:
    return False, ('shape', g.shape, e.shape), None, None
  tol = ulps * EPS * (np.abs(e) + scale)
  bad = ~(np.abs(g - e) <= tol)
  if bad.any():
    i = np.unravel_index(np.argmax(np.where(bad, np.abs(g - e), -1)), g.shape)
    return False, tuple(int(v) for v in i), float(g[i]), float(e[i])
  return True, None, None, None
