#!/usr/bin/env python3
"""Negative control: run checks against a behaviour-preserving refactoring of /repo.

usage: tools/refactest.py <patch.diff> <PROP> [<PROP> ...] [--tier quick]
A scratch copy of /repo gets the patch; every listed check must exit 0 on it (a VIOLATION or a
machinery error on a property-preserving change is a defect of the check).  Prints one line per check.
Exit 0 iff all checks exit 0.
"""
import argparse
import os
import shutil
import subprocess
import sys
import tempfile
import time


def main():
  ap = argparse.ArgumentParser()
  ap.add_argument('patch')
  ap.add_argument('props', nargs='+')
  ap.add_argument('--tier', default='quick')
  a = ap.parse_args()
  d = tempfile.mkdtemp(prefix='refac_', dir='/tmp')
  ok = True
  try:
    subprocess.check_call(['rsync', '-a', '--exclude', '.git', '--exclude', '__pycache__', '--exclude', 'SEED',
                           '/repo/', d + '/'])
    p = subprocess.run(['patch', '-p1', '-s', '-d', d, '-i', os.path.abspath(a.patch)], capture_output=True, text=True)
    if p.returncode != 0:
      print('patch does not apply', p.stdout, p.stderr)
      return 2
    for prop in a.props:
      env = dict(os.environ, VERIF_REPO=d, VERIF_OUT=os.path.join(d, '_out'), VERIF_EVID=os.path.join(d, '_evid'))
      t0 = time.time()
      p = subprocess.run(['/verif/check', prop, '--tier', a.tier], env=env, capture_output=True, text=True)
      lines = (p.stdout + p.stderr).splitlines()
      notes = [l for l in lines if l.startswith(('VIOLATION', 'NOTE', 'MACHINERY', 'KNOWN'))]
      det = [l for l in lines if l.startswith('  ')][:3]
      print(f'{os.path.abspath(a.patch)} {prop}: exit {p.returncode} ({time.time() - t0:.0f}s) '
            f'{"OK" if p.returncode == 0 else "ALARM" if p.returncode == 1 else "ERROR"}', flush=True)
      for l in (notes[:4] + det) if p.returncode != 0 else [l for l in notes if l.startswith('NOTE')][:3]:
        print('    ' + l[:400], flush=True)
      if p.returncode == 2:
        print('    ' + '\n    '.join(lines[-8:])[:1500], flush=True)
      ok = ok and p.returncode == 0
    return 0 if ok else 1
  finally:
    shutil.rmtree(d, ignore_errors=True)


if __name__ == '__main__':
  sys.exit(main())
