#!/usr/bin/env python3
"""Rewrites the table of seeded changes in DESIGN.md (between the SEEDS markers) from seeded/*/meta.json."""
import glob
import json
import os
import re

V = os.path.dirname(os.path.dirname(os.path.abspath(__file__)))


def short(s, n):
  s = ' '.join((s or '').split()).replace('|', '/')
  return s if len(s) <= n else s[:n - 3] + '...'


rows = []
tot = caught = 0
for d in sorted(glob.glob(os.path.join(V, 'seeded', '*', ''))):
  m = json.load(open(os.path.join(d, 'meta.json')))
  name = os.path.basename(d[:-1])
  det = m.get('detected', {})
  sig = ''
  for r in m.get('confirmed_by_me', []):
    if './check' in r and 'first:' in r:
      mm = re.search(r"first: \[[\"']\s*([^ ]+?):? ", r)
      if mm:
        sig = mm.group(1).rstrip(':')
  verdict = ', '.join(f'{k}: {v}' for k, v in det.items())
  tot += 1
  caught += any(v == 'CAUGHT' for v in det.values())
  rows.append(f"| {name} | {m.get('property')} | {', '.join(os.path.basename(f) for f in m.get('files', []))} | "
              f"{short(m.get('needs'), 170)} | {verdict} | `{short(sig, 70)}` |")
table = ['| seed | property | file | needs, to manifest | check result | first signature reported |',
         '|---|---|---|---|---|---|'] + rows + ['', f'{caught} of {tot} seeded changes are caught.']
p = os.path.join(V, 'DESIGN.md')
s = open(p).read()
a, b = '<!-- SEEDS:BEGIN -->', '<!-- SEEDS:END -->'
s = s[:s.index(a) + len(a)] + '\n' + '\n'.join(table) + '\n' + s[s.index(b):]
open(p, 'w').write(s)
print(f'{caught}/{tot}')
