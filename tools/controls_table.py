#!/usr/bin/env python3
"""Stores the behaviour-preserving refactorings (negative controls) under controls/ and rewrites the
table in DESIGN.md (between the CONTROLS markers) from the logs of tools/refactest.py."""
import glob
import json
import os
import re
import shutil

V = os.path.dirname(os.path.dirname(os.path.abspath(__file__)))
results = {}
for log in sorted(glob.glob(os.path.join(V, 'out', 'tmp', 'refac_*.log'))):
  for line in open(log):
    m = re.match(r'^/tmp/refac/(R\d)/SEED/(r\d)/patch.diff (C\d+): exit (\d) \((\d+)s\) (\w+)', line)
    if m:
      results.setdefault(f'{m.group(1)}_{m.group(2)}', {})[m.group(3)] = m.group(6)
rows = []
for name in sorted(results):
  R, k = name.split('_')
  src = f'/tmp/refac/{R}/SEED/{k}'
  dst = os.path.join(V, 'controls', name)
  if os.path.isdir(src):
    os.makedirs(dst, exist_ok=True)
    for f in ('patch.diff', 'notes.json'):
      if os.path.exists(os.path.join(src, f)):
        shutil.copy(os.path.join(src, f), dst)
  json.dump({'checks': results[name]}, open(os.path.join(dst, 'result.json'), 'w'), indent=1) if os.path.isdir(dst) else None
  what, files = '', ''
  try:
    n = json.load(open(os.path.join(dst, 'notes.json')))
    what = ' '.join(str(n.get('what', '')).split())
    files = ', '.join(os.path.basename(f) for f in n.get('files', []))
  except Exception:
    pass
  what = what.replace('|', '/')
  rows.append(f"| {name} | {files} | {what[:260] + ('...' if len(what) > 260 else '')} | "
              + ', '.join(f'{p}: {v}' for p, v in sorted(results[name].items())) + ' |')
n_ok = sum(v == 'OK' for r in results.values() for v in r.values())
n_all = sum(len(r) for r in results.values())
table = ['| control | file | refactoring | checks run against it |', '|---|---|---|---|'] + rows + \
        ['', f'{n_ok} of {n_all} check runs on {len(results)} behaviour-preserving refactorings exit 0.']
p = os.path.join(V, 'DESIGN.md')
s = open(p).read()
a, b = '<!-- CONTROLS:BEGIN -->', '<!-- CONTROLS:END -->'
s = s[:s.index(a) + len(a)] + '\n' + '\n'.join(table) + '\n' + s[s.index(b):]
open(p, 'w').write(s)
print(n_ok, n_all, len(results))
