#!/usr/bin/env python3
"""Writes MANIFEST.json from tools/manifest_checks.json (claimed checks) + properties.jsonl."""
import json
import os

V = os.path.dirname(os.path.dirname(os.path.abspath(__file__)))
props = [json.loads(l) for l in open(os.path.join(V, 'properties.jsonl'))]
claimed = json.load(open(os.path.join(V, 'tools', 'manifest_checks.json')))
checks, na = [], []
for p in props:
  pid = p['id']
  c = claimed.get(pid)
  if c and 'not_applicable' not in c:
    checks.append({
        'property_id': pid,
        'quick_cmd': f'./check {pid} --tier quick',
        'thorough_cmd': f'./check {pid} --tier thorough',
        'evidence_file': f'/verif/evidence/{pid}.json',
        'replay_cmd_template': f'./check {pid} --replay {{path}}',
        'engine': 'tlc+replay',
        'level_claimed': {'category': 'model_checking', 'text': c['text'], 'design_ref': c['design_ref']},
        'level_note': c['note'],
        'technique': c['technique'],
    })
  else:
    na.append({'property_id': pid,
               'reason': (c or {}).get('not_applicable', 'check not built yet in this round; see DESIGN.md section 5 for the planned TLA+ machine')})
m = {
    'version': 1,
    'setup_cmd': '/venv/bin/python harness/setup.py',
    'hooks': {
        'guard': 'GOOGLE_RESEARCH_DINOSAUR_VERIF',
        'enable': 'no source hooks: the harness wraps public methods from outside; ./check exports GOOGLE_RESEARCH_DINOSAUR_VERIF=1 for future hooks',
        'baseline_off_cmd': 'cd /repo && /venv/bin/python -m pytest -ra -q -p no:cacheprovider --timeout=900 --continue-on-collection-errors',
        'source_commits': [],
        'add_only': True,
    },
    'engines': [
        {'name': 'tlc', 'path': '/verif/spec', 'serves_properties': [c['property_id'] for c in checks],
         'kind_free_text': 'explicit TLA+ specifications (spec/*.tla) model checked exhaustively with TLC; terminal behaviours exported as JSON cases'},
        {'name': 'replay', 'path': '/verif/harness', 'serves_properties': [c['property_id'] for c in checks],
         'kind_free_text': 'spec->code conformance: every exported behaviour is executed in the library imported from /repo and the projected state compared with the spec state'},
        {'name': 'tracecheck', 'path': '/verif/spec', 'serves_properties': [c['property_id'] for c in checks if claimed[c['property_id']].get('traces')],
         'kind_free_text': 'code->spec conformance: executions of the real code recorded as JSON events and validated by Trace*.tla specs that reuse the machine actions'},
    ],
    'checks': checks,
    'not_applicable': na,
    'notes': 'Technique: model-based verification with explicit TLA+ specifications (TLC) bound to the code by replay and trace validation. See DESIGN.md.',
}
json.dump(m, open(os.path.join(V, 'MANIFEST.json'), 'w'), indent=1)
print('claimed', [c['property_id'] for c in checks])
