#!/usr/bin/env python3
"""Run a check against a mutated scratch copy of /repo (never touches /repo or evidence/).

usage: tools/mutcheck.py <PROP> [--tier quick] (--patch file.diff | --sub FILE OLD NEW)...
Exit status 0 iff the check reported a VIOLATION (i.e. the mutation was caught).
"""
import argparse
import os
import shutil
import subprocess
import sys
import tempfile


def main():
  ap = argparse.ArgumentParser()
  ap.add_argument('prop')
  ap.add_argument('--tier', default='quick')
  ap.add_argument('--patch', action='append', default=[])
  ap.add_argument('--sub', nargs=3, action='append', default=[], metavar=('FILE', 'OLD', 'NEW'))
  ap.add_argument('--keep', action='store_true')
  a = ap.parse_args()
  d = tempfile.mkdtemp(prefix='mut_', dir='/tmp')
  try:
    subprocess.check_call(['rsync', '-a', '--exclude', '.git', '--exclude', '__pycache__',
                           '/repo/', d + '/'])
    for p in a.patch:
      subprocess.check_call(['patch', '-p1', '-s', '-d', d, '-i', os.path.abspath(p)])
    for f, old, new in a.sub:
      path = os.path.join(d, f)
      s = open(path).read()
      if s.count(old) < 1:
        print(f'mutcheck: pattern not found in {f}: {old!r}', file=sys.stderr)
        return 2
      open(path, 'w').write(s.replace(old, new, 1))
    env = dict(os.environ, VERIF_REPO=d, VERIF_OUT=os.path.join(d, '_out'),
               VERIF_EVID=os.path.join(d, '_evid'))
    p = subprocess.run(['/verif/check', a.prop, '--tier', a.tier], env=env,
                       capture_output=True, text=True)
    lines = (p.stdout + p.stderr).splitlines()
    viol = [l for l in lines if l.startswith('VIOLATION')]
    print('\n'.join(lines[-12:] if not viol else [l for l in lines if 'VIOLATION' in l or l.startswith('  ')][:8]))
    print(f'mutcheck: exit={p.returncode} violations={len(viol)} -> '
          f'{"CAUGHT" if p.returncode == 1 and viol else "MISSED" if p.returncode == 0 else "ERROR"}')
    return 0 if (p.returncode == 1 and viol) else 1
  finally:
    if not a.keep:
      shutil.rmtree(d, ignore_errors=True)


if __name__ == '__main__':
  sys.exit(main())
