#!/usr/bin/env python3
"""Confirm a seeded change and run the check(s) against it.

usage: tools/seedtest.py <seed dir with patch.diff/demo.py/meta.json> <PROP> [--tests 'pytest args'] [--tier quick] [--store NAME]
Steps (all in scratch copies of /repo under /tmp, never in /repo):
  1. demo passes on the clean tree, 2. patch applies, 3. demo fails with the patch,
  4. the given existing test files still pass with the patch, 5. ./check <PROP> against the patched copy.
With --store the seed is copied to /verif/seeded/NAME with a meta.json recording what was run.
"""
import argparse
import json
import os
import shutil
import subprocess
import sys
import tempfile


def sh(cmd, **kw):
  return subprocess.run(cmd, capture_output=True, text=True, **kw)


def main():
  ap = argparse.ArgumentParser()
  ap.add_argument('seed')
  ap.add_argument('prop')
  ap.add_argument('--tests', default='')
  ap.add_argument('--tier', default='quick')
  ap.add_argument('--store', default=None)
  ap.add_argument('--skip-confirm', action='store_true')
  a = ap.parse_args()
  seed = os.path.abspath(a.seed)
  patch = os.path.join(seed, 'patch.diff')
  demo = os.path.join(seed, 'demo.py')
  d = tempfile.mkdtemp(prefix='seedt_', dir='/tmp')
  rec = {'property': a.prop, 'ran': []}
  try:
    subprocess.check_call(['rsync', '-a', '--exclude', '.git', '--exclude', '__pycache__', '--exclude', 'SEED',
                           '/repo/', d + '/'])
    env = dict(os.environ, PYTHONPATH=d, JAX_PLATFORMS='cpu')
    env.setdefault('XLA_FLAGS', '--xla_force_host_platform_device_count=8')
    if not a.skip_confirm:
      p = sh(['/venv/bin/python', demo], env=env, cwd=d)
      rec['ran'].append(f'demo on clean copy: exit {p.returncode}')
      print('demo clean  :', p.returncode)
      if p.returncode != 0:
        print(p.stdout[-1500:], p.stderr[-1500:])
        return 2
    p = sh(['patch', '-p1', '-s', '-d', d, '-i', patch])
    if p.returncode != 0:
      print('patch does not apply', p.stdout, p.stderr)
      return 2
    if not a.skip_confirm:
      p = sh(['/venv/bin/python', demo], env=env, cwd=d)
      rec['ran'].append(f'demo on patched copy: exit {p.returncode}')
      print('demo patched:', p.returncode, (p.stdout + p.stderr).strip().splitlines()[-1:] )
      if p.returncode == 0:
        print('demo does not fail with the patch')
        return 2
      if a.tests:
        cmd = ['/venv/bin/python', '-m', 'pytest', '-q', '-p', 'no:cacheprovider', '-x'] + a.tests.split()
        p = sh(cmd, env=dict(env, PYTHONPATH=''), cwd=d)
        tail = (p.stdout.strip().splitlines() or [''])[-1]
        rec['ran'].append(f'pytest {a.tests} on patched copy: exit {p.returncode}: {tail}')
        print('tests patched:', p.returncode, tail)
        if p.returncode != 0:
          print(p.stdout[-3000:])
          return 2
    e2 = dict(os.environ, VERIF_REPO=d, VERIF_OUT=os.path.join(d, '_out'), VERIF_EVID=os.path.join(d, '_evid'))
    p = sh(['/verif/check', a.prop, '--tier', a.tier], env=e2)
    lines = (p.stdout + p.stderr).splitlines()
    viol = [l for l in lines if l.startswith('VIOLATION')]
    det = [l for l in lines if l.startswith('  ')][:3]
    verdict = 'CAUGHT' if (p.returncode == 1 and viol) else ('MISSED' if p.returncode == 0 else 'ERROR')
    print(f'check {a.prop} --tier {a.tier}: exit {p.returncode}, {len(viol)} VIOLATION lines -> {verdict}')
    for l in det:
      print(l[:300])
    if verdict == 'ERROR':
      print('\n'.join(lines[-15:]))
    rec['ran'].append(f'./check {a.prop} --tier {a.tier} on patched copy: exit {p.returncode} ({verdict}); first: {det[:1]}')
    rec['verdict_' + a.tier] = verdict
    if a.store:
      dst = os.path.join('/verif/seeded', a.store)
      os.makedirs(dst, exist_ok=True)
      if os.path.abspath(dst) != seed:
        shutil.copy(patch, dst)
        shutil.copy(demo, dst)
      meta = {}
      if not os.path.exists(os.path.join(seed, 'meta.json')) and os.path.exists(os.path.join(seed, 'notes.json')):
        try:
          meta = json.load(open(os.path.join(seed, 'notes.json')))
        except Exception:
          meta = {}
      if os.path.exists(os.path.join(seed, 'meta.json')):
        try:
          meta = json.load(open(os.path.join(seed, 'meta.json')))
        except Exception:
          meta = {}
      old = {}
      if os.path.exists(os.path.join(dst, 'meta.json')) and os.path.abspath(dst) != seed:
        pass
      prev = meta.get('confirmed_by_me', []) if a.skip_confirm else []
      hist = meta.get('detection_history', [])
      if meta.get('detected') and meta['detected'].get(a.tier) not in (None, verdict):
        hist.append(f"earlier version of the check: {meta['detected']}")
      meta.update({'property': a.prop, 'confirmed_by_me': prev + rec['ran'], 'detected': {a.tier: verdict}})
      if hist:
        meta['detection_history'] = hist
      json.dump(meta, open(os.path.join(dst, 'meta.json'), 'w'), indent=1)
    return 0 if verdict == 'CAUGHT' else 1
  finally:
    shutil.rmtree(d, ignore_errors=True)


if __name__ == '__main__':
  sys.exit(main())
