------------------------------- MODULE BigInt -------------------------------
(* Arbitrary-precision integers and decimal fixed-point numbers for the exact machine (TLC
   integers are 32 bit).  A magnitude is a little-endian sequence of limbs in 0..9999 without
   trailing zero limbs (zero = <<>>); a signed integer is [s : {-1, 0, 1}, m : magnitude]; a
   fixed-point number is [e : Nat, v : signed] meaning v / 10^(16 e)  (16 decimal digits = 4
   limbs, so rescaling is a limb shift).  Every limb operation stays below 10^8 + 10^4. *)
EXTENDS Integers, Sequences

Base == 10000
MaxI(a, b) == IF a >= b THEN a ELSE b
Limb(a, i) == IF i >= 1 /\ i <= Len(a) THEN a[i] ELSE 0
RECURSIVE Trim(_)
Trim(a) == IF a # <<>> /\ a[Len(a)] = 0 THEN Trim(SubSeq(a, 1, Len(a) - 1)) ELSE a

MAdd(a, b) == LET n == MaxI(Len(a), Len(b))
                  RECURSIVE Go(_, _)
                  Go(i, c) == IF i > n THEN (IF c = 0 THEN <<>> ELSE <<c>>)
                              ELSE LET s == Limb(a, i) + Limb(b, i) + c
                                   IN  <<s % Base>> \o Go(i + 1, s \div Base)
              IN  Go(1, 0)
(* a - b for a >= b *)
MSub(a, b) == LET RECURSIVE Go(_, _)
                  Go(i, br) == IF i > Len(a) THEN <<>>
                               ELSE LET d == Limb(a, i) - Limb(b, i) - br
                                    IN  IF d < 0 THEN <<d + Base>> \o Go(i + 1, 1)
                                        ELSE <<d>> \o Go(i + 1, 0)
              IN  Trim(Go(1, 0))
(* -1, 0, 1 *)
MCmp(a, b) == IF Len(a) # Len(b) THEN (IF Len(a) < Len(b) THEN -1 ELSE 1)
              ELSE LET RECURSIVE Go(_)
                       Go(i) == IF i = 0 THEN 0
                                ELSE IF a[i] # b[i] THEN (IF a[i] < b[i] THEN -1 ELSE 1)
                                ELSE Go(i - 1)
                   IN  Go(Len(a))
MShift(a, k) == IF a = <<>> THEN <<>> ELSE [i \in 1..k |-> 0] \o a          \* a * Base^k
MMulLimb(a, d) == IF d = 0 THEN <<>>
                  ELSE LET RECURSIVE Go(_, _)
                           Go(i, c) == IF i > Len(a) THEN (IF c = 0 THEN <<>> ELSE <<c>>)
                                       ELSE LET p == a[i] * d + c
                                            IN  <<p % Base>> \o Go(i + 1, p \div Base)
                       IN  Go(1, 0)
MMul(a, b) == LET RECURSIVE Go(_)
                  Go(j) == IF j > Len(b) THEN <<>>
                           ELSE MAdd(MShift(MMulLimb(a, b[j]), j - 1), Go(j + 1))
              IN  Go(1)
RECURSIVE MFromNat(_)
MFromNat(n) == IF n = 0 THEN <<>> ELSE <<n % Base>> \o MFromNat(n \div Base)

(* signed *)
SZero == [s |-> 0, m |-> <<>>]
SMk(s, m) == IF m = <<>> THEN SZero ELSE [s |-> s, m |-> m]
SFromInt(n) == IF n = 0 THEN SZero ELSE IF n > 0 THEN [s |-> 1, m |-> MFromNat(n)]
               ELSE [s |-> -1, m |-> MFromNat(-n)]
SNeg(a) == [s |-> -a.s, m |-> a.m]
SAdd(a, b) == IF a.s = 0 THEN b ELSE IF b.s = 0 THEN a
              ELSE IF a.s = b.s THEN [s |-> a.s, m |-> MAdd(a.m, b.m)]
              ELSE LET c == MCmp(a.m, b.m)
                   IN  IF c = 0 THEN SZero
                       ELSE IF c > 0 THEN [s |-> a.s, m |-> MSub(a.m, b.m)]
                       ELSE [s |-> b.s, m |-> MSub(b.m, a.m)]
SSub(a, b) == SAdd(a, SNeg(b))
SMul(a, b) == IF a.s = 0 \/ b.s = 0 THEN SZero ELSE [s |-> a.s * b.s, m |-> MMul(a.m, b.m)]
SAbs(a) == [s |-> IF a.s = 0 THEN 0 ELSE 1, m |-> a.m]
SCmp(a, b) == IF a.s # b.s THEN (IF a.s < b.s THEN -1 ELSE 1)
              ELSE IF a.s = 0 THEN 0 ELSE a.s * MCmp(a.m, b.m)
SShift(a, k) == SMk(a.s, MShift(a.m, k))

(* fixed point: v / 10^(16 e) *)
FMk(e, v) == [e |-> e, v |-> v]
FInt(n) == FMk(0, SFromInt(n))
FZero == FInt(0)
FRescale(x, e) == FMk(e, SShift(x.v, 4 * (e - x.e)))                       \* e >= x.e
FAdd(x, y) == LET e == MaxI(x.e, y.e) IN FMk(e, SAdd(FRescale(x, e).v, FRescale(y, e).v))
FNeg(x) == FMk(x.e, SNeg(x.v))
FSub(x, y) == FAdd(x, FNeg(y))
FMul(x, y) == FMk(x.e + y.e, SMul(x.v, y.v))
(* | x - p/q | <= 10^(-4 t)      (p, q small naturals, q > 0; t = tolerance in limbs) :
   | v q - p S | * Base^t <= q S      with S = 10^(16 e) = Base^(4 e) *)
FNear(x, p, q, t) == LET S == SShift(SFromInt(1), 4 * x.e)
                         d == SAbs(SSub(SMul(x.v, SFromInt(q)), SMul(SFromInt(p), S)))
                     IN  SCmp(SShift(d, t), SMul(SFromInt(q), S)) <= 0
(* a decimal fraction 0.d1 d2 d3 d4 ... given as its limbs most significant first (4 digits per
   limb, exactly 4 limbs = 16 digits), with an integer part and a sign *)
FDec(sign, int, l1, l2, l3, l4) ==
   FMk(1, SMk(sign, Trim(<<l4, l3, l2, l1>> \o MFromNat(int))))
=============================================================================
