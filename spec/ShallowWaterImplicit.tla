------------------------ MODULE ShallowWaterImplicit ------------------------
(* Implicit part of the layered shallow-water equations, exactly, per total wavenumber l and
   layer (the implicit part does not couple layers):
       d(div)/dt = -lambda * pot          lambda = -l(l+1)/r^2
       d(pot)/dt = -ref * div             vorticity: 0
   and its resolvent as the code computes it (scalar Schur complement).  One action per
   library call: Terms (implicit_terms), Shift (x - eta*L x, done by the integrators),
   Solve (implicit_inverse).  Everything is rational. *)
EXTENDS Integers, Sequences, TLC, Json, Exact

CONSTANTS MaxL

Radii == {<<1, 1>>, <<2, 1>>, <<1, 2>>}
Refs == {<<1, 1>>, <<5, 2>>, <<1, 8>>}
Etas == {<<1, 4>>, <<-1, 4>>, <<1, 1>>, <<-3, 2>>}
Basis == {<<One, Zero>>, <<Zero, One>>, <<One, <<-2, 1>> >>}     \* (div, pot)

VARIABLES cfg, x, y, z, pc
vars == <<cfg, x, y, z, pc>>

Lambda == RNeg(RDiv(R(cfg.l * (cfg.l + 1)), RMul(cfg.r, cfg.r)))

Init == /\ cfg \in [l : 0..MaxL, r : Radii, ref : Refs, eta : Etas, x0 : Basis]
        /\ x = cfg.x0 /\ y = <<Zero, Zero>> /\ z = <<Zero, Zero>> /\ pc = "terms"

(* implicit_terms *)
Terms == /\ pc = "terms"
         /\ y' = <<RNeg(RMul(Lambda, x[2])), RNeg(RMul(cfg.ref, x[1]))>>
         /\ pc' = "shift" /\ UNCHANGED <<cfg, x, z>>
(* x - eta * L x *)
Shift == /\ pc = "shift"
         /\ z' = <<RSub(x[1], RMul(cfg.eta, y[1])), RSub(x[2], RMul(cfg.eta, y[2]))>>
         /\ pc' = "solve" /\ UNCHANGED <<cfg, x, y>>
(* implicit_inverse: s = 1/(1 - eta^2 ref lambda);
   div = s (div - eta lambda pot); pot = s (-eta ref div + pot) *)
Schur == RInv(RSub(One, RMul(RMul(cfg.eta, cfg.eta), RMul(cfg.ref, Lambda))))
SolveOf(v) == <<RMul(Schur, RSub(v[1], RMul(cfg.eta, RMul(Lambda, v[2])))),
                RMul(Schur, RAdd(RNeg(RMul(cfg.eta, RMul(cfg.ref, v[1]))), v[2]))>>
Solve == /\ pc = "solve" /\ x' = SolveOf(z) /\ pc' = "done" /\ UNCHANGED <<cfg, y, z>>
Next == Terms \/ Shift \/ Solve
Spec == Init /\ [][Next]_vars

Resolvent == pc = "done" => x = cfg.x0
(* l = 0 decouples divergence from the potential *)
MeanDecoupled == (pc = "done" /\ cfg.l = 0) => y[1] = Zero
Export == pc = "done" =>
   PrintT(<<"CASE", ToJson([l |-> cfg.l, r |-> cfg.r, ref |-> cfg.ref, eta |-> cfg.eta,
                            x0 |-> cfg.x0, terms |-> y, shifted |-> z,
                            solve_e1 |-> SolveOf(<<One, Zero>>), solve_e2 |-> SolveOf(<<Zero, One>>)])>>)
=============================================================================
