------------------------------ MODULE CombDFI ------------------------------
(* time_integration.digital_filter_initialization on the linear scalar test equation
       du/dt = lam*u (explicit) + mu*u (implicit)
   stepped with backward_forward_euler, with a stack of scalar filters.  One action per
   piece of the code: weights/normalisation, init term, forward leg (accumulate_repeated on
   the forward equation), backward leg (on TimeReversedImExODE, whose implicit_inverse calls
   the forward inverse with -step), final sum.

   The Lanczos weights w_n are irrational (sinc); they are atoms.  The accumulated value
   is kept as the rational coefficient of every atom:   result = x0 * (k0 + sum_n kw[n]*w_n) / (1 + 2*sum_n w_n). *)
EXTENDS Integers, Sequences, TLC, Json, Exact

Lams == {<<0, 1>>, <<1, 1>>, <<-1, 2>>}
Mus == {<<0, 1>>, <<-1, 1>>, <<-1, 2>>}    \* 1 + dt*mu # 0: the reversed solve exists
Dts == {<<1, 4>>, <<1, 2>>}
SpanOverDt == {2, 3, 5, 6, 8}                 \* time_span / dt
FilterStacks == {<<>>, << <<1, 2>> >>, << <<1, 2>>, <<3, 4>> >>}

VARIABLES cfg, pc, n, state, k0, kw, N
vars == <<cfg, pc, n, state, k0, kw, N>>

Init == /\ cfg \in [lam : Lams, mu : Mus, dt : Dts, span : SpanOverDt, filters : FilterStacks]
        /\ pc = "weights" /\ n = 0 /\ state = One /\ k0 = Zero /\ kw = <<>> /\ N = 0

(* N = round(time_span / (2*dt)) -- Python round, half to even *)
Weights == /\ pc = "weights"
           /\ N' = RRoundHalfEven(<<cfg.span, 2>>)
           /\ kw' = [q \in 1..RRoundHalfEven(<<cfg.span, 2>>) |-> Zero]
           /\ pc' = "init"
           /\ UNCHANGED <<cfg, n, state, k0>>

InitTerm == /\ pc = "init" /\ k0' = One /\ state' = One /\ n' = 0 /\ pc' = "fwd"
            /\ UNCHANGED <<cfg, kw, N>>

RECURSIVE ApplyFilters(_, _)
ApplyFilters(x, fs) == IF fs = <<>> THEN x ELSE ApplyFilters(RMul(Head(fs), x), Tail(fs))

(* backward_forward_euler: u1 = G_inv(u0 + dt*F(u0), dt), then the filters *)
EulerStep(x, lam, mu, eta) ==
   ApplyFilters(RDiv(RAdd(x, RMul(cfg.dt, RMul(lam, x))), RSub(One, RMul(eta, mu))), cfg.filters)

FwdStep == /\ pc = "fwd" /\ n < N
           /\ LET s == EulerStep(state, cfg.lam, cfg.mu, cfg.dt)
              IN  /\ state' = s /\ kw' = [kw EXCEPT ![n + 1] = RAdd(@, s)]
           /\ n' = n + 1
           /\ UNCHANGED <<cfg, pc, k0, N>>
FwdDone == /\ pc = "fwd" /\ n = N /\ pc' = "bwd" /\ n' = 0 /\ state' = One
           /\ UNCHANGED <<cfg, k0, kw, N>>

(* TimeReversedImExODE: F -> -F, G -> -G, implicit_inverse(x, dt) -> forward inverse(x, -dt),
   i.e. (1 - (-dt)*mu)^-1 = (1 - dt*(-mu))^-1 *)
BwdStep == /\ pc = "bwd" /\ n < N
           /\ LET s == EulerStep(state, RNeg(cfg.lam), RNeg(cfg.mu), cfg.dt)
              IN  /\ state' = s /\ kw' = [kw EXCEPT ![n + 1] = RAdd(@, s)]
           /\ n' = n + 1
           /\ UNCHANGED <<cfg, pc, k0, N>>
BwdDone == /\ pc = "bwd" /\ n = N /\ pc' = "done"
           /\ UNCHANGED <<cfg, n, state, k0, kw, N>>

Next == Weights \/ InitTerm \/ FwdStep \/ FwdDone \/ BwdStep \/ BwdDone
Spec == Init /\ [][Next]_vars

A == EulerStep(One, cfg.lam, cfg.mu, cfg.dt)
B == EulerStep(One, RNeg(cfg.lam), RNeg(cfg.mu), cfg.dt)
DefiningSum == pc = "done" => /\ k0 = One
                              /\ \A q \in 1..N : kw[q] = RAdd(RPow(A, q), RPow(B, q))
(* a steady state (lam = mu = 0, no damping filter) is returned unchanged: every kw = 2, so
   result = (1 + 2*sum w)/(1 + 2*sum w) = 1 *)
SteadyOK == (pc = "done" /\ cfg.lam = Zero /\ cfg.mu = Zero /\ cfg.filters = <<>>) =>
              \A q \in 1..N : kw[q] = <<2, 1>>
Export == pc = "done" => PrintT(<<"CASE", ToJson([lam |-> cfg.lam, mu |-> cfg.mu, dt |-> cfg.dt,
             span |-> cfg.span, filters |-> cfg.filters, N |-> N, k0 |-> k0, kw |-> kw])>>)
=============================================================================
