------------------------------- MODULE Reindex -------------------------------
(* The fixed re-indexing between the coefficient layouts of the reference (Real) and the fast
   spherical-harmonic implementations, and operation sequences over the Grid API.

   Reindex maps a (row, column) of the reference layout to the (row, column) of the fast layout
   holding the same label; it is a bijection between the two masks for every padding multiple,
   and it carries the m-axis and l-axis values with it.  Since every Grid operation is defined
   on labels (SpectralAlgebra), an operation sequence has one meaning; the machine generates
   sequences (the replay runs each on the reference and on the fast implementation with every
   option combination and compares after every step through Reindex). *)
EXTENDS Integers, Sequences, FiniteSets, TLC, Json

CONSTANTS MaxM, Mults, MaxOps

RoundUp(x, k) == ((x + k - 1) \div k) * k
VARIABLES cfg, ops
vars == <<cfg, ops>>

OpNames == {"d_dlon", "cos_lat_d_dlat", "sec_lat_d_dlat_cos2", "laplacian", "inverse_laplacian",
            "clip", "nodal_roundtrip"}
Init == /\ cfg \in [M : 1..MaxM, dL : 0..1, mult : Mults]
        /\ ops = <<>>
Apply(o) == Len(ops) < MaxOps /\ ops' = Append(ops, o) /\ UNCHANGED cfg
Next == \E o \in OpNames : Apply(o)
Spec == Init /\ [][Next]_vars

L == cfg.M + cfg.dL
RealRows == 0..2 * cfg.M - 2
FastShape == <<RoundUp(2 * cfg.M, 2 * cfg.mult), RoundUp(L, cfg.mult)>>
RealM(i) == IF i = 0 THEN 0 ELSE IF i % 2 = 1 THEN (i + 1) \div 2 ELSE -(i \div 2)
FastM(i) == IF i < 2 \/ i >= 2 * cfg.M THEN 0 ELSE IF i % 2 = 0 THEN i \div 2 ELSE -(i \div 2)
Abs(x) == IF x < 0 THEN -x ELSE x
RealMask == {<<i, j>> \in RealRows \X (0..L - 1) : Abs(RealM(i)) <= j}
FastMask == {<<i, j>> \in (0..FastShape[1] - 1) \X (0..FastShape[2] - 1) :
               Abs(FastM(i)) <= (IF j < L THEN j ELSE 0) /\ i # 1 /\ i < 2 * cfg.M /\ j < L}
(* reference row i -> fast row:  0 -> 0;  +k (row 2k-1) -> 2k;  -k (row 2k) -> 2k+1 *)
ReindexRow(i) == IF i = 0 THEN 0 ELSE i + 1
Reindex(ij) == <<ReindexRow(ij[1]), ij[2]>>

ReindexBijective ==
   /\ {Reindex(ij) : ij \in RealMask} = FastMask
   /\ \A a, b \in RealMask : Reindex(a) = Reindex(b) => a = b
   /\ \A ij \in RealMask : FastM(Reindex(ij)[1]) = RealM(ij[1])
DeadRowAndPaddingOutside ==
   \A ij \in FastMask : ij[1] # 1 /\ ij[1] < 2 * cfg.M /\ ij[2] < L
Export == Len(ops) = MaxOps =>
   PrintT(<<"CASE", ToJson([M |-> cfg.M, L |-> L, mult |-> cfg.mult, ops |-> ops])>>)
=============================================================================
