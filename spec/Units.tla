-------------------------------- MODULE Units --------------------------------
(* Exact machine of dinosaur/scales.py: Scale.__init__, Scale.nondimensionalize,
   Scale.dimensionalize (and the thin wrappers PrimitiveEquationsSpecs.nondimensionalize /
   dimensionalize) over pint quantities with compound units.

   Dimensions are the vector <<length, time, mass, temperature>>.
   A unit is a record [n: pint expression, f: Rat factor to the SI base unit, d: dimension
   vector, pm: largest |power| the machine raises it to (32-bit budget)].
   A quantity is an array of small integer mantissas times 2^e in a unit:
        q = [ms |-> <<m1, ..>>, e |-> e2, u |-> unit name]      value_i = m_i * 2^e * unit
   (a one element array stands for a Python scalar).
   A scale entry is  c * 10^p10 * 2^k * unit;  a Scale is a sequence of entries and is valid
   iff every entry has a single dimension with exponent one and no dimension occurs twice.

   Magnitudes span many decades, so no number is ever evaluated: every value is a *monomial*
        [c |-> <<Rat, ..>>, e |-> E, a |-> <<aL, aT, aM, aK>>]
        value_i = c_i * 2^E * prod_d A_d^(a_d),      A_d = c_d * 10^p10_d * f(unit_d)
   where A_d (the non-dyadic part of the scale of dimension d) is an *atom*: it is exported
   once per scale as an exact decimal rational and substituted by the harness.  The
   "scaling factor as product of base scales raised to the dimensional exponents" is then
   exponent arithmetic:  E -= sum_d k_d * dim_d,  a_d -= dim_d. *)
EXTENDS Integers, Sequences, FiniteSets, TLC, Json, Exact

CONSTANTS ScaleIds,     \* ids of the scale specifications explored (see ScaleTable)
          Q1Units,      \* unit names of the first quantity
          Q2Units,      \* unit names of the second quantity (products / quotients)
          Exp2s,        \* binary exponents of the first quantity
          MantSets,     \* mantissa arrays of the first quantity
          Pows          \* integer powers

VARIABLES sid,          \* scale specification id
          q1, q2,       \* the two quantities
          pc,           \* "new" | "ready" | "done" | "rejected"
          todo,         \* remaining public calls
          res           \* call name -> result
vars == <<sid, q1, q2, pc, todo, res>>

Dims == 1..4
ZeroDim == <<0, 0, 0, 0>>
DAdd(x, y) == [i \in Dims |-> x[i] + y[i]]
DNeg(x) == [i \in Dims |-> -x[i]]
DScale(x, p) == [i \in Dims |-> p * x[i]]
Lim == 1073741823
(* |a*b| stays in the 32-bit budget *)
FitsI(a, b) == a = 0 \/ b = 0 \/ Abs(a) <= Lim \div Abs(b)

-----------------------------------------------------------------------------
(* the unit table: an independent statement of what pint's registry must say *)
UnitTable == <<
  [n |-> "m",          f |-> <<1, 1>>,        d |-> <<1, 0, 0, 0>>,   pm |-> 3],
  [n |-> "km",         f |-> <<1000, 1>>,     d |-> <<1, 0, 0, 0>>,   pm |-> 2],
  [n |-> "mm",         f |-> <<1, 1000>>,     d |-> <<1, 0, 0, 0>>,   pm |-> 2],
  [n |-> "s",          f |-> <<1, 1>>,        d |-> <<0, 1, 0, 0>>,   pm |-> 3],
  [n |-> "minute",     f |-> <<60, 1>>,       d |-> <<0, 1, 0, 0>>,   pm |-> 3],
  [n |-> "hour",       f |-> <<3600, 1>>,     d |-> <<0, 1, 0, 0>>,   pm |-> 2],
  [n |-> "day",        f |-> <<86400, 1>>,    d |-> <<0, 1, 0, 0>>,   pm |-> 1],
  [n |-> "kg",         f |-> <<1, 1>>,        d |-> <<0, 0, 1, 0>>,   pm |-> 3],
  [n |-> "g",          f |-> <<1, 1000>>,     d |-> <<0, 0, 1, 0>>,   pm |-> 2],
  [n |-> "K",          f |-> <<1, 1>>,        d |-> <<0, 0, 0, 1>>,   pm |-> 3],
  [n |-> "m/s",        f |-> <<1, 1>>,        d |-> <<1, -1, 0, 0>>,  pm |-> 3],
  [n |-> "km/hour",    f |-> <<5, 18>>,       d |-> <<1, -1, 0, 0>>,  pm |-> 3],
  [n |-> "knot",       f |-> <<463, 900>>,    d |-> <<1, -1, 0, 0>>,  pm |-> 2],
  [n |-> "mm/day",     f |-> <<1, 86400000>>, d |-> <<1, -1, 0, 0>>,  pm |-> 1],
  [n |-> "m/s**2",     f |-> <<1, 1>>,        d |-> <<1, -2, 0, 0>>,  pm |-> 3],
  [n |-> "m**2/s**2",  f |-> <<1, 1>>,        d |-> <<2, -2, 0, 0>>,  pm |-> 3],
  [n |-> "N",          f |-> <<1, 1>>,        d |-> <<1, -2, 1, 0>>,  pm |-> 3],
  [n |-> "Pa",         f |-> <<1, 1>>,        d |-> <<-1, -2, 1, 0>>, pm |-> 3],
  [n |-> "hPa",        f |-> <<100, 1>>,      d |-> <<-1, -2, 1, 0>>, pm |-> 3],
  [n |-> "J/kg/K",     f |-> <<1, 1>>,        d |-> <<2, -2, 0, -1>>, pm |-> 3],
  [n |-> "kJ/kg/K",    f |-> <<1000, 1>>,     d |-> <<2, -2, 0, -1>>, pm |-> 2],
  [n |-> "W/m**2",     f |-> <<1, 1>>,        d |-> <<0, -3, 1, 0>>,  pm |-> 3],
  [n |-> "kg/m**3",    f |-> <<1, 1>>,        d |-> <<-3, 0, 1, 0>>,  pm |-> 3],
  [n |-> "g/cm**3",    f |-> <<1000, 1>>,     d |-> <<-3, 0, 1, 0>>,  pm |-> 2],
  [n |-> "kg/m**2/s",  f |-> <<1, 1>>,        d |-> <<-2, -1, 1, 0>>, pm |-> 3],
  [n |-> "1/s",        f |-> <<1, 1>>,        d |-> <<0, -1, 0, 0>>,  pm |-> 3],
  [n |-> "1/day",      f |-> <<1, 86400>>,    d |-> <<0, -1, 0, 0>>,  pm |-> 1],
  [n |-> "dimensionless", f |-> <<1, 1>>,     d |-> <<0, 0, 0, 0>>,   pm |-> 3] >>
(* constant-level lookup tables (TLC evaluates them once) *)
UnitNames == {UnitTable[i].n : i \in DOMAIN UnitTable}
UByName == [nm \in UnitNames |-> UnitTable[CHOOSE i \in DOMAIN UnitTable : UnitTable[i].n = nm]]
U(name) == UByName[name]
Kelvin0 == <<5463, 20>>                      \* 0 degC = 273.15 K

(* scale specifications: what is handed to Scale(...).  "default" and "atmos" restate
   DEFAULT_SCALE / ATMOSPHERIC_SCALE: RADIUS = 6.37122e6 m, 1/(2*7.292e-5) s = 12500000/1823 s,
   MASS_OF_DRY_ATMOSPHERE = 5.18e18 kg *)
E(u, k, c, p10) == [u |-> u, k |-> k, c |-> c, p10 |-> p10]
ScaleTable == <<
  [id |-> "si",     es |-> <<E("m", 0, One, 0), E("s", 0, One, 0), E("kg", 0, One, 0), E("K", 0, One, 0)>>],
  [id |-> "p2",     es |-> <<E("m", 2, One, 0), E("s", 3, One, 0), E("kg", -1, One, 0), E("K", 1, One, 0)>>],
  [id |-> "p2big",  es |-> <<E("K", 0, One, 0), E("kg", 30, One, 0), E("s", -12, One, 0), E("m", 20, One, 0)>>],
  [id |-> "kmh",    es |-> <<E("km", 0, One, 0), E("hour", 1, One, 0), E("g", 0, One, 0), E("K", 0, One, 0)>>],
  [id |-> "default", es |-> <<E("m", 0, <<6371220, 1>>, 0), E("s", 0, <<12500000, 1823>>, 0),
                              E("kg", 0, One, 0), E("K", 0, One, 0)>>],
  [id |-> "atmos",  es |-> <<E("m", 0, <<6371220, 1>>, 0), E("s", 0, <<12500000, 1823>>, 0),
                              E("kg", 0, <<518, 1>>, 16), E("K", 0, One, 0)>>],
  [id |-> "lt",     es |-> <<E("km", 1, One, 0), E("minute", 0, One, 0)>>],
  [id |-> "bad_compound", es |-> <<E("m", 0, One, 0), E("m/s", 0, One, 0)>>],
  [id |-> "bad_dup",      es |-> <<E("m", 0, One, 0), E("s", 0, One, 0), E("km", 0, One, 0)>>],
  [id |-> "bad_inverse",  es |-> <<E("m", 0, One, 0), E("1/s", 0, One, 0)>>],
  [id |-> "bad_square",   es |-> <<E("m**2/s**2", 0, One, 0)>>],
  [id |-> "bad_dimless",  es |-> <<E("dimensionless", 0, One, 0), E("s", 0, One, 0)>>] >>
SpecById == [id \in {ScaleTable[i].id : i \in DOMAIN ScaleTable} |->
               ScaleTable[CHOOSE i \in DOMAIN ScaleTable : ScaleTable[i].id = id]]
SpecOf(id) == SpecById[id]

UnitVec(d) == /\ \A i \in Dims : d[i] \in {0, 1}
              /\ Cardinality({i \in Dims : d[i] = 1}) = 1
DimOf(d) == CHOOSE i \in Dims : d[i] = 1
ValidScale(es) == /\ \A i \in DOMAIN es : UnitVec(U(es[i].u).d)
                  /\ \A i, j \in DOMAIN es : i # j => U(es[i].u).d # U(es[j].u).d
Has(es, d) == \E i \in DOMAIN es : DimOf(U(es[i].u).d) = d
Entry(es, d) == es[CHOOSE i \in DOMAIN es : DimOf(U(es[i].u).d) = d]
KOf(es, d) == IF Has(es, d) THEN Entry(es, d).k ELSE 0
(* the atom of dimension d: exact decimal rational [r, p10] *)
AtomOf(es, d) == IF Has(es, d)
                 THEN [r |-> RMul(Entry(es, d).c, U(Entry(es, d).u).f), p10 |-> Entry(es, d).p10]
                 ELSE [r |-> One, p10 |-> 0]
Covers(es, dim) == \A d \in Dims : dim[d] # 0 => Has(es, d)
KDot(es, dim) == KOf(es, 1) * dim[1] + KOf(es, 2) * dim[2] + KOf(es, 3) * dim[3] + KOf(es, 4) * dim[4]

-----------------------------------------------------------------------------
(* physical values in SI base units: [c: coefficients, e, d: dimension] *)
SI(q) == [c |-> [i \in DOMAIN q.ms |-> RMul(R(q.ms[i]), U(q.u).f)], e |-> q.e, d |-> U(q.u).d]
RPowZ(a, p) == IF p >= 0 THEN RPow(a, p) ELSE RPow(RInv(a), -p)
ProdSI(x, y) == [c |-> [i \in DOMAIN x.c |-> RMul(x.c[i], y.c[1])], e |-> x.e + y.e, d |-> DAdd(x.d, y.d)]
QuotSI(x, y) == [c |-> [i \in DOMAIN x.c |-> RDiv(x.c[i], y.c[1])], e |-> x.e - y.e, d |-> DAdd(x.d, DNeg(y.d))]
PowSI(x, p) == [c |-> [i \in DOMAIN x.c |-> RPowZ(x.c[i], p)], e |-> x.e * p, d |-> DScale(x.d, p)]

Err == [err |-> "nodim"]
IsErr(m) == "err" \in DOMAIN m
(* Scale.nondimensionalize *)
Nondim(es, x) == IF ~Covers(es, x.d) THEN Err
                 ELSE [c |-> x.c, e |-> x.e - KDot(es, x.d), a |-> DNeg(x.d)]
(* Scale.dimensionalize(value, unit): magnitudes in `unit` *)
Dim(es, m, uname) == LET u == U(uname) IN
                     IF ~Covers(es, u.d) THEN Err
                     ELSE [c |-> [i \in DOMAIN m.c |-> RDiv(m.c[i], u.f)],
                           e |-> m.e + KDot(es, u.d), a |-> DAdd(m.a, u.d)]
MMul(x, y) == [c |-> [i \in DOMAIN x.c |-> RMul(x.c[i], y.c[1])], e |-> x.e + y.e, a |-> DAdd(x.a, y.a)]
MDiv(x, y) == [c |-> [i \in DOMAIN x.c |-> RDiv(x.c[i], y.c[1])], e |-> x.e - y.e, a |-> DAdd(x.a, DNeg(y.a))]
MPow(x, p) == [c |-> [i \in DOMAIN x.c |-> RPowZ(x.c[i], p)], e |-> x.e * p, a |-> DScale(x.a, p)]
(* nondimensionalize(Quantity(m, unit)) for magnitudes that are themselves monomials *)
NondimOfDim(es, m, uname) == LET u == U(uname) IN
                             [c |-> [i \in DOMAIN m.c |-> RMul(m.c[i], u.f)],
                              e |-> m.e - KDot(es, u.d), a |-> DAdd(m.a, DNeg(u.d))]
(* a bare number as a monomial *)
Plain(q) == [c |-> [i \in DOMAIN q.ms |-> R(q.ms[i])], e |-> q.e, a |-> ZeroDim]

ES == SpecOf(sid).es
MaxMant(q) == LET S == {Abs(q.ms[i]) : i \in DOMAIN q.ms} IN CHOOSE m \in S : \A k \in S : k <= m
MaxF(u) == Max(U(u).f[1], U(u).f[2])
ProdOK == /\ FitsI(MaxMant(q1) * MaxMant(q2), MaxF(q1.u))
          /\ FitsI(MaxMant(q1) * MaxMant(q2) * MaxF(q1.u), MaxF(q2.u))
PowsOf(q) == {p \in Pows : Abs(p) <= U(q.u).pm}
RECURSIVE Ordered(_)
Ordered(S) == IF S = {} THEN <<>>
              ELSE LET m == CHOOSE x \in S : \A y \in S : x <= y IN <<m>> \o Ordered(S \ {m})
(* compatible units in table order *)
CompatSeqBy == [nm \in UnitNames |->
                  LET o == Ordered({i \in DOMAIN UnitTable : UnitTable[i].d = U(nm).d})
                  IN  [i \in DOMAIN o |-> UnitTable[o[i]].n]]
CompatSeq(name) == CompatSeqBy[name]

(* bounds of the two tiers (configuration files cannot state negative numbers / tuples) *)
QuickExp2s == {-30, 0, 25}
ThoroughExp2s == {-60, -30, 0, 13, 60}
QuickMantSets == {<<3>>, <<1, -3, 7>>}
ThoroughMantSets == {<<3>>, <<-5>>, <<1, -3, 7>>, <<7, 6, -5, 4, 3, -2, 1>>}
QuickPows == {-2, -1, 2, 3}
ThoroughPows == {-3, -2, -1, 0, 1, 2, 3}
Canon(S) == CHOOSE x \in S : TRUE
Program == <<"Nondim1", "Nondim2", "Redim", "Reexpress", "Prod", "Quot", "Pow", "DimNondim", "Celsius">>

-----------------------------------------------------------------------------
Init == /\ sid \in ScaleIds
        /\ q1 \in [ms : MantSets, e : Exp2s, u : Q1Units]
        /\ q2 \in [ms : {<<5>>}, e : {3}, u : Q2Units]
        /\ (ValidScale(SpecOf(sid).es) \/ (q1 = Canon([ms : MantSets, e : Exp2s, u : Q1Units])
                                            /\ q2 = Canon([ms : {<<5>>}, e : {3}, u : Q2Units])))
        /\ pc = "new" /\ todo = Program /\ res = [o \in {} |-> 0]

Put(name, val) == /\ res' = [o \in DOMAIN res \cup {name} |-> IF o = name THEN val ELSE res[o]]
                  /\ todo' = Tail(todo)
                  /\ pc' = IF Len(todo) = 1 THEN "done" ELSE "ready"
                  /\ UNCHANGED <<sid, q1, q2>>
At(name) == pc = "ready" /\ todo # <<>> /\ Head(todo) = name

(* Scale.__init__ *)
Construct == /\ pc = "new" /\ ValidScale(ES) /\ pc' = "ready" /\ UNCHANGED <<sid, q1, q2, todo, res>>
RejectScale == /\ pc = "new" /\ ~ValidScale(ES) /\ pc' = "rejected" /\ UNCHANGED <<sid, q1, q2, todo, res>>
(* scale.nondimensionalize(q1), scale.nondimensionalize(q2) *)
Nondimensionalize1 == At("Nondim1") /\ Put("Nondim1", Nondim(ES, SI(q1)))
Nondimensionalize2 == At("Nondim2") /\ Put("Nondim2", Nondim(ES, SI(q2)))
(* scale.dimensionalize(nd1, u') for every unit u' compatible with q1 *)
Redimensionalize == /\ At("Redim")
                    /\ Put("Redim", IF IsErr(res["Nondim1"]) THEN <<>>
                                    ELSE LET us == CompatSeq(q1.u) IN
                                         [i \in DOMAIN us |-> [u |-> us[i], v |-> Dim(ES, res["Nondim1"], us[i])]])
(* scale.nondimensionalize(q1.to(u')) for every compatible u': the quantity re-expressed *)
Reexpress == /\ At("Reexpress")
             /\ Put("Reexpress", IF IsErr(res["Nondim1"]) THEN <<>>
                  ELSE LET us == CompatSeq(q1.u) IN
                       [i \in DOMAIN us |->
                          LET conv == [c |-> [j \in DOMAIN q1.ms |->
                                                RMul(RDiv(RMul(R(q1.ms[j]), U(q1.u).f), U(us[i]).f), U(us[i]).f)],
                                       e |-> q1.e, d |-> U(us[i]).d]
                          IN  [u |-> us[i], v |-> Nondim(ES, conv)]])
(* scale.nondimensionalize(q1 * q2), (q1 / q2), (q1 ** p) *)
NondimProduct == /\ At("Prod")
                 /\ Put("Prod", IF ProdOK THEN Nondim(ES, ProdSI(SI(q1), SI(q2))) ELSE [skip |-> TRUE])
NondimQuotient == /\ At("Quot")
                  /\ Put("Quot", IF ProdOK THEN Nondim(ES, QuotSI(SI(q1), SI(q2))) ELSE [skip |-> TRUE])
NondimPower == /\ At("Pow")
               /\ Put("Pow", LET ps == Ordered(PowsOf(q1)) IN
                             [i \in DOMAIN ps |-> [p |-> ps[i], v |-> Nondim(ES, PowSI(SI(q1), ps[i]))]])
(* scale.dimensionalize(x, u) for the bare numbers x = q1.ms * 2^e, then back *)
DimThenNondim == /\ At("DimNondim")
                 /\ Put("DimNondim",
                        LET dm == Dim(ES, Plain(q1), q1.u) IN
                        IF IsErr(dm) THEN [dim |-> dm, back |-> dm]
                        ELSE [dim |-> dm, back |-> NondimOfDim(ES, dm, q1.u)])
(* offset unit: q1.ms degC (e ignored) -> nondim -> degC and K; only for temperatures *)
Celsius == /\ At("Celsius")
           /\ Put("Celsius",
                  IF q1.u # "K" \/ ~Has(ES, 4) THEN [skip |-> TRUE]
                  ELSE LET kel == [i \in DOMAIN q1.ms |-> RAdd(R(q1.ms[i]), Kelvin0)] IN
                       [nd |-> [c |-> kel, e |-> -KOf(ES, 4), a |-> <<0, 0, 0, -1>>],
                        degC |-> [i \in DOMAIN q1.ms |-> R(q1.ms[i])],
                        kelvin |-> kel])

Next == \/ Construct \/ RejectScale \/ Nondimensionalize1 \/ Nondimensionalize2
        \/ Redimensionalize \/ Reexpress \/ NondimProduct \/ NondimQuotient \/ NondimPower
        \/ DimThenNondim \/ Celsius
Spec == Init /\ [][Next]_vars

-----------------------------------------------------------------------------
(* the property *)
Done == pc = "done"
OK1 == Done /\ ~IsErr(res["Nondim1"])
(* re-dimensionalising in ANY compatible unit returns the original quantity: the atoms cancel,
   the binary exponent is restored and magnitude * factor(u') = mantissa * factor(u) *)
InverseND == OK1 => \A i \in DOMAIN res["Redim"] :
    LET r == res["Redim"][i] IN
    /\ r.v.a = ZeroDim /\ r.v.e = q1.e
    /\ \A j \in DOMAIN q1.ms : RMul(r.v.c[j], U(r.u).f) = RMul(R(q1.ms[j]), U(q1.u).f)
(* and the other way round *)
InverseDN == (Done /\ ~IsErr(res["DimNondim"].dim)) =>
    /\ res["DimNondim"].dim.a = U(q1.u).d
    /\ res["DimNondim"].back.c = Plain(q1).c
    /\ res["DimNondim"].back.e = q1.e
(* independent of the unit the quantity is expressed in *)
UnitIndependent == OK1 => \A i \in DOMAIN res["Reexpress"] :
    res["Reexpress"][i].v = res["Nondim1"]
(* products, quotients, powers *)
Good(name) == ~IsErr(res[name]) /\ "skip" \notin DOMAIN res[name]
Multiplicative == (OK1 /\ ~IsErr(res["Nondim2"])) =>
    /\ Good("Prod") => res["Prod"] = MMul(res["Nondim1"], res["Nondim2"])
    /\ Good("Quot") => res["Quot"] = MDiv(res["Nondim1"], res["Nondim2"])
Powers == OK1 => \A i \in DOMAIN res["Pow"] :
    res["Pow"][i].v = MPow(res["Nondim1"], res["Pow"][i].p)
(* a dimension without a scale is an error exactly when the quantity carries it *)
MissingDimension == Done => (IsErr(res["Nondim1"]) <=> ~Covers(ES, U(q1.u).d))
(* a dimensionless quantity is left alone by every scale *)
DimensionlessFixed == (OK1 /\ U(q1.u).d = ZeroDim) =>
    /\ res["Nondim1"].a = ZeroDim /\ res["Nondim1"].e = q1.e
CelsiusInverse == (Done /\ "nd" \in DOMAIN res["Celsius"]) =>
    \A i \in DOMAIN q1.ms : RSub(res["Celsius"].kelvin[i], res["Celsius"].degC[i]) = Kelvin0
Rejected == (pc = "rejected") <=> (pc # "new" /\ ~ValidScale(ES))

ScaleRec == [id |-> sid, valid |-> ValidScale(ES), es |-> ES,
             k |-> [d \in Dims |-> IF ValidScale(ES) THEN KOf(ES, d) ELSE 0],
             atoms |-> [d \in Dims |-> IF ValidScale(ES) THEN AtomOf(ES, d) ELSE [r |-> One, p10 |-> 0]],
             has |-> [d \in Dims |-> ValidScale(ES) /\ Has(ES, d)]]
Export == (pc = "done" \/ pc = "rejected") =>
   PrintT(<<"CASE", ToJson([scale |-> ScaleRec, q1 |-> q1, q2 |-> q2,
                            f1 |-> U(q1.u).f, f2 |-> U(q2.u).f, d1 |-> U(q1.u).d,
                            res |-> IF pc = "done" THEN res ELSE [o \in {} |-> 0]])>>)
=============================================================================
