----------------------------- MODULE CombAccum -----------------------------
(* time_integration.accumulate_repeated: running weighted sum of repeated applications.
   Step function f(x) = a*x + b over the rationals; weights rational. *)
EXTENDS Integers, Sequences, TLC, Json, Exact

CONSTANTS MaxN

As == {<<1, 2>>, <<2, 1>>, <<-1, 1>>, <<3, 4>>}
Bs == {<<0, 1>>, <<1, 1>>}
X0s == {<<1, 1>>, <<-3, 2>>}
WeightSets(n) == { [i \in 1..n |-> <<1, 4>>], [i \in 1..n |-> <<i, 4>>],
                   [i \in 1..n |-> IF i % 2 = 0 THEN <<-1, 2>> ELSE <<1, 2>>] }

VARIABLES cfg, i, state, avg
vars == <<cfg, i, state, avg>>

Init == /\ \E n \in 1..MaxN : cfg \in [a : As, b : Bs, x0 : X0s, w : WeightSets(n)]
        /\ i = 0 /\ state = cfg.x0 /\ avg = Zero

F(x) == RAdd(RMul(cfg.a, x), cfg.b)

(* scan body: state = step_fn(state); averaged = averaged + weight * state *)
AccStep == /\ i < Len(cfg.w)
           /\ i' = i + 1
           /\ state' = F(state)
           /\ avg' = RAdd(avg, RMul(cfg.w[i + 1], F(state)))
           /\ UNCHANGED cfg
Next == AccStep
Spec == Init /\ [][Next]_vars

RECURSIVE Iter(_, _)
Iter(x, n) == IF n = 0 THEN x ELSE F(Iter(x, n - 1))
RECURSIVE DefSum(_)
DefSum(n) == IF n = 0 THEN Zero ELSE RAdd(DefSum(n - 1), RMul(cfg.w[n], Iter(cfg.x0, n)))

Done == i = Len(cfg.w)
AccOK == Done => avg = DefSum(Len(cfg.w))
StateOK == state = Iter(cfg.x0, i)
Export == Done => PrintT(<<"CASE", ToJson([a |-> cfg.a, b |-> cfg.b, x0 |-> cfg.x0,
                                           w |-> cfg.w, avg |-> avg, final |-> state])>>)
=============================================================================
