--------------------------- MODULE CombTrajectory ---------------------------
(* time_integration.trajectory_from_step / repeated / step_with_filters, written as the
   code is structured (one action per call the code makes).

   A state of the stepped system is its *history*: the sequence of tokens appended by
   every application.  Token 0 is one application of the user's step function; token
   1000*i + n is step-filter i applied to (u, u_next) where the history of `u` (the state
   *before* the step) had length n.  The sequential definition the property refers to is
   Canon(n).  *)
EXTENDS Naturals, Sequences, TLC, Json, SequencesExt

CONSTANTS MaxOuter, MaxInner, MaxFilters

Tok(i, n) == 1000 * i + n

VARIABLES cfg,      \* [outer, inner, swi, nf] chosen in Init
          pc,       \* "outer" | "step" | "filters" | "emit" | "done"
          k,        \* outer (saved) step counter, 1-based
          j,        \* inner (unsaved) step counter, 1-based
          fi,       \* next filter to apply
          carry,    \* history of the carried state
          prev,     \* history of `u`, the input of the step being filtered
          carryIn,  \* carry at entry of the outer scan body
          viaScan,  \* whether the inner loop is a scan (inner # 1) or the bare step (inner = 1)
          frames    \* emitted trajectory
vars == <<cfg, pc, k, j, fi, carry, prev, carryIn, viaScan, frames>>

Configs == [outer : 1..MaxOuter, inner : 1..MaxInner, swi : BOOLEAN, nf : 0..MaxFilters]

Init == /\ cfg \in Configs
        /\ pc = "outer" /\ k = 1 /\ j = 1 /\ fi = 1
        /\ carry = <<>> /\ prev = <<>> /\ carryIn = <<>> /\ frames = <<>>
        /\ viaScan = FALSE

(* body of the outer scan: carry_out = step_fn(carry_in).  trajectory_from_step wraps the
   step in repeated() only when inner_steps # 1, and repeated() itself returns fn when
   steps = 1: both shortcuts are the same branch here. *)
OuterDirect == /\ pc = "outer" /\ cfg.inner = 1
               /\ carryIn' = carry /\ j' = 1 /\ viaScan' = FALSE /\ pc' = "step"
               /\ UNCHANGED <<cfg, k, fi, carry, prev, frames>>
OuterRepeated == /\ pc = "outer" /\ cfg.inner # 1
                 /\ carryIn' = carry /\ j' = 1 /\ viaScan' = TRUE /\ pc' = "step"
                 /\ UNCHANGED <<cfg, k, fi, carry, prev, frames>>

(* step_with_filters: u_next = step_fn(u) *)
Step == /\ pc = "step"
        /\ prev' = carry
        /\ carry' = Append(carry, 0)
        /\ fi' = 1 /\ pc' = "filters"
        /\ UNCHANGED <<cfg, k, j, carryIn, viaScan, frames>>

(* for filter_fn in filters: u_next = filter_fn(u, u_next) *)
Filter == /\ pc = "filters" /\ fi <= cfg.nf
          /\ carry' = Append(carry, Tok(fi, Len(prev)))
          /\ fi' = fi + 1
          /\ UNCHANGED <<cfg, pc, k, j, prev, carryIn, viaScan, frames>>

EndStep == /\ pc = "filters" /\ fi > cfg.nf
           /\ IF j < cfg.inner THEN j' = j + 1 /\ pc' = "step"
                               ELSE j' = j /\ pc' = "emit"
           /\ UNCHANGED <<cfg, k, fi, carry, prev, carryIn, viaScan, frames>>

(* frame = carry_in if start_with_input else carry_out *)
Emit == /\ pc = "emit"
        /\ frames' = Append(frames, IF cfg.swi THEN carryIn ELSE carry)
        /\ IF k < cfg.outer THEN k' = k + 1 /\ pc' = "outer" ELSE k' = k /\ pc' = "done"
        /\ UNCHANGED <<cfg, j, fi, carry, prev, carryIn, viaScan>>

Next == OuterDirect \/ OuterRepeated \/ Step \/ Filter \/ EndStep \/ Emit
Spec == Init /\ [][Next]_vars

-----------------------------------------------------------------------------
(* The sequential definition. *)
RECURSIVE Canon(_, _)
Canon(n, nf) == IF n = 0 THEN <<>>
                ELSE LET p == Canon(n - 1, nf)
                     IN  p \o <<0>> \o [i \in 1..nf |-> Tok(i, Len(p))]

TypeOK == /\ cfg \in Configs
          /\ pc \in {"outer", "step", "filters", "emit", "done"}

FramesOK == pc = "done" =>
              /\ Len(frames) = cfg.outer
              /\ \A q \in 1..cfg.outer :
                   frames[q] = Canon((IF cfg.swi THEN q - 1 ELSE q) * cfg.inner, cfg.nf)
FinalOK == pc = "done" => carry = Canon(cfg.outer * cfg.inner, cfg.nf)
(* every emitted frame is a prefix of the next one and of the carry: nothing is re-done *)
PrefixOK == \A q \in 1..Len(frames) :
              /\ IsPrefix(frames[q], carry)
              /\ q > 1 => IsPrefix(frames[q - 1], frames[q])
(* filters always see the input of *this* step *)
FilterInputOK == pc = "filters" => Len(prev) + 1 + (fi - 1) = Len(carry)
(* the carry is append-only *)
AppendOnly == [][IsPrefix(carry, carry')]_vars

Export == pc = "done" =>
            PrintT(<<"CASE", ToJson([outer |-> cfg.outer, inner |-> cfg.inner, swi |-> cfg.swi,
                                     nf |-> cfg.nf, frames |-> frames, final |-> carry])>>)
=============================================================================
