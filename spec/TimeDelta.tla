------------------------------ MODULE TimeDelta ------------------------------
(* Exact machine of PrimitiveEquationsSpecs.nondimensionalize_timedelta64 /
   dimensionalize_timedelta64 on whole-second durations.

   A behaviour handles one block of consecutive whole-second durations
        sign * n  seconds,  n in lo..hi,
   either one call per duration ("scalar": np.timedelta64 in, np.timedelta64 out) or one call
   on the whole block ("array": timedelta64[s] array in and out), under a time scale
   T = c * 2^k seconds.
   nondimensionalize_timedelta64(n s) = n / T;  dimensionalize_timedelta64(x) = the whole
   seconds contained in x * T (the code documents rounding down to the base unit).  In exact
   arithmetic (n / T) * T = n, so the round trip returns the duration itself: that is the
   clause "whole-second durations survive the round trip".  Where the 32-bit budget allows
   (n <= ExactMax) the machine evaluates the two conversions in rational arithmetic and takes
   the floor; beyond that the non-dimensional value is the monomial n * T^-1 and the round
   trip is exponent cancellation. *)
EXTENDS Integers, Sequences, FiniteSets, TLC, Json, Exact

CONSTANTS BlockLen,       \* durations per block
          NBlocks,        \* blocks 0..NBlocks-1 are explored on the array path
          ScalarBlocks,   \* blocks 0..ScalarBlocks-1 also on the scalar path
          NegBlocks,      \* blocks 0..NegBlocks-1 also with negative sign (both paths)
          ScaleIds,
          ExactMax        \* largest n evaluated in rational arithmetic

VARIABLES sid, blk, sign, path, pc, nd, back
vars == <<sid, blk, sign, path, pc, nd, back>>

TimeScaleTable == <<
  [id |-> "default", c |-> <<12500000, 1823>>, k |-> 0],    \* 1 / (2 * 7.292e-5 / s)
  [id |-> "p2",      c |-> One,                k |-> 3],
  [id |-> "hour",    c |-> <<3600, 1>>,        k |-> 0],
  [id |-> "day",     c |-> <<86400, 1>>,       k |-> -1],
  [id |-> "cs",      c |-> <<100, 1>>,         k |-> 0] >>
ScaleById == [id \in {TimeScaleTable[i].id : i \in DOMAIN TimeScaleTable} |->
                TimeScaleTable[CHOOSE i \in DOMAIN TimeScaleTable : TimeScaleTable[i].id = id]]
RECURSIVE Pow2(_)
Pow2(k) == IF k = 0 THEN 1 ELSE 2 * Pow2(k - 1)
TRat(s) == IF s.k >= 0 THEN RMul(s.c, R(Pow2(s.k))) ELSE RDiv(s.c, R(Pow2(-s.k)))
T == TRat(ScaleById[sid])

Lo == blk * BlockLen
Hi == Lo + BlockLen - 1
(* nondimensionalize_timedelta64(sign * n seconds): a rational when affordable *)
NondimExact(n) == RDiv(R(sign * n), T)
(* dimensionalize_timedelta64(x): whole seconds contained in x * T; for the whole-second
   inputs of this machine x * T is an integer, so floor and truncation coincide *)
DimExact(x) == RFloor(RMul(x, T))

Init == /\ sid \in ScaleIds /\ blk \in 0..NBlocks - 1
        /\ sign \in {1, -1} /\ path \in {"array", "scalar"}
        /\ (path = "scalar" => blk < ScalarBlocks)
        /\ (sign = -1 => blk < NegBlocks)
        /\ pc = "nondim" /\ nd = <<>> /\ back = <<>>

(* specs.nondimensionalize_timedelta64: monomial  sign*n * 2^-k * C^-1  per duration *)
NondimTimedelta == /\ pc = "nondim"
                   /\ nd' = [lo |-> Lo, hi |-> Hi, sign |-> sign, e |-> -ScaleById[sid].k, a |-> -1]
                   /\ pc' = "dim" /\ UNCHANGED <<sid, blk, sign, path, back>>
(* specs.dimensionalize_timedelta64 of those values: seconds, atoms cancelled *)
DimTimedelta == /\ pc = "dim"
                /\ back' = [lo |-> nd.lo, hi |-> nd.hi, sign |-> nd.sign,
                            e |-> nd.e + ScaleById[sid].k, a |-> nd.a + 1]
                /\ pc' = "done" /\ UNCHANGED <<sid, blk, sign, path, nd>>
Next == NondimTimedelta \/ DimTimedelta
Spec == Init /\ [][Next]_vars

Done == pc = "done"
(* whole-second durations survive the round trip *)
RoundTrip == Done => /\ back.a = 0 /\ back.e = 0
                     /\ back.lo = Lo /\ back.hi = Hi /\ back.sign = sign
(* ... also when the conversions are evaluated number by number *)
RoundTripExact == Done => \A n \in Lo..Hi : n <= ExactMax => DimExact(NondimExact(n)) = sign * n
(* the conversion is linear: n seconds is n times one second *)
Linear == Done => \A n \in Lo..Hi : n <= ExactMax =>
            NondimExact(n) = RMul(R(sign * n), RDiv(One, T))

Export == Done =>
   PrintT(<<"CASE", ToJson([scale |-> ScaleById[sid], lo |-> Lo, hi |-> Hi, sign |-> sign,
                            path |-> path, nd |-> nd, back |-> back])>>)
=============================================================================
