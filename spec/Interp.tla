------------------------------- MODULE Interp -------------------------------
(* The one-dimensional interpolation routines of dinosaur/vertical_interpolation.py (and the
   semi-Lagrangian helper of primitive_equations.py) as a machine.

   A configuration is a strictly increasing integer node set xp (first node in Starts, gaps in
   1..MaxGap, 2..MaxNodes nodes), integer data fp on it, and the query lattice
   {q / QDen} reaching past the end of the second padded cell on both sides.  One action per
   public call evaluates the routine, computed the way the code computes it, on every query;
   the invariants are the clauses of the property and the equality with the declarative
   reference of InterpOps; terminal states are exported for replay against the library. *)
EXTENDS Integers, Sequences, FiniteSets, TLC, Json, InterpOps

CONSTANTS Shift,       \* cfg files cannot hold negative numbers: sets below are shifted by this
          Starts,      \* first node (+ Shift)
          MaxGap,      \* cell widths 1..MaxGap
          MaxNodes,    \* 2..MaxNodes nodes
          QDen,        \* queries on the lattice 1/QDen
          Margin,      \* lattice points beyond the second padded cell
          DataVals,    \* all data vectors over this set (+ Shift) are added for node sets ...
          AllDataMax   \* ... with at most this many nodes (0: none)

VARIABLES xp,    \* nodes (integers)
          fp,    \* data (integers)
          q,     \* query points (Rats), a function of xp fixed at Init
          pc,    \* "calls" | "done"
          todo,  \* routines still to call
          res    \* routine -> sequence of results, one per query
vars == <<xp, fp, q, pc, todo, res>>

-----------------------------------------------------------------------------
RECURSIVE GapSeqs(_)
GapSeqs(m) == IF m = 0 THEN {<<>>}
              ELSE UNION {{<<g>> \o s : s \in GapSeqs(m - 1)} : g \in 1..MaxGap}
RECURSIVE FromGaps(_, _)
FromGaps(x0, gs) == IF gs = <<>> THEN <<x0>> ELSE <<x0>> \o FromGaps(x0 + Head(gs), Tail(gs))
NodeSets == UNION {{FromGaps(x0, gs) : gs \in UNION {GapSeqs(m) : m \in 1..MaxNodes - 1}}
                   : x0 \in {s - Shift : s \in Starts}}

AffCoefs == {<<2, 0>>, <<1, 2>>, <<-3, -1>>}          \* a + b * x
DataFor(s) == LET n == Len(s) IN
     {[k \in 1..n |-> IF k = j THEN 1 ELSE 0] : j \in 1..n}                 \* a basis
     \cup {[k \in 1..n |-> c[1] + c[2] * s[k]] : c \in AffCoefs}            \* affine columns
     \cup {[k \in 1..n |-> (IF k % 2 = 0 THEN 1 ELSE -1) * (k + 1)]}        \* dense, alternating
     \cup (IF n <= AllDataMax THEN [1..n -> {v - Shift : v \in DataVals}] ELSE {})

N == Len(xp)
XP == [k \in 1..N |-> R(xp[k])]
FP == [k \in 1..N |-> R(fp[k])]
QueriesFor(s) == LET n == Len(s)
                     lo == QDen * (s[1] - 2 * (s[2] - s[1])) - Margin
                     hi == QDen * (s[n] + 2 * (s[n] - s[n - 1])) + Margin
                 IN  [j \in 1..(hi - lo + 1) |-> Norm(lo + j - 1, QDen)]
Q == q
NQ == Len(q)

Ops == <<"interp", "dot_interp", "vertical_interpolation", "sl_vertical_interp",
         "linear_extrap", "safe_extrap_1", "safe_extrap_2">>

-----------------------------------------------------------------------------
Init == /\ xp \in NodeSets
        /\ fp \in DataFor(xp)
        /\ q = QueriesFor(xp)
        /\ pc = "calls" /\ todo = Ops /\ res = [o \in {} |-> <<>>]

Turn(name) == pc = "calls" /\ todo # <<>> /\ Head(todo) = name
Record(name, t) == /\ res' = [o \in DOMAIN res \cup {name} |-> IF o = name THEN t ELSE res[o]]
                   /\ todo' = Tail(todo)
                   /\ pc' = IF Len(todo) = 1 THEN "done" ELSE "calls"
                   /\ UNCHANGED <<xp, fp, q>>

(* vertical_interpolation.interp on the default platform: jnp.interp *)
CallInterp == /\ Turn("interp")
              /\ Record("interp", [j \in 1..NQ |-> ConstInterp(XP, FP, Q[j])])
(* vertical_interpolation._dot_interp: what interp dispatches to on accelerators *)
CallDotInterp == /\ Turn("dot_interp")
                 /\ Record("dot_interp", [j \in 1..NQ |-> DotInterp(XP, FP, Q[j])])
(* vertical_interpolation.vertical_interpolation: interp behind a public name *)
CallVerticalInterpolation ==
  /\ Turn("vertical_interpolation")
  /\ Record("vertical_interpolation", [j \in 1..NQ |-> ConstInterp(XP, FP, Q[j])])
(* primitive_equations._vertical_interp: interp mapped over columns *)
CallSLVerticalInterp ==
  /\ Turn("sl_vertical_interp")
  /\ Record("sl_vertical_interp", [j \in 1..NQ |-> ConstInterp(XP, FP, Q[j])])
(* vertical_interpolation.linear_interp_with_linear_extrap *)
CallLinearExtrap == /\ Turn("linear_extrap")
                    /\ Record("linear_extrap", [j \in 1..NQ |-> LinearExtrap(XP, FP, Q[j])])
(* vertical_interpolation._linear_interp_with_safe_extrap(n = m) *)
SafeName(m) == IF m = 1 THEN "safe_extrap_1" ELSE "safe_extrap_2"
CallSafeExtrap(m) == /\ Turn(SafeName(m))
                     /\ Record(SafeName(m), [j \in 1..NQ |-> SafeExtrap(XP, FP, Q[j], m)])

Next == \/ CallInterp \/ CallDotInterp \/ CallVerticalInterpolation \/ CallSLVerticalInterp
        \/ CallLinearExtrap \/ CallSafeExtrap(1) \/ CallSafeExtrap(2)
Spec == Init /\ [][Next]_vars

-----------------------------------------------------------------------------
Done == pc = "done"
ConstOps == {"interp", "dot_interp", "vertical_interpolation", "sl_vertical_interp"}
AllOps == {Ops[i] : i \in 1..Len(Ops)}
SafeM(o) == IF o = "safe_extrap_1" THEN 1 ELSE 2
QIndexOf(x) == CHOOSE j \in 1..NQ : Q[j] = x

(* the accelerator (matrix) path and the default path define the same function *)
PathsAgree == Done => \A o \in ConstOps : res[o] = res["interp"]

(* the declarative interpolant is well defined: at a node both adjacent chords agree *)
RefWellDefined == Done => \A j \in 1..NQ : \A k1, k2 \in Segs(XP, Q[j]) :
    Chord(XP, FP, k1, Q[j]) = Chord(XP, FP, k2, Q[j])

(* every routine agrees with the reference piecewise-linear interpolant and its documented
   extrapolation rule, at every query *)
MatchesReference == Done => \A j \in 1..NQ :
    /\ \A o \in ConstOps : res[o][j] = RefConst(XP, FP, Q[j])
    /\ res["linear_extrap"][j] = RefLinear(XP, FP, Q[j])
    /\ res["safe_extrap_1"][j] = RefSafe(XP, FP, Q[j], 1)
    /\ res["safe_extrap_2"][j] = RefSafe(XP, FP, Q[j], 2)

(* source value at source coordinates *)
ValueAtNodes == Done => \A k \in 1..N : \A o \in AllOps : res[o][QIndexOf(XP[k])] = FP[k]

(* exact for affine data wherever the mode interpolates or extrapolates linearly *)
AffineExact == (Done /\ IsAffine(XP, FP)) => \A j \in 1..NQ :
    /\ res["linear_extrap"][j] = AffineAt(XP, FP, Q[j])
    /\ \A o \in {"safe_extrap_1", "safe_extrap_2"} :
          IsMissing(res[o][j]) \/ res[o][j] = AffineAt(XP, FP, Q[j])
    /\ InRange(XP, Q[j]) => \A o \in ConstOps : res[o][j] = AffineAt(XP, FP, Q[j])

(* inside the source range the result lies between the two neighbouring data values *)
BoundedInside == Done => \A j \in 1..NQ : InRange(XP, Q[j]) => \A o \in AllOps :
    LET i == Cell(XP, Q[j]) IN
    /\ ~IsMissing(res[o][j])
    /\ RLe(RMin(FP[i], FP[i + 1]), res[o][j]) /\ RLe(res[o][j], RMax(FP[i], FP[i + 1]))

(* outside the range: constant / unlimited linear / linear for m cells and missing beyond *)
ExtrapolationAsDocumented == Done => \A j \in 1..NQ :
    LET x == Q[j] IN
    /\ RLt(x, XP[1]) => \A o \in ConstOps : res[o][j] = FP[1]
    /\ RLt(XP[N], x) => \A o \in ConstOps : res[o][j] = FP[N]
    /\ ~IsMissing(res["linear_extrap"][j])
    /\ RLt(x, XP[1]) => res["linear_extrap"][j] = Chord(XP, FP, 1, x)
    /\ RLt(XP[N], x) => res["linear_extrap"][j] = Chord(XP, FP, N - 1, x)
    /\ \A o \in {"safe_extrap_1", "safe_extrap_2"} :
         /\ IsMissing(res[o][j]) <=> (RLt(x, SafeLo(XP, SafeM(o))) \/ RLt(SafeHi(XP, SafeM(o)), x))
         /\ ~IsMissing(res[o][j]) => res[o][j] = res["linear_extrap"][j]

(* anti-vacuity of the query lattice: every regime is visited *)
QueriesCoverAllRegimes == Done =>
    /\ \E j \in 1..NQ : RLt(Q[j], SafeLo(XP, 2))
    /\ \E j \in 1..NQ : RLt(SafeHi(XP, 2), Q[j])
    /\ \A k \in 1..N : \E j \in 1..NQ : Q[j] = XP[k]
    /\ \A m \in 1..2 : \E j, l \in 1..NQ : Q[j] = SafeLo(XP, m) /\ Q[l] = SafeHi(XP, m)

Export == Done =>
   PrintT(<<"CASE", ToJson([xp |-> xp, fp |-> fp, q |-> Q,
                            const |-> res["interp"], linear |-> res["linear_extrap"],
                            safe1 |-> res["safe_extrap_1"], safe2 |-> res["safe_extrap_2"]])>>)
=============================================================================
