----------------------------- MODULE CombNested -----------------------------
(* time_integration.nested_checkpoint_scan: reshape xs to nested_lengths, scan recursively,
   concatenate the stacked outputs of every level.  The recursion is modelled with an
   odometer (one counter per nesting level) and one output buffer per level, so that the
   reshape (row-major), the order in which xs are consumed and every concatenation are
   explicit steps.  The scanned function is the dyadic map
       f(c, x) = (2c + x,  c*x + 1)
   over the integers, so carries, outputs *and* derivatives are exact integers. *)
EXTENDS Integers, Sequences, TLC, Json, FiniteSets

CONSTANTS MaxLen, MaxDepth, MaxFactor

XS(n) == [i \in 1..n |-> ((i * 5) % 7) + 1]
(* a second scanned input with a trailing axis, and a per-step output that is a vector: the
   stacked output then has shape (length, 3) -- pytrees with heterogeneous leaves *)
XM(n) == [i \in 1..n |-> <<i, 10 + i>>]
VecOut(x, m) == <<x, m[1], m[2] + x>>
InitCarry == 1

RECURSIVE Prod(_)
Prod(s) == IF s = <<>> THEN 1 ELSE Head(s) * Prod(Tail(s))

LenSets == {s \in UNION {[1..d -> 1..MaxFactor] : d \in 1..MaxDepth} : Prod(s) <= MaxLen}

VARIABLES lens, idx, c, buf, vbuf, pc, lvl, result, vresult, consumed
vars == <<lens, idx, c, buf, vbuf, pc, lvl, result, vresult, consumed>>

D == Len(lens)
N == Prod(lens)

(* row-major flat position (0-based) of the odometer *)
RECURSIVE RowMajor(_, _, _)
RowMajor(ix, ls, d) == IF d = 0 THEN 0 ELSE RowMajor(ix, ls, d - 1) * ls[d] + ix[d]

RECURSIVE Concat(_)
Concat(chunks) == IF chunks = <<>> THEN <<>> ELSE Head(chunks) \o Concat(Tail(chunks))

Init == /\ lens \in LenSets
        /\ idx = [d \in 1..Len(lens) |-> 0]
        /\ c = InitCarry
        /\ buf = [d \in 1..Len(lens) |-> <<>>]
        /\ vbuf = [d \in 1..Len(lens) |-> <<>>]
        /\ pc = "run" /\ lvl = Len(lens) /\ result = <<>> /\ vresult = <<>> /\ consumed = <<>>

(* innermost scan body: (carry, y) = f(carry, x) *)
Apply == /\ pc = "run"
         /\ LET p == RowMajor(idx, lens, D) + 1
                x == XS(N)[p]
            IN  /\ c' = 2 * c + x
                /\ buf' = [buf EXCEPT ![D] = Append(@, c * x + 1)]
                /\ vbuf' = [vbuf EXCEPT ![D] = Append(@, VecOut(x, XM(N)[p]))]
                /\ consumed' = Append(consumed, p)
         /\ pc' = "ret" /\ lvl' = D
         /\ UNCHANGED <<lens, idx, result, vresult>>

(* one more iteration of the scan at level lvl *)
Iterate == /\ pc = "ret" /\ idx[lvl] + 1 < lens[lvl]
           /\ idx' = [idx EXCEPT ![lvl] = @ + 1]
           /\ pc' = "run"
           /\ UNCHANGED <<lens, c, buf, vbuf, lvl, result, vresult, consumed>>

(* the scan at level lvl is finished: return its stacked output to the enclosing level,
   concatenating when this level itself collected chunks from sub-scans *)
Return == /\ pc = "ret" /\ idx[lvl] + 1 = lens[lvl]
          /\ LET out == IF lvl = D THEN buf[lvl] ELSE Concat(buf[lvl])
                 vout == IF lvl = D THEN vbuf[lvl] ELSE Concat(vbuf[lvl])
             IN  IF lvl = 1
                 THEN /\ result' = out /\ vresult' = vout /\ pc' = "done"
                      /\ UNCHANGED <<idx, buf, vbuf, lvl>>
                 ELSE /\ buf' = [buf EXCEPT ![lvl] = <<>>, ![lvl - 1] = Append(@, out)]
                      /\ vbuf' = [vbuf EXCEPT ![lvl] = <<>>, ![lvl - 1] = Append(@, vout)]
                      /\ idx' = [idx EXCEPT ![lvl] = 0]
                      /\ lvl' = lvl - 1 /\ pc' = "ret"
                      /\ UNCHANGED <<result, vresult>>
          /\ UNCHANGED <<lens, c, consumed>>

Next == Apply \/ Iterate \/ Return
Spec == Init /\ [][Next]_vars

-----------------------------------------------------------------------------
(* The flat scan and its derivatives (reverse accumulation), the sequential definition. *)
RECURSIVE FlatCarry(_, _)
FlatCarry(xs, i) == IF i = 0 THEN InitCarry ELSE 2 * FlatCarry(xs, i - 1) + xs[i]
FlatOuts(xs) == [i \in 1..Len(xs) |-> FlatCarry(xs, i - 1) * xs[i] + 1]
(* loss = final carry + sum of outputs;  lam(i) = d loss / d c_i *)
RECURSIVE Lam(_, _)
Lam(xs, i) == IF i = Len(xs) THEN 1 ELSE 2 * Lam(xs, i + 1) + xs[i + 1]
GradInit(xs) == Lam(xs, 0)
GradXs(xs) == [i \in 1..Len(xs) |-> Lam(xs, i) + FlatCarry(xs, i - 1)]

NestedEqFlat == pc = "done" => /\ c = FlatCarry(XS(N), N)
                               /\ result = FlatOuts(XS(N))
                               /\ vresult = [i \in 1..N |-> VecOut(XS(N)[i], XM(N)[i])]
InOrder == \A i \in 1..Len(consumed) : consumed[i] = i
Export == pc = "done" =>
   PrintT(<<"CASE", ToJson([lens |-> lens, xs |-> XS(N), init |-> InitCarry, carry |-> c,
                            outs |-> result, xm |-> XM(N), vouts |-> vresult, ginit |-> GradInit(XS(N)),
                            gxs |-> GradXs(XS(N))])>>)
=============================================================================
