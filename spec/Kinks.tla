------------------------------- MODULE Kinks -------------------------------
(* C08: derivatives of the piecewise-linear primitives of the library, exactly.

   Everything in dinosaur that is not smooth is piecewise linear in the variable that has the kink:
     interp / _dot_interp (constant extrapolation), linear_interp_with_linear_extrap,
     _linear_interp_with_safe_extrap(n)         piecewise linear in the query x; linear in the data fp
     upwind_vertical_advection                  -(max(w,0) a + min(w,0) b), piecewise linear in w
     Held-Suarez equilibrium temperature        max(minT, Tstar)
   For a piecewise-linear function the derivative at a smooth point is the slope of the selected
   piece; at a kink any value between the two one-sided slopes is a legitimate (sub)derivative
   (automatic differentiation conventions differ), everything else - in particular NaN, or 0 where
   both one-sided slopes are non-zero of equal sign - is wrong.  The machine computes, for every
   configuration on an integer lattice, the closed interval [lo, hi] of admissible derivatives with
   respect to the query, and the exact weights (derivative with respect to the data, which is
   unique because the functions are linear in the data).  The replay compares jax.grad / jvp / vjp
   of the real functions with these. *)
EXTENDS Integers, Sequences, FiniteSets, TLC, Json, Exact

CONSTANTS MaxNodes, Span
DataVals == {-2, 0, 1, 3}

VARIABLES cfg, pc, res
vars == <<cfg, pc, res>>

RECURSIVE IncSeqs(_, _, _)
IncSeqs(n, lo, hi) == IF n = 0 THEN {<<>>}
                      ELSE UNION {{<<x>> \o s : s \in IncSeqs(n - 1, x + 1, hi)} : x \in lo..hi}
NodeSets == UNION {IncSeqs(n, 0, Span) : n \in 2..MaxNodes}
RECURSIVE DataSeqs(_)
DataSeqs(n) == IF n = 0 THEN {<<>>} ELSE {<<v>> \o s : v \in DataVals, s \in DataSeqs(n - 1)}
Modes == {"const", "linear", "safe1"}
(* queries on the half-integer lattice from two below to two above the range (doubled units) *)
Queries(xp) == (2 * xp[1] - 4)..(2 * xp[Len(xp)] + 4)

Init == /\ \/ (\E xp \in NodeSets : \E fp \in DataSeqs(Len(xp)) : \E q \in Queries(xp) : \E md \in Modes :
                 cfg = [kind |-> "interp", xp |-> xp, fp |-> fp, q2 |-> q, mode |-> md])
           \/ (\E w \in -1..1, a \in DataVals, b \in DataVals :
                 cfg = [kind |-> "upwind", w |-> w, a |-> a, b |-> b])
           \/ (\E t \in -1..1 : cfg = [kind |-> "cutoff", t |-> t])
        /\ pc = "new" /\ res = <<>>

(* ---- interpolation ---- *)
N == Len(cfg.xp)
X == <<cfg.q2, 2>>                                  \* the query as a Rat
Slope(i) == Norm(cfg.fp[i + 1] - cfg.fp[i], cfg.xp[i + 1] - cfg.xp[i])       \* segment i = [xp[i], xp[i+1]]
Below == cfg.q2 < 2 * cfg.xp[1]
Above == cfg.q2 > 2 * cfg.xp[N]
AtNode(i) == cfg.q2 = 2 * cfg.xp[i]
Seg == CHOOSE i \in 1..N - 1 : 2 * cfg.xp[i] <= cfg.q2 /\ cfg.q2 <= 2 * cfg.xp[i + 1]     \* some containing segment
(* one-sided slopes of the function at the query, per extrapolation mode; "nan" = missing value *)
CellLo == cfg.xp[2] - cfg.xp[1]
CellHi == cfg.xp[N] - cfg.xp[N - 1]
OutsideSlope(side) ==
   CASE cfg.mode = "const" -> Zero
     [] cfg.mode = "linear" -> IF side = "lo" THEN Slope(1) ELSE Slope(N - 1)
     [] cfg.mode = "safe1" -> IF side = "lo" THEN Slope(1) ELSE Slope(N - 1)
Missing == cfg.mode = "safe1" /\ (cfg.q2 < 2 * (cfg.xp[1] - CellLo) \/ cfg.q2 > 2 * (cfg.xp[N] + CellHi))
LeftSlope == IF Below THEN OutsideSlope("lo")
             ELSE IF Above THEN OutsideSlope("hi")
             ELSE IF AtNode(1) THEN OutsideSlope("lo")
             ELSE LET i == CHOOSE j \in 1..N - 1 : 2 * cfg.xp[j] < cfg.q2 /\ cfg.q2 <= 2 * cfg.xp[j + 1] IN Slope(i)
RightSlope == IF Below THEN OutsideSlope("lo")
              ELSE IF Above THEN OutsideSlope("hi")
              ELSE IF AtNode(N) THEN OutsideSlope("hi")
              ELSE LET i == CHOOSE j \in 1..N - 1 : 2 * cfg.xp[j] <= cfg.q2 /\ cfg.q2 < 2 * cfg.xp[j + 1] IN Slope(i)
(* weights: d value / d fp[i] *)
Clamp == IF Below THEN R(cfg.xp[1]) ELSE IF Above THEN R(cfg.xp[N]) ELSE X
Weight(i) ==
   IF (Below \/ Above) /\ cfg.mode # "const"
   THEN (* linear extrapolation from the end segment *)
        LET j == IF Below THEN 1 ELSE N - 1
            t == RDiv(RSub(X, R(cfg.xp[j])), R(cfg.xp[j + 1] - cfg.xp[j]))
        IN  IF i = j THEN RSub(One, t) ELSE IF i = j + 1 THEN t ELSE Zero
   ELSE LET j == IF Below THEN 1 ELSE IF Above THEN N - 1 ELSE Seg
            t == RDiv(RSub(Clamp, R(cfg.xp[j])), R(cfg.xp[j + 1] - cfg.xp[j]))
        IN  IF i = j THEN RSub(One, t) ELSE IF i = j + 1 THEN t ELSE Zero
Value == RSum([i \in 1..N |-> RMul(Weight(i), R(cfg.fp[i]))], 1, N)

(* derivative with respect to the *nodes* xp (the semi-Lagrangian vertical advection step
   differentiates through its departure points): defined where the query is at no node; with the
   active segment j, t = (x - xp[j]) / h, s = slope(j):  d/dxp[j] = -(1-t) s,  d/dxp[j+1] = -t s *)
NodeFree == \A i \in 1..N : ~AtNode(i)
DNode(i) ==
   IF (Below \/ Above) /\ cfg.mode = "const" THEN Zero
   ELSE LET j == IF Below THEN 1 ELSE IF Above THEN N - 1 ELSE Seg
            t == RDiv(RSub(X, R(cfg.xp[j])), R(cfg.xp[j + 1] - cfg.xp[j]))
        IN  IF i = j THEN RNeg(RMul(RSub(One, t), Slope(j)))
            ELSE IF i = j + 1 THEN RNeg(RMul(t, Slope(j))) ELSE Zero
Interp == /\ pc = "new" /\ cfg.kind = "interp"
          /\ res' = [missing |-> Missing, lo |-> RMin(LeftSlope, RightSlope), hi |-> RMax(LeftSlope, RightSlope),
                     kink |-> LeftSlope # RightSlope, w |-> [i \in 1..N |-> Weight(i)], value |-> Value,
                     dxp |-> IF NodeFree THEN [i \in 1..N |-> DNode(i)] ELSE <<>>]
          /\ pc' = "done" /\ UNCHANGED cfg
(* ---- upwind flux  F(w) = -(max(w, 0) a + min(w, 0) b) ---- *)
Upwind == /\ pc = "new" /\ cfg.kind = "upwind"
          /\ LET left == R(-cfg.b)      \* slope for w < 0
                 right == R(-cfg.a)     \* slope for w > 0
                 l == IF cfg.w < 0 THEN left ELSE IF cfg.w > 0 THEN right ELSE RMin(left, right)
                 h == IF cfg.w < 0 THEN left ELSE IF cfg.w > 0 THEN right ELSE RMax(left, right)
             IN  res' = [missing |-> FALSE, lo |-> l, hi |-> h, kink |-> cfg.w = 0 /\ cfg.a # cfg.b,
                         value |-> R(-((IF cfg.w > 0 THEN cfg.w ELSE 0) * cfg.a + (IF cfg.w < 0 THEN cfg.w ELSE 0) * cfg.b)),
                         da |-> R(-(IF cfg.w > 0 THEN cfg.w ELSE 0)), db |-> R(-(IF cfg.w < 0 THEN cfg.w ELSE 0))]
          /\ pc' = "done" /\ UNCHANGED cfg
(* ---- cut-off  max(0, t) ---- *)
Cutoff == /\ pc = "new" /\ cfg.kind = "cutoff"
          /\ res' = [missing |-> FALSE, lo |-> IF cfg.t > 0 THEN One ELSE Zero, hi |-> IF cfg.t >= 0 THEN One ELSE Zero,
                     kink |-> cfg.t = 0, value |-> R(IF cfg.t > 0 THEN cfg.t ELSE 0)]
          /\ pc' = "done" /\ UNCHANGED cfg
Next == Interp \/ Upwind \/ Cutoff
Spec == Init /\ [][Next]_vars
Done == pc = "done"

-----------------------------------------------------------------------------
IntervalOrdered == Done => RLe(res.lo, res.hi)
SmoothIsUnique == (Done /\ ~res.kink) => res.lo = res.hi
(* the weights sum to one and reproduce the value; the value at a node is the datum *)
WeightsConsistent == (Done /\ cfg.kind = "interp") =>
   /\ RSum(res.w, 1, N) = One
   /\ \A i \in 1..N : AtNode(i) => res.value = R(cfg.fp[i])
(* inside the range the derivative lies between the extreme segment slopes; constant
   extrapolation is flat outside *)
Bounded == (Done /\ cfg.kind = "interp") =>
   /\ \E i \in 1..N - 1 : RLe(Slope(i), res.hi) \/ res.hi = Zero
   /\ ((cfg.mode = "const" /\ (Below \/ Above)) => (res.lo = Zero /\ res.hi = Zero))
(* translating nodes and query together changes nothing: d/dx + sum_i d/dxp[i] = 0 *)
TranslationInvariant == (Done /\ cfg.kind = "interp" /\ res.dxp # <<>> /\ ~res.missing) =>
   RAdd(res.lo, RSum(res.dxp, 1, N)) = Zero
(* an upwind flux with equal one-sided data is smooth *)
UpwindSmoothWhenEqual == (Done /\ cfg.kind = "upwind" /\ cfg.a = cfg.b) => res.lo = res.hi
Export == Done => PrintT(<<"CASE", ToJson([cfg |-> cfg, res |-> res])>>)
=============================================================================
