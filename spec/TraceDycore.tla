---------------------------- MODULE TraceDycore ----------------------------
(* Trace validation of whole model runs (C11).  The harness wraps explicit_terms, implicit_terms,
   implicit_inverse, every step filter and the step function of real runs (every integrator x
   filter stack x equation class x layout) and logs one event per call with the *projection*
   of its argument (i) and result (o) onto the structural state of Dycore.tla, plus relations
   between the two (rel).  Every event must satisfy the contract of its action, the input of
   step n+1 must be the output of step n, and the clock must have advanced by exactly one step
   per step.  Projection tokens are computed by harness/c11.py (exact for structural zeros,
   1e-10 relative for means and clock). *)
EXTENDS Integers, Sequences, TLC, Json, IOUtils

Traces == JsonDeserialize(IOEnv.TRACE_FILE)

VARIABLES t, l, steps, last
vars == <<t, l, steps, last>>

Ev == Traces[t].ev
Init == t \in 1..Len(Traces) /\ l = 1 /\ steps = 0 /\ last = Traces[t].init

Support(e) == (e.o.top => e.i.top) /\ (e.o.outside => e.i.outside)
(* explicit_terms: clipped, inside the truncation, zero-mean vorticity/divergence tendencies
   (and zero-mean thickness tendency when the divergence mean is zero), clock rate 1, uniform
   tracers are not advected (given a clipped state) *)
OkF(e) == /\ ~e.o.top /\ ~e.o.outside
          /\ e.o.vmean_zero /\ e.o.dmean_zero
          /\ (e.i.dmean_zero => e.o.hmean_zero)
          /\ ((e.i.tu /\ ~e.i.top) => e.o.tzero)
          /\ e.o.clock \in {"one", "none"}
(* implicit_terms: support preserved, no vorticity / tracer / clock tendency, zero-mean divergence *)
OkG(e) == /\ Support(e) /\ e.o.vzero /\ e.o.tzero /\ e.o.dmean_zero
          /\ e.o.clock \in {"zero", "none"}
(* implicit_inverse: support preserved; vorticity, tracers and clock returned unchanged; the
   divergence mean is unchanged *)
OkGinv(e) == /\ Support(e) /\ e.rel.vor_same /\ e.rel.tracers_same /\ e.rel.clock_same
             /\ e.rel.dmean_same /\ e.rel.hmean_same_if_dmean_zero
(* filters: zero stays zero, means untouched, clock untouched, uniform stays uniform *)
OkFilter(e) == /\ Support(e) /\ e.rel.vmean_same /\ e.rel.dmean_same /\ e.rel.hmean_same
               /\ e.rel.clock_same /\ (e.i.tu => e.o.tu)
(* a whole step *)
OkStep(e) == /\ ((~e.i.top /\ ~e.i.outside) => (~e.o.top /\ ~e.o.outside))
             /\ e.rel.vmean_same /\ e.rel.dmean_same /\ (e.i.dmean_zero => e.rel.hmean_same)
             /\ ((e.i.tu /\ ~e.i.top) => e.o.tu)
             /\ e.rel.clock_delta \in {"one", "none"}
             /\ e.i = last                              \* continues where the last step ended

Consume == /\ l <= Len(Ev)
           /\ LET e == Ev[l] IN
              /\ CASE e.k = "F" -> OkF(e) [] e.k = "G" -> OkG(e) [] e.k = "Ginv" -> OkGinv(e)
                   [] e.k = "Filter" -> OkFilter(e) [] e.k = "Step" -> OkStep(e)
              /\ steps' = IF e.k = "Step" THEN steps + 1 ELSE steps
              /\ last' = IF e.k = "Step" THEN e.o ELSE last
           /\ l' = l + 1 /\ UNCHANGED t
Spec == Init /\ [][Consume]_vars

Accepted == /\ l = Len(Ev) + 1 /\ steps = Traces[t].steps
            /\ Traces[t].final_clock \in {"steps", "none"}
            /\ ~last.top /\ ~last.outside
Report == Accepted => PrintT(<<"TRACEOK", ToJson(t)>>)
(* diagnosis of a rejected trace: the furthest event reached *)
Position == PrintT(<<"TRACEBAD", ToJson(l)>>)
=============================================================================
