----------------------------- MODULE SpherePoly -----------------------------
(* Exact calculus of polynomial fields on the sphere |r| = 1, r = (x, y, z) with
   x = cos(lat) cos(lon), y = cos(lat) sin(lon), z = sin(lat).

   A field is the restriction of a polynomial in (x, y, z) with rational coefficients; it is kept
   in the normal form obtained by substituting z^2 = 1 - x^2 - y^2 (z-degree <= 1), as a function
   from the monomials <<i, j, k>> that occur to their non-zero coefficients.  Spherical harmonics
   of degree l are exactly the harmonic homogeneous polynomials of degree l, so every
   band-limited field is of this form, products of fields are again polynomials (no Gaunt
   coefficients needed), and all horizontal operators of the continuous equations are polynomial
   maps when written tangentially:

     Lap(f)    = div grad f on the sphere        = Delta f - E(E f) - E f,      E = r . grad
     Dot(f, g) = grad_s f . grad_s g             = grad f . grad g - (E f)(E g)
     Jac(f, g) = r . (grad f x grad g)

   (each is independent of the polynomial chosen to represent f off the sphere).  With the velocity
   u = grad_s chi + r x grad_s psi :   u . grad f = Dot(chi, f) + Jac(psi, f),
   div(f u) = u . grad f + f Lap(chi),   curl_r(f u) = f Lap(psi) + Jac(f, chi) + Dot(f, psi),
   |u|^2 / 2 = (Dot(chi, chi) + Dot(psi, psi)) / 2 + Jac(psi, chi). *)
EXTENDS Integers, Sequences, FiniteSets, Exact

PZero == [m \in {} |-> Zero]
PTerm(m, c) == IF c = Zero THEN PZero ELSE [x \in {m} |-> c]
PConst(c) == PTerm(<<0, 0, 0>>, c)
Coef(p, m) == IF m \in DOMAIN p THEN p[m] ELSE Zero
PClean(p) == [m \in {x \in DOMAIN p : p[x] # Zero} |-> p[m]]
PAdd(p, q) == PClean([m \in (DOMAIN p) \cup (DOMAIN q) |-> RAdd(Coef(p, m), Coef(q, m))])
PScale(c, p) == IF c = Zero THEN PZero ELSE [m \in DOMAIN p |-> RMul(c, p[m])]
PNeg(p) == PScale(<<-1, 1>>, p)
PSub(p, q) == PAdd(p, PNeg(q))

(* x^i y^j z^k in normal form *)
RECURSIVE Red(_)
Red(m) == IF m[3] <= 1 THEN PTerm(m, One)
          ELSE PAdd(Red(<<m[1], m[2], m[3] - 2>>),
                    PAdd(PNeg(Red(<<m[1] + 2, m[2], m[3] - 2>>)), PNeg(Red(<<m[1], m[2] + 2, m[3] - 2>>))))
MonMul(a, b) == <<a[1] + b[1], a[2] + b[2], a[3] + b[3]>>
PMul(p, q) ==
  LET RECURSIVE Sum(_)
      Sum(T) == IF T = {} THEN PZero
                ELSE LET t == CHOOSE x \in T : TRUE
                     IN  PAdd(PScale(RMul(p[t[1]], q[t[2]]), Red(MonMul(t[1], t[2]))), Sum(T \ {t}))
  IN  Sum((DOMAIN p) \X (DOMAIN q))

(* ambient partial derivative with respect to coordinate v in 1..3 (of the chosen representative) *)
Dec(m, v) == [i \in 1..3 |-> IF i = v THEN m[i] - 1 ELSE m[i]]
Inc(m, v) == [i \in 1..3 |-> IF i = v THEN m[i] + 1 ELSE m[i]]
PD(p, v) == [m \in {Dec(x, v) : x \in {y \in DOMAIN p : y[v] >= 1}} |-> RMul(R(m[v] + 1), p[Inc(m, v)])]
Deg(m) == m[1] + m[2] + m[3]
PE(p) == [m \in {x \in DOMAIN p : Deg(x) >= 1} |-> RMul(R(Deg(m)), p[m])]            \* r . grad
PX == PTerm(<<1, 0, 0>>, One)
PY == PTerm(<<0, 1, 0>>, One)
PZ == PTerm(<<0, 0, 1>>, One)

(* normal form of a result that may contain z^2 after differentiation of products: every
   operator below multiplies through PMul / Red, so results are already reduced *)
Lap(f) == LET d2 == PAdd(PD(PD(f, 1), 1), PAdd(PD(PD(f, 2), 2), PD(PD(f, 3), 3)))
          IN  PSub(d2, PAdd(PE(PE(f)), PE(f)))
Dot(f, g) == PSub(PAdd(PMul(PD(f, 1), PD(g, 1)), PAdd(PMul(PD(f, 2), PD(g, 2)), PMul(PD(f, 3), PD(g, 3)))),
                  PMul(PE(f), PE(g)))
Jac(f, g) == LET fx == PD(f, 1)  fy == PD(f, 2)  fz == PD(f, 3)
                 gx == PD(g, 1)  gy == PD(g, 2)  gz == PD(g, 3)
             IN  PAdd(PMul(PX, PSub(PMul(fy, gz), PMul(fz, gy))),
                      PAdd(PMul(PY, PSub(PMul(fz, gx), PMul(fx, gz))),
                           PMul(PZ, PSub(PMul(fx, gy), PMul(fy, gx)))))
Advect(psi, chi, f) == PAdd(Dot(chi, f), Jac(psi, f))                         \* u . grad f
DivFlux(psi, chi, f) == PAdd(Advect(psi, chi, f), PMul(f, Lap(chi)))          \* div(f u)
CurlFlux(psi, chi, f) == PAdd(PMul(f, Lap(psi)), PAdd(Jac(f, chi), Dot(f, psi)))   \* r . curl(f u)
Kinetic(psi, chi) == PAdd(PScale(<<1, 2>>, PAdd(Dot(chi, chi), Dot(psi, psi))), Jac(psi, chi))

(* the global mean of a polynomial field.  In normal form (z-degree <= 1) only even powers of x and y with
   z-degree 0 contribute; the mean of x^(2p) y^(2q) over the unit sphere is (2p-1)!! (2q-1)!! / (2p+2q+1)!! *)
RECURSIVE DFact(_)
DFact(n) == IF n <= 0 THEN 1 ELSE n * DFact(n - 2)
MeanMon(m) == IF m[3] # 0 \/ m[1] % 2 = 1 \/ m[2] % 2 = 1 THEN Zero
              ELSE Norm(DFact(m[1] - 1) * DFact(m[2] - 1), DFact(m[1] + m[2] + 1))
RECURSIVE MeanOver(_, _)
MeanOver(p, SS) == IF SS = {} THEN Zero
                   ELSE LET m == CHOOSE x \in SS : TRUE IN RAdd(RMul(p[m], MeanMon(m)), MeanOver(p, SS \ {m}))
Mean(p) == MeanOver(p, DOMAIN p)

(* a basis of real spherical harmonics (not normalised) of degree <= 3 *)
Harmonics == [z |-> PZ, x |-> PX, y |-> PY,
              xy |-> PTerm(<<1, 1, 0>>, One), xz |-> PTerm(<<1, 0, 1>>, One), yz |-> PTerm(<<0, 1, 1>>, One),
              x2y2 |-> PAdd(PTerm(<<2, 0, 0>>, One), PTerm(<<0, 2, 0>>, <<-1, 1>>)),
              z20 |-> PAdd(PConst(<<2, 1>>), PAdd(PTerm(<<2, 0, 0>>, <<-3, 1>>), PTerm(<<0, 2, 0>>, <<-3, 1>>))),   \* 3z^2 - 1
              xyz |-> PTerm(<<1, 1, 1>>, One)]
HarmonicDegree == [z |-> 1, x |-> 1, y |-> 1, xy |-> 2, xz |-> 2, yz |-> 2, x2y2 |-> 2, z20 |-> 2, xyz |-> 3]

(* export: a sequence of <<i, j, k, n, d>> *)
RECURSIVE TermsOf(_, _)
TermsOf(p, S) == IF S = {} THEN <<>>
                 ELSE LET m == CHOOSE x \in S : TRUE
                      IN  <<<<m[1], m[2], m[3], p[m][1], p[m][2]>>>> \o TermsOf(p, S \ {m})
PJson(p) == TermsOf(p, DOMAIN p)
=============================================================================
