----------------------------- MODULE Collectives -----------------------------
(* The ring collectives of jax_numpy_utils.py on one mesh axis of n devices, one action per
   communication / accumulation step, as the code performs them.

   all-gather matmul (_allgather_matmul_twoway): device d holds rhs chunk d and the lhs row
   block it owns, split into n chunks along the reduced axis.  It needs every product
   (lhs chunk c) x (rhs chunk c).  The rhs chunks travel both ways round the ring; the lhs chunk
   is selected by index arithmetic.
   reduce-scatter matmul (_matmul_reducescatter_twoway): device d multiplies its rhs chunk with
   every lhs chunk; partial results for output chunk c travel round the ring in two accumulators
   and must end on device c having collected one contribution from every device.
   parallel prefix sum (_parallel_dot_cumsum): local cumulative sums plus the totals of all
   preceding (following, in reverse) devices.

   State is symbolic: which chunk ids / contributions each device holds. *)
EXTENDS Integers, Sequences, FiniteSets, TLC, Json, Bags

CONSTANTS Sizes      \* axis sizes to explore

VARIABLES n, alg, round, fwd, bwd, acc, accF, accB, pc
vars == <<n, alg, round, fwd, bwd, acc, accF, accB, pc>>

Dev == 0..n - 1
Mod(x) == ((x % n) + n) % n

Init == /\ n \in Sizes /\ alg \in {"allgather", "reducescatter", "prefixsum"}
        /\ round = 0 /\ pc = "start"
        /\ fwd = <<>> /\ bwd = <<>> /\ acc = <<>> /\ accF = <<>> /\ accB = <<>>

(* ---- all-gather ------------------------------------------------------------------------ *)
(* rhs_fwd = rhs; rhs_bwd = ppermute(rhs, perm_bwd)  [j -> j-1: d receives from d+1];
   accum = lhs[d - 0] x rhs_fwd + lhs[d + 0 + 1] x rhs_bwd *)
AGStart == /\ alg = "allgather" /\ pc = "start" /\ n > 1
           /\ fwd' = [d \in Dev |-> d]
           /\ bwd' = [d \in Dev |-> Mod(d + 1)]
           /\ acc' = [d \in Dev |-> << <<Mod(d), d>>, <<Mod(d + 1), Mod(d + 1)>> >>]   \* (lhs chunk, rhs chunk)
           /\ round' = 1 /\ pc' = "loop"
           /\ UNCHANGED <<n, alg, accF, accB>>
(* loop body i: rhs_fwd <- from d-1; rhs_bwd <- from d+1; accum += lhs[d-i] x fwd + lhs[d+i+1] x bwd *)
AGRound == /\ alg = "allgather" /\ pc = "loop" /\ round < n \div 2
           /\ LET f2 == [d \in Dev |-> fwd[Mod(d - 1)]]
                  b2 == [d \in Dev |-> bwd[Mod(d + 1)]]
              IN  /\ fwd' = f2 /\ bwd' = b2
                  /\ acc' = [d \in Dev |-> acc[d] \o << <<Mod(d - round), f2[d]>>, <<Mod(d + round + 1), b2[d]>> >>]
           /\ round' = round + 1
           /\ UNCHANGED <<n, alg, accF, accB, pc>>
AGDone == /\ alg = "allgather" /\ pc = "loop" /\ round >= n \div 2 /\ pc' = "done"
          /\ UNCHANGED <<n, alg, round, fwd, bwd, acc, accF, accB>>
(* a single device multiplies everything locally *)
Single == /\ pc = "start" /\ n = 1 /\ alg # "prefixsum"
          /\ acc' = [d \in Dev |-> << <<0, 0>> >>] /\ accF' = [d \in Dev |-> [chunk |-> 0, src |-> {0}]]
          /\ accB' = [d \in Dev |-> [chunk |-> 0, src |-> {}]]
          /\ pc' = "done" /\ UNCHANGED <<n, alg, round, fwd, bwd>>

(* ---- reduce-scatter --------------------------------------------------------------------- *)
Chunk(d, i) == Mod(d + n \div 2 + i)
RSStart == /\ alg = "reducescatter" /\ pc = "start" /\ n > 1
           /\ accF' = [d \in Dev |-> [chunk |-> Chunk(d, 0), src |-> {d}]]
           /\ accB' = [d \in Dev |-> [chunk |-> Chunk(d, 1), src |-> {d}]]
           /\ round' = 1 /\ pc' = "loop" /\ UNCHANGED <<n, alg, fwd, bwd, acc>>
(* loop body i: accum_fwd <- from d-1, += computation(-i); accum_bwd <- from d+1, += computation(i+1).
   A partial sum may only be added to a partial sum for the same output chunk. *)
RSRound == /\ alg = "reducescatter" /\ pc = "loop" /\ round < n \div 2
           /\ accF' = [d \in Dev |-> [chunk |-> accF[Mod(d - 1)].chunk,
                                      src |-> accF[Mod(d - 1)].src \cup {d},
                                      ok |-> accF[Mod(d - 1)].chunk = Chunk(d, -round)]]
           /\ accB' = [d \in Dev |-> [chunk |-> accB[Mod(d + 1)].chunk,
                                      src |-> accB[Mod(d + 1)].src \cup {d},
                                      ok |-> accB[Mod(d + 1)].chunk = Chunk(d, round + 1)]]
           /\ round' = round + 1 /\ UNCHANGED <<n, alg, fwd, bwd, acc, pc>>
(* accum_fwd = ppermute(accum_fwd, perm_fwd); accum = accum_fwd + accum_bwd *)
RSFinal == /\ alg = "reducescatter" /\ pc = "loop" /\ round >= n \div 2
           /\ accF' = [d \in Dev |-> accF[Mod(d - 1)]]
           /\ pc' = "done" /\ UNCHANGED <<n, alg, round, fwd, bwd, acc, accB>>

(* ---- prefix sum: device d holds local partial sums; adds the totals of devices before it --- *)
PSAll == /\ alg = "prefixsum" /\ pc = "start"
         /\ acc' = [d \in Dev |-> [fwdsrc |-> {i \in Dev : i < d} \cup {d}, revsrc |-> {i \in Dev : i > d} \cup {d}]]
         /\ pc' = "done" /\ UNCHANGED <<n, alg, round, fwd, bwd, accF, accB>>

Next == AGStart \/ AGRound \/ AGDone \/ Single \/ RSStart \/ RSRound \/ RSFinal \/ PSAll
Spec == Init /\ [][Next]_vars

-----------------------------------------------------------------------------
Done == pc = "done"
SeqToBag(s) == [x \in {s[i] : i \in 1..Len(s)} |-> Cardinality({i \in 1..Len(s) : s[i] = x})]
(* every product pairs an lhs chunk with the rhs chunk of the same index ... *)
AGAligned == (alg = "allgather" /\ acc # <<>>) =>
   \A d \in Dev : \A i \in 1..Len(acc[d]) : acc[d][i][1] = acc[d][i][2]
(* ... and at the end every device has formed each of the n products exactly once *)
AGComplete == (Done /\ alg = "allgather") =>
   \A d \in Dev : SeqToBag(acc[d]) = [p \in {<<c, c>> : c \in Dev} |-> 1]
(* partial sums only ever meet partial sums of the same output chunk *)
RSAligned == (alg = "reducescatter" /\ pc = "loop" /\ round > 1) =>
   \A d \in Dev : accF[d].ok /\ accB[d].ok
(* device d ends with output chunk d, one contribution from every device, none twice *)
RSComplete == (Done /\ alg = "reducescatter") =>
   \A d \in Dev : /\ accF[d].chunk = d /\ accB[d].chunk = d
                  /\ accF[d].src \cup accB[d].src = Dev
                  /\ accF[d].src \cap accB[d].src = {}
PSComplete == (Done /\ alg = "prefixsum") =>
   \A d \in Dev : acc[d].fwdsrc = 0..d /\ acc[d].revsrc = d..n - 1
Export == Done => PrintT(<<"CASE", ToJson([n |-> n, alg |-> alg,
   pairs |-> IF alg = "allgather" THEN acc ELSE <<>>,
   rounds |-> round])>>)
=============================================================================
