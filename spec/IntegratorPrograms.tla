------------------------- MODULE IntegratorPrograms -------------------------
(* Constant-level part of Integrators.tla: the coefficient sets and the stage programs
   generated from them the way the Python loops generate the calls. *)
EXTENDS Integers, Sequences, FiniteSets, Exact

(* coefficient sets, as the factories in the code define them *)
RK3 == [alphas |-> <<Zero, <<1, 3>>, <<3, 4>>, One>>,
        betas  |-> <<Zero, <<-5, 9>>, <<-153, 128>> >>,
        gammas |-> << <<1, 3>>, <<15, 16>>, <<8, 15>> >>]
SIL3 == [a_ex |-> << << <<1, 3>> >>, << <<1, 6>>, <<1, 2>> >>, << <<1, 2>>, <<-1, 2>>, One >> >>,
         a_im |-> << << <<1, 6>>, <<1, 6>> >>, << <<1, 3>>, Zero, <<1, 3>> >>,
                     << <<3, 8>>, Zero, <<3, 8>>, <<1, 4>> >> >>,
         b_ex |-> << <<1, 2>>, <<-1, 2>>, One, Zero >>,
         b_im |-> << <<3, 8>>, Zero, <<3, 8>>, <<1, 4>> >>]

Term(c, r, p) == [c |-> c, r |-> r, dt |-> p]
IF_(dst, src) == [op |-> "F", dst |-> dst, src |-> src]
IG_(dst, src) == [op |-> "G", dst |-> dst, src |-> src]
IGinv(dst, src, eta) == [op |-> "Ginv", dst |-> dst, src |-> src, eta |-> eta]
ILin(dst, terms) == [op |-> "Lin", dst |-> dst, terms |-> terms]

(* backward_forward_euler:  g = u0 + dt F(u0);  u1 = G_inv(g, dt) *)
ProgEuler == << IF_("t", "u"), ILin("v", <<Term(One, "u", 0), Term(One, "t", 1)>>),
                IGinv("out", "v", One) >>

(* crank_nicolson_rk2 *)
ProgCNRK2 == << IG_("gg", "u"), ILin("g", <<Term(One, "u", 0), Term(<<1, 2>>, "gg", 1)>>),
                IF_("h1", "u"),
                ILin("v1", <<Term(One, "g", 0), Term(One, "h1", 1)>>),
                IGinv("u1", "v1", <<1, 2>>),
                IF_("t", "u1"), ILin("h2", <<Term(<<1, 2>>, "t", 0), Term(<<1, 2>>, "h1", 0)>>),
                ILin("v2", <<Term(One, "g", 0), Term(One, "h2", 1)>>),
                IGinv("out", "v2", <<1, 2>>) >>

(* low_storage_runge_kutta_crank_nicolson:
     for k: h = F(u) + beta[k] h;  mu = dt/2 (alpha[k+1]-alpha[k]);
            u = G_inv(u + gamma[k] dt h + mu G(u), mu)            (h starts as 0) *)
RECURSIVE LowStorageFrom(_, _)
LowStorageFrom(cs, k) ==
  IF k > Len(cs.betas) THEN <<>>
  ELSE LET mu == RMul(<<1, 2>>, RSub(cs.alphas[k + 1], cs.alphas[k]))
           last == k = Len(cs.betas)
       IN  << IF_("t", "u"),
              ILin("h", <<Term(One, "t", 0), Term(cs.betas[k], "h", 0)>>),
              IG_("g", "u"),
              ILin("v", <<Term(One, "u", 0), Term(cs.gammas[k], "h", 1), Term(mu, "g", 1)>>),
              IGinv(IF last THEN "out" ELSE "u", "v", mu) >>
           \o LowStorageFrom(cs, k + 1)
ProgLowStorage(cs) == LowStorageFrom(cs, 1)

(* imex_runge_kutta: f[0] = F(y0); g[0] = G(y0);
     for i in 1..n-1: Y* = y0 + dt sum_j a_ex[i-1][j] f[j] + dt sum_j a_im[i-1][j] g[j]  (non-zero only)
                      Y = G_inv(Y*, dt a_im[i-1][i])
                      f[i] = F(Y) if used later; g[i] = G(Y) if used later
     y_next = y0 + dt sum b_ex f + dt sum b_im g                         (0-based as in the code) *)
FReg(i) == <<"f0", "f1", "f2", "f3", "f4">>[i + 1]
GReg(i) == <<"g0", "g1", "g2", "g3", "g4">>[i + 1]
YStar(i) == <<"ystar0", "ystar1", "ystar2", "ystar3", "ystar4">>[i + 1]
YReg(i) == <<"Y0", "Y1", "Y2", "Y3", "Y4">>[i + 1]
NonZeroTerms(coefs, mk(_), n) ==      \* terms c[j] * dt * mk(j-1) for j in 1..n with c[j] # 0
  LET idx == SelectSeq([j \in 1..n |-> j], LAMBDA j : coefs[j] # Zero)
  IN  [q \in 1..Len(idx) |-> Term(coefs[idx[q]], mk(idx[q] - 1), 1)]
UsedLater(a, b, i, n) ==              \* any(a[j][i] for j in range(i, n-1)) or b[i]   (0-based i)
  \/ \E j \in i..(n - 2) : a[j + 1][i + 1] # Zero
  \/ b[i + 1] # Zero
RECURSIVE ImexFrom(_, _)
ImexFrom(tb, i) ==
  LET n == Len(tb.b_ex) IN
  IF i > n - 1 THEN <<>>
  ELSE << ILin(YStar(i), <<Term(One, "u", 0)>> \o NonZeroTerms(tb.a_ex[i], FReg, i)
                                                    \o NonZeroTerms(tb.a_im[i], GReg, i)),
          IGinv(YReg(i), YStar(i), tb.a_im[i][i + 1]) >>
       \o (IF UsedLater(tb.a_ex, tb.b_ex, i, n) THEN <<IF_(FReg(i), YReg(i))>> ELSE <<>>)
       \o (IF UsedLater(tb.a_im, tb.b_im, i, n) THEN <<IG_(GReg(i), YReg(i))>> ELSE <<>>)
       \o ImexFrom(tb, i + 1)
ProgImex(tb) ==
  LET n == Len(tb.b_ex) IN
  << IF_(FReg(0), "u"), IG_(GReg(0), "u") >> \o ImexFrom(tb, 1)
  \o << ILin("out", <<Term(One, "u", 0)>> \o NonZeroTerms(tb.b_ex, FReg, n)
                                          \o NonZeroTerms(tb.b_im, GReg, n)) >>

(* semi_implicit_leapfrog: state (previous, current);
     future = G_inv(previous + 2 dt (F(current) + (1-alpha) G(previous)), 2 dt alpha) *)
ProgLeapfrog(alpha) ==
  << IF_("e", "cur"), IG_("i", "prev"),
     ILin("mid", <<Term(One, "prev", 0), Term(<<2, 1>>, "e", 1),
                   Term(RMul(<<2, 1>>, RSub(One, alpha)), "i", 1)>>),
     IGinv("out", "mid", RMul(<<2, 1>>, alpha)) >>

Integrators == {"euler", "cnrk2", "rk3", "sil3", "leapfrog"}
LeapfrogAlphas == {<<1, 2>>, <<3, 4>>, One}
Program(ig, alpha) == CASE ig = "euler" -> ProgEuler [] ig = "cnrk2" -> ProgCNRK2
                        [] ig = "rk3" -> ProgLowStorage(RK3) [] ig = "sil3" -> ProgImex(SIL3)
                        [] ig = "leapfrog" -> ProgLeapfrog(alpha)

CallsOf(prog) == SelectSeq(prog, LAMBDA ins : ins.op # "Lin")
=============================================================================
