---------------------------- MODULE ImexTableaux ----------------------------
(* imex_runge_kutta for *user supplied* tableaux.  The property quantifies over "all
   integrators and tableaux"; the built-in SIL3 tableau exercises only one sparsity pattern
   of the generic driver, whose loop skips the evaluation of stage tendencies that no later
   stage and no final weight uses.  This machine runs the driver's stage program
   (IntegratorPrograms!ProgImex, generated the way the Python loop generates the calls) for
   every zero/non-zero pattern of a 2- and 3-stage tableau (each position, when present,
   carries its own distinct rational so that an index mix-up changes the result) on the linear
   test problem over complex rationals, next to the *textbook* IMEX Runge-Kutta step in
   which every stage tendency is evaluated and every coefficient enters:

       Y_0 = y,  Y_i = (y + dt sum_{j<i} aex[i][j] F(Y_j) + dt sum_{j<i} aim[i][j] G(Y_j))
                       / (1 - dt aim[i][i] mu)
       y+ = y + dt sum_j bex[j] F(Y_j) + dt sum_j bim[j] G(Y_j)

   SkipTransparent: the program with skipping computes exactly the textbook value.
   Named tableaux (Heun-3, the Euler pair ARS(1,1,1), the implicit-explicit midpoint rule and a
   3-stage stiffly accurate DIRK pair) additionally carry their stability functions. *)
EXTENDS Integers, Sequences, FiniteSets, TLC, Json, Exact, IntegratorPrograms

CONSTANTS Ns,         \* set of stage counts n = len(b_ex)
          SplitFrom   \* for n >= SplitFrom only the explicit and the implicit half vary independently

CZero == <<Zero, Zero>>
COne == <<One, Zero>>
CAdd(a, b) == <<RAdd(a[1], b[1]), RAdd(a[2], b[2])>>
CMul(a, b) == <<RSub(RMul(a[1], b[1]), RMul(a[2], b[2])), RAdd(RMul(a[1], b[2]), RMul(a[2], b[1]))>>
CScale(q, a) == <<RMul(q, a[1]), RMul(q, a[2])>>
CInv(a) == LET n2 == RAdd(RMul(a[1], a[1]), RMul(a[2], a[2]))
           IN  <<RDiv(a[1], n2), RNeg(RDiv(a[2], n2))>>

-----------------------------------------------------------------------------
(* positions of an n-stage tableau in the library's layout: a_ex has n-1 rows, row i (1-based)
   of length i; a_im row i has length i+1 (the last entry is the diagonal); b_* have length n *)
Pos(n) == {<<"ae", i, j>> : i \in 1..(n - 1), j \in 1..(n - 1)} \cup
          {<<"ai", i, j>> : i \in 1..(n - 1), j \in 1..n} \cup
          {<<"be", 0, j>> : j \in 1..n} \cup {<<"bi", 0, j>> : j \in 1..n}
Valid(n) == {p \in Pos(n) : (p[1] = "ae" => p[3] <= p[2]) /\ (p[1] = "ai" => p[3] <= p[2] + 1)}

(* the value a position carries when present: all distinct *)
Val(p) == CASE p[1] = "ae" -> Norm(p[3], p[2] + p[3] + 1)        \* 1/3 ; 1/4 2/5 ; ...
            [] p[1] = "ai" -> Norm(1, 2 * (p[2] + p[3]))          \* 1/4 1/6 ; 1/6 1/8 1/10
            [] p[1] = "be" -> Norm(p[3], 4)                        \* 1/4 1/2 3/4
            [] p[1] = "bi" -> Norm(1, p[3] + 4)                    \* 1/5 1/6 1/7
Coef(S, p) == IF p \in S THEN Val(p) ELSE Zero
Tableau(n, S) ==
  [a_ex |-> [i \in 1..(n - 1) |-> [j \in 1..i |-> Coef(S, <<"ae", i, j>>)]],
   a_im |-> [i \in 1..(n - 1) |-> [j \in 1..(i + 1) |-> Coef(S, <<"ai", i, j>>)]],
   b_ex |-> [j \in 1..n |-> Coef(S, <<"be", 0, j>>)],
   b_im |-> [j \in 1..n |-> Coef(S, <<"bi", 0, j>>)]]

Named ==
  [heun3 |-> [a_ex |-> << << <<1, 3>> >>, << Zero, <<2, 3>> >> >>,
              a_im |-> << <<Zero, Zero>>, <<Zero, Zero, Zero>> >>,
              b_ex |-> << <<1, 4>>, Zero, <<3, 4>> >>, b_im |-> <<Zero, Zero, Zero>>],
   ars111 |-> [a_ex |-> << <<One>> >>, a_im |-> << <<Zero, One>> >>,
               b_ex |-> <<One, Zero>>, b_im |-> <<Zero, One>>],
   midpoint |-> [a_ex |-> << << <<1, 2>> >> >>, a_im |-> << <<Zero, <<1, 2>> >> >>,
                 b_ex |-> <<Zero, One>>, b_im |-> <<Zero, One>>],
   dirk3 |-> [a_ex |-> << << <<1, 2>> >>, << <<-1, 1>>, <<2, 1>> >> >>,
              a_im |-> << <<Zero, <<1, 2>> >>, <<Zero, <<1, 2>>, <<1, 2>> >> >>,
              b_ex |-> << <<1, 6>>, <<2, 3>>, <<1, 6>> >>, b_im |-> <<Zero, <<1, 2>>, <<1, 2>> >>]]
NamedIds == {"heun3", "ars111", "midpoint", "dirk3"}

Lams == {<< <<1, 2>>, Zero >>, << Zero, <<1, 2>> >>, CZero}
Mus == {<< <<-1, 2>>, Zero >>, << Zero, <<1, 3>> >>, CZero}

VARIABLES cfg,    \* [id, n, tb, lam, mu]     (dt = 1: only dt*lam and dt*mu matter)
          pc, regs, calls
vars == <<cfg, pc, regs, calls>>

PatLam == << <<1, 2>>, Zero >>
PatMu == << <<-1, 2>>, Zero >>
(* coefficient lists of the generic low-storage Runge-Kutta / Crank-Nicolson driver: every list of
   n stages with alpha increments from {1/4, 1/2}, beta from {0, -1/2}, gamma from {1/3, 1} *)
LsNs == 1..3
RECURSIVE SeqsOver(_, _)
SeqsOver(V, n) == IF n = 0 THEN {<<>>} ELSE {<<v>> \o t : v \in V, t \in SeqsOver(V, n - 1)}
RECURSIVE CumFrom(_, _)
CumFrom(a, incs) == IF incs = <<>> THEN <<a>> ELSE <<a>> \o CumFrom(RAdd(a, Head(incs)), Tail(incs))
LowStorageSets(n) == {[alphas |-> CumFrom(Zero, inc), betas |-> be, gammas |-> ga] :
                        inc \in SeqsOver({<<1, 4>>, <<1, 2>>}, n), be \in SeqsOver({Zero, <<-1, 2>>}, n),
                        ga \in SeqsOver({<<1, 3>>, One}, n)}
IsEx(p) == p[1] \in {"ae", "be"}
Patterns(n) == IF n < SplitFrom THEN SUBSET Valid(n)
               ELSE {S \cup {p \in Valid(n) : ~IsEx(p)} : S \in SUBSET {p \in Valid(n) : IsEx(p)}} \cup
                    {S \cup {p \in Valid(n) : IsEx(p)} : S \in SUBSET {p \in Valid(n) : ~IsEx(p)}}
Init == /\ \/ \E n \in Ns : \E S \in Patterns(n) :
                 cfg = [id |-> "pattern", n |-> n, tb |-> Tableau(n, S), lam |-> PatLam, mu |-> PatMu]
           \/ \E n \in LsNs : \E cs \in LowStorageSets(n) :
                 cfg = [id |-> "lowstorage", n |-> n, tb |-> cs, lam |-> PatLam, mu |-> PatMu]
           \/ \E k \in NamedIds : \E lam \in Lams : \E mu \in Mus :
                 cfg = [id |-> k, n |-> Len(Named[k].b_ex), tb |-> Named[k], lam |-> lam, mu |-> mu]
        /\ pc = 1 /\ regs = [r \in {"u", "h"} |-> IF r = "u" THEN COne ELSE CZero] /\ calls = <<>>

Prog == IF cfg.id = "lowstorage" THEN ProgLowStorage(cfg.tb) ELSE ProgImex(cfg.tb)
Instr == Prog[pc]
Set(f, k, v) == [x \in DOMAIN f \cup {k} |-> IF x = k THEN v ELSE f[x]]
RECURSIVE SumTerms(_)
SumTerms(ts) == IF ts = <<>> THEN CZero
                ELSE CAdd(CScale(Head(ts).c, regs[Head(ts).r]), SumTerms(Tail(ts)))

ExecF == /\ pc <= Len(Prog) /\ Instr.op = "F"
         /\ regs' = Set(regs, Instr.dst, CMul(cfg.lam, regs[Instr.src]))
         /\ calls' = Append(calls, [k |-> "F", eta |-> Zero])
         /\ pc' = pc + 1 /\ UNCHANGED cfg
ExecG == /\ pc <= Len(Prog) /\ Instr.op = "G"
         /\ regs' = Set(regs, Instr.dst, CMul(cfg.mu, regs[Instr.src]))
         /\ calls' = Append(calls, [k |-> "G", eta |-> Zero])
         /\ pc' = pc + 1 /\ UNCHANGED cfg
ExecGinv == /\ pc <= Len(Prog) /\ Instr.op = "Ginv"
            /\ regs' = Set(regs, Instr.dst,
                           CMul(regs[Instr.src], CInv(CAdd(COne, CScale(RNeg(Instr.eta), cfg.mu)))))
            /\ calls' = Append(calls, [k |-> "Ginv", eta |-> Instr.eta])
            /\ pc' = pc + 1 /\ UNCHANGED cfg
ExecLin == /\ pc <= Len(Prog) /\ Instr.op = "Lin"
           /\ regs' = Set(regs, Instr.dst, SumTerms(Instr.terms))
           /\ pc' = pc + 1 /\ UNCHANGED <<cfg, calls>>
Next == ExecF \/ ExecG \/ ExecGinv \/ ExecLin
Spec == Init /\ [][Next]_vars

Done == pc = Len(Prog) + 1
Out == regs["out"]

-----------------------------------------------------------------------------
(* the textbook step: every stage value, every tendency, every coefficient *)
RECURSIVE Stage(_, _)
CSum(f, lo, hi) == LET RECURSIVE Acc(_)
                       Acc(k) == IF k > hi THEN CZero ELSE CAdd(f[k], Acc(k + 1))
                   IN  Acc(lo)
Stage(tb, i) ==        \* Y_i, i = 0..n-1
  IF i = 0 THEN COne
  ELSE LET ex == CSum([j \in 0..(i - 1) |-> CScale(tb.a_ex[i][j + 1], CMul(cfg.lam, Stage(tb, j)))], 0, i - 1)
           im == CSum([j \in 0..(i - 1) |-> CScale(tb.a_im[i][j + 1], CMul(cfg.mu, Stage(tb, j)))], 0, i - 1)
       IN  CMul(CAdd(COne, CAdd(ex, im)),
                CInv(CAdd(COne, CScale(RNeg(tb.a_im[i][i + 1]), cfg.mu))))
Textbook(tb) ==
  LET n == Len(tb.b_ex)
      ex == CSum([j \in 0..(n - 1) |-> CScale(tb.b_ex[j + 1], CMul(cfg.lam, Stage(tb, j)))], 0, n - 1)
      im == CSum([j \in 0..(n - 1) |-> CScale(tb.b_im[j + 1], CMul(cfg.mu, Stage(tb, j)))], 0, n - 1)
  IN  CAdd(COne, CAdd(ex, im))

SkipTransparent == (Done /\ cfg.id # "lowstorage") => Out = Textbook(cfg.tb)

(* the low-storage recurrence, written directly:
     h_k = F(u_{k-1}) + beta_k h_{k-1},   m_k = (alpha_{k+1} - alpha_k) / 2,
     u_k = (u_{k-1} + gamma_k h_k + m_k G(u_{k-1})) / (1 - m_k mu)                        (dt = 1) *)
RECURSIVE LsU(_, _)
RECURSIVE LsH(_, _)
LsH(cs, k) == IF k = 0 THEN CZero
              ELSE CAdd(CMul(cfg.lam, LsU(cs, k - 1)), CScale(cs.betas[k], LsH(cs, k - 1)))
LsU(cs, k) == IF k = 0 THEN COne
              ELSE LET m == RMul(<<1, 2>>, RSub(cs.alphas[k + 1], cs.alphas[k]))
                       up == LsU(cs, k - 1)
                   IN  CMul(CAdd(up, CAdd(CScale(cs.gammas[k], LsH(cs, k)), CScale(m, CMul(cfg.mu, up)))),
                            CInv(CAdd(COne, CScale(RNeg(m), cfg.mu))))
LowStorageRecurrence == (Done /\ cfg.id = "lowstorage") => Out = LsU(cfg.tb, cfg.n)

(* stability functions of the named pairs; z = dt*lam, w = dt*mu *)
Zc == cfg.lam
Wc == cfg.mu
CPoly(cs, z) == LET RECURSIVE Acc(_, _)
                    Acc(k, zk) == IF k > Len(cs) THEN CZero
                                  ELSE CAdd(CScale(cs[k], zk), Acc(k + 1, CMul(zk, z)))
                IN  Acc(1, COne)
NamedOK == Done =>
  /\ (cfg.id = "heun3" => Out = CPoly(<<One, One, <<1, 2>>, <<1, 6>> >>, Zc))        \* mu is ignored
  /\ (cfg.id = "ars111" => Out = CMul(CAdd(COne, Zc), CInv(CAdd(COne, CScale(<<-1, 1>>, Wc)))))
  /\ (cfg.id = "midpoint" =>
        Out = CAdd(COne, CMul(CAdd(Zc, Wc),
                               CMul(CAdd(COne, CScale(<<1, 2>>, Zc)),
                                    CInv(CAdd(COne, CScale(<<-1, 2>>, Wc)))))))
  /\ (cfg.id = "dirk3" /\ cfg.mu = CZero =>
        Out = CPoly(<<One, One, <<1, 2>>, <<1, 6>> >>, Zc))                         \* Kutta's third-order rule

(* the driver never evaluates more than the textbook and never calls the solve with a step other
   than the stage's diagonal entry *)
CallsOK == (Done /\ cfg.id # "lowstorage") =>
  /\ Len(SelectSeq(calls, LAMBDA c : c.k = "Ginv")) = cfg.n - 1
  /\ Len(SelectSeq(calls, LAMBDA c : c.k = "F")) <= cfg.n
  /\ Len(SelectSeq(calls, LAMBDA c : c.k = "G")) <= cfg.n

Export == Done =>
   PrintT(<<"CASE", ToJson([id |-> cfg.id, n |-> cfg.n, tb |-> cfg.tb, lam |-> cfg.lam, mu |-> cfg.mu,
                            out |-> Out, calls |-> calls])>>)
=============================================================================
