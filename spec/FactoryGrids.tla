---------------------------- MODULE FactoryGrids ----------------------------
(* The named grids of the literature (Grid.T21 ... Grid.TL1279): construct(max_wavenumber = n,
   gaussian_nodes = g) gives M = n + 1 zonal and L = n + 2 total wavenumbers on 4g x 2g Gauss
   nodes.  T* ("quadratic") grids resolve products of two resolved fields: 3n <= 2J (with one
   wavenumber of slack); TL* ("linear") grids resolve the clipped band: n <= J - 1.  The band on
   which analysis inverts synthesis is derived from the degree of exactness 2J - 1. *)
EXTENDS Integers, Sequences, TLC, Json

Factories == { <<"T21", "quadratic", 21, 16>>, <<"T31", "quadratic", 31, 24>>, <<"T42", "quadratic", 42, 32>>, <<"T85", "quadratic", 85, 64>>,
               <<"T106", "quadratic", 106, 80>>, <<"T119", "quadratic", 119, 90>>, <<"T170", "quadratic", 170, 128>>, <<"T213", "quadratic", 213, 160>>,
               <<"T340", "quadratic", 340, 256>>, <<"T425", "quadratic", 425, 320>>,
               <<"TL31", "linear", 31, 16>>, <<"TL47", "linear", 47, 24>>, <<"TL63", "linear", 63, 32>>, <<"TL95", "linear", 95, 48>>,
               <<"TL127", "linear", 127, 64>>, <<"TL159", "linear", 159, 80>>, <<"TL179", "linear", 179, 90>>, <<"TL255", "linear", 255, 128>>,
               <<"TL639", "linear", 639, 320>>, <<"TL1279", "linear", 1279, 640>> }
VARIABLES f, grid
vars == <<f, grid>>
Init == f \in Factories /\ grid = <<>>
Construct == /\ grid = <<>>
             /\ grid' = [M |-> f[3] + 1, L |-> f[3] + 2, I |-> 4 * f[4], J |-> 2 * f[4]]
             /\ UNCHANGED f
Spec == Init /\ [][Construct]_vars
IsLinear == f[2] = "linear"
(* largest l such that e_(m,l) round-trips: l + l2 <= 2J - 2 for all same-parity l2 <= L - 1 *)
BandLimit == LET J == grid.J
                 Lm == grid.L - 1
                 ok(l) == \A l2 \in 0..Lm : (l + l2) % 2 = 0 => l + l2 <= 2 * J - 2
             IN  CHOOSE l \in 0..Lm : ok(l) /\ (l = Lm \/ ~ok(l + 1))
Built == grid # <<>>
Resolves == Built =>
   /\ 2 * (grid.M - 1) < grid.I
   /\ (~IsLinear => BandLimit = grid.L - 1 /\ 3 * f[3] <= 2 * grid.J)
   /\ (IsLinear => BandLimit >= grid.L - 2 /\ f[3] = grid.J - 1)
Export == Built => PrintT(<<"CASE", ToJson([name |-> f[1], n |-> f[3], g |-> f[4], M |-> grid.M, L |-> grid.L,
                                            I |-> grid.I, J |-> grid.J, band |-> BandLimit])>>)
=============================================================================
