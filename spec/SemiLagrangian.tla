--------------------------- MODULE SemiLagrangian ---------------------------
(* primitive_equations.semi_lagrangian_vertical_advection_step (and compute_vertical_velocity,
   _vertical_interp) on states whose vertical motion is horizontally uniform: the divergence of
   level k is the constant d[k] and the surface pressure is flat, so u . grad(ln ps) = 0 and

     F[k]    = sum_{j<=k} d[j] dsigma[j]                        (cumulative sigma integral)
     sd[k]   = sigma_{k+1/2} F[K] - F[k],   k = 1..K-1            (sigma-dot at inner boundaries)
     vel[k]  = (sd[k-1] + sd[k]) / 2,       sd[0] = sd[K] = 0     (at layer centres)
     src[k]  = centre[k] - dt * vel[k]                            (departure points)
     out[j]  = piecewise-linear interpolant through (src[k], f[k]) evaluated at centre[j],
               constant outside [src[1], src[K]]

   Because the motion is horizontally uniform, every 3-D field is transformed level-wise by one
   K x K matrix W (out = W f, for every spectral coefficient); surface fields and the clock are
   untouched.  One action per stage of the computation; W is exported and replayed.

   Invariants (design level): uniform divergence moves nothing; zero velocity is the identity;
   while the departure points stay ordered, W is row-stochastic with at most two adjacent non-zero
   entries per row (constants reproduced, outputs within the range of the inputs). *)
EXTENDS Integers, Sequences, FiniteSets, TLC, Json, Exact

CONSTANTS Den,        \* sigma boundaries are multiples of 1/Den
          MaxLayers,
          Divs,       \* set of integers: level divergences
          Dts         \* set of Rat: step sizes

(* configuration constants (cfg files cannot spell negative numbers or tuples) *)
QuickDivs == {-2, 0, 3}
ThoroughDivs == {-3, 0, 1, 2}
AllDts == {<<1, 4>>, <<-1, 2>>, <<1, 1>>}

VARIABLES cfg,   \* [b : boundaries (0..Den), d : divergences, dt]
          pc,    \* "velocity" | "depart" | "weights" | "done"
          sd, vel, src, W
vars == <<cfg, pc, sd, vel, src, W>>

RECURSIVE IncSeqs(_, _)
(* strictly increasing sequences of n interior boundaries drawn from lo..Den-1 *)
IncSeqs(n, lo) == IF n = 0 THEN {<<>>}
                  ELSE UNION {{<<x>> \o s : s \in IncSeqs(n - 1, x + 1)} : x \in lo..(Den - 1)}
LevelSets == UNION {{<<0>> \o s \o <<Den>> : s \in IncSeqs(K - 1, 1)} : K \in 2..MaxLayers}

K == Len(cfg.b) - 1
Bnd(k) == <<cfg.b[k + 1], Den>>                         \* boundary k = 0..K as (unnormalised) Rat
B(k) == Norm(cfg.b[k + 1], Den)
DSig(k) == RSub(B(k), B(k - 1))                         \* thickness of layer k = 1..K
Centre(k) == RMul(<<1, 2>>, RAdd(B(k), B(k - 1)))

Init == /\ \E b \in LevelSets : \E dt \in Dts :
             \E d \in [1..(Len(b) - 1) -> Divs] : cfg = [b |-> b, d |-> d, dt |-> dt]
        /\ pc = "velocity" /\ sd = <<>> /\ vel = <<>> /\ src = <<>> /\ W = <<>>

FCum(k) == RSum([j \in 1..K |-> RMul(R(cfg.d[j]), DSig(j))], 1, k)
Velocity ==
  /\ pc = "velocity"
  /\ LET s == [k \in 0..K |-> IF k = 0 \/ k = K THEN Zero ELSE RSub(RMul(B(k), FCum(K)), FCum(k))]
     IN  /\ sd' = [k \in 1..(K - 1) |-> s[k]]
         /\ vel' = [k \in 1..K |-> RMul(<<1, 2>>, RAdd(s[k - 1], s[k]))]
  /\ pc' = "depart" /\ UNCHANGED <<cfg, src, W>>
Depart ==
  /\ pc = "depart"
  /\ src' = [k \in 1..K |-> RSub(Centre(k), RMul(cfg.dt, vel[k]))]
  /\ pc' = "weights" /\ UNCHANGED <<cfg, sd, vel, W>>
Mono == \A k \in 1..(K - 1) : RLt(src[k], src[k + 1])
(* weights of jnp.interp(centre[j], src, f): constant extrapolation; at a node the node value *)
Row(j) ==
  LET x == Centre(j) IN
  IF RLe(x, src[1]) THEN [k \in 1..K |-> IF k = 1 THEN One ELSE Zero]
  ELSE IF RLe(src[K], x) THEN [k \in 1..K |-> IF k = K THEN One ELSE Zero]
  ELSE LET i == CHOOSE q \in 1..(K - 1) : RLe(src[q], x) /\ RLt(x, src[q + 1])
           w == RDiv(RSub(x, src[i]), RSub(src[i + 1], src[i]))
       IN  [k \in 1..K |-> IF k = i THEN RSub(One, w) ELSE IF k = i + 1 THEN w ELSE Zero]
Weights ==
  /\ pc = "weights"
  /\ W' = IF Mono THEN [j \in 1..K |-> Row(j)] ELSE <<>>
  /\ pc' = "done" /\ UNCHANGED <<cfg, sd, vel, src>>
Next == Velocity \/ Depart \/ Weights
Spec == Init /\ [][Next]_vars

Done == pc = "done"
Uniform == \A k \in 1..K : cfg.d[k] = cfg.d[1]
(* a horizontally and vertically uniform divergence only changes the surface pressure *)
UniformDivergenceNoMotion == (pc # "velocity" /\ Uniform) => \A k \in 1..K : vel[k] = Zero
(* sigma-dot vanishes at the top and the bottom: the velocity of the end layers is half the
   velocity of the adjacent inner boundary *)
EndLayers == (pc # "velocity" /\ K >= 2) =>
   /\ vel[1] = RMul(<<1, 2>>, sd[1]) /\ vel[K] = RMul(<<1, 2>>, sd[K - 1])
ZeroVelocityIdentity == (Done /\ \A k \in 1..K : vel[k] = Zero) =>
   W = [j \in 1..K |-> [k \in 1..K |-> IF j = k THEN One ELSE Zero]]
RowStochastic == (Done /\ W # <<>>) =>
   \A j \in 1..K : /\ RSum(W[j], 1, K) = One
                   /\ \A k \in 1..K : RLe(Zero, W[j][k])
                   /\ \A k, q \in 1..K : (W[j][k] # Zero /\ W[j][q] # Zero) => (k - q) \in {-1, 0, 1}
(* a step of the opposite sign with the opposite divergence is the same step *)
Export == Done =>
  PrintT(<<"CASE", ToJson([b |-> cfg.b, den |-> Den, d |-> cfg.d, dt |-> cfg.dt, sd |-> sd, vel |-> vel,
                           src |-> src, mono |-> (W # <<>>), W |-> W])>>)
=============================================================================
