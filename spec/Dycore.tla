------------------------------- MODULE Dycore -------------------------------
(* The umbrella machine: one model time step of the dynamical core as the stage program of the
   chosen integrator (IntegratorPrograms) followed by the filter stack, interpreted over the
   *structural* state of the model:

     top   : some coefficient at the clipped top total wavenumber l = L-1 is non-zero
     out   : some entry outside the triangular truncation (or in padding) is non-zero
     qm    : the global means of vorticity / divergence (and the shallow-water layer thickness)
             as a rational multiple of their initial value
     ck    : the carried simulation time  a*t0 + b*dt  as <<a, b>>
     tu    : every tracer is horizontally uniform (supported on the (0,0) coefficient)

   with the contracts of the three equation callbacks (F = explicit_terms clips and has zero-mean
   vorticity/divergence tendencies, zero tendency for uniform tracers, clock tendency 1;
   G = implicit_terms preserves support, zero mean divergence tendency (lambda_0 = 0), clock
   tendency 0; Ginv preserves support, vorticity/tracers/clock and the divergence mean) and of the
   filters (zero stays zero, mean factor exactly 1, non-spectral leaves untouched).

   Inductive step: from an admissible state (top = out = FALSE, tu as given) one step returns an
   admissible state with unchanged means and the clock advanced by exactly dt; inadmissible
   inputs behave as the machine predicts (exported, replayed in the real model). *)
EXTENDS Integers, Sequences, FiniteSets, TLC, Json, Exact, IntegratorPrograms

VARIABLES cfg, pc, regs, fdone
vars == <<cfg, pc, regs, fdone>>

Integs == {"euler", "cnrk2", "rk3", "sil3", "leapfrog"}
Configs == [ig : Integs, alpha : {<<1, 2>>}, top0 : BOOLEAN, out0 : BOOLEAN, tu0 : BOOLEAN,
            nf : 0..2, ra : BOOLEAN]          \* nf spectral filters; ra: Robert-Asselin (leapfrog only)

Val(top, out, qm, ck, tu) == [top |-> top, out |-> out, qm |-> qm, ck |-> ck, tu |-> tu]
State0(c, ck) == Val(c.top0, c.out0, One, ck, c.tu0)

Init == /\ cfg \in {c \in Configs : c.ra => c.ig = "leapfrog"}
        /\ pc = 1 /\ fdone = 0
        /\ regs = IF cfg.ig = "leapfrog"
                  THEN [r \in {"prev", "cur"} |-> IF r = "prev" THEN State0(cfg, <<One, <<-1, 1>> >>)
                                                  ELSE State0(cfg, <<One, Zero>>)]
                  ELSE [r \in {"u", "h"} |-> IF r = "u" THEN State0(cfg, <<One, Zero>>)
                                             ELSE Val(FALSE, FALSE, Zero, <<Zero, Zero>>, TRUE)]

Prog == Program(cfg.ig, cfg.alpha)
Instr == Prog[pc]
Set(f, k, v) == [x \in DOMAIN f \cup {k} |-> IF x = k THEN v ELSE f[x]]

(* explicit_terms: clipped, inside the truncation, zero-mean vor/div tendency, clock rate 1,
   uniform tracers have zero (hence uniform) tendency provided the state is clipped (the
   wind/divergence round trip is the identity only below the top wavenumber) *)
FVal(v) == Val(FALSE, FALSE, Zero, <<Zero, One>>, v.tu /\ ~v.top)
(* implicit_terms: acts per (m,l) and per level: support preserved; no mean, clock, tracer part *)
GVal(v) == Val(v.top, v.out, Zero, <<Zero, Zero>>, TRUE)
(* implicit_inverse: support, vorticity, tracers, clock and the divergence mean are preserved *)
GinvVal(v) == v
PairAdd(a, b) == <<RAdd(a[1], b[1]), RAdd(a[2], b[2])>>
PairScale(q, a) == <<RMul(q, a[1]), RMul(q, a[2])>>
RECURSIVE LinVal(_)
LinVal(ts) == IF ts = <<>> THEN Val(FALSE, FALSE, Zero, <<Zero, Zero>>, TRUE)
              ELSE LET r == LinVal(Tail(ts))
                       t == Head(ts)
                       v == regs[t.r]
                   IN  IF t.c = Zero THEN r
                       ELSE Val(v.top \/ r.top, v.out \/ r.out, RAdd(RMul(t.c, v.qm), r.qm),
                                PairAdd(PairScale(t.c, v.ck), r.ck), v.tu /\ r.tu)

ExecF == /\ pc <= Len(Prog) /\ Instr.op = "F"
         /\ regs' = Set(regs, Instr.dst, FVal(regs[Instr.src])) /\ pc' = pc + 1 /\ UNCHANGED <<cfg, fdone>>
ExecG == /\ pc <= Len(Prog) /\ Instr.op = "G"
         /\ regs' = Set(regs, Instr.dst, GVal(regs[Instr.src])) /\ pc' = pc + 1 /\ UNCHANGED <<cfg, fdone>>
ExecGinv == /\ pc <= Len(Prog) /\ Instr.op = "Ginv"
            /\ regs' = Set(regs, Instr.dst, GinvVal(regs[Instr.src])) /\ pc' = pc + 1 /\ UNCHANGED <<cfg, fdone>>
ExecLin == /\ pc <= Len(Prog) /\ Instr.op = "Lin"
           /\ regs' = Set(regs, Instr.dst, LinVal(Instr.terms)) /\ pc' = pc + 1 /\ UNCHANGED <<cfg, fdone>>
(* step filters: multiply every spectral coefficient by a positive factor that is 1 for l = 0 *)
Filter == /\ pc = Len(Prog) + 1 /\ fdone < cfg.nf
          /\ fdone' = fdone + 1 /\ UNCHANGED <<cfg, pc, regs>>
(* Robert-Asselin: current := (1 - 2r) current + r (previous + future), r = 1/32 *)
RobertAsselin == /\ pc = Len(Prog) + 1 /\ fdone = cfg.nf /\ cfg.ra
                 /\ LET r == <<1, 32>>
                        c == regs["cur"]
                        p == regs["prev"]
                        f == regs["out"]
                    IN  regs' = Set(regs, "cur",
                          Val(c.top \/ p.top \/ f.top, c.out \/ p.out \/ f.out,
                              RAdd(RMul(RSub(One, RMul(<<2, 1>>, r)), c.qm), RMul(r, RAdd(p.qm, f.qm))),
                              PairAdd(PairScale(RSub(One, RMul(<<2, 1>>, r)), c.ck),
                                      PairScale(r, PairAdd(p.ck, f.ck))),
                              c.tu /\ p.tu /\ f.tu))
                 /\ pc' = pc + 1 /\ UNCHANGED <<cfg, fdone>>
Finish == /\ pc = Len(Prog) + 1 /\ fdone = cfg.nf /\ ~cfg.ra /\ pc' = pc + 1 /\ UNCHANGED <<cfg, regs, fdone>>
Next == ExecF \/ ExecG \/ ExecGinv \/ ExecLin \/ Filter \/ RobertAsselin \/ Finish
Spec == Init /\ [][Next]_vars

Done == pc = Len(Prog) + 2
Out == regs["out"]
Admissible == ~cfg.top0 /\ ~cfg.out0
(* the structural invariants survive the step *)
TruncationKept == (Done /\ Admissible) => ~Out.top /\ ~Out.out
MeansConserved == Done => Out.qm = One
ClockAdvances == Done => Out.ck = <<One, One>>
UniformTracerKept == (Done /\ cfg.tu0 /\ ~cfg.top0) => Out.tu
LeapfrogCurrent == (Done /\ cfg.ig = "leapfrog") =>
     /\ regs["cur"].qm = One /\ regs["cur"].ck = <<One, Zero>>
     /\ (Admissible => ~regs["cur"].top /\ ~regs["cur"].out)
(* and the machine is not vacuous: inadmissible input survives the implicit part *)
InadmissibleSurvives == (Done /\ cfg.top0 /\ cfg.ig # "euler") => Out.top
Export == Done => PrintT(<<"CASE", ToJson([ig |-> cfg.ig, top0 |-> cfg.top0, out0 |-> cfg.out0, tu0 |-> cfg.tu0,
                                           nf |-> cfg.nf, ra |-> cfg.ra, top |-> Out.top, outside |-> Out.out,
                                           tu |-> Out.tu])>>)
=============================================================================
