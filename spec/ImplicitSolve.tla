---------------------------- MODULE ImplicitSolve ----------------------------
(* The implicit (linear, fast-wave) operator of the primitive equations on a rational level
   set, after Durran, "Numerical Methods for Fluid Dynamics" 8.6.5:

       d(div)/dt  = -lambda_l * ( G T' + R Tref lnps )        lambda_l = -l(l+1)/r^2
       d(T')/dt   = -H div
       d(lnps)/dt = -dsigma . div                             vorticity, tracers, clock: 0

   G and H contain the transcendental numbers alpha[j] (log-sigma ratios); every table entry
   is therefore a *linear form* over the atoms alpha[1..K] with rational coefficients, kept
   as a function 0..K -> Rat (index 0 = constant term).

   The code evaluates H.div either as a dense matrix product or with cumulative sums
   ("sparse").  Both are modelled; DenseEqSparse is the design-level statement that they are
   the same operator on *every* level set.  SparseHAsFound is the cumulative-sum form as it
   was found in the repository (one weight per row, ignoring that H[r,s] carries dsigma[s]);
   AsFoundAgrees is expected to FAIL for non-equidistant levels (known finding, repaired). *)
EXTENDS Integers, Sequences, FiniteSets, TLC, Json, Exact

CONSTANTS Den, MaxLayers

VARIABLES cfg, pc, H, Hs, Hasfound, G
vars == <<cfg, pc, H, Hs, Hasfound, G>>

RECURSIVE IncSeqs(_, _, _)
IncSeqs(n, lo, hi) == IF n = 0 THEN {<<>>}
                      ELSE UNION {{<<x>> \o s : s \in IncSeqs(n - 1, x + 1, hi)} : x \in lo..hi}
LevelSets == UNION {{<<0>> \o s \o <<Den>> : s \in IncSeqs(K - 1, 1, Den - 1)} : K \in 1..MaxLayers}
(* reference temperature profiles (small integers; the code is scale free in T) *)
Profiles(K) == { [k \in 1..K |-> 3],                              \* constant
                 [k \in 1..K |-> 1 + k],                          \* increasing to the surface
                 [k \in 1..K |-> 2 + K - k],                      \* decreasing
                 [k \in 1..K |-> IF k % 2 = 0 THEN 2 ELSE 4],     \* zig-zag
                 [k \in 1..K |-> IF k <= 2 THEN 2 ELSE k],         \* isothermal top two layers over a stratified rest
                 [k \in 1..K |-> IF k >= K - 1 THEN 5 ELSE k] }    \* ... and isothermal bottom two layers
Kappas == {<<2, 7>>, <<1, 4>>}

K == Len(cfg.b) - 1
DSig(k) == Norm(cfg.b[k + 1] - cfg.b[k], Den)
Cum(r) == Norm(cfg.b[r + 1], Den)                                \* sum of dsigma[1..r]
T(k) == R(cfg.tref[k])
P(n) == IF n >= 0 THEN One ELSE Zero

(* linear forms over atoms alpha[1..K] *)
LZero == [a \in 0..K |-> Zero]
LConst(q) == [a \in 0..K |-> IF a = 0 THEN q ELSE Zero]
LAtom(j, q) == [a \in 0..K |-> IF a = j THEN q ELSE Zero]        \* q * alpha[j]
LAdd(x, y) == [a \in 0..K |-> RAdd(x[a], y[a])]
LScale(q, x) == [a \in 0..K |-> RMul(q, x[a])]
LSub(x, y) == LAdd(x, LScale(<<-1, 1>>, y))

(* Durran's H (docstring of get_temperature_implicit_weights) *)
H0(r, s) == LScale(RDiv(RMul(cfg.kappa, T(r)), DSig(r)),
                   LAdd(LAtom(r, P(r - s)), IF r >= 2 THEN LAtom(r - 1, P(r - 1 - s)) ELSE LZero))
K0(r) == IF r >= 1 /\ r < K THEN RDiv(RSub(T(r + 1), T(r)), RAdd(DSig(r + 1), DSig(r))) ELSE Zero
KK(r, s) == IF r >= 1 /\ r < K THEN RMul(K0(r), RSub(P(r - s), Cum(r))) ELSE Zero
HDense == [r \in 1..K |-> [s \in 1..K |->
             LScale(DSig(s), LSub(H0(r, s), LConst(RAdd(KK(r, s), KK(r - 1, s)))))]]

(* cumulative-sum evaluation: below-diagonal entries of row r are u[r]*dsigma[s], above-
   diagonal entries d[r]*dsigma[s]; out = u * (cumsum(dsigma*div) - dsigma*div) + diag*div
   + d * (reverse_cumsum(dsigma*div) - dsigma*div) *)
HSparse(Hd) == [r \in 1..K |-> [s \in 1..K |->
     IF s = r THEN Hd[r][r]
     ELSE IF s < r THEN LScale(RDiv(DSig(s), DSig(1)), Hd[r][1])
     ELSE LScale(RDiv(DSig(s), DSig(K)), Hd[r][K])]]
(* as found: one weight per row *)
HSparseAsFound(Hd) == [r \in 1..K |-> [s \in 1..K |->
     IF s = r THEN Hd[r][r] ELSE IF s < r THEN Hd[r][1] ELSE Hd[r][K]]]

(* Durran's G / R *)
GDense == [j \in 1..K |-> [k \in 1..K |->
             IF k = j THEN LAtom(j, One)
             ELSE IF k > j THEN LAdd(LAtom(k, One), LAtom(k - 1, One)) ELSE LZero]]

Init == /\ \E b \in LevelSets :
           cfg \in [b : {b}, tref : Profiles(Len(b) - 1), kappa : Kappas]
        /\ pc = "H" /\ H = <<>> /\ Hs = <<>> /\ Hasfound = <<>> /\ G = <<>>
BuildH == pc = "H" /\ H' = HDense /\ pc' = "Hs" /\ UNCHANGED <<cfg, Hs, Hasfound, G>>
BuildHs == /\ pc = "Hs" /\ Hs' = HSparse(H) /\ Hasfound' = HSparseAsFound(H) /\ pc' = "G"
           /\ UNCHANGED <<cfg, H, G>>
BuildG == pc = "G" /\ G' = GDense /\ pc' = "done" /\ UNCHANGED <<cfg, H, Hs, Hasfound>>
Next == BuildH \/ BuildHs \/ BuildG
Spec == Init /\ [][Next]_vars

Done == pc = "done"
DenseEqSparse == Done => H = Hs
AsFoundAgrees == Done => H = Hasfound                 \* expected to be violated
(* below (above) the diagonal H[r,s]/dsigma[s] does not depend on s: what makes the
   cumulative-sum evaluation possible at all *)
RowStructure == Done => \A r \in 1..K : \A s1, s2 \in 1..K :
   ((s1 < r /\ s2 < r) \/ (s1 > r /\ s2 > r)) =>
      LScale(RInv(DSig(s1)), H[r][s1]) = LScale(RInv(DSig(s2)), H[r][s2])
(* constant reference temperature: nothing above the diagonal *)
ConstantProfileLowerTriangular == Done =>
   ((\A k \in 1..K : cfg.tref[k] = cfg.tref[1]) => \A r, s \in 1..K : s > r => H[r][s] = LZero)
(* coupling blocks of the implicit operator L; entries flagged "lam" are multiplied by
   -lambda_l = l(l+1)/r^2 and by the gas constant R at replay *)
Export == Done => PrintT(<<"CASE", ToJson([
     b |-> cfg.b, den |-> Den, tref |-> cfg.tref, kappa |-> cfg.kappa,
     H |-> H, G |-> G,
     dsigma |-> [k \in 1..K |-> DSig(k)] ])>>)
=============================================================================
