----------------------------- MODULE RegridLat ------------------------------
(* Conservative regridding along latitude (horizontal_interpolation.py:
   _latitude_cell_bounds, _latitude_overlap, conservative_latitude_weights, and the NaN
   bookkeeping of ConservativeRegridder.__call__ restricted to this axis).

   Cell centres sit on the integer lattice -N..N (position p is the latitude p * u for a unit
   u that the model does not need to know; for Grid latitudes u = pi / (2N), so that +-N are
   the poles).  Lengths are kept in DOUBLED lattice units: the bound between two neighbouring
   centres p < q is the integer p + q, and the two outermost bounds are the poles, written
   -2N and 2N (an interior bound never equals +-2N because p + q <= 2N - 1).

   The area of a latitude band is the difference of the sines of its bounds.  Sines are
   irrational, so areas are LINEAR FORMS over the atoms S[j] = sin(bound j), j in -2N..2N,
   S[-2N] = -1, S[2N] = 1, kept as integer coefficient vectors; the only fact about the atoms
   the model uses is that S is strictly increasing.  The conformance harness substitutes
   independently computed sines.

   One action per step of the library:
     Bounds      _latitude_cell_bounds of both grids
     Overlap     _latitude_overlap
     Normalize   conservative_latitude_weights (the row sums, as forms)
     Apply       ConservativeRegridder.__call__ along this axis on the integer column Field with
                 a set `mask` of NaN source cells (only for latitudes of real Grid objects) *)
EXTENDS Integers, Sequences, FiniteSets, TLC, Json, Exact

CONSTANTS NPlace,        \* lattice half-width for arbitrary placements
          MaxSrcPts, MaxTgtPts,
          NGrid,         \* lattice half-width carrying the Grid latitudes
          EqNs,          \* node counts of 'equiangular' grids (each divides NGrid)
          EqpNs,         \* node counts of 'equiangular_with_poles' grids (n - 1 divides 2 NGrid)
          MaxMaskCells

VARIABLES cfg,      \* [N, src, tgt, skind, tkind]
          pc,       \* "new" | "bounds" | "overlap" | "weights" | "applied"
          tb, sb,   \* bound sequences (doubled positions)
          ov,       \* ov[t][s] = <<hi, lo>>, meaning S[hi] - S[lo]; hi = lo means empty
          row,      \* row[t]   = form of the row sum
          mask, res
vars == <<cfg, pc, tb, sb, ov, row, mask, res>>

-----------------------------------------------------------------------------
RECURSIVE IncSeqs(_, _, _)
IncSeqs(n, lo, hi) == IF n = 0 THEN {<<>>}
                      ELSE UNION {{<<x>> \o s : s \in IncSeqs(n - 1, x + 1, hi)} : x \in lo..hi}
Placements(maxn) == UNION {IncSeqs(n, -NPlace, NPlace) : n \in 1..maxn}
(* Grid latitudes: -pi/2 + pi (k + 1/2) / n   and   -pi/2 + pi k / (n - 1) *)
EqPts(n) == [k \in 1..n |-> (2 * k - 1 - n) * (NGrid \div n)]
EqpPts(n) == IF n = 1 THEN <<-NGrid>>
             ELSE [k \in 1..n |-> -NGrid + (k - 1) * ((2 * NGrid) \div (n - 1))]
GridLats == {<<"equiangular", EqPts(n)>> : n \in EqNs}
            \cup {<<"equiangular_with_poles", EqpPts(n)>> : n \in EqpNs}

N == cfg.N
NS == Len(cfg.src)
NT == Len(cfg.tgt)
Pos == -2 * N..2 * N

(* ---- linear forms over the atoms S[j] ---- *)
FZero == [j \in Pos |-> 0]
E(hi, lo) == [j \in Pos |-> (IF j = hi THEN 1 ELSE 0) - (IF j = lo THEN 1 ELSE 0)]
FAdd(f, g) == [j \in Pos |-> f[j] + g[j]]
FScale(c, f) == [j \in Pos |-> c * f[j]]
RECURSIVE FSum(_, _, _)
FSum(F, lo, hi) == IF lo > hi THEN FZero ELSE FAdd(F[lo], FSum(F, lo + 1, hi))
FormOf(p) == E(p[1], p[2])
Sparse(f) == {<<j, f[j]>> : j \in {i \in Pos : f[i] # 0}}

CellBounds(x) == <<-2 * N>> \o [i \in 1..Len(x) - 1 |-> x[i] + x[i + 1]] \o <<2 * N>>
WellFormed(x) == /\ Len(x) >= 1
                 /\ \A i \in 1..Len(x) : x[i] \in -N..N
                 /\ \A i \in 1..Len(x) - 1 : x[i] < x[i + 1]

Field(s) == ((s * s + 3 * s) % 7) - 2

-----------------------------------------------------------------------------
Init == /\ \/ \E s \in Placements(MaxSrcPts), t \in Placements(MaxTgtPts) :
                 cfg = [N |-> NPlace, src |-> s, tgt |-> t, skind |-> "place", tkind |-> "place"]
           \/ \E s \in GridLats, t \in GridLats :
                 cfg = [N |-> NGrid, src |-> s[2], tgt |-> t[2], skind |-> s[1], tkind |-> t[1]]
        /\ WellFormed(cfg.src) /\ WellFormed(cfg.tgt)
        /\ pc = "new" /\ tb = <<>> /\ sb = <<>> /\ ov = <<>> /\ row = <<>>
        /\ mask = {} /\ res = <<>>

Bounds == /\ pc = "new"
          /\ tb' = CellBounds(cfg.tgt) /\ sb' = CellBounds(cfg.src)
          /\ pc' = "bounds" /\ UNCHANGED <<cfg, ov, row, mask, res>>

(* (upper > lower) * (sin(upper) - sin(lower)) *)
Overlap == /\ pc = "bounds"
           /\ ov' = [t \in 1..NT |-> [s \in 1..NS |->
                       LET hi == Min(tb[t + 1], sb[s + 1])
                           lo == Max(tb[t], sb[s])
                       IN  IF hi > lo THEN <<hi, lo>> ELSE <<0, 0>>]]
           /\ pc' = "overlap" /\ UNCHANGED <<cfg, tb, sb, row, mask, res>>

Normalize == /\ pc = "overlap"
             /\ row' = [t \in 1..NT |-> FSum([s \in 1..NS |-> FormOf(ov[t][s])], 1, NS)]
             /\ pc' = "weights" /\ UNCHANGED <<cfg, tb, sb, ov, mask, res>>

IsGrid == cfg.skind # "place"
Overl(t) == {s \in 1..NS : ov[t][s][1] > ov[t][s][2]}
(* closed cells that share exactly one bound *)
Touching(t) == {s \in 1..NS : s \notin Overl(t) /\ (sb[s + 1] = tb[t] \/ sb[s] = tb[t + 1])}
Masks == IF NS <= MaxMaskCells THEN SUBSET (1..NS)
         ELSE {{}} \cup {{s} : s \in 1..NS} \cup {{s, (s % NS) + 1} : s \in 1..NS}
NumOver(t, S) == FSum([s \in 1..NS |-> IF s \in S THEN FScale(Field(s), FormOf(ov[t][s])) ELSE FZero], 1, NS)
DenOver(t, S) == FSum([s \in 1..NS |-> IF s \in S THEN FormOf(ov[t][s]) ELSE FZero], 1, NS)
Apply == /\ pc = "weights" /\ IsGrid
         /\ \E m \in Masks :
              /\ mask' = m
              /\ res' = [t \in 1..NT |->
                   LET anyNaN == Overl(t) \cap m # {}
                       allNaN == Overl(t) \subseteq m
                   IN [nanF |-> anyNaN,
                       numF |-> Sparse(IF anyNaN THEN FZero ELSE NumOver(t, Overl(t))),
                       denF |-> Sparse(IF anyNaN THEN FZero ELSE DenOver(t, Overl(t))),
                       nanT |-> IF ~allNaN THEN "num"
                                ELSE IF Touching(t) \subseteq m THEN "nan" ELSE "either",
                       numT |-> Sparse(IF allNaN THEN FZero ELSE NumOver(t, Overl(t) \ m)),
                       denT |-> Sparse(IF allNaN THEN FZero ELSE DenOver(t, Overl(t) \ m))]]
         /\ pc' = "applied" /\ UNCHANGED <<cfg, tb, sb, ov, row>>

Next == Bounds \/ Overlap \/ Normalize \/ Apply
Spec == Init /\ [][Next]_vars

-----------------------------------------------------------------------------
(* the property; each clause is evaluated in the state in which its subject has just been
   computed (later actions leave those variables unchanged) *)
HasB == pc = "bounds"
HasOv == pc = "overlap"
HasW == pc = "weights"
Applied == pc = "applied"

BoundsIncrease == HasB =>
   /\ \A i \in 1..NT : tb[i] < tb[i + 1]
   /\ \A i \in 1..NS : sb[i] < sb[i + 1]
   /\ tb[1] = -2 * N /\ sb[1] = -2 * N /\ tb[NT + 1] = 2 * N /\ sb[NS + 1] = 2 * N
(* every entry is empty or the area S[hi] - S[lo] of a band with hi > lo: positive because
   the sine increases from pole to pole *)
NonNegative == HasOv => \A t \in 1..NT : \A s \in 1..NS :
   ov[t][s] = <<0, 0>> \/ ov[t][s][1] > ov[t][s][2]
(* the overlaps of a target band telescope to the band itself, those of a source band too:
   rows of the normalised matrix sum to one and nothing is counted twice or lost *)
RowTelescopes == HasW => \A t \in 1..NT : row[t] = E(tb[t + 1], tb[t])
ColTelescopes == HasOv => \A s \in 1..NS :
   FSum([t \in 1..NT |-> FormOf(ov[t][s])], 1, NT) = E(sb[s + 1], sb[s])
EveryRowCovered == HasOv => \A t \in 1..NT : Overl(t) # {}
(* area-weighted integral: sum_t area_t * out_t = sum_s area_s * in_s, as forms *)
AreaConservation == HasOv =>
   FSum([t \in 1..NT |-> NumOver(t, 1..NS)], 1, NT)
     = FSum([s \in 1..NS |-> FScale(Field(s), E(sb[s + 1], sb[s]))], 1, NS)
IdenticalIsIdentity == (HasOv /\ cfg.src = cfg.tgt) =>
   \A t \in 1..NT : \A s \in 1..NS :
      ov[t][s] = (IF s = t THEN <<tb[t + 1], tb[t]>> ELSE <<0, 0>>)
(* overlapping source bands of one target band are contiguous *)
SupportContiguous == HasOv => \A t \in 1..NT : \A a, c \in Overl(t) : \A b \in a..c : b \in Overl(t)
NaNLattice == Applied => \A t \in 1..NT :
   /\ (mask = {}) => (~res[t].nanF /\ res[t].nanT = "num"
                      /\ res[t].numT = res[t].numF /\ res[t].denT = res[t].denF)
   /\ (mask = 1..NS) => (res[t].nanF /\ res[t].nanT = "nan")
   /\ (res[t].nanT # "num") => res[t].nanF
   /\ ~res[t].nanF => (res[t].denF = Sparse(row[t]) /\ res[t].numT = res[t].numF)

Key == [N |-> N, src |-> cfg.src, tgt |-> cfg.tgt, skind |-> cfg.skind, tkind |-> cfg.tkind]
Export ==
   /\ pc = "weights" =>
        PrintT(<<"CASE", ToJson([kind |-> "latw", key |-> Key, tb |-> tb, sb |-> sb, ov |-> ov,
                                 row |-> [t \in 1..NT |-> Sparse(row[t])],
                                 field |-> [s \in 1..NS |-> Field(s)]])>>)
   /\ pc = "applied" =>
        PrintT(<<"CASE", ToJson([kind |-> "lata", key |-> Key, mask |-> mask, res |-> res])>>)
=============================================================================
