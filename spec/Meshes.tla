------------------------------- MODULE Meshes -------------------------------
(* Device meshes (z, x, y) for model parallelism and the padded array layouts they induce.
   FastSphericalHarmonics pads the modal shape to multiples of (2*b*x, b*y) and the nodal shape
   to multiples of (b*x, b*y), with b = 8 by default under model parallelism (1 otherwise);
   levels are padded to a multiple of z for the duration of a Grid operation.  The ring
   collectives need an even (or unit) axis size.  Shard-local derivative: every x-shard holds
   whole (+m, -m) row pairs and its local zonal wavenumber is offset + i div 2 with
   offset = rows_per_shard/2 * x_index. *)
EXTENDS Integers, Sequences, FiniteSets, TLC, Json
CONSTANTS MaxDevices, Ms, Levels
RoundUp(a, k) == ((a + k - 1) \div k) * k
VARIABLES cfg, layout
vars == <<cfg, layout>>
Admissible(v) == v = 1 \/ v % 2 = 0
MeshSet == {m \in (1..MaxDevices) \X (1..MaxDevices) \X (1..MaxDevices) :
              m[1] * m[2] * m[3] <= MaxDevices /\ Admissible(m[2]) /\ Admissible(m[3])}
(* the smallest resolution at which every x-shard holds resolved zonal wavenumbers and every y-shard
   resolved total wavenumbers (with the default multiple 8 a small grid lives entirely on the first
   shard and the other shards see only padding - both situations are exported) *)
Max3(a, b, c) == IF a >= b /\ a >= c THEN a ELSE IF b >= c THEN b ELSE c
SpanM(m) == Max3(5, 8 * (m[2] - 1) + 1, 8 * (m[3] - 1))
Init == /\ \E m \in MeshSet : \E M \in Ms \cup {SpanM(m)} : \E K \in Levels : cfg = [mesh |-> m, M |-> M, K |-> K]
        /\ layout = <<>>
Parallel == cfg.mesh[1] > 1 \/ cfg.mesh[2] > 1 \/ cfg.mesh[3] > 1
B == IF Parallel THEN 8 ELSE 1
L == cfg.M + 1
I == 3 * cfg.M + 1
J == (3 * cfg.M + 2) \div 2
Build == /\ layout = <<>>
         /\ layout' = [modal |-> <<RoundUp(2 * cfg.M, 2 * B * cfg.mesh[2]), RoundUp(L, B * cfg.mesh[3])>>,
                       nodal |-> <<RoundUp(I, B * cfg.mesh[2]), RoundUp(J, B * cfg.mesh[3])>>,
                       zpad |-> RoundUp(cfg.K, cfg.mesh[1]) - cfg.K]
         /\ UNCHANGED cfg
Spec == Init /\ [][Build]_vars
Built == layout # <<>>
RowsPerShard == layout.modal[1] \div cfg.mesh[2]
(* every shard gets an equal, whole number of rows/columns/levels *)
EvenShards == Built => /\ layout.modal[1] % cfg.mesh[2] = 0 /\ layout.modal[2] % cfg.mesh[3] = 0
                       /\ layout.nodal[1] % cfg.mesh[2] = 0 /\ layout.nodal[2] % cfg.mesh[3] = 0
                       /\ (cfg.K + layout.zpad) % cfg.mesh[1] = 0 /\ layout.zpad < cfg.mesh[1]
(* (+m, -m) pairs are never split and local wavenumbers agree with the global ones *)
GlobalM(i) == i \div 2
PairsTogether == Built => /\ RowsPerShard % 2 = 0
                          /\ \A s \in 0..cfg.mesh[2] - 1 : \A i \in 0..RowsPerShard - 1 :
                               (RowsPerShard \div 2) * s + i \div 2 = GlobalM(s * RowsPerShard + i)
ColsPerShard == layout.modal[2] \div cfg.mesh[3]
(* at the spanning resolution no shard is pure padding *)
EveryShardHoldsData == (Built /\ cfg.M = SpanM(cfg.mesh)) =>
   /\ \A s \in 0..cfg.mesh[2] - 1 : s * RowsPerShard < 2 * cfg.M
   /\ \A s \in 0..cfg.mesh[3] - 1 : s * ColsPerShard < L
(* padding never hides resolved entries *)
Covers == Built => layout.modal[1] >= 2 * cfg.M /\ layout.modal[2] >= L
                   /\ layout.nodal[1] >= I /\ layout.nodal[2] >= J
Export == Built => PrintT(<<"CASE", ToJson([mesh |-> cfg.mesh, M |-> cfg.M, K |-> cfg.K, L |-> L, I |-> I, J |-> J,
                                            modal |-> layout.modal, nodal |-> layout.nodal, zpad |-> layout.zpad,
                                            spans |-> (cfg.M = SpanM(cfg.mesh))])>>)
=============================================================================
