--------------------------- MODULE ColumnTendency ---------------------------
(* C05, the part of "tendencies equal the continuous equations with the documented vertical finite
   differences" that is exact in TLC without Gaunt coefficients: states whose divergence is
   d[k] * Y(lon, lat) for ONE non-constant spherical harmonic Y (admissible: zero mean), whose
   temperature deviation tp[k], tracer q[k] and surface pressure are horizontally uniform, and
   whose vorticity vanishes.  Every vertical operator of the model acts pointwise in the
   horizontal and is linear in the divergence, the horizontal advection of a horizontally uniform
   scalar vanishes identically (-div(u s) + s div(u) = 0), and u . grad(ln ps) = 0, so the total
   (explicit + implicit) tendencies are  column(r) * Y  with

     dT/dt    [r] = vadv(sigma_dot(d), tp)[r] - kappa tp[r] gp(d)[r] - sum_s H(Tref)[r][s] d[s]
     dq/dt    [r] = vadv(sigma_dot(d), q)[r]
     dlnps/dt     = - sum_k d[k] dsigma[k]

   where vadv / sigma_dot / gp are the operators of SplitConsistency (centred vertical advection
   with zero boundary fluxes, sigma-dot from the cumulative sigma integral, Durran's omega/p
   with the log-sigma atoms alpha) and H the implicit temperature operator of ImplicitSolve.
   The column values are linear forms over the atoms alpha[1..K]; they are exported for every
   level set x reference profile x kappa x (d, tp) from unit vectors and one dense vector each
   (the forms are bilinear in (d, tp) and linear in d), and replayed into explicit_terms +
   implicit_terms of the real equation classes.

   Design-level checks: the total is independent of how the absolute temperature is split into
   Tref + tp (SplitFree, the column version of C04 for non-constant shifts), an isothermal
   resting-temperature column only feels the omega/p term (Isothermal), and mass conservation:
   the thickness-weighted column sum of a tracer tendency plus q * convergence vanishes
   (TracerSumByParts). *)
EXTENDS SplitConsistency

Zeros(KK_) == [k \in 1..KK_ |-> 0]
DenseVec(KK_) == [k \in 1..KK_ |-> 2 * k - 3]                    \* -1, 1, 3, ...
Vecs(KK_) == UnitProfiles(KK_) \cup {DenseVec(KK_)}

InitColumn == /\ \E b \in LevelSets :
                 cfg \in [b : {b}, tref : Profiles(Len(b) - 1), kappa : {<<2, 7>>},    \* linear in kappa
                          d : Vecs(Len(b) - 1), tp : Vecs(Len(b) - 1) \cup {Zeros(Len(b) - 1)}]
              /\ pc = "H" /\ H = <<>> /\ Hs = <<>> /\ Hasfound = <<>> /\ G = <<>>
SpecColumn == InitColumn /\ [][Next]_vars

DivR == [k \in 1..K |-> R(cfg.d[k])]
TpR == [k \in 1..K |-> R(cfg.tp[k])]
RECURSIVE LSumSeq(_)
LSumSeq(s) == IF s = <<>> THEN LZero ELSE LAdd(Head(s), LSumSeq(Tail(s)))
HDiv(Hm, r) == LSumSeq([s \in 1..K |-> LScale(DivR[s], Hm[r][s])])
TotalTWith(Hm, tp, r) ==
   LSub(LSub(LConst(VAdv(SigmaDot(DivR), tp)[r]),
             LScale(RMul(cfg.kappa, tp[r]), GPart(DivR)[r])),
        HDiv(Hm, r))
TotalT(r) == TotalTWith(H, TpR, r)
TracerT(r) == VAdv(SigmaDot(DivR), TpR)[r]
LnpsT == RNeg(RSum([k \in 1..K |-> RMul(DivR[k], DSig(k))], 1, K))

(* the same absolute temperature split differently: Tref' = Tref + tp, tp' = 0.  H is linear in
   the profile, so H(Tref + tp) = H(Tref) + H(tp) with H(tp) given by SplitVertical's explicit form *)
HOfProfile(prof) == [r \in 1..K |-> [s \in 1..K |->
     LSub(LScale(RMul(cfg.kappa, prof[r]), GPart(Div(s))[r]), LConst(VAdv(SigmaDot(Div(s)), prof)[r]))]]
SplitFree == Done =>
   \A r \in 1..K :
      TotalT(r) = LSub(TotalTWith(H, [k \in 1..K |-> Zero], r),
                       LSumSeq([s \in 1..K |-> LScale(DivR[s], HOfProfile(TpR)[r][s])]))
Isothermal == (Done /\ \A k \in 1..K : cfg.tp[k] = 0 /\ cfg.tref[k] = cfg.tref[1]) =>
   \A r \in 1..K : TotalT(r) = LScale(RNeg(RMul(cfg.kappa, T(1))), GPart(DivR)[r])
(* sum_k dsigma[k] (vadv(w, q)[k] - q[k] (w[k+1/2] - w[k-1/2]) / dsigma[k]) = 0,  w = sigma_dot(d) *)
TracerSumByParts == Done =>
   LET w == SigmaDot(DivR)
       wp == [k \in 0..K |-> IF k >= 1 /\ k <= K - 1 THEN w[k] ELSE Zero]
   IN  RSum([k \in 1..K |-> RSub(RMul(DSig(k), TracerT(k)), RMul(TpR[k], RSub(wp[k], wp[k - 1])))], 1, K) = Zero

ExportColumn == Done => PrintT(<<"CASE", ToJson([
     b |-> cfg.b, den |-> Den, tref |-> cfg.tref, kappa |-> cfg.kappa, d |-> cfg.d, tp |-> cfg.tp,
     temperature |-> [r \in 1..K |-> TotalT(r)], tracer |-> [r \in 1..K |-> TracerT(r)],
     lnps |-> LnpsT ])>>)
=============================================================================
