---------------------------- MODULE InterpColumns ----------------------------
(* The column (field) routines of dinosaur/vertical_interpolation.py as a machine:

     interp_pressure_to_sigma, interp_sigma_to_pressure   (and their round trips),
     interp_hybrid_to_sigma (HybridCoordinates.get_sigma_centers),
     get_surface_pressure.

   A field is NCols columns (the (x, y) points of the code), column c having its own surface
   pressure SP(c).  Sigma level sets live on the lattice k/Den, pressure levels and surface
   pressures are small integers (DenA, DenB powers of two), so every query (sigma * sp, p / sp, a / sp + b) and every
   result is an exact rational.  A behaviour is one of four scenarios chosen at Init:

     "p2s":     PressureToSigma ; SigmaToPressure      (round trip pressure -> sigma -> pressure)
     "s2p":     SigmaToPressure ; PressureToSigma      (round trip sigma -> pressure -> sigma)
     "hybrid":  HybridToSigma
     "surface": SurfacePressure

   Each field routine regrids two source fields at once: "affine" (affine in the source
   coordinate, with a different slope and offset per column) and "pattern" (arbitrary integers).

   Values: Rat, MISSING (= NaN, <<0, 0>>), or UNSPEC (<<0, -1>>): a result the property does not
   determine (a second-stage result next to a missing first-stage value; the code propagates
   NaN there, which is neither required nor forbidden).  UNSPEC is never compared. *)
EXTENDS Integers, Sequences, FiniteSets, TLC, Json, InterpOps

CONSTANTS DenA, DenB,     \* sigma boundaries k/DenA ("p2s" scenario), k/DenB ("s2p")
          MinLayers, MaxLayers,
          PLatticeA,      \* pressure levels are subsets of this set of positive integers with
          MinPA, MaxPA,   \*   MinPA..MaxPA elements ("p2s" and "surface" scenarios)
          PLatticeB,      \* the same for the "s2p" scenario
          MinPB, MaxPB,
          HDen,           \* hybrid b-coefficients on k/HDen
          HAMax,          \* hybrid a-coefficients in 0..HAMax
          MaxHLayers,     \* hybrid layers 2..MaxHLayers
          HSigmaDen,      \* target sigma sets of the hybrid scenario on k/HSigmaDen
          MaxStep,        \* geopotential decrements 1..MaxStep
          NCols           \* columns per field (<= 6)

VARIABLES scen, sb, sden, pl, hy, st, g, pc, src, r1, rl, r2
vars == <<scen, sb, sden, pl, hy, st, g, pc, src, r1, rl, r2>>

UNSPEC == <<0, -1>>
IsValue(v) == v[2] > 0

SPList == <<4, 6, 8, 5, 10, 3>>
OroList == <<0, 1, -1, 2, -3, 4>>
SP(c) == SPList[c]
Cols == 1..NCols
AC(c) == <<c - 3, IF c % 2 = 0 THEN 2 ELSE -1>>         \* column c: a + b * coordinate
Pat(c, k) == ((c * k * k + 2 * c + 3 * k) % 7) - 3
Fields == {"affine", "pattern"}

-----------------------------------------------------------------------------
RECURSIVE IncSeqs(_, _, _)
IncSeqs(n, lo, hi) == IF n = 0 THEN {<<>>}
                      ELSE UNION {{<<x>> \o s : s \in IncSeqs(n - 1, x + 1, hi)} : x \in lo..hi}
SigmaSets(d) == UNION {{<<0>> \o s \o <<d>> : s \in IncSeqs(K - 1, 1, d - 1)}
                       : K \in MinLayers..MaxLayers}
RECURSIVE SortedSeq(_)
SortedSeq(S) == IF S = {} THEN <<>>
                ELSE LET m == CHOOSE x \in S : \A y \in S : x <= y IN <<m>> \o SortedSeq(S \ {m})
PressureSets(lat, lo, hi) == {SortedSeq(S) : S \in {T \in SUBSET lat : Cardinality(T) \in lo..hi}}
PressureSetsA == PressureSets(PLatticeA, MinPA, MaxPA)
PressureSetsB == PressureSets(PLatticeB, MinPB, MaxPB)

K == Len(sb) - 1
Center(k) == Norm(sb[k] + sb[k + 1], 2 * sden)
Centers == [k \in 1..K |-> Center(k)]
NP == Len(pl)
PL == [j \in 1..NP |-> R(pl[j])]

(* hybrid levels of column c: boundaries a / sp + b, centers their midpoints *)
HL == Len(hy.a) - 1
HBound(c, i) == RAdd(Norm(hy.a[i], SP(c)), Norm(hy.b[i], HDen))
HCenters(c) == [k \in 1..HL |-> RMul(<<1, 2>>, RAdd(HBound(c, k), HBound(c, k + 1)))]
HybridSets == UNION {{[a |-> <<0>> \o am \o <<0>>, b |-> <<0>> \o bm \o <<HDen>>]
                        : am \in [1..L - 1 -> 0..HAMax], bm \in IncSeqs(L - 1, 1, HDen - 1)}
                     : L \in 2..MaxHLayers}
HybridOk(h) == \A c \in Cols : \A i \in 1..Len(h.a) - 1 :
    RLt(RAdd(Norm(h.a[i], SP(c)), Norm(h.b[i], HDen)),
        RAdd(Norm(h.a[i + 1], SP(c)), Norm(h.b[i + 1], HDen)))

(* geopotential of column c: strictly decreasing along the level axis *)
RECURSIVE StepSum(_, _)
StepSum(c, k) == IF k <= 1 THEN 0
                 ELSE st[((k - 1 + c) % Len(st)) + 1] + StepSum(c, k - 1)
Geo(c) == [j \in 1..NP |-> R((c - 2) - StepSum(c, j))]
RelHeight(c) == [j \in 1..NP |-> RSub(R(g * OroList[c]), Geo(c)[j])]

-----------------------------------------------------------------------------
(* _linear_interp_with_safe_extrap(n=1) on a column that may already contain missing values *)
SafeColumn(xp, fp, x) ==
  LET v == SafeExtrap(xp, fp, x, 1)
  IN  IF RLt(x, SafeLo(xp, 1)) \/ RLt(SafeHi(xp, 1), x) THEN MISSING
      ELSE IF IsMissing(v) THEN UNSPEC ELSE v
Clean(col) == [k \in DOMAIN col |-> IF IsValue(col[k]) THEN col[k] ELSE MISSING]

(* desired = sigma centers * surface pressure, looked up in the pressure levels *)
P2S(data) == [f \in Fields |-> [c \in Cols |-> [k \in 1..K |->
                 SafeColumn(PL, Clean(data[f][c]), RMul(Center(k), R(SP(c))))]]]
(* desired = pressure levels / surface pressure, looked up in the sigma centers *)
S2P(data) == [f \in Fields |-> [c \in Cols |-> [j \in 1..NP |->
                 SafeColumn(Centers, Clean(data[f][c]), Norm(pl[j], SP(c)))]]]

(* the same two routines called with interpolate_fn = the unlimited linear extrapolation,
   on the affine field *)
P2SLinear(data) == [c \in Cols |-> [k \in 1..K |->
                      LinearExtrap(PL, data["affine"][c], RMul(Center(k), R(SP(c))))]]
S2PLinear(data) == [c \in Cols |-> [j \in 1..NP |->
                      LinearExtrap(Centers, data["affine"][c], Norm(pl[j], SP(c)))]]

AffineOn(coord, c) == [k \in DOMAIN coord |-> RAdd(R(AC(c)[1]), RMul(R(AC(c)[2]), coord[k]))]
SourceOn(coordOf(_)) ==
  [f \in Fields |-> [c \in Cols |->
     IF f = "affine" THEN AffineOn(coordOf(c), c)
     ELSE [k \in DOMAIN coordOf(c) |-> R(Pat(c, k))]]]

-----------------------------------------------------------------------------
None == <<>>
InitP2S == /\ scen = "p2s" /\ sden = DenA /\ sb \in SigmaSets(DenA) /\ pl \in PressureSetsA
           /\ hy = None /\ st = None /\ g = 0
           /\ src = LET co(c) == PL IN SourceOn(co)
InitS2P == /\ scen = "s2p" /\ sden = DenB /\ sb \in SigmaSets(DenB) /\ pl \in PressureSetsB
           /\ hy = None /\ st = None /\ g = 0
           /\ src = LET co(c) == Centers IN SourceOn(co)
InitHybrid == /\ scen = "hybrid" /\ sden = HSigmaDen /\ sb \in SigmaSets(HSigmaDen) /\ pl = None
              /\ hy \in {h \in HybridSets : HybridOk(h)} /\ st = None /\ g = 0
              /\ src = SourceOn(HCenters)
InitSurface == /\ scen = "surface" /\ sden = 0 /\ sb = None /\ pl \in PressureSetsA /\ hy = None
               /\ st \in [1..Len(pl) - 1 -> 1..MaxStep] /\ g \in 1..2
               /\ src = None
Init == /\ (InitP2S \/ InitS2P \/ InitHybrid \/ InitSurface)
        /\ pc = "first" /\ r1 = None /\ rl = None /\ r2 = None

Keep == UNCHANGED <<scen, sb, sden, pl, hy, st, g, src>>

(* interp_pressure_to_sigma(fields, pressure_coords, sigma_coords, surface_pressure):
   first call of the "p2s" round trip, second call of the "s2p" round trip *)
PressureToSigma ==
  /\ <<scen, pc>> \in {<<"p2s", "first">>, <<"s2p", "second">>}
  /\ IF pc = "first" THEN r1' = P2S(src) /\ rl' = P2SLinear(src) /\ pc' = "second" /\ UNCHANGED r2
                      ELSE r2' = P2S(r1) /\ pc' = "done" /\ UNCHANGED <<r1, rl>>
  /\ Keep
(* interp_sigma_to_pressure(fields, pressure_coords, sigma_coords, surface_pressure) *)
SigmaToPressure ==
  /\ <<scen, pc>> \in {<<"s2p", "first">>, <<"p2s", "second">>}
  /\ IF pc = "first" THEN r1' = S2P(src) /\ rl' = S2PLinear(src) /\ pc' = "second" /\ UNCHANGED r2
                      ELSE r2' = S2P(r1) /\ pc' = "done" /\ UNCHANGED <<r1, rl>>
  /\ Keep
(* interp_hybrid_to_sigma(fields, hybrid_coords, sigma_coords, surface_pressure) *)
HybridToSigma ==
  /\ scen = "hybrid" /\ pc = "first"
  /\ r1' = [f \in Fields |-> [c \in Cols |-> [k \in 1..K |->
               SafeColumn(HCenters(c), src[f][c], Center(k))]]]
  /\ pc' = "done" /\ UNCHANGED <<r2, rl>> /\ Keep
(* get_surface_pressure(pressure_levels, geopotential, orography, gravity_acceleration):
   the pressure at which relative height = orography * g - geopotential crosses zero *)
SurfacePressure ==
  /\ scen = "surface" /\ pc = "first"
  /\ r1' = [c \in Cols |-> LinearExtrap(RelHeight(c), PL, Zero)]
  /\ pc' = "done" /\ UNCHANGED <<r2, rl>> /\ Keep

Next == PressureToSigma \/ SigmaToPressure \/ HybridToSigma \/ SurfacePressure
Spec == Init /\ [][Next]_vars

-----------------------------------------------------------------------------
Done == pc = "done"
FirstDone == pc \in {"second", "done"}

(* nodes and queries of the first stage, per column / output index *)
Nodes1(c) == IF scen = "p2s" THEN PL ELSE IF scen = "s2p" THEN Centers ELSE HCenters(c)
NOut1 == IF scen = "s2p" THEN NP ELSE K
Query1(c, k) == IF scen = "p2s" THEN RMul(Center(k), R(SP(c)))
                ELSE IF scen = "s2p" THEN Norm(pl[k], SP(c)) ELSE Center(k)

SourceCoordinatesIncrease ==
  scen \in {"p2s", "s2p", "hybrid"} => \A c \in Cols : StrictlyIncreasing(Nodes1(c))

(* first stage = reference interpolant with one cell of linear extrapolation, missing beyond *)
FirstStageMatchesReference ==
  (FirstDone /\ scen # "surface") => \A f \in Fields : \A c \in Cols : \A k \in 1..NOut1 :
      r1[f][c][k] = RefSafe(Nodes1(c), src[f][c], Query1(c, k), 1)

(* affine columns are reproduced wherever a value is returned *)
FirstStageAffine ==
  (FirstDone /\ scen # "surface") => \A c \in Cols : \A k \in 1..NOut1 :
      IsValue(r1["affine"][c][k]) =>
         r1["affine"][c][k] = RAdd(R(AC(c)[1]), RMul(R(AC(c)[2]), Query1(c, k)))

(* with unlimited linear extrapolation affine columns are reproduced everywhere, and the
   default (safe) mode agrees with it wherever it returns a value *)
LinearVariantAffine ==
  (FirstDone /\ scen \in {"p2s", "s2p"}) => \A c \in Cols : \A k \in 1..NOut1 :
      /\ rl[c][k] = RAdd(R(AC(c)[1]), RMul(R(AC(c)[2]), Query1(c, k)))
      /\ IsValue(r1["affine"][c][k]) => r1["affine"][c][k] = rl[c][k]

(* sigma <-> pressure round trip: affine columns come back wherever a value comes back *)
RoundTripAffine ==
  (Done /\ scen \in {"p2s", "s2p"}) => \A c \in Cols : \A k \in DOMAIN r2["affine"][c] :
      IsValue(r2["affine"][c][k]) => r2["affine"][c][k] = src["affine"][c][k]

(* a second-stage value is returned exactly where both neighbouring first-stage values exist *)
RoundTripWellFormed ==
  (Done /\ scen \in {"p2s", "s2p"}) => \A f \in Fields : \A c \in Cols :
      /\ Len(r2[f][c]) = Len(src[f][c])
      /\ \A k \in DOMAIN r2[f][c] : r2[f][c][k] \in {MISSING, UNSPEC} \/ IsValue(r2[f][c][k])

(* surface pressure is the level where geopotential meets orography * g *)
SurfaceMeetsOrography ==
  (Done /\ scen = "surface") => \A c \in Cols :
      /\ IsValue(r1[c])
      /\ RefLinear(PL, Geo(c), r1[c]) = R(g * OroList[c])
(* ... and it is the unique such level: relative height is strictly increasing *)
SurfaceUnique ==
  (Done /\ scen = "surface") => \A c \in Cols : StrictlyIncreasing(RelHeight(c))

Export == Done =>
   PrintT(<<"CASE", ToJson(
     [scen |-> scen, sb |-> sb, sden |-> sden, pl |-> pl, hy |-> hy, hden |-> HDen, g |-> g,
      sp |-> [c \in Cols |-> SP(c)],
      oro |-> [c \in Cols |-> OroList[c]],
      geo |-> IF scen = "surface" THEN [c \in Cols |-> Geo(c)] ELSE None,
      edge1 |-> IF scen = "surface" THEN None
                ELSE [c \in Cols |-> [k \in 1..NOut1 |->
                        IF Query1(c, k) \in {SafeLo(Nodes1(c), 1), SafeHi(Nodes1(c), 1)} THEN 1 ELSE 0]],
      src |-> src, r1 |-> r1, lin1 |-> rl, r2 |-> r2])>>)
=============================================================================
