----------------------------- MODULE ScalePairs -----------------------------
(* C12: two non-dimensionalisations of the same physical problem.

   A scale assigns to each base dimension (length, time, mass, temperature) a unit; a quantity of
   dimension e = <<eL, eT, eM, eTh>> and SI value v is represented by  v / prod unit_d^e_d.
   Scales whose units differ by powers of two make re-scaling exact in binary floating point, so
   all arithmetic here is on binary exponents (integers): a scale is a vector u of exponents
   (unit_d = 2^u_d base units), a non-dimensional value v * 2^-(u . e).

   The machine picks a base scale, a dimension d and a power k, rescales the problem in two
   steps (k = k1 + k2), and checks
     * the SI value reconstructed under either scale is the same            (RoundTrip)
     * rescaling composes: first k1 then k2 equals k                         (Composition)
     * a node of dimension e changes by the binary exponent -k*e_d           (Ratio) -- this is
       what the replay measures on every recorded node of two real executions and compares
       with the dimension vectors of Dataflow.tla;
     * dimensionless nodes do not change; no node of the dynamical core carries mass except
       through the additive offset of the log surface pressure              (MassFree).
   Exported: (class, base scale, d, k) and for the probe dimensions the expected exponents. *)
EXTENDS Integers, Sequences, FiniteSets, TLC, Json

VARIABLES cfg, pc, u
vars == <<cfg, pc, u>>

Classes == {"dry", "moist", "held_suarez", "sw"}
Bases == [si |-> <<0, 0, 0, 0>>, mixed |-> <<22, 13, 5, -2>>, small |-> <<-3, 2, 60, 1>>]
Ks == {-3, -1, 1, 2}
Dot(a, b) == a[1] * b[1] + a[2] * b[2] + a[3] * b[3] + a[4] * b[4]
Unit(d) == [i \in 1..4 |-> IF i = d THEN 1 ELSE 0]
Plus(a, b) == [i \in 1..4 |-> a[i] + b[i]]
Times(k, a) == [i \in 1..4 |-> k * a[i]]
(* probe dimensions: vorticity, velocity, temperature, gas constant, geopotential, pressure,
   tendency of temperature, dimensionless *)
Probes == [vorticity |-> <<0, -1, 0, 0>>, velocity |-> <<1, -1, 0, 0>>, temperature |-> <<0, 0, 0, 1>>,
           gas_constant |-> <<2, -2, 0, -1>>, geopotential |-> <<2, -2, 0, 0>>,
           pressure |-> <<-1, -2, 1, 0>>, temperature_tendency |-> <<0, -1, 0, 1>>,
           divergence_tendency |-> <<0, -2, 0, 0>>, number |-> <<0, 0, 0, 0>>]
(* binary exponent of the non-dimensional representation of an SI value with binary exponent v *)
NonDim(v, e, scale) == v - Dot(scale, e)
ToSI(x, e, scale) == x + Dot(scale, e)

Init == /\ cfg \in [class : Classes, base : DOMAIN Bases, d : 1..4, k1 : Ks, k2 : Ks]
        /\ cfg.k1 + cfg.k2 # 0
        /\ pc = "base" /\ u = Bases[cfg.base]
First == /\ pc = "base" /\ u' = Plus(u, Times(cfg.k1, Unit(cfg.d))) /\ pc' = "mid" /\ UNCHANGED cfg
Second == /\ pc = "mid" /\ u' = Plus(u, Times(cfg.k2, Unit(cfg.d))) /\ pc' = "done" /\ UNCHANGED cfg
Next == First \/ Second
Spec == Init /\ [][Next]_vars
Done == pc = "done"
K == cfg.k1 + cfg.k2

RoundTrip == \A p \in DOMAIN Probes : \A v \in {-7, 0, 11} :
   ToSI(NonDim(v, Probes[p], u), Probes[p], u) = v
Composition == Done => u = Plus(Bases[cfg.base], Times(K, Unit(cfg.d)))
Ratio == Done => \A p \in DOMAIN Probes : \A v \in {-7, 0, 11} :
   NonDim(v, Probes[p], u) - NonDim(v, Probes[p], Bases[cfg.base]) = -K * Probes[p][cfg.d]
Dimensionless == Done => \A v \in {-7, 0, 11} : NonDim(v, Probes.number, u) = v
(* only pressure carries mass among the quantities of the dynamical core *)
MassFree == \A p \in DOMAIN Probes : (Probes[p][3] # 0) => p = "pressure"
Export == Done => PrintT(<<"CASE", ToJson([class |-> cfg.class, base |-> Bases[cfg.base], basename |-> cfg.base,
     d |-> cfg.d, k |-> K, scale |-> u,
     expect |-> [p \in DOMAIN Probes |-> -K * Probes[p][cfg.d]] ])>>)
=============================================================================
