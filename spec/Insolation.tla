----------------------------- MODULE Insolation -----------------------------
(* Top-of-atmosphere insolation of radiation.py as an exact machine (property C20).

   What is exact in radiation.py is calendar / phase arithmetic and a sign computation:

     orbital phase  = 2 pi * frac( ref_fraction_of_year + t / 365.25 d )
     synodic phase  = 2 pi * frac( ref_fraction_of_day  + t / 1 d )
     flux           = S(orbital phase) * [sinalt > 0] * sinalt ,   S = TSI + V cos(phase - perihelion)

   Phases are kept in *turns* as normalised rationals (Exact.tla); time is an integer number
   of ticks (Tick minutes) since the reference datetime.  One action per public call:

     ToOrbitalTime  SolarRadiation.time_to_orbital_time (the floor-based wrap, no fmod)
     Flux           SolarRadiation.radiation_flux / get_radiation_flux
     Advance        the caller moving model time by a period (a day, a year, four years)

   "Is the sun above the horizon" cannot be decided exactly everywhere (declination and the
   equation of time are transcendental), but it IS decided exactly, from rational data only,
   on a robust part of the space-time lattice; everywhere else the class is "X" (no claim):

     sinalt = cos(lat) cos(decl) cos(h) + sin(lat) sin(decl),   |decl| <= 23.45 deg,
     h = mean hour angle + equation of time,  |eot| <= 9.87+7.53+1.5 min = 18.9 min < 4.73 deg.

     |lat| <= 60 deg, mean hour angle within 1/16 turn (22.5 deg) of local noon:
        first term >= cos60 cos23.45 cos27.23 = 0.4078, |second| <= sin60 sin23.45 = 0.3447
        => sinalt >= 0.063 > 0                                                   class "U"
     |lat| <= 60 deg, within 1/16 turn of local midnight: sinalt <= -0.063       class "D"
     poles: sinalt = +-sin(decl) (cos(lat) = 0); between 1/24 and 11/24 of a turn after the
        spring equinox the declination is >= 23.45 deg * sin(15 deg) = 6 deg: north pole "U",
        south pole "D"; the mirror statement between 13/24 and 23/24.

   The bounds need no transcendental input: they are the sign lattice of the product
   (SignLattice below), under the assumption sinalt <= 1. *)
EXTENDS Integers, Sequences, FiniteSets, TLC, Json, Exact

CONSTANTS Tier,     \* "quick" | "thorough"
          NLon      \* longitude nodes, multiple of 4; node i (0-based) sits at i/NLon of a turn

Tick == 15                          \* minutes per tick
DayT == 1440 \div Tick              \* ticks per day          (96)
YearT == 525960 \div Tick           \* ticks per 365.25 days  (35064)
TSI == 1361                         \* W/m^2, TOTAL_SOLAR_IRRADIANCE
V == 47                             \* W/m^2, SOLAR_IRRADIANCE_VARIATION
PeriTurn == <<12, 1461>>            \* perihelion: 3 days / 365.25 days
EquinoxTurn == <<316, 1461>>        \* spring equinox: 79 days / 365.25 days

(* reference datetimes <<full days since Jan 1, tick of day, days in that year>> *)
RefsQ == {<<0, 0, 365>>, <<171, 50, 365>>, <<59, 1, 366>>, <<364, 95, 365>>}
RefsT == RefsQ \cup {<<0, 0, 366>>, <<78, 37, 365>>, <<265, 48, 366>>, <<2, 0, 365>>}
Refs == IF Tier = "quick" THEN RefsQ ELSE RefsT
(* model times in ticks: perihelion and its quarter-year offsets (from Jan 1 00:00), equinoxes,
   solstices, odd quarter hours, negative times, decades *)
TimesQ == {0, 288, 288 + 8766, 288 + 17532, 7584, 16464, 25400, 34100, 12345, -4001,
           30 * YearT + 77, -10 * YearT - 13}
TimesT == TimesQ \cup {288 + 26298, 1, 95, 96, -1, -96, 5000, 20011, 29999, 3 * YearT + 288,
                       -YearT, 57 * YearT + 31001, -33 * YearT - 7584, 40 * YearT}
Times == IF Tier = "quick" THEN TimesQ ELSE TimesT
ShiftsQ == {DayT, 7 * DayT, YearT, 2 * YearT, 4 * YearT, -YearT, 37}
ShiftsT == ShiftsQ \cup {-DayT, 3 * YearT, -4 * YearT, 8 * YearT, 365 * DayT, 1461 * DayT, 1}
Shifts == IF Tier = "quick" THEN ShiftsQ ELSE ShiftsT

VARIABLES ref, t, shift, ph, hist, pc
vars == <<ref, t, shift, ph, hist, pc>>

-----------------------------------------------------------------------------
Frac(q) == RSub(q, R(RFloor(q)))                       \* q - floor(q), in [0, 1)
RefOrb(r) == Norm(r[1] * DayT + r[2], r[3] * DayT)     \* datetime_to_orbital_time
RefSyn(r) == Norm(r[2], DayT)
(* reference + rate * time, wrapped to [0, 1) turns.  Whole turns of t are removed before the
   addition only to keep TLC's 32-bit integers small; the value is the same. *)
OrbOf(r, tt) == Frac(RAdd(RefOrb(r), Norm(tt % YearT, YearT)))
SynOf(r, tt) == Frac(RAdd(RefSyn(r), Norm(tt % DayT, DayT)))

(* distance (in turns) of the local *mean* solar time from noon: 0 = noon, 1/2 = midnight *)
NoonDist(syn, i) == RAbs(RSub(Frac(RAdd(syn, Norm(i, NLon))), <<1, 2>>))
Season(orb) == LET e == Frac(RSub(orb, EquinoxTurn))
               IN  IF RLe(<<1, 24>>, e) /\ RLe(e, <<11, 24>>) THEN "north"
                   ELSE IF RLe(<<13, 24>>, e) /\ RLe(e, <<23, 24>>) THEN "south"
                   ELSE "near_equinox"
LowClass(syn, i) == LET d == NoonDist(syn, i)
                    IN  IF RLe(d, <<1, 16>>) THEN "U"
                        ELSE IF RLe(<<7, 16>>, d) THEN "D" ELSE "X"
Flip(c) == IF c = "U" THEN "D" ELSE IF c = "D" THEN "U" ELSE "X"
NorthPole(orb) == LET s == Season(orb)
                  IN  IF s = "north" THEN "U" ELSE IF s = "south" THEN "D" ELSE "X"
(* class table: latitude class -> sequence over longitude nodes (entry i+1 is node i) *)
Classes(orb, syn) ==
  [low |-> [i \in 1..NLon |-> LowClass(syn, i - 1)],
   np  |-> [i \in 1..NLon |-> NorthPole(orb)],
   sp  |-> [i \in 1..NLon |-> Flip(NorthPole(orb))]]

(* the solar "constant" on the quarter-turn lattice around perihelion; 0 = not on the lattice *)
PeriOff(orb) == Frac(RSub(orb, PeriTurn))
SExact(orb) == LET p == PeriOff(orb)
               IN  IF p = Zero THEN TSI + V
                   ELSE IF p = <<1, 2>> THEN TSI - V
                   ELSE IF p = <<1, 4>> \/ p = <<3, 4>> THEN TSI ELSE 0
(* which half of the orbit: S >= TSI on the perihelion half, S <= TSI on the other *)
SSide(orb) == LET p == PeriOff(orb)
              IN  IF RLe(p, <<1, 4>>) \/ RLe(<<3, 4>>, p) THEN "ge" ELSE "le"

Snapshot == [t |-> t, orb |-> ph.orb, syn |-> ph.syn, cls |-> Classes(ph.orb, ph.syn),
             s |-> SExact(ph.orb), side |-> SSide(ph.orb)]

-----------------------------------------------------------------------------
Init == /\ ref \in Refs /\ t \in Times /\ shift \in Shifts
        /\ ph = [orb |-> Zero, syn |-> Zero] /\ hist = <<>> /\ pc = "time"

(* SolarRadiation.time_to_orbital_time *)
ToOrbitalTime == /\ pc = "time"
                 /\ ph' = [orb |-> OrbOf(ref, t), syn |-> SynOf(ref, t)]
                 /\ pc' = "phase" /\ UNCHANGED <<ref, t, shift, hist>>
(* SolarRadiation.radiation_flux / get_radiation_flux: sign classes of the field *)
Flux == /\ pc = "phase"
        /\ hist' = Append(hist, Snapshot)
        /\ pc' = IF Len(hist) = 1 THEN "done" ELSE "flux"
        /\ UNCHANGED <<ref, t, shift, ph>>
(* the caller advances model time *)
Advance == /\ pc = "flux" /\ t' = t + shift /\ pc' = "time"
           /\ UNCHANGED <<ref, shift, ph, hist>>
Next == ToOrbitalTime \/ Flux \/ Advance
Spec == Init /\ [][Next]_vars

-----------------------------------------------------------------------------
(* the property on the machine *)
Done == pc = "done"
A == hist[1]
B == hist[2]
Years == shift \div YearT
Roll == ((Years % 4) * (NLon \div 4)) % NLon
RelKind == IF shift % (4 * YearT) = 0 THEN "full"
           ELSE IF shift % YearT = 0 THEN "year"
           ELSE IF shift % DayT = 0 THEN "day" ELSE "none"

PhaseRange == pc # "time" => /\ RLe(Zero, ph.orb) /\ RLt(ph.orb, One)
                             /\ RLe(Zero, ph.syn) /\ RLt(ph.syn, One)
DailyPeriodic == (Done /\ shift % DayT = 0) => B.syn = A.syn
OrbitalPeriodic == (Done /\ shift % YearT = 0) =>
   /\ B.orb = A.orb /\ B.s = A.s /\ B.side = A.side
   /\ B.cls.np = A.cls.np /\ B.cls.sp = A.cls.sp
   (* 365.25 days later the Earth has turned a quarter turn further: the field is the same
      field rolled along longitude *)
   /\ B.syn = Frac(RAdd(A.syn, Norm(Years % 4, 4)))
   /\ \A i \in 1..NLon : B.cls.low[i] = A.cls.low[((i - 1 + Roll) % NLon) + 1]
FullyPeriodic == (Done /\ shift % (4 * YearT) = 0) =>
   /\ B.orb = A.orb /\ B.syn = A.syn /\ B.cls = A.cls
(* antipodal meridians / opposite poles see opposite classes *)
ClassesConsistent == Done => \A h \in {A, B} :
   /\ \A i \in 1..NLon : h.cls.low[((i - 1 + NLon \div 2) % NLon) + 1] = Flip(h.cls.low[i])
   /\ \A i \in 1..NLon : h.cls.sp[i] = Flip(h.cls.np[i])
(* the sign machine of  S * [s > 0] * s  on a rational lattice: s = sinalt in [-1, 1],
   c = cos(orbital phase - perihelion) in [-1, 1].  Never negative, zero iff s <= 0, at most
   the perihelion constant, and at most 1 after normalisation by (TSI + V). *)
Lat8 == {Norm(k, 8) : k \in -8..8}
SOf(c) == RAdd(R(TSI), RMul(R(V), c))
FluxOf(c, s) == IF RLt(Zero, s) THEN RMul(SOf(c), s) ELSE Zero
SignLattice == \A c \in Lat8 : \A s \in Lat8 :
   /\ RLe(R(TSI - V), SOf(c)) /\ RLe(SOf(c), R(TSI + V))
   /\ RLe(Zero, FluxOf(c, s))
   /\ (FluxOf(c, s) = Zero) <=> RLe(s, Zero)
   /\ RLe(FluxOf(c, s), SOf(c)) /\ RLe(FluxOf(c, s), R(TSI + V))
   /\ RLe(RDiv(FluxOf(c, s), R(TSI + V)), One)
SExactConsistent == Done => \A h \in {A, B} :
   /\ h.s \in {0, TSI - V, TSI, TSI + V}
   /\ (h.s = TSI + V) => h.side = "ge"
   /\ (h.s = TSI - V) => h.side = "le"

Export == Done =>
   PrintT(<<"CASE", ToJson([ref |-> ref, shift |-> shift, tick |-> Tick, nlon |-> NLon,
                            rel |-> RelKind, roll |-> Roll, years |-> Years,
                            tsi |-> TSI, var |-> V, a |-> A, b |-> B])>>)
=============================================================================
