------------------------ MODULE TraceCombTrajectory ------------------------
(* Trace validation: executions of the real trajectory_from_step/step_with_filters recorded
   by harness/c14.py (one event per step-function call and per filter call, in program
   order, with the step count the callee observed) must be behaviours of CombTrajectory.
   Un-logged actions (entering the outer body, end of a step, frame emission) are
   deterministic given the state and are taken silently.  Many traces per TLC run: the
   initial state picks the trace. *)
EXTENDS CombTrajectory, IOUtils

Traces == JsonDeserialize(IOEnv.TRACE_FILE)

VARIABLES t, l
tvars == <<vars, t, l>>

TraceInit == /\ t \in 1..Len(Traces)
             /\ l = 1
             /\ cfg = [outer |-> Traces[t].cfg.outer, inner |-> Traces[t].cfg.inner,
                       swi |-> Traces[t].cfg.swi, nf |-> Traces[t].cfg.nf]
             /\ pc = "outer" /\ k = 1 /\ j = 1 /\ fi = 1
             /\ carry = <<>> /\ prev = <<>> /\ carryIn = <<>> /\ frames = <<>>
             /\ viaScan = FALSE

Ev == Traces[t].ev
Steps(h) == Len(SelectSeq(h, LAMBDA x : x = 0))

Silent == /\ (OuterDirect \/ OuterRepeated \/ EndStep \/ Emit)
          /\ UNCHANGED <<t, l>>
TraceStep == /\ l <= Len(Ev) /\ Ev[l].e = "Step"
             /\ Ev[l].n = Steps(carry)           \* the callee saw this many earlier steps
             /\ Step /\ l' = l + 1 /\ UNCHANGED t
TraceFilter == /\ l <= Len(Ev) /\ Ev[l].e = "Filter"
               /\ Ev[l].i = fi                   \* filters in order
               /\ Ev[l].u = Steps(prev)          \* handed the input of this step
               /\ Filter /\ l' = l + 1 /\ UNCHANGED t
TraceNext == Silent \/ TraceStep \/ TraceFilter
TraceSpec == TraceInit /\ [][TraceNext]_tvars

Accepted == /\ pc = "done" /\ l = Len(Ev) + 1
            /\ Len(frames) = Len(Traces[t].frames)
            /\ \A q \in 1..Len(frames) : Steps(frames[q]) = Traces[t].frames[q]
            /\ Steps(carry) = Traces[t].final
Report == Accepted => PrintT(<<"TRACEOK", ToJson(t)>>)
=============================================================================
