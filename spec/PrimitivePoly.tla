---------------------------- MODULE PrimitivePoly ----------------------------
(* C05, first clause, for the dry primitive equations (with tracers) on NON-zonal, UNBALANCED,
   vertically structured states: the total tendency (explicit + implicit halves of the code)
   equals the continuous sigma-coordinate equations evaluated pointwise, with the horizontal
   derivatives analytic and the vertical ones the documented finite differences.

   Per level k (numbered from the top) the state is a stream function psi[k], a velocity potential
   chi[k], a temperature deviation tp[k] from the reference tref[k] and a tracer q[k]; the surface
   carries s = ln(ps) and the surface geopotential oro.  All of them are polynomials on the unit
   sphere (SpherePoly.tla), so every product below is again a polynomial.  With
   u[k] = grad chi[k] + r x grad psi[k],  A[k] = Lap psi[k] + 2 Omega z,  delta[k] = Lap chi[k],
   g[k] = u[k] . grad s, and the vertical operators of the model

     F_x[k]   = sum_{j<=k} x[j] dsigma[j]                                   (cumulative sigma integral)
     w_x[k+1/2] = sigma[k+1/2] F_x[K] - F_x[k]                               (sigma-dot from x = g, g + delta)
     vadv(w, x)[k] = -1/2 ( w[k+1/2] (x[k+1]-x[k])/h[k+1/2] + w[k-1/2] (x[k]-x[k-1])/h[k-1/2] ),  w = 0 at both ends
     gp(x)[k] = (alpha[k] F_x[k] + alpha[k-1] F_x[k-1]) / dsigma[k]          (Durran's omega/p, log-sigma atoms alpha)
     Phi'[k]  = R sum_j Geo[k][j] tp[j]                                      (trapezoid rule in log sigma)

   the equations are

     d zeta /dt = - div(A u) - curl( wf dU/dsigma ) - R Jac(tp, s)
     d delta/dt =   curl(A u) - div( wf dU/dsigma ) - R div(tp grad s) - Lap( |u|^2/2 + oro + Phi' + R tref s )
     d tp   /dt = - u . grad tp + vadv(wf, tp) + vadv(we, tref)
                  + kappa ( tref (g - gp(g)) + tp (g - gp(g + delta)) ) - H(tref) delta
     d s    /dt = - sum_k (g[k] + delta[k]) dsigma[k]
     d q    /dt = - u . grad q + vadv(wf, q)

   where (w dU/dsigma)[k] is the centred vertical advection of the *vector* velocity, i.e. the
   velocity field of (psi[k+1]-psi[k], chi[k+1]-chi[k]) weighted by w.  Quantities that contain the
   transcendental atoms alpha[j] are kept as "atom-linear" polynomials: a function from 0..K to
   polynomials (index 0 = rational part, j = coefficient of alpha[j]).

   One action per equation; the exported polynomials are compared pointwise, at every grid node,
   with explicit_terms + implicit_terms of the real PrimitiveEquations (grids large enough for the
   cubic products to be alias free). *)
EXTENDS ImplicitSolve, SpherePoly, TLC, Json

VARIABLES diag, tend
pvars == <<cfg, pc, H, Hs, Hasfound, G, diag, tend>>

HH == Harmonics
(* per-level menus: <<level 1, level 2>> *)
PsiMenu == << <<PAdd(HH.z, HH.xy), HH.x>>, <<HH.y, PAdd(HH.xz, PScale(<<1, 2>>, HH.z))>>, <<PZero, HH.x2y2>> >>
ChiMenu == << <<HH.y, PScale(<<1, 2>>, HH.xz)>>, <<PZero, HH.x>>, <<PAdd(HH.z, HH.x), PZero>> >>
TpMenu  == << <<PAdd(HH.x, HH.z), HH.yz>>, <<PScale(<<2, 1>>, HH.xy), PConst(One)>>, <<PZero, PZero>> >>
SMenu   == << PAdd(HH.x, PScale(<<1, 2>>, HH.z)), PScale(<<1, 2>>, HH.yz), PZero >>
QMenu   == << <<PAdd(PConst(One), HH.y), HH.xz>> >>
OroMenu == << PZero, PAdd(HH.xz, PScale(<<1, 4>>, HH.y)) >>

CONSTANTS Choices,        \* set of <<psi, chi, tp, s, oro>> menu indices
          Deep            \* TRUE: three levels

OneChoice == {<<1, 1, 1, 1, 2>>}
QuickChoices == {<<1, 1, 1, 1, 2>>, <<2, 2, 2, 2, 1>>, <<3, 3, 1, 2, 2>>}
MediumChoices == QuickChoices \cup {<<1, 2, 3, 2, 2>>, <<2, 1, 2, 3, 1>>, <<3, 1, 1, 1, 1>>, <<1, 3, 2, 1, 1>>, <<2, 3, 3, 1, 2>>, <<3, 2, 2, 3, 2>>}
AllChoices == (1..3) \X (1..3) \X (1..3) \X (1..3) \X (1..2)
(* two levels, or (Deep) three: an interior level feels both of its interfaces *)
Columns == IF Deep THEN {[b |-> <<0, 2, 5, 8>>, tr |-> <<2, 3, 5>>], [b |-> <<0, 3, 6, 8>>, tr |-> <<3, 3, 3>>]}
           ELSE {[b |-> bb, tr |-> tt] : bb \in {<<0, 4, 8>>, <<0, 2, 8>>}, tt \in {<<3, 3>>, <<2, 4>>}}
InitPoly == /\ \E col \in Columns : \E ch \in Choices : LET b == col.b  tr == col.tr IN
                 /\ cfg = [b |-> b, tref |-> tr, kappa |-> <<2, 7>>, gas |-> <<3, 2>>, gasv |-> <<5, 2>>, omega |-> <<1, 2>>, ch |-> ch]
            /\ pc = "H" /\ H = <<>> /\ Hs = <<>> /\ Hasfound = <<>> /\ G = <<>> /\ diag = <<>> /\ tend = <<>>

(* the menus give two levels; a third level is half the sum of the first two minus the second *)
Lev(menu, k) == IF k <= 2 THEN menu[k] ELSE PSub(PScale(<<1, 2>>, menu[1]), PScale(<<1, 2>>, menu[2]))
Psi(k) == Lev(PsiMenu[cfg.ch[1]], k)
Chi(k) == Lev(ChiMenu[cfg.ch[2]], k)
Tp(k) == Lev(TpMenu[cfg.ch[3]], k)
S == SMenu[cfg.ch[4]]
OroP == OroMenu[cfg.ch[5]]
Q(k) == Lev(QMenu[1], k)
Rgas == cfg.gas

(* ---- atom-linear polynomials ---- *)
AZero == [a \in 0..K |-> PZero]
AOf(p) == [a \in 0..K |-> IF a = 0 THEN p ELSE PZero]
AAtomP(j, p) == [a \in 0..K |-> IF a = j THEN p ELSE PZero]
AAdd(x, y) == [a \in 0..K |-> PAdd(x[a], y[a])]
AScale(c, x) == [a \in 0..K |-> PScale(c, x[a])]
ASub(x, y) == AAdd(x, AScale(<<-1, 1>>, y))
AMul(p, x) == [a \in 0..K |-> PMul(p, x[a])]
(* a linear form over the atoms (ImplicitSolve: function 0..K -> Rat) times a polynomial *)
LTimes(form, p) == [a \in 0..K |-> PScale(form[a], p)]
RECURSIVE ASumTo(_, _)
ASumTo(f, n) == IF n = 0 THEN AZero ELSE AAdd(f[n], ASumTo(f, n - 1))
RECURSIVE PSumTo(_, _)
PSumTo(f, n) == IF n = 0 THEN PZero ELSE PAdd(f[n], PSumTo(f, n - 1))

(* ---- vertical operators on polynomial columns ---- *)
CumP(x) == [k \in 1..K |-> PSumTo([j \in 1..K |-> PScale(DSig(j), x[j])], k)]
SigDot(x) == LET F == CumP(x) IN [k \in 1..(K - 1) |-> PSub(PScale(Cum(k), F[K]), F[k])]
Hk(k) == RMul(<<1, 2>>, RAdd(DSig(k), DSig(k + 1)))                         \* centre spacing k+1/2
WAt(w, k) == IF k >= 1 /\ k <= K - 1 THEN w[k] ELSE PZero
(* centred advection of a scalar column x (polynomials) *)
VAdvP(w, x) == [k \in 1..K |->
   PScale(<<-1, 2>>, PAdd(IF k <= K - 1 THEN PScale(RInv(Hk(k)), PMul(w[k], PSub(x[k + 1], x[k]))) ELSE PZero,
                          IF k >= 2 THEN PScale(RInv(Hk(k - 1)), PMul(w[k - 1], PSub(x[k], x[k - 1]))) ELSE PZero))]
(* of a column of rationals *)
VAdvR(w, x) == [k \in 1..K |->
   PScale(<<-1, 2>>, PAdd(IF k <= K - 1 THEN PScale(RDiv(RSub(x[k + 1], x[k]), Hk(k)), w[k]) ELSE PZero,
                          IF k >= 2 THEN PScale(RDiv(RSub(x[k], x[k - 1]), Hk(k - 1)), w[k - 1]) ELSE PZero))]
(* curl and divergence of the vertically advected velocity  (w dU/dsigma)[k] *)
DPsi(k) == PSub(Psi(k + 1), Psi(k))
DChi(k) == PSub(Chi(k + 1), Chi(k))
VecAdv(w, flux(_, _, _)) == [k \in 1..K |->
   PScale(<<1, 2>>, PAdd(IF k <= K - 1 THEN PScale(RInv(Hk(k)), flux(DPsi(k), DChi(k), w[k])) ELSE PZero,
                         IF k >= 2 THEN PScale(RInv(Hk(k - 1)), flux(DPsi(k - 1), DChi(k - 1), w[k - 1])) ELSE PZero))]
(* Durran's omega/p weights *)
GPart(x) == LET F == CumP(x)
            IN  [k \in 1..K |-> AScale(RInv(DSig(k)),
                      AAdd(AAtomP(k, F[k]), IF k >= 2 THEN AAtomP(k - 1, F[k - 1]) ELSE AZero))]

-----------------------------------------------------------------------------
Diagnose == /\ pc = "done"
            /\ LET g == [k \in 1..K |-> Advect(Psi(k), Chi(k), S)]
                   dl == [k \in 1..K |-> Lap(Chi(k))]
               IN  diag' = [zeta |-> [k \in 1..K |-> Lap(Psi(k))], delta |-> dl, g |-> g,
                            absvor |-> [k \in 1..K |-> PAdd(Lap(Psi(k)), PScale(RMul(<<2, 1>>, cfg.omega), PZ))],
                            we |-> SigDot(g), wf |-> SigDot([k \in 1..K |-> PAdd(g[k], dl[k])])]
            /\ pc' = "vorticity" /\ UNCHANGED <<cfg, H, Hs, Hasfound, G, tend>>
Vorticity == /\ pc = "vorticity"
             /\ LET va == VecAdv(diag.wf, CurlFlux)
                IN  tend' = [vorticity |-> [k \in 1..K |->
                       PSub(PSub(PNeg(DivFlux(Psi(k), Chi(k), diag.absvor[k])), va[k]),
                            PScale(Rgas, Jac(Tp(k), S)))]]
             /\ pc' = "divergence" /\ UNCHANGED <<cfg, H, Hs, Hasfound, G, diag>>
(* geopotential of a temperature column tpf: G[k][j] (ImplicitSolve!GDense) is the weight of level j *)
GeoOf(tpf, k) == ASumTo([j \in 1..K |-> LTimes(G[k][j], PScale(Rgas, tpf[j]))], K)
(* total divergence / temperature tendency for an arbitrary split  T = tr + tpf  (tr: rationals per level,
   tpf: polynomials per level, Hm: the implicit temperature operator of tr) *)
DivTotal(tr, tpf, k) ==
   LET va == VecAdv(diag.wf, DivFlux)
       plain == PSub(PSub(PSub(CurlFlux(Psi(k), Chi(k), diag.absvor[k]), va[k]),
                          PScale(Rgas, DivFlux(PZero, S, tpf[k]))),
                     Lap(PAdd(PAdd(Kinetic(Psi(k), Chi(k)), OroP), PScale(RMul(Rgas, tr[k]), S))))
   IN  ASub(AOf(plain), [a \in 0..K |-> Lap(GeoOf(tpf, k)[a])])
TempTotal(tr, tpf, Hm, k) ==
   LET vt == VAdvP(diag.wf, tpf)
       vr == VAdvR(diag.we, tr)
       gpe == GPart(diag.g)
       gpf == GPart([j \in 1..K |-> PAdd(diag.g[j], diag.delta[j])])
       plain == PAdd(PAdd(PNeg(Advect(Psi(k), Chi(k), tpf[k])), PAdd(vt[k], vr[k])),
                     PScale(cfg.kappa, PAdd(PScale(tr[k], diag.g[k]), PMul(tpf[k], diag.g[k]))))
       omega == AAdd(AScale(RMul(cfg.kappa, tr[k]), gpe[k]), AScale(cfg.kappa, AMul(tpf[k], gpf[k])))
       impl == ASumTo([s \in 1..K |-> LTimes(Hm[k][s], diag.delta[s])], K)
   IN  ASub(ASub(AOf(plain), omega), impl)
TrefR == [k \in 1..K |-> T(k)]
TpP == [k \in 1..K |-> Tp(k)]
Divergence == /\ pc = "divergence"
              /\ tend' = [vorticity |-> tend.vorticity, divergence |-> [k \in 1..K |-> DivTotal(TrefR, TpP, k)]]
              /\ pc' = "temperature" /\ UNCHANGED <<cfg, H, Hs, Hasfound, G, diag>>
Temperature ==
  /\ pc = "temperature"
  /\ tend' = [vorticity |-> tend.vorticity, divergence |-> tend.divergence,
              temperature |-> [k \in 1..K |-> TempTotal(TrefR, TpP, H, k)]]
  /\ pc' = "rest" /\ UNCHANGED <<cfg, H, Hs, Hasfound, G, diag>>
(* moist momentum equations: the pressure-gradient and geopotential terms use the virtual temperature
   Tv = T (1 + eps q), eps = Rv / R - 1, with the tracer q as specific humidity; everything stays
   polynomial.  (The moist temperature equation divides by 1 + (cpv/cp - 1) q and is not.) *)
Eps == RSub(RDiv(cfg.gasv, cfg.gas), One)
TvPrime == [k \in 1..K |-> PAdd(Tp(k), PScale(Eps, PMul(Q(k), PAdd(PConst(T(k)), Tp(k)))))]
MoistVorticity(k) == LET va == VecAdv(diag.wf, CurlFlux)
                     IN  PSub(PSub(PNeg(DivFlux(Psi(k), Chi(k), diag.absvor[k])), va[k]), PScale(Rgas, Jac(TvPrime[k], S)))
Rest == /\ pc = "rest"
        /\ tend' = [vorticity |-> tend.vorticity, divergence |-> tend.divergence, temperature |-> tend.temperature,
                    lnps |-> PNeg(PSumTo([k \in 1..K |-> PScale(DSig(k), PAdd(diag.g[k], diag.delta[k]))], K)),
                    tracer |-> LET vq == VAdvP(diag.wf, [k \in 1..K |-> Q(k)])
                               IN  [k \in 1..K |-> PAdd(PNeg(Advect(Psi(k), Chi(k), Q(k))), vq[k])],
                    moist_vorticity |-> [k \in 1..K |-> MoistVorticity(k)],
                    moist_divergence |-> [k \in 1..K |-> DivTotal(TrefR, TvPrime, k)]]
        /\ pc' = "finished" /\ UNCHANGED <<cfg, H, Hs, Hasfound, G, diag>>
NextPoly == \/ (Next /\ UNCHANGED <<diag, tend>>)
            \/ Diagnose \/ Vorticity \/ Divergence \/ Temperature \/ Rest
SpecPoly == InitPoly /\ [][NextPoly]_pvars
Finished == pc = "finished"

-----------------------------------------------------------------------------
(* vorticity and divergence tendencies are a curl and a divergence: zero global mean, atom by atom *)
ZeroMeanTendencies == Finished => \A k \in 1..K :
   /\ Mean(tend.vorticity[k]) = Zero
   /\ \A a \in 0..K : Mean(tend.divergence[k][a]) = Zero
   /\ Mean(tend.moist_vorticity[k]) = Zero
   /\ \A a \in 0..K : Mean(tend.moist_divergence[k][a]) = Zero
(* mass: d(ps)/dt integrates the divergence of the mass flux; ps = exp(s), so
   mean( exp(s) ds/dt ) = 0 cannot be stated polynomially; the discrete column statement is
   ds/dt = - sum (g + delta) dsigma, checked against the definition of sigma-dot at the surface *)
SurfaceSigmaDot == Finished =>
   LET F == CumP([k \in 1..K |-> PAdd(diag.g[k], diag.delta[k])]) IN tend.lnps = PNeg(F[K])
(* a dry atmosphere (q = 0) makes the moist momentum equations the dry ones *)
(* a horizontally uniform tracer is not advected horizontally; uniform in the vertical too: no tendency *)
RestingIsothermal ==
   (Finished /\ \A k \in 1..K : Psi(k) = PZero /\ Chi(k) = PZero /\ Tp(k) = PZero) /\ S = PZero /\ OroP = PZero =>
      \A k \in 1..K : tend.vorticity[k] = PZero /\ tend.divergence[k] = AZero /\ tend.temperature[k] = AZero

(* C04 at design level on horizontally structured states: moving a level profile c from the deviation
   into the reference temperature (T = tref + tp = (tref + c) + (tp - c)) changes neither the total
   temperature nor the total divergence tendency.  H of the shifted profile is Durran's H with the
   profile substituted (ImplicitSolve!HDense is linear in it). *)
HOf(tr) == [r \in 1..K |-> [s \in 1..K |->
   LET h0 == LScale(RDiv(RMul(cfg.kappa, tr[r]), DSig(r)),
                    LAdd(LAtom(r, P(r - s)), IF r >= 2 THEN LAtom(r - 1, P(r - 1 - s)) ELSE LZero))
       k0(q) == IF q >= 1 /\ q < K THEN RDiv(RSub(tr[q + 1], tr[q]), RAdd(DSig(q + 1), DSig(q))) ELSE Zero
       kk(q) == IF q >= 1 /\ q < K THEN RMul(k0(q), RSub(P(q - s), Cum(q))) ELSE Zero
   IN  LScale(DSig(s), LSub(h0, LConst(RAdd(kk(r), kk(r - 1)))))]]
Shift == [k \in 1..K |-> R(k * k)]                             \* 1, 4, 9 : not affine in the vertical
HOfAgrees == Finished => HOf(TrefR) = H
SplitFree == Finished =>
   LET tr2 == [k \in 1..K |-> RAdd(TrefR[k], Shift[k])]
       tp2 == [k \in 1..K |-> PSub(TpP[k], PConst(Shift[k]))]
   IN  \A k \in 1..K : /\ TempTotal(tr2, tp2, HOf(tr2), k) = tend.temperature[k]
                        /\ DivTotal(tr2, tp2, k) = tend.divergence[k]

AJson(x) == [a \in 0..K |-> PJson(x[a])]
ExportPoly == Finished => PrintT(<<"CASE", ToJson([
    b |-> cfg.b, den |-> Den, tref |-> cfg.tref, kappa |-> cfg.kappa, gas |-> cfg.gas, gasv |-> cfg.gasv, omega |-> cfg.omega, ch |-> cfg.ch,
    s |-> PJson(S), oro |-> PJson(OroP),
    levels |-> [k \in 1..K |-> [zeta |-> PJson(diag.zeta[k]), delta |-> PJson(diag.delta[k]), tp |-> PJson(Tp(k)), q |-> PJson(Q(k)),
                                vorticity |-> PJson(tend.vorticity[k]), divergence |-> AJson(tend.divergence[k]),
                                temperature |-> AJson(tend.temperature[k]), tracer |-> PJson(tend.tracer[k]),
                                moist_vorticity |-> PJson(tend.moist_vorticity[k]), moist_divergence |-> AJson(tend.moist_divergence[k])]],
    lnps |-> PJson(tend.lnps) ])>>)
=============================================================================
