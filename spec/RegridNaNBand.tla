--------------------------- MODULE RegridNaNBand ---------------------------
(* C16, "missing values are propagated to every overlapping cell" under strong coarsening.

   ConservativeRegridder(skipna=False) decides that a target cell has a missing neighbour from the
   not-null weight fraction (isclose(fraction, 1, rtol=1e-3)): a missing source cell whose weight
   in the target cell is below ~1e-3 is ignored by design (reduced-precision matmuls).  The small
   lattices of RegridLon/RegridLat never produce weights below 1/12, so the threshold itself is
   out of their reach.  This machine covers it: an equispaced source grid of r * nt longitudes is
   regridded onto nt aligned target cells (one latitude node, at least three target cells: a periodic cell must be narrower than half a period), so every source cell has weight
   exactly 1/r in exactly one target cell; k of the source cells of target cell c are missing.

     missing weight k/r >= 1/400 (2.5e-3)  ->  the target cell must be missing      ("nan")
     0 < k/r < 1/400                        ->  unspecified (tolerance band)        ("grey")
     other target cells                     ->  the mean of their r source values   ("num")
     skipna = True                          ->  the mean over the r - k present cells everywhere

   The field is f(s) = (s mod 5) - 2 on source cell s (1-based), so the expected means are exact
   rationals. *)
EXTENDS Integers, Sequences, FiniteSets, TLC, Json, Exact

CONSTANTS Ratios, MaxTargets, MaxMissing

VARIABLES cfg, pc, res
vars == <<cfg, pc, res>>

Init == /\ \E r \in Ratios : \E nt \in 3..MaxTargets : \E c \in 1..nt : \E k \in 1..MaxMissing :
             cfg = [r |-> r, nt |-> nt, c |-> c, k |-> k]
        /\ pc = "new" /\ res = <<>>

F(s) == (s % 5) - 2
Cells(t) == ((t - 1) * cfg.r + 1)..(t * cfg.r)
(* the k missing cells: the first k cells of target cell c at stride 7 (distinct since r > 7 k) *)
Missing == {(cfg.c - 1) * cfg.r + 1 + 7 * (i - 1) : i \in 1..cfg.k}
RECURSIVE SumF(_)
SumF(S) == IF S = {} THEN 0 ELSE LET s == CHOOSE x \in S : TRUE IN F(s) + SumF(S \ {s})
MissW == Norm(cfg.k, cfg.r)
Apply == /\ pc = "new"
         /\ res' = [t \in 1..cfg.nt |->
               [propagate |-> IF t # cfg.c THEN "num" ELSE IF RLe(<<1, 400>>, MissW) THEN "nan" ELSE "grey",
                mean |-> Norm(SumF(Cells(t)), cfg.r),
                skip |-> IF t # cfg.c THEN Norm(SumF(Cells(t)), cfg.r)
                         ELSE Norm(SumF(Cells(t) \ Missing), cfg.r - cfg.k)]]
         /\ pc' = "done" /\ UNCHANGED cfg
Next == Apply
Spec == Init /\ [][Next]_vars
Done == pc = "done"

MissingInsideCell == Missing \subseteq Cells(cfg.c) /\ Cardinality(Missing) = cfg.k
(* more missing cells never make a cell less missing; untouched cells are numbers *)
Monotone == Done => /\ \A t \in 1..cfg.nt : (t # cfg.c) => res[t].propagate = "num"
                    /\ (RLe(<<1, 400>>, MissW) <=> res[cfg.c].propagate = "nan")
(* the bounds of the property: every mean lies within the range of the field *)
WithinRange == Done => \A t \in 1..cfg.nt : RLe(R(-2), res[t].skip) /\ RLe(res[t].skip, R(2))
Export == Done => PrintT(<<"CASE", ToJson([r |-> cfg.r, nt |-> cfg.nt, c |-> cfg.c, k |-> cfg.k,
                                           missing |-> Missing, res |-> res])>>)
=============================================================================
