----------------------------- MODULE GridHistory -----------------------------
(* A Grid is a value: every operation is a function of its arguments only.  The machine applies
   arbitrary sequences of operations to one Grid object and one fixed field; the abstract
   result of an operation is its name (it must not depend on what was called before).  The
   replay executes every behaviour on a single real Grid object and requires the k-th result of
   an operation to be bit-identical to its first result and to the result on a fresh Grid. *)
EXTENDS Naturals, Sequences, TLC, Json
CONSTANTS MaxLen
Ops == {"to_nodal", "to_modal", "integrate", "quadrature_weights", "laplacian", "inverse_laplacian",
        "cos_lat_d_dlat", "clip", "d_dlon"}
VARIABLES hist, results
vars == <<hist, results>>
Init == hist = <<>> /\ results = <<>>
Call(op) == /\ Len(hist) < MaxLen
            /\ hist' = Append(hist, op)
            /\ results' = Append(results, op)          \* the value denoted by op(field)
Next == \E op \in Ops : Call(op)
Spec == Init /\ [][Next]_vars
Pure == \A i, j \in 1..Len(hist) : hist[i] = hist[j] => results[i] = results[j]
Export == Len(hist) = MaxLen => PrintT(<<"CASE", ToJson([ops |-> hist])>>)
=============================================================================
