----------------------------- MODULE RegridLon ------------------------------
(* Conservative regridding along longitude (horizontal_interpolation.py:
   _align_phase_with, _periodic_upper_bounds, _periodic_lower_bounds, _periodic_overlap,
   _longitude_overlap, conservative_longitude_weights, and the NaN bookkeeping of
   ConservativeRegridder.__call__ restricted to one axis), exactly.

   The circle is Z_P: cell centres sit at integer positions (position p is the angle
   2 pi p / P), given as strictly increasing sequences that span less than one period; the
   library reduces them modulo the period.  All lengths are kept in DOUBLED units (period
   D = 2P), so that cell bounds - midpoints between neighbouring centres - are integers.

   The oracle is geometric and does not use the library's algorithm: the doubled circle
   consists of D unit segments, a cell is the set of segments between the midpoints towards
   its cyclic neighbours, and the overlap of two cells is the number of common segments.
   The library's algorithm (phase alignment of one bound at a time) is modelled next to it,
   and TLC checks that it computes the geometric overlap whenever the configuration is Safe.

   One action per step of the library:
     Bounds      _periodic_lower_bounds / _periodic_upper_bounds of both grids
     Overlap     _longitude_overlap(target, source)
     Normalize   conservative_longitude_weights
     Apply       ConservativeRegridder.__call__ along this axis on the integer column Field
                 with a set `mask` of NaN source cells, both skipna settings (only for
                 configurations that are longitudes of real Grid objects) *)
EXTENDS Integers, Sequences, FiniteSets, TLC, Json, Exact

CONSTANTS PPlace,        \* period of the lattice for arbitrary placements
          MaxSrcPts,     \* source placements of 3..MaxSrcPts centres
          MaxTgtPts,     \* target placements of 3..MaxTgtPts centres
          PGrid,         \* period of the lattice carrying the equispaced (Grid) longitudes
          GridNs,        \* node counts of the Grid longitudes (each divides PGrid)
          FullOffsets,   \* TRUE: offsets 0, half a step and one step; FALSE: 0 and one other
          MaxMaskCells   \* all NaN patterns when the source has <= MaxMaskCells cells

VARIABLES cfg,      \* [P, src, tgt, grid]
          pc,       \* "new" | "cells" | "overlap" | "weights" | "applied"
          tcell, scell,   \* sequences of <<lo, width>> (doubled units)
          ov,       \* ov[t][s]  number of common unit segments
          w,        \* w[t][s]   Rat
          mask,     \* set of NaN source cells (Apply)
          res       \* result of Apply
vars == <<cfg, pc, tcell, scell, ov, w, mask, res>>

-----------------------------------------------------------------------------
RECURSIVE IncSeqs(_, _, _)
IncSeqs(n, lo, hi) == IF n = 0 THEN {<<>>}
                      ELSE UNION {{<<x>> \o s : s \in IncSeqs(n - 1, x + 1, hi)} : x \in lo..hi}
(* enumeration domain of the irregular placements: neighbouring centres are closer than half
   a period, i.e. the nearest copy of a neighbour is the neighbour itself *)
NoBigGap(x, p) == /\ \A i \in 1..Len(x) - 1 : 2 * (x[i + 1] - x[i]) < p
                  /\ 2 * (x[1] + p - x[Len(x)]) < p

Placements(maxn) == {x \in UNION {IncSeqs(n, 0, PPlace - 1) : n \in 3..maxn} : NoBigGap(x, PPlace)}
(* equispaced longitudes of a Grid: first node (longitude_offset) at 0, half a step (when
   that is a lattice position) or one full step *)
Step(n) == PGrid \div n
Offsets(n) == IF FullOffsets
              THEN {0, Step(n)} \cup (IF Step(n) % 2 = 0 THEN {Step(n) \div 2} ELSE {})
              ELSE {0, IF Step(n) % 2 = 0 THEN Step(n) \div 2 ELSE Step(n)}
GridLons == UNION {{[k \in 1..n |-> o + (k - 1) * Step(n)] : o \in Offsets(n)} : n \in GridNs}

P == cfg.P
D == 2 * P
NS == Len(cfg.src)
NT == Len(cfg.tgt)

(* ---- geometry (the oracle) ---- *)
TrueLo(x, i) == IF i = 1 THEN x[1] + x[Len(x)] - P ELSE x[i - 1] + x[i]
TrueHi(x, i) == IF i = Len(x) THEN x[Len(x)] + x[1] + P ELSE x[i] + x[i + 1]
Cells(x) == [i \in 1..Len(x) |-> <<TrueLo(x, i), TrueHi(x, i) - TrueLo(x, i)>>]
Covers(c, k) == ((k - c[1]) % D) < c[2]
Common(c1, c2) == Cardinality({k \in 0..D - 1 : Covers(c1, k) /\ Covers(c2, k)})
(* closed cells meet in a point only *)
Touch(c1, c2) == /\ Common(c1, c2) = 0
                 /\ \/ (c1[1] + c1[2] - c2[1]) % D = 0
                    \/ (c2[1] + c2[2] - c1[1]) % D = 0

(* ---- the library's algorithm, in doubled units ----
   _align_phase_with shifts by a period when the distance exceeds half a period (strict
   comparisons).  At a distance of exactly half a period the floating-point outcome depends on
   rounding, so the model carries the tie rule as a parameter r (FALSE: as written, no shift;
   TRUE: shift) and flags configurations in which some alignment is such a tie. *)
X(x, i) == 2 * (x[i] % P)
Align(a, target, r) ==
   a + (IF a < target - P \/ (r /\ a = target - P) THEN D ELSE 0)
     - (IF a > target + P \/ (r /\ a = target + P) THEN D ELSE 0)
AlignTie(a, target) == a = target - P \/ a = target + P
NextOf(x, i) == X(x, (i % Len(x)) + 1)
PrevOf(x, i) == X(x, ((i - 2) % Len(x)) + 1)
(* cell bounds: the aligned cyclic neighbour; a neighbour exactly half a period away (grids of two cells:
   a tie of the alignment) is taken on the proper side.  As found in the repository the tie was not
   resolved (AlgHiTwoCellAsFound): both bounds of a two-cell grid coincided, every cell had zero width and
   all weights were 0/0; TwoCellAsFoundSound fails inside the documented domain; repaired. *)
AlgHiTwoCellAsFound(x, i, r) == (X(x, i) + Align(NextOf(x, i), X(x, i), r)) \div 2
AlgLoTwoCellAsFound(x, i, r) == (Align(PrevOf(x, i), X(x, i), r) + X(x, i)) \div 2
AlgHi(x, i, r) == LET a == Align(NextOf(x, i), X(x, i), r)
                  IN  (X(x, i) + (IF a <= X(x, i) THEN a + D ELSE a)) \div 2
AlgLo(x, i, r) == LET a == Align(PrevOf(x, i), X(x, i), r)
                  IN  ((IF a >= X(x, i) THEN a - D ELSE a) + X(x, i)) \div 2
(* _periodic_overlap aligns the source interval [y0, y1] as a whole with the lower target bound
   (the lower end is aligned, the upper end follows).  As found in the repository the two ends
   were aligned separately (AlgOvAsFound), which tears apart an interval that straddles
   x0 + period/2: AsFoundSound fails inside the documented domain (e.g. 3 source longitudes);
   repaired, see known_findings.json. *)
AlgOv(t, s, r) == LET x0 == AlgLo(cfg.tgt, t, r)
                      x1 == AlgHi(cfg.tgt, t, r)
                      y0 == Align(AlgLo(cfg.src, s, r), x0, r)
                      y1 == AlgHi(cfg.src, s, r) + (y0 - AlgLo(cfg.src, s, r))
                  IN  Max(Min(x1, y1) - Max(x0, y0), 0)
AlgOvAsFound(t, s, r) ==
                  LET x0 == AlgLo(cfg.tgt, t, r)
                      x1 == AlgHi(cfg.tgt, t, r)
                      y0 == Align(AlgLo(cfg.src, s, r), x0, r)
                      y1 == Align(AlgHi(cfg.src, s, r), x0, r)
                  IN  Max(Min(x1, y1) - Max(x0, y0), 0)
Edge == \/ \E x \in {cfg.src, cfg.tgt} : \E i \in 1..Len(x) :
            AlignTie(NextOf(x, i), X(x, i)) \/ AlignTie(PrevOf(x, i), X(x, i))
        \/ \E t \in 1..NT, s \in 1..NS, r \in BOOLEAN :
            \/ AlignTie(AlgLo(cfg.src, s, r), AlgLo(cfg.tgt, t, r))
            \/ AlignTie(AlgHi(cfg.src, s, r), AlgLo(cfg.tgt, t, r))

(* ---- preconditions ---- *)
Gaps(x) == {x[i + 1] - x[i] : i \in 1..Len(x) - 1} \cup {x[1] + P - x[Len(x)]}
WellFormed(x) == /\ \A i \in 1..Len(x) - 1 : x[i] < x[i + 1]
                 /\ x[Len(x)] - x[1] < P
(* the documented condition: "valid as long as no intervals are larger than period/2" *)
Documented(x) == \A i \in 1..Len(x) : Cells(x)[i][2] <= P
(* a sufficient condition under which the phase alignment is provably unambiguous *)
Safe == /\ \A g \in Gaps(cfg.src) \cup Gaps(cfg.tgt) : 2 * g < P
        /\ LET tc == Cells(cfg.tgt)
               sc == Cells(cfg.src)
           IN  \A t \in 1..NT : \A s \in 1..NS : tc[t][2] + sc[s][2] <= P

Field(s) == ((s * s + 3 * s) % 7) - 2

-----------------------------------------------------------------------------
Init == /\ \/ \E s \in Placements(MaxSrcPts), t \in Placements(MaxTgtPts) :
                 cfg = [P |-> PPlace, src |-> s, tgt |-> t, grid |-> FALSE]
           \/ \E s \in GridLons, t \in GridLons :
                 cfg = [P |-> PGrid, src |-> s, tgt |-> t, grid |-> TRUE]
        /\ WellFormed(cfg.src) /\ WellFormed(cfg.tgt)
        /\ Documented(cfg.src) /\ Documented(cfg.tgt)
        /\ pc = "new" /\ tcell = <<>> /\ scell = <<>> /\ ov = <<>> /\ w = <<>>
        /\ mask = {} /\ res = <<>>

Bounds == /\ pc = "new"
          /\ tcell' = Cells(cfg.tgt) /\ scell' = Cells(cfg.src)
          /\ pc' = "cells" /\ UNCHANGED <<cfg, ov, w, mask, res>>

Overlap == /\ pc = "cells"
           /\ ov' = [t \in 1..NT |-> [s \in 1..NS |-> Common(tcell[t], scell[s])]]
           /\ pc' = "overlap" /\ UNCHANGED <<cfg, tcell, scell, w, mask, res>>

RECURSIVE ISum(_, _, _)
ISum(f, lo, hi) == IF lo > hi THEN 0 ELSE f[lo] + ISum(f, lo + 1, hi)
RowSum(t) == ISum(ov[t], 1, NS)
ColSum(s) == ISum([t \in 1..NT |-> ov[t][s]], 1, NT)

Normalize == /\ pc = "overlap"
             /\ w' = [t \in 1..NT |-> [s \in 1..NS |-> Norm(ov[t][s], RowSum(t))]]
             /\ pc' = "weights" /\ UNCHANGED <<cfg, tcell, scell, ov, mask, res>>

(* NaN bookkeeping of ConservativeRegridder.__call__ along one axis.
   skipna = False : NaN where any overlapping source cell is NaN, else the weighted mean;
   skipna = True  : mean over the non-NaN overlapping cells, NaN where there is none.
   A cell that only touches the target cell has measure-zero overlap; whether such a
   neighbour counts is not documented, so a verdict that hinges on it is "either". *)
Overl(t) == {s \in 1..NS : ov[t][s] > 0}
Touching(t) == {s \in 1..NS : Touch(tcell[t], scell[s])}
Masks == IF NS <= MaxMaskCells THEN SUBSET (1..NS)
         ELSE {{}} \cup {{s} : s \in 1..NS} \cup {{s, (s % NS) + 1} : s \in 1..NS}
MeanOver(t, S) == RDiv(RSum([s \in 1..NS |-> IF s \in S THEN R(ov[t][s] * Field(s)) ELSE Zero], 1, NS),
                       R(ISum([s \in 1..NS |-> IF s \in S THEN ov[t][s] ELSE 0], 1, NS)))
Apply == /\ pc = "weights" /\ cfg.grid
         /\ \E m \in Masks :
              /\ mask' = m
              /\ res' = [t \in 1..NT |->
                   LET anyNaN == Overl(t) \cap m # {}
                       allNaN == Overl(t) \subseteq m
                   IN [nanF |-> anyNaN,
                       valF |-> IF anyNaN THEN Zero ELSE MeanOver(t, Overl(t)),
                       nanT |-> IF ~allNaN THEN "num"
                                ELSE IF Touching(t) \subseteq m THEN "nan" ELSE "either",
                       valT |-> IF allNaN THEN Zero ELSE MeanOver(t, Overl(t) \ m)]]
         /\ pc' = "applied" /\ UNCHANGED <<cfg, tcell, scell, ov, w>>

Next == Bounds \/ Overlap \/ Normalize \/ Apply
Spec == Init /\ [][Next]_vars

-----------------------------------------------------------------------------
(* the property *)
(* each clause is evaluated once, in the state in which its subject has just been computed
   (the later actions leave those variables unchanged) *)
HasCells == pc = "cells"
HasOv == pc = "overlap"
HasW == pc = "weights"
Applied == pc = "applied"

(* the cells of either grid tile the circle *)
Tiling == HasCells =>
   /\ ISum([i \in 1..NT |-> tcell[i][2]], 1, NT) = D
   /\ ISum([i \in 1..NS |-> scell[i][2]], 1, NS) = D
   /\ \A k \in 0..D - 1 : Cardinality({i \in 1..NS : Covers(scell[i], k)}) = 1
   /\ \A k \in 0..D - 1 : Cardinality({i \in 1..NT : Covers(tcell[i], k)}) = 1
RowMeasure == HasOv => \A t \in 1..NT : RowSum(t) = tcell[t][2]
ColMeasure == HasOv => \A s \in 1..NS : ColSum(s) = scell[s][2]
(* the library's phase-alignment algorithm computes the geometric overlap *)
AlgorithmSound == HasOv =>
   \A t \in 1..NT : \A s \in 1..NS : \A r \in BOOLEAN : AlgOv(t, s, r) = ov[t][s]
AsFoundSound == HasOv =>
   \A t \in 1..NT : \A s \in 1..NS : \A r \in BOOLEAN : AlgOvAsFound(t, s, r) = ov[t][s]
AlgOvTwoCellAsFound(t, s, r) ==
                  LET x0 == AlgLoTwoCellAsFound(cfg.tgt, t, r)
                      x1 == AlgHiTwoCellAsFound(cfg.tgt, t, r)
                      y0 == Align(AlgLoTwoCellAsFound(cfg.src, s, r), x0, r)
                      y1 == AlgHiTwoCellAsFound(cfg.src, s, r) + (y0 - AlgLoTwoCellAsFound(cfg.src, s, r))
                  IN  Max(Min(x1, y1) - Max(x0, y0), 0)
TwoCellAsFoundSound == HasOv =>
   \A t \in 1..NT : \A s \in 1..NS : \A r \in BOOLEAN : AlgOvTwoCellAsFound(t, s, r) = ov[t][s]
AsFoundSoundWhenSafe == (HasOv /\ Safe) =>
   \A t \in 1..NT : \A s \in 1..NS : \A r \in BOOLEAN : AlgOvAsFound(t, s, r) = ov[t][s]
NonNegative == HasW => \A t \in 1..NT : \A s \in 1..NS : RLe(Zero, w[t][s])
RowsSumToOne == HasW => \A t \in 1..NT : RSum(w[t], 1, NS) = One
ConstantsReproduced == HasW => \A t \in 1..NT : \A c \in {<<1, 1>>, <<-3, 2>>} :
    RSum([s \in 1..NS |-> RMul(w[t][s], c)], 1, NS) = c
Regridded(t) == RSum([s \in 1..NS |-> RMul(w[t][s], R(Field(s)))], 1, NS)
WithinRange == HasW => \A t \in 1..NT :
    /\ \E s \in Overl(t) : RLe(R(Field(s)), Regridded(t))
    /\ \E s \in Overl(t) : RLe(Regridded(t), R(Field(s)))
(* width-weighted integral *)
Conservation == HasW =>
    RSum([t \in 1..NT |-> RMul(R(tcell[t][2]), Regridded(t))], 1, NT)
      = R(ISum([s \in 1..NS |-> scell[s][2] * Field(s)], 1, NS))
IdenticalIsIdentity == (HasW /\ cfg.src = cfg.tgt) =>
    \A t \in 1..NT : \A s \in 1..NS : w[t][s] = (IF s = t THEN One ELSE Zero)
(* NaN lattice *)
NaNLattice == Applied => \A t \in 1..NT :
    /\ (mask = {}) => (~res[t].nanF /\ res[t].nanT = "num" /\ res[t].valT = res[t].valF)
    /\ (mask = 1..NS) => (res[t].nanF /\ res[t].nanT = "nan")
    /\ (res[t].nanT # "num") => res[t].nanF             \* skipping never adds NaN
    /\ ~res[t].nanF => res[t].valF = Regridded(t)
    /\ ~res[t].nanF => res[t].valT = res[t].valF
SkipWithinRange == Applied => \A t \in 1..NT : res[t].nanT = "num" =>
    /\ \E s \in Overl(t) \ mask : RLe(R(Field(s)), res[t].valT)
    /\ \E s \in Overl(t) \ mask : RLe(res[t].valT, R(Field(s)))

Key == [P |-> P, src |-> cfg.src, tgt |-> cfg.tgt]
Export ==
   /\ pc = "weights" =>
        PrintT(<<"CASE", ToJson([kind |-> "lonw", key |-> Key, grid |-> cfg.grid, safe |-> Safe,
                                 tcell |-> tcell, scell |-> scell, ov |-> ov, w |-> w,
                                 algov |-> [t \in 1..NT |-> [s \in 1..NS |-> AlgOv(t, s, FALSE)]],
                                 algov2 |-> [t \in 1..NT |-> [s \in 1..NS |-> AlgOv(t, s, TRUE)]],
                                 edge |-> Edge,
                                 field |-> [s \in 1..NS |-> Field(s)]])>>)
   /\ pc = "applied" =>
        PrintT(<<"CASE", ToJson([kind |-> "lona", key |-> Key, mask |-> mask, res |-> res])>>)
=============================================================================
