--------------------------- MODULE IntegratorArgs ---------------------------
(* Validation of coefficient sets: sets of inconsistent length are rejected, never silently
   truncated.  low_storage_runge_kutta_crank_nicolson needs len(alphas) - 1 = len(betas) =
   len(gammas); ImExButcherTableau needs len(a_ex) + 1 = len(a_im) + 1 = len(b_ex) = len(b_im). *)
EXTENDS Integers, Sequences, TLC, Json

CONSTANTS MaxLen

VARIABLES kind, lens, verdict
vars == <<kind, lens, verdict>>

Init == /\ kind \in {"low_storage", "tableau"}
        /\ lens \in IF kind = "low_storage" THEN [1..3 -> 1..MaxLen] ELSE [1..4 -> 0..MaxLen - 1]
        /\ verdict = "pending"

LowStorageOK(l) == l[1] - 1 = l[2] /\ l[2] = l[3]
TableauOK(l) == l[1] + 1 = l[3] /\ l[2] + 1 = l[3] /\ l[3] = l[4]

Construct == /\ verdict = "pending"
             /\ verdict' = IF (kind = "low_storage" /\ LowStorageOK(lens))
                              \/ (kind = "tableau" /\ TableauOK(lens))
                           THEN "accepted" ELSE "rejected"
             /\ UNCHANGED <<kind, lens>>
Next == Construct
Spec == Init /\ [][Next]_vars

(* an accepted set can be run without reading past the end of any list or ignoring entries *)
NoTruncation == (verdict = "accepted" /\ kind = "low_storage") =>
                   /\ lens[2] + 1 = lens[1]         \* alpha[k+1] exists for every stage k
                   /\ lens[3] = lens[2]             \* one gamma per beta
Export == verdict # "pending" =>
            PrintT(<<"CASE", ToJson([kind |-> kind, lens |-> lens, accepted |-> verdict = "accepted"])>>)
=============================================================================
