------------------------------ MODULE Symmetry ------------------------------
(* C10: the symmetry group of the discrete rotating sphere and its action.

   Group  G = Z_I x Z_2 : rotations about the polar axis by whole longitude grid steps and the
   reflection about the equator.  It acts
     * on nodal index space  (i, j), i in 0..I-1 (longitude), j in 0..J-1 (latitude):
           rot(k) : (i, j) -> ((i + k) mod I, j)         mirror : (i, j) -> (i, J-1-j)
       (both are permutations of the nodes because longitudes are equispaced and the latitude
       nodes / weights are symmetric about the equator);
     * on spectral labels (m, l, c|s):  mirror multiplies Y(m,l,.) by (-1)^(l+m);  rot(k) rotates
       each pair (Y(m,l,c), Y(m,l,s)) by the angle 2 pi m k / I, i.e. by the exact turn fraction
       Frac(m k / I).  For quarter-turn classes (4 m k = 0 mod I) the 2x2 matrix has entries in
       {0, 1, -1} and is carried exactly.
   A field moved by rot(k) is f(lon - k dlon): cos(m lon) -> cos(m lon) cos(a) + sin(m lon) sin(a),
   sin(m lon) -> -cos(m lon) sin(a) + sin(m lon) cos(a),  a = 2 pi m k / I.

   Checked on the machine: the group laws on nodes and on labels (so the two actions are actions of
   the same group), that the longitude derivative  Y(m,.,c) -> -m Y(m,.,s), Y(m,.,s) -> +m Y(m,.,c)
   commutes with every rotation of the pair, that the mirror commutes with the rotations, and the
   parity bookkeeping of the latitude operators (the tables themselves are in SpectralAlgebra:
   ParityFlip).  Exported: for every (I, k, m) the turn fraction and, where exact, the integer
   matrix; the replay rolls / flips real synthesised harmonics on real grids and must find
   exactly this action (which pins the cos/sin pairing and sign conventions of the transforms). *)
EXTENDS Integers, Sequences, FiniteSets, TLC, Json, Exact

CONSTANTS Is,      \* longitude node counts
          Js,      \* latitude node counts
          MaxM     \* zonal wavenumbers 0..MaxM (only m with 2m < I are representable)

VARIABLES cfg, pc, act
vars == <<cfg, pc, act>>

Init == /\ cfg \in [I : Is, J : Js, k : 0..11, k2 : 0..3, mir : BOOLEAN]
        /\ cfg.k < cfg.I /\ cfg.k2 < cfg.I
        /\ pc = "nodes" /\ act = <<>>

(* ---- nodal action ---- *)
Nodes == (0..cfg.I - 1) \X (0..cfg.J - 1)
Rot(k, p) == <<(p[1] + k) % cfg.I, p[2]>>
Mir(p) == <<p[1], cfg.J - 1 - p[2]>>
G(k, s, p) == IF s THEN Mir(Rot(k, p)) ELSE Rot(k, p)

(* ---- label action ---- *)
Turn(m, k) == LET q == Norm(m * k, cfg.I) IN <<q[1] % q[2], q[2]>>      \* fraction of a turn in [0, 1)
Quarter(m, k) == (4 * m * k) % cfg.I = 0
QuarterClass(m, k) == ((4 * m * k) \div cfg.I) % 4
(* rotation matrix [[cc, cs], [sc, ss]] : new_c = cc*c + cs*s, new_s = sc*c + ss*s, coefficients
   of the rotated field in terms of the old ones *)
QMat(q) == CASE q = 0 -> <<1, 0, 0, 1>>
             [] q = 1 -> <<0, -1, 1, 0>>        \* a = pi/2: c' = -s , s' = c   (coefficients)
             [] q = 2 -> <<-1, 0, 0, -1>>
             [] q = 3 -> <<0, 1, -1, 0>>
MatMul(A, B) == <<A[1] * B[1] + A[2] * B[3], A[1] * B[2] + A[2] * B[4],
                  A[3] * B[1] + A[4] * B[3], A[3] * B[2] + A[4] * B[4]>>
DLonMat(m) == <<0, m, -m, 0>>     \* coefficients: d/dlon (c cos + s sin) = (m s) cos + (-m c) sin
MirSign(m, l) == IF (l + m) % 2 = 0 THEN 1 ELSE -1

Ms == {m \in 0..MaxM : 2 * m < cfg.I}

NodeStep == /\ pc = "nodes" /\ pc' = "labels" /\ UNCHANGED <<cfg, act>>
LabelStep == /\ pc = "labels"
             /\ act' = [m \in Ms |-> [turn |-> Turn(m, cfg.k), exact |-> Quarter(m, cfg.k),
                                      mat |-> IF Quarter(m, cfg.k) THEN QMat(QuarterClass(m, cfg.k)) ELSE <<0, 0, 0, 0>>]]
             /\ pc' = "done" /\ UNCHANGED cfg
Next == NodeStep \/ LabelStep
Spec == Init /\ [][Next]_vars
Done == pc = "done"

-----------------------------------------------------------------------------
(* group laws on nodes *)
NodePermutation == pc = "nodes" =>
   /\ {G(cfg.k, cfg.mir, p) : p \in Nodes} = Nodes
   /\ \A p \in Nodes : Rot(cfg.k2, Rot(cfg.k, p)) = Rot((cfg.k + cfg.k2) % cfg.I, p)
   /\ \A p \in Nodes : Mir(Mir(p)) = p
   /\ \A p \in Nodes : Mir(Rot(cfg.k, p)) = Rot(cfg.k, Mir(p))
   /\ \A p \in Nodes : Rot(cfg.I - cfg.k, Rot(cfg.k, p)) = p
(* the same laws on labels *)
LabelLaws == Done => \A m \in Ms :
   /\ Turn(m, (cfg.k + cfg.k2) % cfg.I) = LET s == RAdd(Turn(m, cfg.k), Turn(m, cfg.k2))
                                           IN  <<s[1] % s[2], s[2]>>
   /\ (Quarter(m, cfg.k) /\ Quarter(m, cfg.k2)) =>
         MatMul(QMat(QuarterClass(m, cfg.k2)), QMat(QuarterClass(m, cfg.k))) = QMat(QuarterClass(m, (cfg.k + cfg.k2) % cfg.I))
   /\ m = 0 => Turn(m, cfg.k) = Zero
(* d/dlon commutes with the rotation of the pair; the mirror sign does not depend on the phase, so
   the mirror commutes with rotations and with d/dlon *)
DLonCommutes == Done => \A m \in Ms : Quarter(m, cfg.k) =>
   MatMul(DLonMat(m), act[m].mat) = MatMul(act[m].mat, DLonMat(m))
MirrorInvolution == Done => \A m \in Ms : \A l \in m..m + 6 : MirSign(m, l) * MirSign(m, l) = 1
(* latitude operators change l by one (SpectralAlgebra.Tridiagonal) hence flip the mirror sign;
   the Laplacian keeps l: recorded here as the type table Dataflow relies on *)
LatitudeDerivativeFlips == Done => \A m \in Ms : \A l \in m..m + 6 :
   /\ MirSign(m, l + 1) = -MirSign(m, l)
   /\ (l > m => MirSign(m, l - 1) = -MirSign(m, l))

Export == Done => PrintT(<<"CASE", ToJson([I |-> cfg.I, J |-> cfg.J, k |-> cfg.k, mir |-> cfg.mir,
     act |-> [m \in Ms |-> act[m]] ])>>)
=============================================================================
