---------------------------- MODULE SpectralIndex ----------------------------
(* Grids, coefficient layouts and quadrature resolvability of spherical_harmonic.py.

   A *label* <<m, l, s>> names the real spherical harmonic of zonal wavenumber m >= 0, total
   wavenumber l >= m and phase s ("c": cos(m lon), "s": sin(m lon), only for m > 0).
   RealSphericalHarmonics stores coefficients with rows  m = [0, +1, -1, +2, -2, ...]  (2M-1 rows),
   FastSphericalHarmonics with rows [0, dead, +1, -1, +2, -2, ...] (2M rows) and pads both axes
   to multiples of the base shape.  Everything the transforms owe is stated on labels; the
   layouts are bijections label <-> (row, column).

   One action per thing the code computes when a Grid is built: shapes, axes, mask.  The
   resolvability classification says for which labels analysis(synthesis(e_label)) = e_label is
   owed (the quadrature integrates the products with all retained basis functions exactly). *)
EXTENDS Integers, Sequences, FiniteSets, TLC, Json, SequencesExt

CONSTANTS MaxM, Mults, NodeRules, Spacings

VARIABLES cfg, pc, shape, axes, mask, index
vars == <<cfg, pc, shape, axes, mask, index>>

RoundUp(x, k) == ((x + k - 1) \div k) * k

Configs == {c \in [M : 1..MaxM, dL : 0..2, nodes : NodeRules, spacing : Spacings,
                   impl : {"real", "fast"}, mult : Mults] :
              /\ (c.impl = "real" => c.mult = 1)
              (* "fine": many latitude rows over a small truncation (rows within a fraction of a degree of the
                 poles exist only at high meridional resolution); one truncation suffices *)
              /\ (c.nodes = "fine" => (c.M = 2 /\ c.dL = 2 /\ c.mult = 1 /\ c.spacing # "equiangular_with_poles"))}
L(c) == c.M + c.dL
(* node counts: with_wavenumbers(quadratic / linear), the T*-style rule I = 4g, J = 2g with the
   smallest g resolving the truncation linearly, and a deliberately under-resolved grid *)
LonNodes(c) == CASE c.nodes = "quadratic" -> 3 * c.M + 1
                 [] c.nodes = "linear" -> 2 * c.M + 1
                 [] c.nodes = "construct" -> 4 * ((L(c) + 1) \div 2)
                 [] c.nodes = "under" -> 2 * c.M
                 [] c.nodes = "fine" -> 3 * c.M + 1
LatNodes(c) == CASE c.nodes = "quadratic" -> (3 * c.M + 2) \div 2
                 [] c.nodes = "linear" -> c.M + 1
                 [] c.nodes = "construct" -> 2 * ((L(c) + 1) \div 2)
                 [] c.nodes = "under" -> IF L(c) > 2 THEN L(c) - 1 ELSE 2
                 [] c.nodes = "fine" -> 560

Labels(c) == {<<m, l, s>> \in (0..c.M - 1) \X (0..L(c) - 1) \X {"c", "s"} :
                 m <= l /\ (s = "s" => m > 0)}

(* -- the layouts ------------------------------------------------------------------------ *)
Row(c, m, s) == IF c.impl = "real"
                THEN (IF m = 0 THEN 0 ELSE IF s = "c" THEN 2 * m - 1 ELSE 2 * m)
                ELSE (IF s = "c" THEN 2 * m ELSE 2 * m + 1)
ModalShape(c) == IF c.impl = "real" THEN <<2 * c.M - 1, L(c)>>
                 ELSE <<RoundUp(2 * c.M, 2 * c.mult), RoundUp(L(c), c.mult)>>
NodalShape(c) == IF c.impl = "real" THEN <<LonNodes(c), LatNodes(c)>>
                 ELSE <<RoundUp(LonNodes(c), c.mult), RoundUp(LatNodes(c), c.mult)>>
(* modal_axes: signed m per row (0 in the dead row and in padding), l per column (0 in padding) *)
MAxis(c) == [i \in 0..ModalShape(c)[1] - 1 |->
               IF c.impl = "real"
               THEN (IF i = 0 THEN 0 ELSE IF i % 2 = 1 THEN (i + 1) \div 2 ELSE -(i \div 2))
               ELSE (IF i < 2 \/ i >= 2 * c.M THEN 0 ELSE IF i % 2 = 0 THEN i \div 2 ELSE -(i \div 2))]
LAxis(c) == [j \in 0..ModalShape(c)[2] - 1 |-> IF j < L(c) THEN j ELSE 0]
Abs(x) == IF x < 0 THEN -x ELSE x
(* mask as the code computes it *)
MaskOf(c) == {<<i, j>> \in (0..ModalShape(c)[1] - 1) \X (0..ModalShape(c)[2] - 1) :
                /\ Abs(MAxis(c)[i]) <= LAxis(c)[j]
                /\ (c.impl = "fast" => (i # 1 /\ i < 2 * c.M /\ j < L(c)))}

Init == /\ cfg \in Configs
        /\ pc = "shape" /\ shape = <<>> /\ axes = <<>> /\ mask = {} /\ index = <<>>
BuildShape == /\ pc = "shape"
              /\ shape' = [modal |-> ModalShape(cfg), nodal |-> NodalShape(cfg),
                           modal_pad |-> <<ModalShape(cfg)[1] - (IF cfg.impl = "real" THEN 2 * cfg.M - 1 ELSE 2 * cfg.M),
                                           ModalShape(cfg)[2] - L(cfg)>>,
                           nodal_pad |-> <<NodalShape(cfg)[1] - LonNodes(cfg), NodalShape(cfg)[2] - LatNodes(cfg)>>]
              /\ pc' = "axes" /\ UNCHANGED <<cfg, axes, mask, index>>
BuildAxes == /\ pc = "axes" /\ axes' = [m |-> MAxis(cfg), l |-> LAxis(cfg)]
             /\ pc' = "mask" /\ UNCHANGED <<cfg, shape, mask, index>>
BuildMask == /\ pc = "mask" /\ mask' = MaskOf(cfg)
             /\ pc' = "index" /\ UNCHANGED <<cfg, shape, axes, index>>
BuildIndex == /\ pc = "index"
              /\ index' = [lab \in Labels(cfg) |-> <<Row(cfg, lab[1], lab[3]), lab[2]>>]
              /\ pc' = "done" /\ UNCHANGED <<cfg, shape, axes, mask>>
Next == BuildShape \/ BuildAxes \/ BuildMask \/ BuildIndex
Spec == Init /\ [][Next]_vars

-----------------------------------------------------------------------------
Done == pc = "done"
(* the layout is a bijection from labels onto the mask; dead row and padding are outside *)
LayoutBijective == Done =>
   /\ \A a, b \in Labels(cfg) : index[a] = index[b] => a = b
   /\ {index[a] : a \in Labels(cfg)} = mask
   /\ \A a \in Labels(cfg) :
        /\ Abs(axes.m[index[a][1]]) = a[1] /\ axes.l[index[a][2]] = a[2]
        /\ (a[3] = "s" <=> axes.m[index[a][1]] < 0)
MaskInsideLimits == Done => \A ij \in mask :
   /\ ij[2] < L(cfg)
   /\ (cfg.impl = "fast" => ij[1] # 1 /\ ij[1] < 2 * cfg.M)
LabelCount == Done => Cardinality(mask) =
   L(cfg) + 2 * ((cfg.M - 1) * L(cfg) - ((cfg.M - 1) * cfg.M) \div 2)
PaddingMultiple == (Done /\ cfg.impl = "fast") =>
   /\ shape.modal[1] % (2 * cfg.mult) = 0 /\ shape.modal[2] % cfg.mult = 0
   /\ shape.nodal[1] % cfg.mult = 0 /\ shape.nodal[2] % cfg.mult = 0
   /\ shape.modal_pad[1] < 2 * cfg.mult /\ shape.modal_pad[2] < cfg.mult

(* -- quadrature resolvability ------------------------------------------------------------- *)
(* largest even polynomial degree in sin(lat) integrated exactly (odd degrees vanish by
   symmetry): Gauss-Legendre with J nodes: 2J-2; weights solved on J fixed nodes: exact to
   degree J-1, i.e. even degrees up to J-1 (J odd) or J-2 (J even) *)
EvenDegree(c) == LET J == LatNodes(c) IN
                 IF c.spacing = "gauss" THEN 2 * J - 2 ELSE IF J % 2 = 1 THEN J - 1 ELSE J - 2
LonExact(c) == 2 * (c.M - 1) < LonNodes(c)
RoundTripOwed(c, lab) == /\ LonExact(c)
                         /\ \A l2 \in lab[1]..L(c) - 1 :
                              (lab[2] + l2) % 2 = 0 => lab[2] + l2 <= EvenDegree(c)
IntegralOwed(c, lab) == lab[1] < LonNodes(c) /\ (lab[1] = 0 /\ lab[2] % 2 = 0 => lab[2] <= EvenDegree(c))
(* the factory node rules resolve what they promise *)
FactoryResolves == Done =>
   /\ (cfg.nodes \in {"quadratic", "linear"} /\ cfg.dL <= 1 /\ cfg.spacing = "gauss")
         => \A a \in Labels(cfg) : RoundTripOwed(cfg, a)
   /\ (cfg.nodes = "construct" /\ cfg.spacing = "gauss")
         => \A a \in Labels(cfg) : a[2] <= L(cfg) - 2 => RoundTripOwed(cfg, a)

LabSeq == SetToSeq(Labels(cfg))
Export == Done => PrintT(<<"CASE", ToJson([
   M |-> cfg.M, L |-> L(cfg), I |-> LonNodes(cfg), J |-> LatNodes(cfg), spacing |-> cfg.spacing,
   impl |-> cfg.impl, mult |-> cfg.mult, nodes |-> cfg.nodes,
   modal_shape |-> shape.modal, nodal_shape |-> shape.nodal,
   modal_pad |-> shape.modal_pad, nodal_pad |-> shape.nodal_pad,
   maxis |-> [i \in 1..shape.modal[1] |-> axes.m[i - 1]],
   laxis |-> [j \in 1..shape.modal[2] |-> axes.l[j - 1]],
   labels |-> [q \in 1..Len(LabSeq) |->
                 [m |-> LabSeq[q][1], l |-> LabSeq[q][2], s |-> LabSeq[q][3],
                  row |-> index[LabSeq[q]][1], col |-> index[LabSeq[q]][2],
                  rt |-> RoundTripOwed(cfg, LabSeq[q]), int |-> IntegralOwed(cfg, LabSeq[q])]] ])>>)
=============================================================================
