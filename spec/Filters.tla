------------------------------- MODULE Filters -------------------------------
(* Spectral filters of filtering.py / time_integration.py.

   A filter multiplies the coefficient of total wavenumber l by exp(-E(l)).  The exponents are
       exponential:   E(l) = a * [k > c] * ((k - c)/(1 - c))^(2p),   k = l / lmax
       diffusion:     E(l) = s * (l(l+1)/r^2)^p
       step filters:  a = dt/tau;   s = dt / (tau * (lmax(lmax+1)/r^2)^p)
   with lmax the top *resolved* total wavenumber (L - 1), also on layouts whose total-wavenumber
   axis is padded (padding columns have l = 0, hence E = 0).  The machine builds the rational
   *base*  b(l) in [0, 1]  with  E(l) = strength * b(l)^power  (so huge orders stay exact), one
   action per factory call, and the tree map that decides which leaves are filtered by numpy's
   broadcasting rule.  Robert-Asselin: (p, c, f) -> ((1-2r) c + r (p + f), f). *)
EXTENDS Integers, Sequences, FiniteSets, TLC, Json, Exact

CONSTANTS MaxL, Pads

VARIABLES cfg, pc, base, verdicts
vars == <<cfg, pc, base, verdicts>>

Cutoffs == {Zero, <<1, 4>>, <<1, 2>>}
Kinds == {"exponential", "diffusion"}
(* leaf shapes offered to the tree map, for a scaling of shape (cols) or (K, 1, cols) *)
LeafShapes(rows, cols) == { <<>>, <<1>>, <<cols>>, <<rows, cols>>, <<3, rows, cols>>, <<2, 3, rows, cols>>,
                            <<cols + 1>>, <<rows, cols + 1>>, <<97>>, <<rows, 1>>, <<1, cols>>, <<3, 1, 1>>,
                            <<2, rows, cols>>, <<rows>> }

Configs == [kind : Kinds, L : 2..MaxL, pad : Pads, cutoff : Cutoffs, arrayK : {0, 3}]

Init == /\ cfg \in Configs
        /\ pc = "build" /\ base = <<>> /\ verdicts = <<>>

LMax == cfg.L - 1
Cols == cfg.L + cfg.pad
Rows == 50 + cfg.L                       \* a symbolic row count (the replay substitutes the real one)
LAxis(j) == IF j < cfg.L THEN j ELSE 0    \* 0-based column -> total wavenumber (0 in padding)

ExpBase(j) == LET k == <<LAxis(j), LMax>>
              IN  IF RLt(cfg.cutoff, Norm(k[1], k[2]))
                  THEN RDiv(RSub(Norm(k[1], k[2]), cfg.cutoff), RSub(One, cfg.cutoff)) ELSE Zero
DiffBase(j) == Norm(LAxis(j) * (LAxis(j) + 1), LMax * (LMax + 1))

Build == /\ pc = "build"
         /\ base' = [j \in 1..Cols |-> IF cfg.kind = "exponential" THEN ExpBase(j - 1) ELSE DiffBase(j - 1)]
         /\ pc' = "leaves" /\ UNCHANGED <<cfg, verdicts>>

(* numpy broadcasting of two shapes, right aligned; <<-1>> = incompatible *)
Dim(s, i, n) == IF i > n - Len(s) THEN s[i - (n - Len(s))] ELSE 1     \* i-th of n right-aligned dims
Broadcast(s, t) ==
  LET n == IF Len(s) > Len(t) THEN Len(s) ELSE Len(t)
      ok == \A i \in 1..n : Dim(s, i, n) = Dim(t, i, n) \/ Dim(s, i, n) = 1 \/ Dim(t, i, n) = 1
  IN  IF ok THEN [i \in 1..n |-> IF Dim(s, i, n) = 1 THEN Dim(t, i, n) ELSE Dim(s, i, n)] ELSE <<-1>>
ScalingShape == IF cfg.arrayK = 0 THEN <<Cols>> ELSE <<cfg.arrayK, 1, Cols>>
(* a leaf is filtered iff broadcasting it against the scaling keeps its shape; every other leaf
   (scalars, clocks, vectors of unrelated length, incompatible shapes) is returned unchanged *)
Filtered(leaf) == Broadcast(leaf, ScalingShape) = leaf
TreeMap == /\ pc = "leaves"
           /\ verdicts' = [s \in LeafShapes(Rows, Cols) |-> Filtered(s)]
           /\ pc' = "done" /\ UNCHANGED <<cfg, base>>
Next == Build \/ TreeMap
Spec == Init /\ [][Next]_vars

-----------------------------------------------------------------------------
Done == pc = "done"
MeanPreserved == Done => base[1] = Zero
Bounded == Done => \A j \in 1..Cols : RLe(Zero, base[j]) /\ RLe(base[j], One)
TopIsOne == Done => base[cfg.L] = One
Monotone == Done => \A j \in 1..cfg.L - 1 : RLe(base[j], base[j + 1])
PaddingNeutral == Done => \A j \in cfg.L + 1..Cols : base[j] = Zero
(* the spectral state shape is filtered, scalars and clocks are not *)
SpectralLeafFiltered == Done => /\ Filtered(<<3, Rows, Cols>>)
                                /\ (cfg.arrayK = 0 => Filtered(<<Rows, Cols>>))
                                /\ ~Filtered(<<>>) /\ ~Filtered(<<1>>) /\ ~Filtered(<<97>>)
Leaves == LeafShapes(Rows, Cols)
Export == Done => PrintT(<<"CASE", ToJson([
    kind |-> cfg.kind, L |-> cfg.L, pad |-> cfg.pad, cutoff |-> cfg.cutoff, arrayK |-> cfg.arrayK,
    rows |-> Rows, cols |-> Cols, base |-> base,
    leaves |-> {[shape |-> s, filtered |-> verdicts[s]] : s \in Leaves}])>>)
=============================================================================
