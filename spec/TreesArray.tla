------------------------------ MODULE TreesArray ------------------------------
(* pytree_utils: pack_pytree / unpack_to_pytree, stack_pytree / unstack_to_pytree,
   split_along_axis / concat_along_axis, split_axis (and its inverses) on pytrees whose leaves
   are small arrays of heterogeneous shape.

   An array is [shape, data] with data in row-major order.  Leaf i (0-based, in the canonical
   leaf order of the pytree) holds the integers 100 * i + k, k its row-major position, so every
   element of every intermediate result names where it came from; the exported intermediate
   (`mid`) is compared element by element with what the code produces, and the machine's
   invariants state that the second call undoes the first.

   One action per public call:
     Pack -> Unpack,  Stack -> Unstack,  SplitAlong -> ConcatAlong,  SplitAxis -> Rejoin
   and the documented argument errors as Reject. Axes are Python axes (negative allowed). *)
EXTENDS Integers, Sequences, FiniteSets, TLC, Json

CONSTANTS MaxExt,       \* extents off the working axis are in 1..MaxExt
          MaxAxExt,     \* extents along the working axis are in 1..MaxAxExt
          MaxLeaves,    \* leaves per pytree (pack / stack)
          MaxSplitLeaves

VARIABLES cfg, pc, mid, out
vars == <<cfg, pc, mid, out>>

-----------------------------------------------------------------------------
(* index arithmetic *)
RECURSIVE Prod(_)
Prod(s) == IF s = <<>> THEN 1 ELSE Head(s) * Prod(Tail(s))
Stride(shape, i) == Prod(SubSeq(shape, i + 1, Len(shape)))
Unravel(shape, k) == [i \in 1..Len(shape) |-> (k \div Stride(shape, i)) % shape[i]]
RECURSIVE RavelFrom(_, _, _)
RavelFrom(shape, idx, i) == IF i > Len(shape) THEN 0
                            ELSE idx[i] * Stride(shape, i) + RavelFrom(shape, idx, i + 1)
Ravel(shape, idx) == RavelFrom(shape, idx, 1)
At(arr, idx) == arr.data[Ravel(arr.shape, idx) + 1]
Make(shape, f(_)) == [shape |-> shape, data |-> [k \in 1..Prod(shape) |-> f(Unravel(shape, k - 1))]]
SetAt(s, i, v) == [s EXCEPT ![i] = v]
RemoveAt(s, i) == SubSeq(s, 1, i - 1) \o SubSeq(s, i + 1, Len(s))
InsertAt(s, i, v) == SubSeq(s, 1, i - 1) \o <<v>> \o SubSeq(s, i, Len(s))
Min(a, b) == IF a <= b THEN a ELSE b
Max(a, b) == IF a >= b THEN a ELSE b
(* Python axis -> 1-based position; valid iff -rank <= axis < rank *)
ValidAxis(axis, rank) == -rank <= axis /\ axis < rank
Pos(axis, rank) == (IF axis < 0 THEN axis + rank ELSE axis) + 1

RECURSIVE SumTo(_, _)
SumTo(f, n) == IF n = 0 THEN 0 ELSE f[n] + SumTo(f, n - 1)
(* jnp.concatenate(arrs, axis) *)
Concat(arrs, p) ==
  LET ext == [b \in 1..Len(arrs) |-> arrs[b].shape[p]]
      shape == SetAt(arrs[1].shape, p, SumTo(ext, Len(arrs)))
      Block(j) == CHOOSE b \in 1..Len(arrs) : SumTo(ext, b - 1) <= j /\ j < SumTo(ext, b)
  IN  Make(shape, LAMBDA idx : LET b == Block(idx[p])
                               IN  At(arrs[b], SetAt(idx, p, idx[p] - SumTo(ext, b - 1))))
(* arr[..., lo:hi, ...] along p with Python clipping *)
Slice(arr, p, lo, hi) ==
  LET n == arr.shape[p]
      a == Min(lo, n)
      b == Max(a, Min(hi, n))
  IN  Make(SetAt(arr.shape, p, b - a), LAMBDA idx : At(arr, SetAt(idx, p, idx[p] + a)))
(* jnp.stack(arrs, axis): new axis at position p of the result *)
StackNew(arrs, p) ==
  Make(InsertAt(arrs[1].shape, p, Len(arrs)), LAMBDA idx : At(arrs[idx[p] + 1], RemoveAt(idx, p)))
(* arr[..., i, ...] with the axis removed *)
Take(arr, p, i) == Make(RemoveAt(arr.shape, p), LAMBDA idx : At(arr, InsertAt(idx, p, i)))

LeafArray(shape, i) == [shape |-> shape, data |-> [k \in 1..Prod(shape) |-> 100 * (i - 1) + k - 1]]
TreeOf(shapes) == [i \in 1..Len(shapes) |-> LeafArray(shapes[i], i)]
Tree == TreeOf(cfg.shapes)

-----------------------------------------------------------------------------
(* configurations *)
Shapes(r) == [1..r -> 1..MaxExt]
SeqsUpTo(S, lo, n) == UNION {[1..m -> S] : m \in lo..n}
PackCfgs ==
  {[op |-> "pack", axis |-> IF neg THEN p - 4 ELSE p - 1,
    shapes |-> [i \in 1..Len(e) |-> SetAt(b, p, e[i])], arg |-> 0] :
     b \in Shapes(3), p \in 1..3, e \in SeqsUpTo(1..MaxAxExt, 0, MaxLeaves), neg \in BOOLEAN}
StackCfgs ==
  UNION {{[op |-> "stack", axis |-> a, shapes |-> [i \in 1..n |-> s], arg |-> 0] :
            s \in Shapes(r), n \in 0..MaxLeaves, a \in -(r + 1)..r} : r \in 2..3}
AllShapes == Shapes(1) \cup Shapes(2) \cup Shapes(3)
AxShapes == UNION {{SetAt(s, 1, e) : e \in 1..MaxAxExt} : s \in AllShapes}
MinRank(shapes) == CHOOSE r \in 1..3 : (\E i \in 1..Len(shapes) : Len(shapes[i]) = r)
                                      /\ \A i \in 1..Len(shapes) : Len(shapes[i]) >= r
(* pytrees for the split operations: one leaf of any shape, optionally followed by leaves of
   other ranks / extents (heterogeneous trees) *)
Partners == {<<MaxAxExt>>, <<1, 2>>, <<2, 2, 1>>}
SplitTrees == {<<s>> : s \in AxShapes}
              \cup (IF MaxSplitLeaves >= 2 THEN {<<s, t>> : s \in AxShapes, t \in Partners} ELSE {})
              \cup (IF MaxSplitLeaves >= 3 THEN {<<t, s, u>> : s \in AxShapes, t \in Partners, u \in Partners} ELSE {})
SplitCfgs ==
  {c \in [op : {"split"}, axis : -1..1, shapes : SplitTrees,
          arg : 0..MaxAxExt + 1, same : BOOLEAN] :
     /\ c.axis < MinRank(c.shapes)
     /\ ((c.axis < 0 \/ c.same) => c.arg = 1)}
SplitAxisCfgs ==
  {c \in [op : {"splitaxis"}, axis : -2..1, shapes : SplitTrees,
          arg : {0}, keep : BOOLEAN] :
     ValidAxis(c.axis, MinRank(c.shapes))}

Init == /\ cfg \in PackCfgs \cup StackCfgs \cup SplitCfgs \cup SplitAxisCfgs
        /\ pc = "new" /\ mid = <<>> /\ out = <<>>
N == Len(cfg.shapes)

-----------------------------------------------------------------------------
(* pack_pytree(tree, axis) / unpack_to_pytree(packed, shapes, axis) *)
Pack == /\ pc = "new" /\ cfg.op = "pack"
        /\ mid' = IF N = 0 THEN <<"None">> ELSE <<Concat(Tree, Pos(cfg.axis, 3))>>
        /\ pc' = IF N = 0 THEN "done" ELSE "mid"
        /\ UNCHANGED <<cfg, out>>
Unpack == /\ pc = "mid" /\ cfg.op = "pack"
          /\ LET p == Pos(cfg.axis, 3)
                 ext == [i \in 1..N |-> cfg.shapes[i][p]]
             IN  out' = [i \in 1..N |-> Slice(mid[1], p, SumTo(ext, i - 1), SumTo(ext, i))]
          /\ pc' = "done" /\ UNCHANGED <<cfg, mid>>
(* stack_pytree / unstack_to_pytree *)
Stack == /\ pc = "new" /\ cfg.op = "stack"
         /\ mid' = IF N = 0 THEN <<"None">>
                   ELSE <<StackNew(Tree, Pos(cfg.axis, Len(cfg.shapes[1]) + 1))>>
         /\ pc' = IF N = 0 THEN "done" ELSE "mid"
         /\ UNCHANGED <<cfg, out>>
Unstack == /\ pc = "mid" /\ cfg.op = "stack"
           /\ LET p == Pos(cfg.axis, Len(cfg.shapes[1]) + 1)
              IN  out' = [i \in 1..mid[1].shape[p] |-> Take(mid[1], p, i - 1)]
           /\ pc' = "done" /\ UNCHANGED <<cfg, mid>>
(* split_along_axis(tree, split_idx, axis, expect_same_dims) / concat_along_axis *)
SameRank == \A i, j \in 1..N : Len(cfg.shapes[i]) = Len(cfg.shapes[j])
SplitBad == cfg.op = "split" /\ ((cfg.same /\ ~SameRank) \/ (~cfg.same /\ cfg.axis < 0))
(* a negative axis together with expect_same_dims=True on leaves of equal rank: the error message
   of the code says negative axes are a problem only without expect_same_dims, the code rejects
   them always; the machine computes the result and marks the case lenient (either outcome) *)
SplitLenient == cfg.op = "split" /\ cfg.same /\ SameRank /\ cfg.axis < 0
SplitReject == /\ pc = "new" /\ SplitBad
               /\ pc' = "rejected" /\ UNCHANGED <<cfg, mid, out>>
SplitAlong == /\ pc = "new" /\ cfg.op = "split" /\ ~SplitBad
              /\ mid' = <<[i \in 1..N |-> Slice(Tree[i], Pos(cfg.axis, Len(cfg.shapes[i])), 0, cfg.arg)],
                          [i \in 1..N |-> Slice(Tree[i], Pos(cfg.axis, Len(cfg.shapes[i])), cfg.arg,
                                                cfg.shapes[i][Pos(cfg.axis, Len(cfg.shapes[i]))])]>>
              /\ pc' = "mid" /\ UNCHANGED <<cfg, out>>
ConcatAlong == /\ pc = "mid" /\ cfg.op = "split"
               /\ out' = [i \in 1..N |-> Concat(<<mid[1][i], mid[2][i]>>, Pos(cfg.axis, Len(cfg.shapes[i])))]
               /\ pc' = "done" /\ UNCHANGED <<cfg, mid>>
(* split_axis(tree, axis, keep_dims); inverse: concat_along_axis (keep_dims) or leafwise stack *)
AxExt(i) == cfg.shapes[i][Pos(cfg.axis, Len(cfg.shapes[i]))]
SplitAxisBad == cfg.op = "splitaxis" /\ \E i, j \in 1..N : AxExt(i) # AxExt(j)
SplitAxisReject == /\ pc = "new" /\ SplitAxisBad
                   /\ pc' = "rejected" /\ UNCHANGED <<cfg, mid, out>>
SplitAxis == /\ pc = "new" /\ cfg.op = "splitaxis" /\ ~SplitAxisBad
             /\ mid' = [j \in 1..AxExt(1) |-> [i \in 1..N |->
                          LET p == Pos(cfg.axis, Len(cfg.shapes[i]))
                          IN  IF cfg.keep THEN Slice(Tree[i], p, j - 1, j) ELSE Take(Tree[i], p, j - 1)]]
             /\ pc' = "mid" /\ UNCHANGED <<cfg, out>>
Rejoin == /\ pc = "mid" /\ cfg.op = "splitaxis"
          /\ out' = [i \in 1..N |->
                       LET p == Pos(cfg.axis, Len(cfg.shapes[i]))
                           parts == [j \in 1..Len(mid) |-> mid[j][i]]
                       IN  IF cfg.keep THEN Concat(parts, p) ELSE StackNew(parts, p)]
          /\ pc' = "done" /\ UNCHANGED <<cfg, mid>>

Next == Pack \/ Unpack \/ Stack \/ Unstack \/ SplitReject \/ SplitAlong \/ ConcatAlong
        \/ SplitAxisReject \/ SplitAxis \/ Rejoin
Spec == Init /\ [][Next]_vars

-----------------------------------------------------------------------------
Done == pc = "done"
(* the second call undoes the first, for every tree *)
RoundTrip == (Done /\ N > 0) => out = Tree
EmptyIsNone == (Done /\ N = 0) => mid = <<"None">>
(* every element of the packed / stacked array comes from exactly one leaf element *)
PackIsBijection == (pc = "mid" /\ cfg.op \in {"pack", "stack"}) =>
   LET d == mid[1].data
   IN  /\ \A i, j \in 1..Len(d) : d[i] = d[j] => i = j
       /\ {d[i] : i \in 1..Len(d)} = UNION {{Tree[q].data[k] : k \in 1..Len(Tree[q].data)} : q \in 1..N}
(* the two halves of a split partition each leaf at split_idx *)
SplitPartitions == (pc = "mid" /\ cfg.op = "split") => \A i \in 1..N :
   LET p == Pos(cfg.axis, Len(cfg.shapes[i]))
   IN  /\ mid[1][i].shape[p] = Min(cfg.arg, cfg.shapes[i][p])
       /\ mid[1][i].shape[p] + mid[2][i].shape[p] = cfg.shapes[i][p]
SplitAxisCount == (pc = "mid" /\ cfg.op = "splitaxis") =>
   /\ Len(mid) = AxExt(1)
   /\ \A j \in 1..Len(mid) : \A i \in 1..N :
        Len(mid[j][i].shape) = Len(cfg.shapes[i]) - (IF cfg.keep THEN 0 ELSE 1)
RejectedOnlyWhenDocumented == pc = "rejected" => (SplitBad \/ SplitAxisBad)

Export == pc \in {"done", "rejected"} =>
  PrintT(<<"CASE", ToJson([op |-> cfg.op, axis |-> cfg.axis, shapes |-> cfg.shapes, arg |-> cfg.arg,
                           flag |-> IF cfg.op = "split" THEN cfg.same
                                    ELSE IF cfg.op = "splitaxis" THEN cfg.keep ELSE FALSE,
                           lenient |-> SplitLenient,
                           verdict |-> pc, mid |-> mid])>>)
=============================================================================
