-------------------------- MODULE TraceIntegrators --------------------------
(* Trace validation of the integrators: executions of the real step functions (on toy and on
   real equations) are recorded as the sequence of explicit_terms / implicit_terms /
   implicit_inverse calls with the step size handed to the solve (in units of dt, as a
   rational).  Every step must be the stage program of Integrators.tla: same calls, same order,
   same eta.  For the Carpenter-Kennedy RK4 (13-digit decimal coefficients, not representable
   in TLC integers) only the order and number of calls is checked. *)
EXTENDS Integers, Sequences, TLC, Json, Exact, IntegratorPrograms, IOUtils

Traces == JsonDeserialize(IOEnv.TRACE_FILE)

VARIABLES t, l
tvars == <<t, l>>

Rk4Calls == [q \in 1..15 |-> [k |-> <<"F", "G", "Ginv">>[((q - 1) % 3) + 1], eta |-> Zero]]
Expected(tr) == IF tr.ig = "rk4" THEN Rk4Calls
                ELSE LET prog == CallsOf(Program(tr.ig, <<tr.alpha[1], tr.alpha[2]>>))
                     IN  [q \in 1..Len(prog) |->
                            [k |-> prog[q].op, eta |-> IF prog[q].op = "Ginv" THEN prog[q].eta ELSE Zero]]

TraceInit == t \in 1..Len(Traces) /\ l = 1
Ev == Traces[t].ev
Consume == /\ l <= Len(Ev)
           /\ LET ex == Expected(Traces[t])
                  e == ex[((l - 1) % Len(ex)) + 1]
              IN  /\ Ev[l].k = e.k
                  /\ (Traces[t].ig # "rk4" /\ e.k = "Ginv") => <<Ev[l].eta[1], Ev[l].eta[2]>> = e.eta
           /\ l' = l + 1 /\ UNCHANGED t
TraceSpec == TraceInit /\ [][Consume]_tvars

Accepted == /\ l = Len(Ev) + 1
            /\ Len(Ev) = Traces[t].steps * Len(Expected(Traces[t]))
Report == Accepted => PrintT(<<"TRACEOK", ToJson(t)>>)
=============================================================================
