------------------------------- MODULE Exact -------------------------------
(* Exact numbers for the abstract machine.
   Rat  : normalised <<n, d>>, d > 0, gcd(|n|, d) = 1.
   Surd : <<k, r>> meaning k * sqrt(r) with k, r in Rat, r >= 0 (not necessarily square free;
          equality of surds is decided by comparing k^2 * r and the sign of k).
   TLC integers are 32 bit; TLC raises an error on overflow (never silently wraps), and
   every model keeps numerators/denominators far below that. *)
EXTENDS Integers, Sequences

Abs(x) == IF x < 0 THEN -x ELSE x
Sgn(x) == IF x < 0 THEN -1 ELSE IF x = 0 THEN 0 ELSE 1
Max(a, b) == IF a >= b THEN a ELSE b
Min(a, b) == IF a <= b THEN a ELSE b

RECURSIVE GCD(_, _)
GCD(a, b) == IF b = 0 THEN a ELSE GCD(b, a % b)     \* a, b >= 0

Norm(n, d) == LET s == IF d < 0 THEN -1 ELSE 1
                  g == GCD(Abs(n), Abs(d))
              IN  <<(s * n) \div g, (s * d) \div g>>

IsRat(q) == /\ q \in Seq(Int) /\ Len(q) = 2 /\ q[2] > 0 /\ GCD(Abs(q[1]), q[2]) = 1

R(n) == <<n, 1>>
Zero == <<0, 1>>
One == <<1, 1>>
RNeg(a) == <<-a[1], a[2]>>
RAdd(a, b) == LET g == GCD(a[2], b[2])
              IN  Norm(a[1] * (b[2] \div g) + b[1] * (a[2] \div g), (a[2] \div g) * b[2])
RSub(a, b) == RAdd(a, RNeg(b))
RMul(a, b) == LET g1 == GCD(Abs(a[1]), b[2])
                  g2 == GCD(Abs(b[1]), a[2])
              IN  IF a[1] = 0 \/ b[1] = 0 THEN Zero
                  ELSE <<(a[1] \div g1) * (b[1] \div g2), (a[2] \div g2) * (b[2] \div g1)>>
RInv(a) == IF a[1] > 0 THEN <<a[2], a[1]>> ELSE <<-a[2], -a[1]>>     \* a # 0
RDiv(a, b) == RMul(a, RInv(b))
RLt(a, b) == a[1] * b[2] < b[1] * a[2]
RLe(a, b) == a[1] * b[2] <= b[1] * a[2]
RMax(a, b) == IF RLe(a, b) THEN b ELSE a
RMin(a, b) == IF RLe(a, b) THEN a ELSE b
RSgn(a) == Sgn(a[1])
RAbs(a) == <<Abs(a[1]), a[2]>>
RECURSIVE RPow(_, _)
RPow(a, k) == IF k = 0 THEN One ELSE RMul(a, RPow(a, k - 1))

RECURSIVE RSumSeq(_)
RSumSeq(s) == IF s = <<>> THEN Zero ELSE RAdd(Head(s), RSumSeq(Tail(s)))
(* sum_{i in lo..hi} f[i] for a function/sequence of Rats *)
RECURSIVE RSum(_, _, _)
RSum(f, lo, hi) == IF lo > hi THEN Zero ELSE RAdd(f[lo], RSum(f, lo + 1, hi))

(* dot product of two equally long sequences of Rats *)
RECURSIVE RDot(_, _)
RDot(a, b) == IF a = <<>> THEN Zero ELSE RAdd(RMul(Head(a), Head(b)), RDot(Tail(a), Tail(b)))

RFloor(a) == a[1] \div a[2]                      \* TLC \div is floor division
(* Python's round(): half to even *)
RRoundHalfEven(a) == LET f == RFloor(a)
                         r == RSub(a, R(f))          \* in [0, 1)
                     IN  IF RLt(r, <<1, 2>>) THEN f
                         ELSE IF RLt(<<1, 2>>, r) THEN f + 1
                         ELSE IF f % 2 = 0 THEN f ELSE f + 1

(* Surds: k * sqrt(r). *)
SMul(s, t) == <<RMul(s[1], t[1]), RMul(s[2], t[2])>>
SSq(s) == RMul(RMul(s[1], s[1]), s[2])            \* the square, a Rat
SEq(s, t) == /\ SSq(s) = SSq(t)
             /\ (SSq(s) = Zero \/ RSgn(s[1]) = RSgn(t[1]))
=============================================================================
