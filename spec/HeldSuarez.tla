----------------------------- MODULE HeldSuarez -----------------------------
(* Held-Suarez forcing of held_suarez.py as an exact machine (property C20).

   Level sets are rational (boundary numerators b over Den, as in SigmaCalculus); rates are
   rationals in units of 1/day, temperatures integers in kelvin.  The friction rate depends on
   the level only, so on the coefficients of vorticity / divergence below the top total
   wavenumber the forcing is the level-wise scalar  -kv[k]  (the wind round trip
   (vor, div) -> cos(lat) u -> (vor, div) is the identity there, property C02), and the spec
   state carries vorticity / divergence as integer coefficients on two *abstract* horizontal
   labels (standing for any two distinct labels 1 <= l <= L-2; the harness instantiates them
   with every real label).

   The Newtonian cooling rate  kt = ka + (ks - ka) * cut[k] * cos^4(lat)  is a linear form over
   the atoms {1, cos^4(lat)}; its action on a horizontally constant temperature increment is
   exact in modal space because  cos^4 = (1 - mu^2)^2 = 8/15 P0 - 16/21 P2 + 8/35 P4
   (checked below), the modal coefficient of P_l being the atom N_l = sqrt(4 pi / (2l+1)).
   The equilibrium temperature is transcendental except on the reference surface p = p0, where
   it is  max(minT, maxT - dTy * sin^2(lat)).

   One action per public call:  Construct (__init__), Kv (kv), Kt (kt),
   Teq (equilibrium_temperature), ExplicitTerms (explicit_terms, once per state). *)
EXTENDS Integers, Sequences, FiniteSets, TLC, Json, Exact

CONSTANTS Den, MaxLayers, Tier

RECURSIVE IncSeqs(_, _, _)
IncSeqs(n, lo, hi) == IF n = 0 THEN {<<>>}
                      ELSE UNION {{<<x>> \o s : s \in IncSeqs(n - 1, x + 1, hi)} : x \in lo..hi}
LevelSets == UNION {{<<0>> \o s \o <<Den>> : s \in IncSeqs(K - 1, 1, Den - 1)} : K \in 1..MaxLayers}

SigmaBs == {<<1, 2>>, <<7, 10>>, <<3, 4>>, <<1, 1>>}      \* sigma_b = 1: no boundary layer at all
(* forcing parameters: kf, ka, ks in 1/day; minT, maxT, dTy, dThz in K; p 1 = the defaults *)
Params ==
  {[id |-> 1, kf |-> <<1, 1>>, ka |-> <<1, 40>>, ks |-> <<1, 4>>, minT |-> 200, maxT |-> 315, dTy |-> 60, dThz |-> 10],
   [id |-> 2, kf |-> <<1, 2>>, ka |-> <<1, 8>>,  ks |-> <<1, 8>>, minT |-> 280, maxT |-> 315, dTy |-> 60, dThz |-> 10],
   [id |-> 3, kf |-> <<2, 1>>, ka |-> <<0, 1>>,  ks |-> <<1, 2>>, minT |-> 150, maxT |-> 300, dTy |-> 90, dThz |-> 0],
   [id |-> 4, kf |-> <<1, 4>>, ka |-> <<1, 4>>,  ks |-> <<1, 16>>, minT |-> 260, maxT |-> 320, dTy |-> 100, dThz |-> 20]}
(* quick: parameter sets 2..4 only on a third of the level sets each *)
Pairing(bb, sbb, p) == \/ Tier # "quick" \/ p.id = 1
                       \/ p.id = 2 + ((Len(bb) + bb[2] + sbb[1]) % 3)

VARIABLES b, sb, par,     \* configuration
          pc, tab,        \* control, coefficient tables
          todo, st, out   \* states still to force, current state, results
vars == <<b, sb, par, pc, tab, todo, st, out>>

K == Len(b) - 1
Center(k) == Norm(b[k] + b[k + 1], 2 * Den)
(* np.maximum(0, (sigma - sigma_b) / (1 - sigma_b)) *)
(* for sigma_b = 1 the quotient is -infinity at every layer centre (all centres are < 1) and the
   maximum with 0 is 0: no drag, ka everywhere *)
Cut(k) == IF sb = One THEN Zero ELSE RMax(Zero, RDiv(RSub(Center(k), sb), RSub(One, sb)))

(* states: coefficients on abstract labels 1, 2 per level; dT = horizontally constant
   temperature increment per level *)
ZeroField == [k \in 1..K |-> <<0, 0>>]
UnitField == [k \in 1..K |-> IF k % 2 = 1 THEN <<1, 0>> ELSE <<0, 1>>]
DenseA == [k \in 1..K |-> <<2 * k - 1, -k - 1>>]
DenseB == [k \in 1..K |-> <<k - 3, 2 * k + 1>>]
StateOf(kind) ==
  CASE kind = "vor"   -> [vor |-> UnitField, div |-> ZeroField, dT |-> [k \in 1..K |-> 0]]
    [] kind = "div"   -> [vor |-> ZeroField, div |-> UnitField, dT |-> [k \in 1..K |-> 0]]
    [] kind = "dense" -> [vor |-> DenseA, div |-> DenseB, dT |-> [k \in 1..K |-> 0]]
    [] kind = "warm"  -> [vor |-> DenseA, div |-> DenseB, dT |-> [k \in 1..K |-> k + 1]]
Kinds == <<"vor", "div", "dense", "warm">>

-----------------------------------------------------------------------------
Init == /\ b \in LevelSets /\ sb \in SigmaBs /\ par \in Params /\ Pairing(b, sb, par)
        /\ pc = "new" /\ tab = [o \in {} |-> 0] /\ todo = Kinds
        /\ st = StateOf("vor") /\ out = <<>>

With(f, key, val) == [o \in DOMAIN f \cup {key} |-> IF o = key THEN val ELSE f[o]]

Construct == /\ pc = "new" /\ pc' = "kv" /\ UNCHANGED <<b, sb, par, tab, todo, st, out>>
(* kv = kf * cut *)
Kv == /\ pc = "kv"
      /\ tab' = With(tab, "kv", [k \in 1..K |-> RMul(par.kf, Cut(k))])
      /\ pc' = "kt" /\ UNCHANGED <<b, sb, par, todo, st, out>>
(* kt = ka + (ks - ka) * cut * cos^4(lat): coefficients of the atoms <<1, cos^4>>, and the
   modal image of kt * 1 on the atoms <<N0, N2, N4>> *)
KtForm(k) == <<par.ka, RMul(RSub(par.ks, par.ka), Cut(k))>>
KtModal(k) == LET f == KtForm(k)
              IN  <<RAdd(f[1], RMul(f[2], <<8, 15>>)), RMul(f[2], <<-16, 21>>), RMul(f[2], <<8, 35>>)>>
Kt == /\ pc = "kt"
      /\ tab' = With(With(tab, "kt", [k \in 1..K |-> KtForm(k)]),
                     "ktmodal", [k \in 1..K |-> KtModal(k)])
      /\ pc' = "teq" /\ UNCHANGED <<b, sb, par, todo, st, out>>
(* equilibrium temperature on p = p0: raw = maxT - dTy * sin^2(lat) over atoms <<1, sin^2>>,
   result = max(minT, raw) *)
Teq == /\ pc = "teq"
       /\ tab' = With(With(tab, "teq_raw", <<R(par.maxT), R(-par.dTy)>>), "teq_floor", R(par.minT))
       /\ pc' = "terms" /\ UNCHANGED <<b, sb, par, todo, st, out>>
(* explicit_terms: level-wise drag on the wind, relaxation of temperature (its response to the
   horizontally constant increment dT), nothing for the surface pressure *)
Scale(q, f) == [k \in 1..K |-> <<RMul(q[k], R(f[k][1])), RMul(q[k], R(f[k][2]))>>]
Tendency(s) ==
  [vor |-> Scale([k \in 1..K |-> RNeg(tab["kv"][k])], s.vor),
   div |-> Scale([k \in 1..K |-> RNeg(tab["kv"][k])], s.div),
   dtemp |-> [k \in 1..K |-> [l \in 1..3 |-> RNeg(RMul(tab["ktmodal"][k][l], R(s.dT[k])))]],
   lnps |-> Zero]
ExplicitTerms == /\ pc = "terms" /\ todo # <<>>
                 /\ st' = StateOf(Head(todo))
                 /\ out' = Append(out, [kind |-> Head(todo), state |-> st', tend |-> Tendency(st')])
                 /\ todo' = Tail(todo)
                 /\ pc' = IF Len(todo) = 1 THEN "done" ELSE "terms"
                 /\ UNCHANGED <<b, sb, par, tab>>
Next == Construct \/ Kv \/ Kt \/ Teq \/ ExplicitTerms
Spec == Init /\ [][Next]_vars

-----------------------------------------------------------------------------
(* the property *)
Done == pc = "done"
HasKt == pc \in {"teq", "terms", "done"}
HasKv == pc \in {"kt", "teq", "terms", "done"}
(* non-negative rates: kv >= 0; kt >= 0 at both ends of cos^4 in [0, 1], hence in between *)
RatesNonNegative ==
  /\ HasKv => \A k \in 1..K : RLe(Zero, tab["kv"][k])
  /\ HasKt => \A k \in 1..K : /\ RLe(Zero, tab["kt"][k][1])
                               /\ RLe(Zero, RAdd(tab["kt"][k][1], tab["kt"][k][2]))
(* no friction and only the free-atmosphere cooling rate above the boundary layer *)
ZeroAboveBoundaryLayer ==
  /\ HasKv => \A k \in 1..K : RLe(Center(k), sb) => tab["kv"][k] = Zero
  /\ HasKt => \A k \in 1..K : RLe(Center(k), sb) => tab["kt"][k] = <<par.ka, Zero>>
  /\ \A i \in 1..Len(out) : \A k \in 1..K : RLe(Center(k), sb) =>
        /\ out[i].tend.vor[k] = <<Zero, Zero>> /\ out[i].tend.div[k] = <<Zero, Zero>>
(* friction grows towards the surface and stays below kf; it is positive inside the layer *)
FrictionProfile == HasKv =>
  /\ \A k \in 1..K : RLt(tab["kv"][k], par.kf)
  /\ \A k \in 1..K - 1 : RLe(tab["kv"][k], tab["kv"][k + 1])
  /\ \A k \in 1..K : RLt(sb, Center(k)) => RLt(Zero, tab["kv"][k])
(* tendency = -kv[level] * state, label by label: no cross talk, dissipative *)
DragLaw == \A i \in 1..Len(out) : \A k \in 1..K : \A q \in 1..2 :
  LET o == out[i]
  IN  /\ o.tend.vor[k][q] = RNeg(RMul(tab["kv"][k], R(o.state.vor[k][q])))
      /\ o.tend.div[k][q] = RNeg(RMul(tab["kv"][k], R(o.state.div[k][q])))
      /\ RLe(RMul(o.tend.vor[k][q], R(o.state.vor[k][q])), Zero)
      /\ RLe(RMul(o.tend.div[k][q], R(o.state.div[k][q])), Zero)
NoSurfacePressureTendency == \A i \in 1..Len(out) : out[i].tend.lnps = Zero
(* relaxation pulls a warm anomaly down: the mean (N0) response has the sign of -dT *)
RelaxationDissipative == \A i \in 1..Len(out) : \A k \in 1..K :
  RLe(RMul(out[i].tend.dtemp[k][1], R(out[i].state.dT[k])), Zero)
(* (1 - mu^2)^2 = 8/15 P0 - 16/21 P2 + 8/35 P4: a degree 4 identity checked at 5 points *)
P2(x) == RMul(<<1, 2>>, RSub(RMul(R(3), RMul(x, x)), One))
P4(x) == RMul(<<1, 8>>, RAdd(RSub(RMul(R(35), RPow(x, 4)), RMul(R(30), RMul(x, x))), R(3)))
Cos4Expansion == \A x \in {Zero, One, <<1, 2>>, <<-1, 3>>, <<2, 3>>} :
  RPow(RSub(One, RMul(x, x)), 2)
    = RAdd(<<8, 15>>, RAdd(RMul(<<-16, 21>>, P2(x)), RMul(<<8, 35>>, P4(x))))
(* the equilibrium on p = p0 is never below its floor *)
EquilibriumFloor == pc \in {"terms", "done"} => \A s2 \in {Norm(n, 4) : n \in 0..4} :
  RLe(tab["teq_floor"], RMax(tab["teq_floor"], RAdd(tab["teq_raw"][1], RMul(tab["teq_raw"][2], s2))))

Export == Done =>
   PrintT(<<"CASE", ToJson([b |-> b, den |-> Den, sb |-> sb, par |-> par, tab |-> tab, out |-> out])>>)
=============================================================================
