------------------------------ MODULE TreesDict ------------------------------
(* Nested dictionaries and pytree_utils.flatten_dict / unflatten_dict /
   replace_with_matching_or_default.

   A dictionary is a finite function from key names to nodes; a node is a leaf or a dictionary
   (possibly empty).  Key names are *character sequences* (Chars(k)), because everything that can
   go wrong here is about characters: the flat key of a leaf is the concatenation of the keys
   on its path joined by the separator character, unflatten splits at the separator, and a key
   that contains the separator must be rejected.  The alphabet is chosen to stress the code:
   keys that are prefixes of each other, keys sharing a first character, a key containing
   each candidate separator.

   The machine:  Flatten | FlattenReject  ->  Unflatten  ->  Replace(mode).
   The property clauses are the invariants at the bottom: the flat form is exactly (joined leaf
   paths, joined empty-branch paths); duplicates are reported iff two *full* flat keys coincide
   (which never happens for separator-free keys: FlatInjective); unflatten(flatten(t)) = t;
   replace keeps the structure of t and takes leaves from the replacement or the default.

   DedupMode = "fullpath" is the documented behaviour.  DedupMode = "firstchar" models the code as
   found (duplicate detection on the first character of the flat empty-branch keys): TLC then
   violates NoSpuriousDuplicate (spec/mc/TreesDict_asfound.cfg). *)
EXTENDS Integers, Sequences, FiniteSets, TLC, Json

CONSTANTS Keys,        \* key names (strings from the table Chars below)
          Seps,        \* separator characters tried
          MaxDepth,    \* nesting levels of dictionaries (1 = flat dictionary)
          MaxNodes,    \* entries (leaves + sub-dictionaries) in the whole tree
          DedupMode    \* "fullpath" | "firstchar"

VARIABLES tree, sep, pc, flat, empties, back, todo, result
vars == <<tree, sep, pc, flat, empties, back, todo, result>>

Chars(k) == CASE k = "a" -> <<"a">> [] k = "b" -> <<"b">> [] k = "x" -> <<"x">>
              [] k = "ab" -> <<"a", "b">> [] k = "ac" -> <<"a", "c">> [] k = "ba" -> <<"b", "a">>
              [] k = "a&b" -> <<"a", "&", "b">> [] k = "a/b" -> <<"a", "/", "b">>

KeySeq == CHOOSE s \in [1..Cardinality(Keys) -> Keys] : \A i, j \in 1..Cardinality(Keys) : i # j => s[i] # s[j]
Leaf == [t |-> "L"]
D(kids) == [t |-> "D", kids |-> kids]
EmptyDict == [k \in {} |-> Leaf]

-----------------------------------------------------------------------------
(* all dictionaries with <= n entries and dictionaries on levels level..MaxDepth *)
RECURSIVE Size(_)
Size(d) == LET RECURSIVE Sum(_)
               Sum(S) == IF S = {} THEN 0
                         ELSE LET k == CHOOSE q \in S : TRUE
                              IN  1 + (IF d[k].t = "D" THEN Size(d[k].kids) ELSE 0) + Sum(S \ {k})
           IN  Sum(DOMAIN d)
NSize(node) == IF node.t = "D" THEN Size(node.kids) ELSE 0
Extend(d, k, v) == [q \in DOMAIN d \cup {k} |-> IF q = k THEN v ELSE d[q]]

RECURSIVE DictsOver(_, _, _)
DictsOver(ks, level, n) ==
  IF ks = <<>> \/ n = 0 THEN {EmptyDict}
  ELSE LET k == Head(ks)
           nodes == {Leaf} \cup (IF level < MaxDepth
                                 THEN {D(x) : x \in DictsOver(KeySeq, level + 1, n - 1)}
                                 ELSE {D(EmptyDict)})
       IN  DictsOver(Tail(ks), level, n)
           \cup UNION {{Extend(rest, k, c) : rest \in DictsOver(Tail(ks), level, n - 1 - NSize(c))}
                       : c \in nodes}
Trees == DictsOver(KeySeq, 1, MaxNodes)

-----------------------------------------------------------------------------
(* the tree as a set of terminal paths (sequences of key names) *)
RECURSIVE Paths(_, _)
Paths(d, pre) == UNION {IF d[k].t = "L" THEN {[path |-> Append(pre, k), kind |-> "L"]}
                        ELSE IF DOMAIN d[k].kids = {} THEN {[path |-> Append(pre, k), kind |-> "E"]}
                        ELSE Paths(d[k].kids, Append(pre, k)) : k \in DOMAIN d}
LeafPaths(d) == {p.path : p \in {q \in Paths(d, <<>>) : q.kind = "L"}}
EmptyPaths(d) == {p.path : p \in {q \in Paths(d, <<>>) : q.kind = "E"}}
RECURSIVE Join(_, _)
Join(path, s) == IF Len(path) = 1 THEN Chars(path[1])
                 ELSE Chars(path[1]) \o <<s>> \o Join(Tail(path), s)
Contains(cs, ch) == \E i \in 1..Len(cs) : cs[i] = ch
RECURSIVE AllKeys(_)
AllKeys(d) == DOMAIN d \cup UNION {IF d[k].t = "D" THEN AllKeys(d[k].kids) ELSE {} : k \in DOMAIN d}
HasSep(d, s) == \E k \in AllKeys(d) : Contains(Chars(k), s)

(* canonical form used for comparison: keys as character sequences, leaves tagged by their path *)
RECURSIVE Canon(_, _)
Canon(d, pre) == [c \in {Chars(k) : k \in DOMAIN d} |->
                    LET k == CHOOSE q \in DOMAIN d : Chars(q) = c
                    IN  IF d[k].t = "L" THEN [t |-> "L", tag |-> Append(pre, k)]
                        ELSE D(Canon(d[k].kids, Append(pre, k)))]

-----------------------------------------------------------------------------
(* flatten_dict, structured like the code: recursion over sub-dictionaries with a prefix *)
RECURSIVE FlatKeys(_, _, _, _, _)
FlatKeys(d, ks, prefix, path, s) ==
  IF ks = <<>> THEN [items |-> <<>>, empties |-> <<>>]
  ELSE LET k == Head(ks)
           rest == FlatKeys(d, Tail(ks), prefix, path, s)
       IN  IF k \notin DOMAIN d THEN rest
           ELSE LET nk == IF prefix = <<>> THEN Chars(k) ELSE prefix \o <<s>> \o Chars(k)
                    np == Append(path, k)
                    v == d[k]
                IN  IF v.t = "L"
                    THEN [items |-> <<[key |-> nk, tag |-> np]>> \o rest.items, empties |-> rest.empties]
                    ELSE IF DOMAIN v.kids = {}
                    THEN [items |-> rest.items, empties |-> <<nk>> \o rest.empties]
                    ELSE LET sub == FlatKeys(v.kids, KeySeq, nk, np, s)
                         IN  [items |-> sub.items \o rest.items, empties |-> sub.empties \o rest.empties]
Flat(d, s) == FlatKeys(d, KeySeq, <<>>, <<>>, s)

HasDupSeq(q) == \E i, j \in 1..Len(q) : i < j /\ q[i] = q[j]
DupDetected(f) ==
  \/ HasDupSeq([i \in 1..Len(f.items) |-> f.items[i].key])
  \/ IF DedupMode = "fullpath" THEN HasDupSeq(f.empties)
     ELSE HasDupSeq([i \in 1..Len(f.empties) |-> f.empties[i][1]])

(* unflatten_dict: split at the separator, walk / create sub-dictionaries, assign *)
RECURSIVE SplitAt(_, _)
SplitAt(cs, s) == IF ~Contains(cs, s) THEN <<cs>>
                  ELSE LET i == CHOOSE q \in 1..Len(cs) : cs[q] = s /\ \A r \in 1..q - 1 : cs[r] # s
                       IN  <<SubSeq(cs, 1, i - 1)>> \o SplitAt(SubSeq(cs, i + 1, Len(cs)), s)
RECURSIVE Insert(_, _, _)
Insert(d, subkeys, value) ==
  LET k == Head(subkeys)
  IN  IF Len(subkeys) = 1 THEN Extend(d, k, value)
      ELSE LET child == IF k \in DOMAIN d THEN d[k] ELSE D(EmptyDict)
           IN  Extend(d, k, D(Insert(child.kids, Tail(subkeys), value)))
RECURSIVE InsertAll(_, _, _)
InsertAll(d, entries, s) ==
  IF entries = <<>> THEN d
  ELSE InsertAll(Insert(d, SplitAt(Head(entries).key, s), Head(entries).value), Tail(entries), s)
Unflat(items, emps, s) ==
  InsertAll(EmptyDict,
            [i \in 1..Len(items) |-> [key |-> items[i].key, value |-> [t |-> "L", tag |-> items[i].tag]]]
            \o [i \in 1..Len(emps) |-> [key |-> emps[i], value |-> D(EmptyDict)]], s)

(* replace_with_matching_or_default(x, replace, default): the replacement holds the leaves
   selected by the mode (plus, for "extra", one flat key that x does not have) *)
Modes == <<"all", "none", "alt", "extra", "extra_unchecked">>
Selected(items, m) == {i \in 1..Len(items) :
                         \/ m \in {"all", "extra", "extra_unchecked"}
                         \/ (m = "alt" /\ i % 2 = 1)}
ReplaceResult(items, m) ==
  [i \in 1..Len(items) |-> [path |-> items[i].tag,
                            src |-> IF i \in Selected(items, m) THEN "replace" ELSE "default"]]

-----------------------------------------------------------------------------
Init == /\ tree \in Trees /\ sep \in Seps
        /\ pc = "new" /\ flat = <<>> /\ empties = <<>> /\ back = EmptyDict
        /\ todo = Modes /\ result = [m \in {} |-> <<>>]

FlattenReject == /\ pc = "new" /\ HasSep(tree, sep)
                 /\ pc' = "rejected" /\ UNCHANGED <<tree, sep, flat, empties, back, todo, result>>
Flatten == /\ pc = "new" /\ ~HasSep(tree, sep)
           /\ LET f == Flat(tree, sep)
              IN  /\ flat' = f.items /\ empties' = f.empties
                  /\ pc' = IF DupDetected(f) THEN "duplicate" ELSE "flat"
           /\ UNCHANGED <<tree, sep, back, todo, result>>
Unflatten == /\ pc = "flat"
             /\ back' = Unflat(flat, empties, sep)
             /\ pc' = "back" /\ UNCHANGED <<tree, sep, flat, empties, todo, result>>
(* one call per mode; with check_used_all_replace_keys a replacement key unknown to x is an error *)
Replace == /\ pc = "back" /\ todo # <<>>
           /\ LET m == Head(todo)
              IN  result' = [q \in DOMAIN result \cup {m} |->
                               IF q # m THEN result[q]
                               ELSE IF m = "extra" THEN <<"ValueError">> ELSE ReplaceResult(flat, m)]
           /\ todo' = Tail(todo)
           /\ pc' = IF Len(todo) = 1 THEN "done" ELSE "back"
           /\ UNCHANGED <<tree, sep, flat, empties, back>>
Next == FlattenReject \/ Flatten \/ Unflatten \/ Replace
Spec == Init /\ [][Next]_vars

-----------------------------------------------------------------------------
Flattened == pc \in {"flat", "back", "done"}
(* the flat form is the set of joined root-to-leaf paths plus the set of joined empty-branch paths *)
FlatIsPaths == Flattened =>
  /\ {flat[i].key : i \in 1..Len(flat)} = {Join(p, sep) : p \in LeafPaths(tree)}
  /\ \A i \in 1..Len(flat) : flat[i].key = Join(flat[i].tag, sep)
  /\ {empties[i] : i \in 1..Len(empties)} = {Join(p, sep) : p \in EmptyPaths(tree)}
  /\ Len(flat) = Cardinality(LeafPaths(tree)) /\ Len(empties) = Cardinality(EmptyPaths(tree))
(* joining is injective on separator-free keys, so a correct flatten never reports duplicates *)
FlatInjective == (pc # "new" /\ ~HasSep(tree, sep)) =>
  \A p, q \in LeafPaths(tree) \cup EmptyPaths(tree) : Join(p, sep) = Join(q, sep) => p = q
NoSpuriousDuplicate == pc # "duplicate"
RejectIffSep == (pc = "rejected") <=> (pc # "new" /\ HasSep(tree, sep))
RoundTrip == pc \in {"back", "done"} => back = Canon(tree, <<>>)
ReplaceKeepsStructure == \A m \in DOMAIN result : m # "extra" =>
  /\ {result[m][i].path : i \in 1..Len(result[m])} = LeafPaths(tree)
  /\ Len(result[m]) = Cardinality(LeafPaths(tree))
  /\ (m \in {"all", "extra_unchecked"} => \A i \in 1..Len(result[m]) : result[m][i].src = "replace")
  /\ (m = "none" => \A i \in 1..Len(result[m]) : result[m][i].src = "default")

PathSeq(S) == LET RECURSIVE Conv(_)
                  Conv(T) == IF T = {} THEN <<>> ELSE LET p == CHOOSE q \in T : TRUE IN <<p>> \o Conv(T \ {p})
              IN  Conv(S)
Export == pc \in {"done", "rejected", "duplicate"} =>
  PrintT(<<"CASE", ToJson([
     sep |-> sep, verdict |-> pc,
     leaves |-> PathSeq(LeafPaths(tree)), empty |-> PathSeq(EmptyPaths(tree)),
     flat |-> [i \in 1..Len(flat) |-> [key |-> flat[i].key, path |-> flat[i].tag]],
     emptykeys |-> empties,
     result |-> result])>>)
=============================================================================
