---------------------------- MODULE SigmaCalculus ----------------------------
(* Exact vertical (sigma) calculus of sigma_coordinates.py and the geopotential operator of
   primitive_equations.py on rational level sets.

   A level set is a sequence of integer numerators b[1..K+1] over the common denominator Den.
   Every operation of the library is linear (or bilinear) in its data, so its complete
   meaning on a level set is an operator *table* with exact rational entries; the machine
   builds one table per public operation (one action each), the invariants are the
   algebraic statements of the property on those tables (hence for all data), and the tables
   are exported for replay against the code (fed with a basis).

   log-sigma quantities are irrational: they are linear forms over the atoms
        dlog[a] = log(c[a+1]) - log(c[a])   (a < K),     dlog[K] = -log(c[K])
   kept as rational coefficient vectors indexed by a. *)
EXTENDS Integers, Sequences, FiniteSets, TLC, Json, Exact

CONSTANTS Den, MaxLayers, InvalidStep

VARIABLES b,        \* candidate boundary numerators
          pc,       \* "new" | "ops" | "done" | "rejected"
          todo,     \* operations still to perform
          tab       \* op name -> table
vars == <<b, pc, todo, tab>>

-----------------------------------------------------------------------------
(* level sets *)
RECURSIVE IncSeqs(_, _, _)
(* all strictly increasing sequences of n interior points in lo..hi *)
IncSeqs(n, lo, hi) == IF n = 0 THEN {<<>>}
                      ELSE UNION {{<<x>> \o s : s \in IncSeqs(n - 1, x + 1, hi)} : x \in lo..hi}
ValidSets == UNION {{<<0>> \o s \o <<Den>> : s \in IncSeqs(K - 1, 1, Den - 1)} : K \in 1..MaxLayers}
(* candidate sequences on a coarse lattice, most of them inadmissible *)
Coarse == {x \in 0..Den : x % InvalidStep = 0}
NaNTok == -1            \* "not a number": every comparison with it is false (replayed as float nan)
Candidates == UNION {[1..n -> Coarse \cup {NaNTok}] : n \in 2..4}

Lt(x, y) == x # NaNTok /\ y # NaNTok /\ x < y
Valid(s) == /\ Len(s) >= 2 /\ s[1] = 0 /\ s[Len(s)] = Den
            /\ \A i \in 1..Len(s) - 1 : Lt(s[i], s[i + 1])

K == Len(b) - 1
DSig(k) == Norm(b[k + 1] - b[k], Den)
Center(k) == Norm(b[k] + b[k + 1], 2 * Den)
C2C(k) == RSub(Center(k + 1), Center(k))            \* k in 1..K-1
Delta(i, j) == IF i = j THEN One ELSE Zero

-----------------------------------------------------------------------------
(* operator tables; rows = output index, columns = input level *)
IntDownT == [r \in 1..K |-> [s \in 1..K |-> IF s <= r THEN DSig(s) ELSE Zero]]
IntUpT   == [r \in 1..K |-> [s \in 1..K |-> IF s >= r THEN DSig(s) ELSE Zero]]
TotalT   == [s \in 1..K |-> DSig(s)]
DiffT    == [r \in 1..K - 1 |-> [s \in 1..K |->
               RDiv(RSub(Delta(s, r + 1), Delta(s, r)), C2C(r))]]
(* -(w dx/dsigma)[k] ~ -1/2 (w[k+1/2] D[k+1/2] + w[k-1/2] D[k-1/2]), zero boundary values;
   interface i lies between levels i and i+1 *)
DiffOr0(r, s) == IF r >= 1 /\ r <= K - 1 THEN DiffT[r][s] ELSE Zero
AdvT == [k \in 1..K |-> [i \in 1..K - 1 |-> [j \in 1..K |->
           RMul(<<-1, 2>>, RAdd(IF i = k THEN DiffOr0(k, j) ELSE Zero,
                                IF i = k - 1 THEN DiffOr0(k - 1, j) ELSE Zero))]]]
(* first order upwind: -(max(w[k-1/2],0) D[k-1/2] + min(w[k+1/2],0) D[k+1/2]);
   table for w = +e_i and for w = -e_i *)
UpwindPosT == [k \in 1..K |-> [i \in 1..K - 1 |-> [j \in 1..K |->
                 IF i = k - 1 THEN RNeg(DiffOr0(k - 1, j)) ELSE Zero]]]
UpwindNegT == [k \in 1..K |-> [i \in 1..K - 1 |-> [j \in 1..K |->
                 IF i = k THEN DiffOr0(k, j) ELSE Zero]]]
(* trapezoid rule in log sigma: integrand on interval a *)
Integrand(a, s) == IF a < K THEN RMul(<<1, 2>>, RAdd(Delta(s, a), Delta(s, a + 1)))
                   ELSE Delta(s, K)
LogUpT   == [r \in 1..K |-> [s \in 1..K |-> [a \in 1..K |-> IF a >= r THEN Integrand(a, s) ELSE Zero]]]
LogDownT == [r \in 1..K |-> [s \in 1..K |-> [a \in 1..K |-> IF a <= r THEN Integrand(a, s) ELSE Zero]]]
(* Durran's G / R:  alpha[k] = dlog[k]/2 (k < K), alpha[K] = dlog[K] *)
AlphaC(k, a) == IF a # k THEN Zero ELSE IF k < K THEN <<1, 2>> ELSE One
GeoDenseT == [j \in 1..K |-> [k \in 1..K |-> [a \in 1..K |->
                IF k = j THEN AlphaC(j, a)
                ELSE IF k > j THEN RAdd(AlphaC(k, a), AlphaC(k - 1, a)) ELSE Zero]]]
(* the cumulative-sum form: alpha2 = [0, alpha[1:] + alpha[:-1]];
   out = reverse_cumsum(alpha2 * T) + (alpha - alpha2) * T *)
Alpha2C(k, a) == IF k = 1 THEN Zero ELSE RAdd(AlphaC(k, a), AlphaC(k - 1, a))
GeoSparseT == [j \in 1..K |-> [k \in 1..K |-> [a \in 1..K |->
                 RAdd(IF k >= j THEN Alpha2C(k, a) ELSE Zero,
                      IF k = j THEN RSub(AlphaC(j, a), Alpha2C(j, a)) ELSE Zero)]]]

Ops == <<"IntDown", "IntUp", "Total", "Diff", "Adv", "Upwind", "LogUp", "LogDown",
         "GeoDense", "GeoSparse">>
TableOf(op) == CASE op = "IntDown" -> IntDownT [] op = "IntUp" -> IntUpT
                 [] op = "Total" -> TotalT [] op = "Diff" -> DiffT [] op = "Adv" -> AdvT
                 [] op = "Upwind" -> <<UpwindPosT, UpwindNegT>>
                 [] op = "LogUp" -> LogUpT [] op = "LogDown" -> LogDownT
                 [] op = "GeoDense" -> GeoDenseT [] op = "GeoSparse" -> GeoSparseT

-----------------------------------------------------------------------------
Init == /\ b \in ValidSets \cup Candidates
        /\ pc = "new" /\ todo = Ops /\ tab = [o \in {} |-> 0]

(* SigmaCoordinates.__init__ *)
Accept == /\ pc = "new" /\ Valid(b) /\ pc' = "ops" /\ UNCHANGED <<b, todo, tab>>
Reject == /\ pc = "new" /\ ~Valid(b) /\ pc' = "rejected" /\ UNCHANGED <<b, todo, tab>>
Apply == /\ pc = "ops" /\ todo # <<>>
         /\ tab' = [o \in DOMAIN tab \cup {Head(todo)} |->
                      IF o = Head(todo) THEN TableOf(o) ELSE tab[o]]
         /\ todo' = Tail(todo)
         /\ pc' = IF Len(todo) = 1 THEN "done" ELSE "ops"
         /\ UNCHANGED b
Next == Accept \/ Reject \/ Apply
Spec == Init /\ [][Next]_vars

-----------------------------------------------------------------------------
(* the property, as identities between tables (valid for all data by linearity) *)
Done == pc = "done"
EndsAtTotal == Done => /\ tab["IntDown"][K] = tab["Total"]
                       /\ tab["IntUp"][1] = tab["Total"]
LocalContribution == Done => \A r, s \in 1..K :
    RSub(RAdd(tab["IntDown"][r][s], tab["IntUp"][r][s]), tab["Total"][s])
      = (IF r = s THEN DSig(r) ELSE Zero)
(* centred differences are exact on affine profiles x[k] = p + q * center[k] *)
AffineExact == Done => \A r \in 1..K - 1 : \A p, q \in {<<1, 1>>, <<-3, 2>>} :
    RSum([s \in 1..K |-> RMul(tab["Diff"][r][s], RAdd(p, RMul(q, Center(s))))], 1, K) = q
(* summation by parts: sum_k dsigma_k (Adv(w,x)_k - x_k (w[k+1/2] - w[k-1/2]) / dsigma_k) = 0 *)
WHalf(i, k) == IF k = i THEN One ELSE Zero          \* w = e_i at interface k (0 at 0 and K)
SumByParts == Done => \A i \in 1..K - 1 : \A j \in 1..K :
    RSum([k \in 1..K |->
            RSub(RMul(DSig(k), tab["Adv"][k][i][j]),
                 RMul(Delta(j, k), RSub(IF k <= K - 1 THEN WHalf(i, k) ELSE Zero,
                                        IF k >= 2 THEN WHalf(i, k - 1) ELSE Zero)))], 1, K) = Zero
(* upwind = centred when combined:  pos + neg parts of w recover 2 * centred *)
UpwindConsistent == Done => \A k \in 1..K : \A i \in 1..K - 1 : \A j \in 1..K :
    RSub(tab["Upwind"][1][k][i][j], tab["Upwind"][2][k][i][j]) = RMul(<<2, 1>>, tab["Adv"][k][i][j])
(* the geopotential operator is R times the trapezoid integral in log sigma from the surface,
   and its two evaluation strategies agree *)
GeoIsTrapezoid == Done => /\ tab["GeoDense"] = tab["LogUp"]
                          /\ tab["GeoSparse"] = tab["GeoDense"]
LogEnds == Done => \A s, a \in 1..K : tab["LogUp"][1][s][a] = tab["LogDown"][K][s][a]
Rejected == pc = "rejected" <=> (pc # "new" /\ ~Valid(b))

Export == (pc = "done" \/ pc = "rejected") =>
   PrintT(<<"CASE", ToJson([b |-> b, den |-> Den, valid |-> pc = "done",
                            tab |-> IF pc = "done" THEN tab ELSE [o \in {} |-> 0]])>>)
=============================================================================
