----------------------------- MODULE StepFilters -----------------------------
(* Step-filter adapters and the Robert-Asselin filter of time_integration.py on scalar rational
   states.  A step filter receives (u, u_next).  Runge-Kutta adapter: state_filter(u_next), u is
   ignored.  Leapfrog adapter: u_next = (current, future) and only `future` is filtered.
   Robert-Asselin: u = (previous, current), u_next = (_, future) ->
   ((1 - 2r) current + r (previous + future), future).  The state filter is multiplication by
   phi. *)
EXTENDS Integers, Sequences, TLC, Json, Exact
Rs == {<<1, 32>>, <<1, 4>>, Zero, <<1, 2>>}
Phis == {<<1, 2>>, <<3, 4>>}
Vals == {<<-3, 1>>, <<1, 1>>, <<5, 2>>}
VARIABLES cfg, out, pc
vars == <<cfg, out, pc>>
Init == /\ cfg \in [adapter : {"rk", "leapfrog", "robert_asselin"}, r : Rs, phi : Phis,
                     p : Vals, c : Vals, f : Vals, fromStep : Vals]
        /\ out = <<>> /\ pc = "apply"
(* u = (p, c); the step produced u_next = (fromStep, f) *)
ApplyRK == /\ pc = "apply" /\ cfg.adapter = "rk"
           /\ out' = <<RMul(cfg.phi, cfg.fromStep), RMul(cfg.phi, cfg.f)>> /\ pc' = "done" /\ UNCHANGED cfg
ApplyLeapfrog == /\ pc = "apply" /\ cfg.adapter = "leapfrog"
                 /\ out' = <<cfg.fromStep, RMul(cfg.phi, cfg.f)>> /\ pc' = "done" /\ UNCHANGED cfg
ApplyRA == /\ pc = "apply" /\ cfg.adapter = "robert_asselin"
           /\ out' = <<RAdd(RMul(RSub(One, RMul(<<2, 1>>, cfg.r)), cfg.c), RMul(cfg.r, RAdd(cfg.p, cfg.f))), cfg.f>>
           /\ pc' = "done" /\ UNCHANGED cfg
Next == ApplyRK \/ ApplyLeapfrog \/ ApplyRA
Spec == Init /\ [][Next]_vars
Done == pc = "done"
NewestUntouched == (Done /\ cfg.adapter = "robert_asselin") => out[2] = cfg.f
LinearInTimeFixed == (Done /\ cfg.adapter = "robert_asselin" /\ RAdd(cfg.p, cfg.f) = RMul(<<2, 1>>, cfg.c)) => out[1] = cfg.c
LeapfrogOnlyFuture == (Done /\ cfg.adapter = "leapfrog") => out[1] = cfg.fromStep
Export == Done => PrintT(<<"CASE", ToJson([adapter |-> cfg.adapter, r |-> cfg.r, phi |-> cfg.phi, p |-> cfg.p,
                                           c |-> cfg.c, f |-> cfg.f, fromStep |-> cfg.fromStep, out |-> out])>>)
=============================================================================
