------------------------------ MODULE RK4Order ------------------------------
(* C06, Carpenter-Kennedy five-stage fourth-order low-storage scheme (crank_nicolson_rk4).
   Its coefficients are 13-digit decimals; the order conditions hold to the accuracy of the
   published digits (~1e-13), not exactly, and none of this fits TLC's 32-bit integers.  This
   machine therefore runs the low-storage stage program

       h := F(u) + beta[k] h ;   u := u + gamma[k] dt h                (G = 0)

   in decimal fixed-point arithmetic on arbitrary-precision integers (BigInt.tla), one action per
   stage, in two interpretations:

     "poly"     F u = lambda u : registers are polynomials in z = dt lambda; the result is the
                stability polynomial, whose coefficients must be 1/j! for j <= 4 (order 4 for
                linear F) and whose z^5 coefficient is the published 1/200
     "tableau"  F nonlinear: registers are combinations of u0 and the stage derivatives F_1..F_5;
                the result is the Butcher tableau (A, b, c), which must satisfy all eight
                rooted-tree conditions of order <= 4 and whose abscissae c must equal the alphas
                the Crank-Nicolson sub-steps use

   each to 10^-12.  The coefficient table below is a transcription of the published scheme,
   validated by these very invariants; the replay requires the code to pass exactly these numbers
   to the generic low-storage driver (whose stage arithmetic is replayed separately for arbitrary
   coefficient lists, LowStorageSchemes.tla) and compares explicit amplification factors. *)
EXTENDS BigInt, TLC, Json, FiniteSets

CONSTANT Perturbed        \* TRUE: gamma[3] is off by 1e-9 (must be refuted: anti-vacuity twin)

S == 5
(* FDec(sign, integer part, four groups of four decimals) *)
Alphas == << FInt(0), FDec(1, 0, 1496, 5902, 1999, 3000), FDec(1, 0, 3704, 95, 7364, 4000),
             FDec(1, 0, 6222, 5576, 3134, 5000), FDec(1, 0, 9582, 8213, 674, 8000), FInt(1) >>
Betas  == << FInt(0), FDec(-1, 0, 4178, 9047, 4500, 0), FDec(-1, 1, 1921, 5169, 4643, 0),
             FDec(-1, 1, 6977, 8469, 2471, 0), FDec(-1, 1, 5141, 8344, 4257, 0) >>
Gammas == << FDec(1, 0, 1496, 5902, 1999, 3000), FDec(1, 0, 3792, 1031, 2999, 9000),
             IF Perturbed THEN FDec(1, 0, 8229, 5503, 386, 9000) ELSE FDec(1, 0, 8229, 5502, 9386, 9000), FDec(1, 0, 6994, 5045, 5948, 8000),
             FDec(1, 0, 1530, 5724, 7968, 1000) >>

VARIABLES dom, k, u, h, rows
vars == <<dom, k, u, h, rows>>

(* vectors of fixed-point numbers indexed 0..S: polynomial coefficients (z^0..z^5) resp.
   coefficients of (u0, F_1..F_5) *)
VZero == [i \in 0..S |-> FZero]
VUnit(j) == [i \in 0..S |-> IF i = j THEN FInt(1) ELSE FZero]
VAdd(a, b) == [i \in 0..S |-> FAdd(a[i], b[i])]
VScale(q, a) == [i \in 0..S |-> FMul(q, a[i])]
VShiftZ(a) == [i \in 0..S |-> IF i = 0 THEN FZero ELSE a[i - 1]]     \* multiply by z (degree <= 5 kept)

Init == /\ dom \in {"poly", "tableau"} /\ k = 1 /\ u = VUnit(0) /\ h = VZero /\ rows = <<>>
Stage == /\ k <= S
         /\ LET f == IF dom = "poly" THEN VShiftZ(u) ELSE VUnit(k)     \* dt F(u)
                hn == VAdd(f, VScale(Betas[k], h))
            IN  /\ h' = hn
                /\ u' = VAdd(u, VScale(Gammas[k], hn))
         /\ rows' = Append(rows, u)                                    \* argument of the k-th F
         /\ k' = k + 1 /\ UNCHANGED dom
Next == Stage
Spec == Init /\ [][Next]_vars
Done == k = S + 1

Tol == 3                                   \* 10^-12
Fact(n) == IF n = 0 THEN 1 ELSE IF n = 1 THEN 1 ELSE IF n = 2 THEN 2 ELSE IF n = 3 THEN 6 ELSE 24
LinearOrder4 == (Done /\ dom = "poly") =>
   /\ \A j \in 0..4 : FNear(u[j], 1, Fact(j), Tol)
   /\ FNear(u[5], 1, 200, Tol)
(* and it is not a fifth-order method: the anti-vacuity twin *)
NotOrder5 == (Done /\ dom = "poly") => ~FNear(u[5], 1, 120, Tol)

B(i) == u[i]
A(i, j) == rows[i][j]
RECURSIVE FSumTo(_, _)
FSumTo(f, n) == IF n = 0 THEN FZero ELSE FAdd(f[n], FSumTo(f, n - 1))
C(i) == FSumTo([j \in 1..S |-> A(i, j)], S)
Dot(x, y) == FSumTo([i \in 1..S |-> FMul(x[i], y[i])], S)
Cv == [i \in 1..S |-> C(i)]
Bv == [i \in 1..S |-> B(i)]
C2 == [i \in 1..S |-> FMul(Cv[i], Cv[i])]
C3 == [i \in 1..S |-> FMul(C2[i], Cv[i])]
AV(x) == [i \in 1..S |-> Dot([j \in 1..S |-> A(i, j)], x)]
TreeConditions == (Done /\ dom = "tableau") =>
   /\ FNear(u[0], 1, 1, Tol)
   /\ \A i \in 1..S : FNear(A(i, 0), 1, 1, Tol) /\ \A j \in i..S : A(i, j).v.s = 0      \* explicit
   /\ FNear(FSumTo(Bv, S), 1, 1, Tol)
   /\ FNear(Dot(Bv, Cv), 1, 2, Tol)
   /\ FNear(Dot(Bv, C2), 1, 3, Tol)
   /\ FNear(Dot(Bv, AV(Cv)), 1, 6, Tol)
   /\ FNear(Dot(Bv, C3), 1, 4, Tol)
   /\ FNear(Dot(Bv, [i \in 1..S |-> FMul(Cv[i], AV(Cv)[i])]), 1, 8, Tol)
   /\ FNear(Dot(Bv, AV(C2)), 1, 12, Tol)
   /\ FNear(Dot(Bv, AV(AV(Cv))), 1, 24, Tol)
(* the Crank-Nicolson sub-steps span exactly the stage intervals: alpha = c, alpha[S+1] = 1 *)
AbscissaeAreAlphas == (Done /\ dom = "tableau") =>
   \A i \in 1..S : LET d == FSub(Cv[i], Alphas[i]) IN FNear(FAdd(d, FInt(1)), 1, 1, Tol)

(* export: coefficients as decimal digit groups, polynomial coefficients as (sign, limbs, e) *)
Limbs(x) == [s |-> x.v.s, m |-> x.v.m, e |-> x.e]
Export == Done => PrintT(<<"CASE", ToJson([dom |-> dom,
     alphas |-> [i \in 1..(S + 1) |-> Limbs(Alphas[i])], betas |-> [i \in 1..S |-> Limbs(Betas[i])],
     gammas |-> [i \in 1..S |-> Limbs(Gammas[i])],
     out |-> [i \in 0..S |-> Limbs(u[i])] ])>>)
=============================================================================
