------------------------------ MODULE TreesAttrs ------------------------------
(* CoordinateSystem.asdict()  ->  dataset attributes (optionally through a netCDF file)
   ->  xarray_utils.coordinate_system_from_attrs / coordinate_system_from_dataset.

   A coordinate system is a horizontal Grid record and a vertical coordinate of one of the three
   registered kinds.  asdict merges the field dictionaries of both (they must not collide) and
   adds the two class-name keys; from_attrs looks the classes up in the registry by those names
   and feeds each constructor the attributes named like its dataclass fields (the spherical
   harmonics implementation and the device mesh are deliberately not restored).

   Numbers are exact: integers, and rationals <<n, d>> for longitude_offset (radians), radius,
   sigma boundaries (over Den) and pressure centers.  radius = None (encoded <<0, 1>>) is the
   documented default 1.

   Actions: AsDict, Persist (attrs survive a dataset / netCDF round trip value for value),
   FromAttrs.  Invariants: the key set is exactly fields + 2 type keys, no collision for any
   registered pair, and the reconstruction has the same discretisation. *)
EXTENDS Integers, Sequences, FiniteSets, TLC, Json

CONSTANTS Ms, DLs, NodeRules, Spacings, Offsets, Radii, Impls,
          Den, MaxLayers, PressureLevels

VARIABLES cfg, pc, attrs, back
vars == <<cfg, pc, attrs, back>>

GridFields == <<"longitude_wavenumbers", "total_wavenumbers", "longitude_nodes", "latitude_nodes",
                "latitude_spacing", "longitude_offset", "radius", "spherical_harmonics_impl",
                "spmd_mesh">>
NotRestored == {"spherical_harmonics_impl", "spmd_mesh"}
Registry == [Grid |-> GridFields,
             SigmaCoordinates |-> <<"boundaries">>,
             LayerCoordinates |-> <<"layers">>,
             PressureCoordinates |-> <<"centers">>]
HKey == "horizontal_grid_type"
VKey == "vertical_grid_type"
Range(s) == {s[i] : i \in 1..Len(s)}

-----------------------------------------------------------------------------
RECURSIVE IncSeqs(_, _, _)
IncSeqs(n, lo, hi) == IF n = 0 THEN {<<>>}
                      ELSE UNION {{<<x>> \o s : s \in IncSeqs(n - 1, x + 1, hi)} : x \in lo..hi}
SigmaSets == UNION {{<<0>> \o s \o <<Den>> : s \in IncSeqs(K - 1, 1, Den - 1)} : K \in 1..MaxLayers}
NL == Cardinality(PressureLevels)
PSeq == CHOOSE s \in [1..NL -> PressureLevels] : \A i \in 1..NL - 1 : s[i] < s[i + 1]
PressureSets == UNION {{[i \in 1..Len(ix) |-> PSeq[ix[i]]] : ix \in IncSeqs(K, 1, NL)} : K \in 1..MaxLayers}
Verticals == {[kind |-> "SigmaCoordinates", boundaries |-> [i \in 1..Len(b) |-> <<b[i], Den>>]] : b \in SigmaSets}
             \cup {[kind |-> "LayerCoordinates", layers |-> k] : k \in 1..MaxLayers}
             \cup {[kind |-> "PressureCoordinates", centers |-> [i \in 1..Len(c) |-> <<c[i], 1>>]] : c \in PressureSets}

LonNodes(M, L, rule) == CASE rule = "quadratic" -> 3 * M + 1 [] rule = "linear" -> 2 * M + 1
                          [] rule = "construct" -> 4 * ((L + 1) \div 2)
LatNodes(M, L, rule) == CASE rule = "quadratic" -> (3 * M + 2) \div 2 [] rule = "linear" -> M + 1
                          [] rule = "construct" -> 2 * ((L + 1) \div 2)
(* TLC configuration files cannot hold tuples: offsets and radii are chosen by code *)
OffsetVal(c) == CASE c = 0 -> <<0, 1>> [] c = 1 -> <<1, 3>> [] c = 2 -> <<1, 8>> [] c = 3 -> <<-1, 5>>
RadiusVal(c) == CASE c = 0 -> <<0, 1>> [] c = 1 -> <<1, 1>> [] c = 2 -> <<1, 2>> [] c = 3 -> <<3, 1>>
                  [] c = 4 -> <<2, 1>> [] c = 5 -> <<6371, 1000>>
Grids == {[longitude_wavenumbers |-> M, total_wavenumbers |-> M + dL,
           longitude_nodes |-> LonNodes(M, M + dL, rule), latitude_nodes |-> LatNodes(M, M + dL, rule),
           latitude_spacing |-> sp, longitude_offset |-> OffsetVal(off), radius |-> RadiusVal(rad),
           spherical_harmonics_impl |-> impl, spmd_mesh |-> ""] :
            M \in Ms, dL \in DLs, rule \in NodeRules, sp \in Spacings, off \in Offsets,
            rad \in Radii, impl \in Impls}

(* what "the same discretisation" means: every field except the two that are not restored,
   with the default radius made explicit *)
RadiusOf(g) == IF g.radius = <<0, 1>> THEN <<1, 1>> ELSE g.radius   \* <<0, 1>> encodes radius=None
Discretisation(c) ==
  [horizontal |-> [f \in Range(GridFields) \ NotRestored |->
                     IF f = "radius" THEN RadiusOf(c.horizontal) ELSE c.horizontal[f]],
   vertical |-> c.vertical]

-----------------------------------------------------------------------------
Init == /\ cfg \in [horizontal : Grids, vertical : Verticals]
        /\ pc = "new" /\ attrs = <<>> /\ back = <<>>

HDict == [f \in Range(GridFields) |-> IF f = "radius" THEN RadiusOf(cfg.horizontal) ELSE cfg.horizontal[f]]
VDict == [f \in Range(Registry[cfg.vertical.kind]) |-> cfg.vertical[f]]
Collide == DOMAIN HDict \cap DOMAIN VDict # {}
AsDictReject == /\ pc = "new" /\ Collide
                /\ pc' = "collision" /\ UNCHANGED <<cfg, attrs, back>>
AsDict == /\ pc = "new" /\ ~Collide
          /\ attrs' = [k \in DOMAIN HDict \cup DOMAIN VDict \cup {HKey, VKey} |->
                         IF k = HKey THEN "Grid" ELSE IF k = VKey THEN cfg.vertical.kind
                         ELSE IF k \in DOMAIN HDict THEN HDict[k] ELSE VDict[k]]
          /\ pc' = "attrs" /\ UNCHANGED <<cfg, back>>
(* dataset attrs written to netCDF and loaded again: same keys, same values *)
Persist == /\ pc = "attrs" /\ pc' = "stored" /\ UNCHANGED <<cfg, attrs, back>>
FromAttrs == /\ pc \in {"attrs", "stored"}
             /\ LET hf == Range(Registry[attrs[HKey]]) \ NotRestored
                    vk == attrs[VKey]
                IN  back' = [horizontal |-> [f \in hf |-> attrs[f]],
                             vertical |-> [f \in Range(Registry[vk]) \cup {"kind"} |->
                                             IF f = "kind" THEN vk ELSE attrs[f]]]
             /\ pc' = "done" /\ UNCHANGED <<cfg, attrs>>
Next == AsDictReject \/ AsDict \/ Persist \/ FromAttrs
Spec == Init /\ [][Next]_vars

-----------------------------------------------------------------------------
NoCollision == pc # "collision"
RegistryDisjoint == \A v \in DOMAIN Registry \ {"Grid"} :
   Range(Registry[v]) \cap (Range(GridFields) \cup {HKey, VKey}) = {}
AttrKeys == pc \in {"attrs", "stored", "done"} =>
   /\ DOMAIN attrs = Range(GridFields) \cup Range(Registry[cfg.vertical.kind]) \cup {HKey, VKey}
   /\ Cardinality(DOMAIN attrs) = Len(GridFields) + Len(Registry[cfg.vertical.kind]) + 2
SameDiscretisation == pc = "done" => back = Discretisation(cfg)

Layers == CASE cfg.vertical.kind = "SigmaCoordinates" -> Len(cfg.vertical.boundaries) - 1
            [] cfg.vertical.kind = "LayerCoordinates" -> cfg.vertical.layers
            [] cfg.vertical.kind = "PressureCoordinates" -> Len(cfg.vertical.centers)
KeySeq == LET RECURSIVE Conv(_)
              Conv(T) == IF T = {} THEN <<>> ELSE LET p == CHOOSE q \in T : TRUE IN <<p>> \o Conv(T \ {p})
          IN  Conv(DOMAIN attrs)
Export == pc = "done" =>
  PrintT(<<"CASE", ToJson([grid |-> cfg.horizontal, vertical |-> cfg.vertical, layers |-> Layers,
                           keys |-> KeySeq, attrs |-> attrs, back |-> back])>>)
=============================================================================
