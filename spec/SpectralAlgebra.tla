--------------------------- MODULE SpectralAlgebra ---------------------------
(* Exact spectral calculus on spherical-harmonic labels.

   With mu = sin(lat), eps(m,l)^2 = (l^2 - m^2) / (4 l^2 - 1), the orthonormal harmonics satisfy
       d/dlon            Y(m,l,c) = -m Y(m,l,s),     Y(m,l,s) -> +m Y(m,l,c)
       cos(lat) d/dlat   Y(m,l)   = (l+1) eps(m,l) Y(m,l-1) - l eps(m,l+1) Y(m,l+1)
       sin(lat)          Y(m,l)   = eps(m,l) Y(m,l-1) + eps(m,l+1) Y(m,l+1)
       sec d/dlat cos^2  Y(m,l)   = (l-1) eps(m,l) Y(m,l-1) - (l+2) eps(m,l+1) Y(m,l+1)
       laplacian         Y(m,l)   = -l(l+1)/r^2 Y(m,l)
   A coefficient is a *surd*  k*sqrt(rad)  (k, rad rational), a field a function from the
   (m fixed) total wavenumbers 0..Top to surds.  The machine builds the tables (one action per
   operator), TLC checks that they satisfy the identities that characterise the derivatives
   belonging to the eigenvalue -l(l+1) (so the tables are validated before they are trusted as
   an oracle), and exports them for coefficient-by-coefficient replay against the code.

   Composites of the code (cos_lat_grad, div_cos_lat, curl_cos_lat, get_cos_lat_vector) are
   defined from the primitive tables exactly as the code composes them. *)
EXTENDS Integers, Sequences, FiniteSets, TLC, Json, Exact

CONSTANTS MaxM,     \* zonal wavenumbers 0..MaxM
          Top       \* total wavenumbers 0..Top carried by the algebra

VARIABLES m, pc, tab
vars == <<m, pc, tab>>

Eps2(mm, l) == IF l <= mm THEN Zero ELSE Norm(l * l - mm * mm, 4 * l * l - 1)
Surd(k, rad) == <<k, rad>>
SZ == Surd(Zero, One)
(* x -> sparse column: function l_out -> surd, for input Y(m, l_in) *)
Col(f(_)) == [lo \in 0..Top |-> f(lo)]

CosDCol(li) == Col(LAMBDA lo : IF lo = li - 1 /\ lo >= m THEN Surd(R(li + 1), Eps2(m, li))
                            ELSE IF lo = li + 1 THEN Surd(R(-li), Eps2(m, li + 1)) ELSE SZ)
SecDCos2Col(li) == Col(LAMBDA lo : IF lo = li - 1 /\ lo >= m THEN Surd(R(li - 1), Eps2(m, li))
                                ELSE IF lo = li + 1 THEN Surd(R(-(li + 2)), Eps2(m, li + 1)) ELSE SZ)
MulSinCol(li) == Col(LAMBDA lo : IF lo = li - 1 /\ lo >= m THEN Surd(One, Eps2(m, li))
                              ELSE IF lo = li + 1 THEN Surd(One, Eps2(m, li + 1)) ELSE SZ)
LapCol(li) == Col(LAMBDA lo : IF lo = li THEN Surd(R(-li * (li + 1)), One) ELSE SZ)       \* times r^-2
InvLapCol(li) == Col(LAMBDA lo : IF lo = li /\ li > 0 THEN Surd(<<-1, li * (li + 1)>>, One) ELSE SZ)  \* times r^2
Ops == <<"CosD", "SecDCos2", "MulSin", "Lap", "InvLap">>
TableOf(op) == [li \in m..Top - 2 |->
                  CASE op = "CosD" -> CosDCol(li) [] op = "SecDCos2" -> SecDCos2Col(li)
                    [] op = "MulSin" -> MulSinCol(li) [] op = "Lap" -> LapCol(li)
                    [] op = "InvLap" -> InvLapCol(li)]

Init == m \in 0..MaxM /\ pc = 1 /\ tab = [o \in {} |-> 0]
Build == /\ pc <= Len(Ops)
         /\ tab' = [o \in DOMAIN tab \cup {Ops[pc]} |-> IF o = Ops[pc] THEN TableOf(o) ELSE tab[o]]
         /\ pc' = pc + 1 /\ UNCHANGED m
Next == Build
Spec == Init /\ [][Next]_vars
Done == pc = Len(Ops) + 1

-----------------------------------------------------------------------------
(* surd-valued sparse vectors *)
SIsZero(s) == s[1] = Zero \/ s[2] = Zero
SAddS(s, t) == IF SIsZero(s) THEN t ELSE IF SIsZero(t) THEN s
               ELSE IF s[2] = t[2] THEN Surd(RAdd(s[1], t[1]), s[2])
               ELSE Assert(FALSE, <<"radicands differ", s, t>>)
SScaleS(q, s) == Surd(RMul(q, s[1]), s[2])
(* fold a radicand that is the square of a rational into the multiplier *)
IsSq(n) == \E x \in 0..700 : x * x = n
ISqrt(n) == CHOOSE x \in 0..700 : x * x = n
SNormS(s) == IF IsSq(s[2][1]) /\ IsSq(s[2][2])
             THEN Surd(RMul(s[1], <<ISqrt(s[2][1]), ISqrt(s[2][2])>>), One) ELSE s
SMulS(s, t) == IF s[2] = t[2] THEN Surd(RMul(RMul(s[1], t[1]), s[2]), One)
               ELSE SNormS(Surd(RMul(s[1], t[1]), RMul(s[2], t[2])))
VZero == [lo \in 0..Top |-> SZ]
VAdd(u, v) == [lo \in 0..Top |-> SAddS(u[lo], v[lo])]
VScale(q, u) == [lo \in 0..Top |-> SScaleS(q, u[lo])]
(* apply table T to vector u (entries of u beyond the table's domain must vanish) *)
RECURSIVE ApplyFrom(_, _, _)
ApplyFrom(T, u, li) == IF li > Top - 2 THEN VZero
                       ELSE VAdd([lo \in 0..Top |-> SMulS(u[li], T[li][lo])], ApplyFrom(T, u, li + 1))
Apply(T, u) == ApplyFrom(T, u, m)
Unit(li) == [lo \in 0..Top |-> IF lo = li THEN Surd(One, One) ELSE SZ]
SEqS(s, t) == (SIsZero(s) /\ SIsZero(t)) \/ (SSq(s) = SSq(t) /\ RSgn(s[1]) = RSgn(t[1]) /\ ~SIsZero(s) /\ ~SIsZero(t))
VEq(u, v) == \A lo \in 0..Top : SEqS(u[lo], v[lo])

(* inputs with enough head room that no composite below reaches beyond Top *)
Inputs == m..Top - 4

(* sec d/dlat cos^2 = cos d/dlat - 2 sin *)
SecIdentity == Done => \A li \in Inputs :
   VEq(tab["SecDCos2"][li], VAdd(tab["CosD"][li], VScale(<<-2, 1>>, tab["MulSin"][li])))
(* (cos d/dlat)^2 + d^2/dlon^2 = cos^2 * laplacian (unit radius):
   CosD CosD Y - m^2 Y = (1 - sin^2) Lap Y *)
LaplaceIdentity == Done => \A li \in Inputs :
   LET lhs == VAdd(Apply(tab["CosD"], tab["CosD"][li]), VScale(R(-m * m), Unit(li)))
       lapY == tab["Lap"][li]
       rhs == VAdd(lapY, VScale(<<-1, 1>>, Apply(tab["MulSin"], Apply(tab["MulSin"], lapY))))
   IN  VEq(lhs, rhs)
(* the inverse Laplacian undoes the Laplacian on zero-mean fields and kills the mean *)
InverseLaplacian == Done => \A li \in Inputs :
   VEq(Apply(tab["InvLap"], tab["Lap"][li]), IF li = 0 THEN VZero ELSE Unit(li))
(* the latitude operators act on l only (they commute with d/dlon, which acts on the phase):
   this is what makes curl grad = 0 and div (k x grad) = 0; here: the tables do not depend on
   the phase at all, and CosD raises/lowers l by exactly one *)
Tridiagonal == Done => \A li \in Inputs : \A lo \in 0..Top :
   (lo # li - 1 /\ lo # li + 1) => SIsZero(tab["CosD"][li][lo]) /\ SIsZero(tab["SecDCos2"][li][lo])
(* mirror parity: Y(m,l) has parity (-1)^(l+m) under lat -> -lat; the latitude derivative and
   sin flip it, the Laplacian keeps it *)
ParityFlip == Done => \A li \in Inputs : \A lo \in 0..Top :
   /\ (~SIsZero(tab["CosD"][li][lo]) => (lo + li) % 2 = 1)
   /\ (~SIsZero(tab["MulSin"][li][lo]) => (lo + li) % 2 = 1)
   /\ (~SIsZero(tab["Lap"][li][lo]) => lo = li)

Entry(li, lo, s) == [li |-> li, lo |-> lo, k |-> s[1], rad |-> s[2]]
Entries(T) == UNION {{Entry(li, lo, T[li][lo]) : lo \in {x \in 0..Top : ~SIsZero(T[li][x])}} : li \in m..Top - 2}
Export == Done => PrintT(<<"CASE", ToJson([m |-> m, top |-> Top,
     CosD |-> Entries(tab["CosD"]), SecDCos2 |-> Entries(tab["SecDCos2"]),
     MulSin |-> Entries(tab["MulSin"]), Lap |-> Entries(tab["Lap"]), InvLap |-> Entries(tab["InvLap"])])>>)
=============================================================================
