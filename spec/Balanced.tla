------------------------------ MODULE Balanced ------------------------------
(* C05: analytically balanced states of the continuous equations, in exact arithmetic.

   Zonally symmetric fields are polynomials in mu = sin(lat) with rational coefficients
   (sequences of Rats, entry 1 = constant term).  For zonal fields the operators of the sphere of
   radius a are
        cos(lat) d/dlat f          = (1 - mu^2) f'
        div of a meridional vector = (1/a) d/dmu ( cos(lat) * component )
        laplacian f                = (1/a^2) d/dmu ( (1 - mu^2) f' )
        vorticity of u = V(mu) cos(lat):   zeta = -(1/a) d/dmu ( (1 - mu^2) V )
   and sigma_dot, u.grad(lnps), horizontal advection vanish identically (v = 0, nothing depends
   on longitude), so the temperature, surface-pressure and vorticity tendencies are zero and the
   only non-trivial balance is the divergence equation.

   Families:
    "solid"   primitive equations, solid-body rotation per level u_k = U_k cos(lat),
              lnps = c + A mu^2, temperature uniform per level, uniform humidity q:
              gradient-wind balance  R T_k (1 + m q) = -U_k (U_k + 2 Omega a) / (2 A),  m = Rv/R - 1.
              The machine evaluates the divergence tendency of the *continuous* sigma-coordinate
              equations term by term (absolute-vorticity flux, pressure gradient R Tv grad lnps,
              kinetic energy, the implicit R Tref lnps part, and for moist air the Tref q part) as
              polynomials and checks that the total is the zero polynomial for every split
              T_k = Tref_k + T'_k; the individual polynomials are exported so that the replay can
              compare the recorded sub-terms of the code with the continuous terms pointwise.
    "rest"    isothermal atmosphere at rest over orography h = c Y(m,l):
              lnps = -g h / (R T0) + const; the divergence tendency l(l+1)/a^2 (g h + R T0 lnps)
              vanishes label by label for every split of T0.
    "jet"     layered shallow water, u_i = V_i(mu) cos(lat) with polynomial V_i: the Montgomery
              potential of layer i is  M_i = phi_i + sum_{j below i} phi_j + sum_{j above i}
              (rho_j / rho_i) phi_j  (layers are numbered from the top; a layer is lifted by the
              layers below it and loaded by the lighter layers above it), and balance is
              M_i' = -(2 Omega a mu V_i + mu V_i^2).  The machine builds M_i by integration,
              evaluates the continuous divergence tendency -lap(M + V^2 (1-mu^2)/2) - (1/a) d/dmu(
              (1-mu^2) V eta) and checks it is the zero polynomial; exported: V_i, M_i and the
              layer-coupling matrix, from which the replay solves for phi. *)
EXTENDS Integers, Sequences, FiniteSets, TLC, Json, Exact

VARIABLES cfg, pc, out
vars == <<cfg, pc, out>>

(* ---- polynomials in mu ---- *)
PLen(p, q) == IF Len(p) > Len(q) THEN Len(p) ELSE Len(q)
Co(p, i) == IF i <= Len(p) THEN p[i] ELSE Zero
PAdd(p, q) == [i \in 1..PLen(p, q) |-> RAdd(Co(p, i), Co(q, i))]
PScale(c, p) == [i \in 1..Len(p) |-> RMul(c, p[i])]
PNeg(p) == PScale(<<-1, 1>>, p)
PMul(p, q) == IF Len(p) = 0 \/ Len(q) = 0 THEN <<>>
              ELSE [k \in 1..Len(p) + Len(q) - 1 |->
                      RSum([i \in 1..Len(p) |-> IF k - i + 1 >= 1 /\ k - i + 1 <= Len(q) THEN RMul(p[i], q[k - i + 1]) ELSE Zero], 1, Len(p))]
PDer(p) == IF Len(p) <= 1 THEN <<Zero>> ELSE [i \in 1..Len(p) - 1 |-> RMul(R(i), p[i + 1])]
PInt(p) == <<Zero>> \o [i \in 1..Len(p) |-> RDiv(p[i], R(i))]        \* zero constant of integration
PIsZero(p) == \A i \in 1..Len(p) : p[i] = Zero
Mu == <<Zero, One>>
OneMinusMu2 == <<One, Zero, <<-1, 1>>>>
PConst(c) == <<c>>
(* operators on zonal fields, radius a *)
LapZ(f, a) == PScale(RInv(RMul(a, a)), PDer(PMul(OneMinusMu2, PDer(f))))
DivMeridional(cosv, a) == PScale(RInv(a), PDer(cosv))               \* cosv = cos(lat) * meridional component

(* ---- configurations ---- *)
Radii == {One, <<2, 1>>}
Omegas == {<<1, 2>>, One}
SolidConfigs ==
  [family : {"solid"}, a : Radii, omega : Omegas, A : {<<-1, 8>>, <<-1, 4>>}, U : {<<<<1, 4>>, <<1, 2>>>>, <<<<1, 2>>, <<1, 8>>, <<3, 4>>>>},
   gas : {<<2, 1>>}, mq : {Zero, <<1, 16>>},            \* m q = (Rv/R - 1) q, uniform
   split : {"const", "ramp"}]
RestConfigs == [family : {"rest"}, a : Radii, l : 1..4, g : {<<3, 1>>}, gas : {<<2, 1>>}, T0 : {<<5, 2>>}, split : {"const", "ramp"}]
Vs == {<< <<1, 4>> >>, << Zero, <<1, 4>> >>, << <<1, 4>>, Zero, <<-1, 8>> >>, << <<1, 8>>, <<1, 4>> >>}
JetConfigs == [family : {"jet"}, a : Radii, omega : Omegas,
               V : {<<v>> : v \in Vs} \cup {<<v, w>> : v \in Vs, w \in Vs} \cup {<<v, w, v>> : v \in Vs, w \in Vs},
               rho : {"equal", "stable"}]
(* equal densities make the layers indistinguishable (singular coupling): one layer only *)
Init == /\ cfg \in SolidConfigs \cup RestConfigs \cup {c \in JetConfigs : c.rho = "equal" => Len(c.V) = 1}
        /\ pc = "new" /\ out = <<>>

(* ---- solid-body rotation in the primitive equations ---- *)
K == Len(cfg.U)
(* R Tv_k = R T_k (1 + m q) from gradient-wind balance *)
RTv(k) == RDiv(RNeg(RMul(cfg.U[k], RAdd(cfg.U[k], RMul(R(2), RMul(cfg.omega, cfg.a))))), RMul(R(2), cfg.A))
Tfull(k) == RDiv(RTv(k), RMul(cfg.gas, RAdd(One, cfg.mq)))
Tref(k) == IF cfg.split = "const" THEN <<1, 1>> ELSE R(k)
Tvar(k) == RSub(Tfull(k), Tref(k))
LnpsP == <<Zero, Zero, cfg.A>>                                        \* A mu^2 (the constant does not matter)
DLnps == PMul(OneMinusMu2, PDer(LnpsP))                               \* cos d/dlat lnps = (1 - mu^2) 2 A mu
W(k) == PScale(cfg.U[k], OneMinusMu2)                                 \* cos(lat) u
Zeta(k) == PScale(RNeg(RInv(cfg.a)), PDer(W(k)))
Eta(k) == PAdd(Zeta(k), PScale(RMul(R(2), cfg.omega), Mu))
(* terms of the divergence equation, continuous form *)
VortFlux(k) == PNeg(DivMeridional(PMul(PScale(cfg.U[k], OneMinusMu2), Eta(k)), cfg.a))             \* -div( eta k x v )
(* explicit pressure gradient: -div( R T' (1 + m q) grad lnps ) *)
PGradExplicit(k) == PNeg(DivMeridional(PScale(RDiv(RMul(RMul(cfg.gas, Tvar(k)), RAdd(One, cfg.mq)), cfg.a), DLnps), cfg.a))
KineticP(k) == PScale(RMul(<<1, 2>>, RMul(cfg.U[k], cfg.U[k])), OneMinusMu2)
KineticTend(k) == PNeg(LapZ(KineticP(k), cfg.a))
ImplicitDiv(k) == PNeg(LapZ(PScale(RMul(cfg.gas, Tref(k)), LnpsP), cfg.a))                          \* -lap( R Tref lnps )  (G T' is uniform)
(* moist: -(Rv - R) q Tref lap(lnps)  (grad q = 0) *)
HumidityDiv(k) == PNeg(PScale(RMul(RMul(cfg.gas, cfg.mq), Tref(k)), LapZ(LnpsP, cfg.a)))
TotalSolid(k) == PAdd(PAdd(VortFlux(k), PGradExplicit(k)), PAdd(KineticTend(k), PAdd(ImplicitDiv(k), HumidityDiv(k))))

Solid == /\ pc = "new" /\ cfg.family = "solid"
         /\ out' = [k \in 1..K |-> [T |-> Tfull(k), Tref |-> Tref(k), zeta |-> Zeta(k), total |-> TotalSolid(k),
                                    curl_div_divergence |-> PAdd(VortFlux(k), PGradExplicit(k)),
                                    kinetic |-> KineticTend(k), implicit_divergence |-> ImplicitDiv(k),
                                    humidity_divergence |-> HumidityDiv(k)]]
         /\ pc' = "done" /\ UNCHANGED cfg

(* ---- isothermal rest over orography, one label of total wavenumber l ---- *)
Rest == /\ pc = "new" /\ cfg.family = "rest"
        /\ LET lam == Norm(cfg.l * (cfg.l + 1), 1)
               lam_a == RDiv(lam, RMul(cfg.a, cfg.a))
               h == One                                                  \* unit orography coefficient
               lnps == RNeg(RDiv(RMul(cfg.g, h), RMul(cfg.gas, cfg.T0)))  \* coefficient of lnps on the same label
               tr(k) == IF cfg.split = "const" THEN One ELSE R(k)
           IN  out' = [k \in 1..3 |->
                  [lnps |-> lnps,
                   orography |-> RMul(lam_a, RMul(cfg.g, h)),             \* -g lap(h)
                   explicit_pgrad |-> RMul(lam_a, RMul(RMul(cfg.gas, RSub(cfg.T0, tr(k))), lnps)),
                   implicit |-> RMul(lam_a, RMul(RMul(cfg.gas, tr(k)), lnps)),
                   total |-> RAdd(RMul(lam_a, RMul(cfg.g, h)),
                                  RAdd(RMul(lam_a, RMul(RMul(cfg.gas, RSub(cfg.T0, tr(k))), lnps)),
                                       RMul(lam_a, RMul(RMul(cfg.gas, tr(k)), lnps))))]]
        /\ pc' = "done" /\ UNCHANGED cfg

(* ---- layered shallow-water jets ---- *)
NL == Len(cfg.V)
Rho(i) == IF cfg.rho = "equal" THEN One ELSE Norm(i + 1, 2)                  \* 1, 3/2, 2 from the top
Couple(i, j) == IF j >= i THEN One ELSE RDiv(Rho(j), Rho(i))                  \* weight of phi_j in M_i
Vj(i) == cfg.V[i]
Wj(i) == PMul(OneMinusMu2, Vj(i))
ZetaJ(i) == PScale(RNeg(RInv(cfg.a)), PDer(Wj(i)))
EtaJ(i) == PAdd(ZetaJ(i), PScale(RMul(R(2), cfg.omega), Mu))
(* M_i' = -(2 Omega a mu V + mu V^2) *)
MPrime(i) == PNeg(PAdd(PScale(RMul(R(2), RMul(cfg.omega, cfg.a)), PMul(Mu, Vj(i))), PMul(Mu, PMul(Vj(i), Vj(i)))))
Mont(i) == PInt(MPrime(i))
KinJ(i) == PScale(<<1, 2>>, PMul(OneMinusMu2, PMul(Vj(i), Vj(i))))
DivTendJ(i) == PAdd(PNeg(LapZ(PAdd(Mont(i), KinJ(i)), cfg.a)),
                    PNeg(DivMeridional(PMul(Wj(i), EtaJ(i)), cfg.a)))
(* ---- the library's own constructor of balanced jets: shallow_water_states.one_layer / multi_layer ----
   It is given only the grid (radius a) and the zonal wind; the Coriolis parameter is hard-wired to
   sin(lat), i.e. 2 Omega = 1, the default non-dimensionalisation.  Its algorithm in the polynomial algebra:
       zc = -(1/a) d/dmu( (1 - mu^2) V )                                        the vorticity it returns
       S  = -InvLap( (1/a) d/dmu( (1 - mu^2) V (zc + mu) ) ),  i.e.  S' = -a V (zc + mu)
       Mc = S - V^2 (1 - mu^2) / 2              the Montgomery potential; the layer potentials follow by
                                                solving the coupling matrix (multi_layer), zero mean per layer
   As found, both meridional derivatives were taken without the 1/a of the metric (sec_lat_d_dlat_cos2 is the
   bare recurrence): zc = -d/dmu(..) = a * zeta and S' = -a^2 V (zc + mu).  The equations recover the wind
   from the vorticity of the state, so they see the wind s V with s = 1 (repaired) or a (as found). *)
CScale(fixed) == IF fixed THEN One ELSE cfg.a
CVort(i, fixed) == PScale(CScale(fixed), ZetaJ(i))
CMont(i, fixed) == PAdd(PInt(PScale(RNeg(RMul(cfg.a, CScale(fixed))), PMul(Vj(i), PAdd(CVort(i, fixed), Mu)))), PNeg(KinJ(i)))
CDivTend(i, fixed) ==
  LET s == CScale(fixed)
      eta == PAdd(CVort(i, fixed), PScale(RMul(R(2), cfg.omega), Mu))
  IN  PAdd(PNeg(LapZ(PAdd(CMont(i, fixed), PScale(RMul(s, s), KinJ(i))), cfg.a)),
           PNeg(DivMeridional(PMul(PScale(s, Wj(i)), eta), cfg.a)))
Jet == /\ pc = "new" /\ cfg.family = "jet"
       /\ out' = [i \in 1..NL |-> [V |-> Vj(i), M |-> Mont(i), zeta |-> ZetaJ(i), total |-> DivTendJ(i),
                                   Mc |-> CMont(i, TRUE),
                                   couple |-> [j \in 1..NL |-> Couple(i, j)]]]
       /\ pc' = "done" /\ UNCHANGED cfg
Next == Solid \/ Rest \/ Jet
Spec == Init /\ [][Next]_vars
Done == pc = "done"

-----------------------------------------------------------------------------
SolidSteady == (Done /\ cfg.family = "solid") => \A k \in 1..K : PIsZero(out[k].total)
RestSteady == (Done /\ cfg.family = "rest") => \A k \in 1..3 : out[k].total = Zero
JetSteady == (Done /\ cfg.family = "jet") => \A i \in 1..NL : PIsZero(out[i].total)
(* the balance genuinely needs every term: dropping the kinetic energy, or halving the Coriolis
   parameter, leaves a non-zero polynomial (anti-vacuity of the derivation) *)
SolidNeedsKinetic == (Done /\ cfg.family = "solid") =>
   \A k \in 1..K : ~PIsZero(PAdd(out[k].total, PNeg(out[k].kinetic)))
JetNeedsCoupling == (Done /\ cfg.family = "jet" /\ NL >= 2 /\ cfg.rho = "stable") =>
   Couple(2, 1) # Couple(1, 2)
(* the constructor: at the rotation rate it assumes (2 Omega = 1) its state is steady on a sphere of any
   radius and its Montgomery potential is the balanced one up to a constant; at any other rotation rate it is
   not steady (its Coriolis parameter is not an argument: anti-vacuity, and a documented limit of the API) *)
IsJet == Done /\ cfg.family = "jet"
PSame(p, q) == PIsZero(PAdd(p, PNeg(q)))
ConstructorSteady == (IsJet /\ cfg.omega = <<1, 2>>) => \A i \in 1..NL : PIsZero(CDivTend(i, TRUE))
ConstructorIsBalanced == (IsJet /\ cfg.omega = <<1, 2>>) => \A i \in 1..NL : PSame(PDer(CMont(i, TRUE)), MPrime(i))
ConstructorAssumesRotation == (IsJet /\ cfg.omega # <<1, 2>>) => \E i \in 1..NL : ~PIsZero(CDivTend(i, TRUE))
(* refuted by TLC (Balanced_asfound.cfg): without the metric factor the state is steady on the unit sphere only *)
AsFoundConstructorSteady == (IsJet /\ cfg.omega = <<1, 2>>) => \A i \in 1..NL : PIsZero(CDivTend(i, FALSE))
AsFoundSoundOnUnitSphere == (IsJet /\ cfg.omega = <<1, 2>> /\ cfg.a = One) => \A i \in 1..NL : PIsZero(CDivTend(i, FALSE))
Export == Done => PrintT(<<"CASE", ToJson([cfg |-> cfg, out |-> out])>>)
=============================================================================
