----------------------------- MODULE TreesDataset -----------------------------
(* Model states  ->  xarray_utils.data_to_xarray  ->  (netCDF)  ->  xarray_utils.xarray_to_*.

   data_to_xarray has no dimension names to go by: it infers them from the *shape* of every
   array.  The machine knows what each variable is (its kind) and therefore which names it is
   owed:
       scalar                         ()                 -> ()
       level field, modal / nodal     (K, m1, m2) / (K, I, J)   -> (level, longitudinal_mode, total_wavenumber)
                                                                   / (level, lon, lat)
       surface field, modal / nodal   (1, m1, m2) / (1, I, J)   -> (surface, ..) if K # 1, (level, ..) if K = 1
                                      (a `surface` coordinate of size 1 is added by default iff K # 1)
       2-d field, modal / nodal       (m1, m2) / (I, J)         -> (longitudinal_mode, total_wavenumber) / (lon, lat)
   each prefixed by (sample, time) when sample ids / times are given, and - non-scalars only - by a
   singleton `realization` axis in front of those when a realization coordinate is supplied
   (order: realization, sample, time, ...; per-step scalars such as sim_time stay (sample, time)).
   Two kinds are *ambiguous* in a configuration when their shapes coincide but their names do
   not (only possible when the nodal and modal shapes coincide); for those only "no exception,
   data preserved" is owed.

   Actions: Write (data_to_xarray), Persist (netCDF), Read (xarray_to_primitive_eq_data /
   xarray_to_primitive_equations_with_time_data / xarray_to_shallow_water_eq_data /
   xarray_to_data_dict).  CodeTable is the shape-keyed lookup exactly as the code builds it
   (insertion order, later entries win); CodeTableAgrees states that it returns the owed names
   for every unambiguous variable -- checked in spec/mc/TreesDataset_asfound.cfg, where TLC
   refutes it for nodal fields on a single layer (the "unconventional" 2-name entry for
   (1, I, J) shadows the level entry). *)
EXTENDS Integers, Sequences, FiniteSets, TLC, Json

CONSTANTS GridCodes,    \* codes into the table GridOf
          LayerCounts, Tracers, Samples, Times

VARIABLES cfg, pc, ds, back
vars == <<cfg, pc, ds, back>>

(* <<M, L, I, J, mult>>: mult = 0 RealSphericalHarmonics, otherwise Fast with that base multiple *)
GridOf(c) == CASE c = 1 -> <<2, 3, 7, 4, 0>> [] c = 2 -> <<3, 4, 10, 5, 0>> [] c = 3 -> <<1, 2, 4, 2, 0>>
               [] c = 4 -> <<2, 3, 3, 3, 0>>      \* nodal shape = modal shape: ambiguous
               [] c = 5 -> <<2, 3, 7, 4, 2>> [] c = 6 -> <<3, 3, 8, 4, 0>>
RoundUp(x, k) == ((x + k - 1) \div k) * k
Modal(g) == IF g[5] = 0 THEN <<2 * g[1] - 1, g[2]>> ELSE <<RoundUp(2 * g[1], 2 * g[5]), RoundUp(g[2], g[5])>>
Nodal(g) == IF g[5] = 0 THEN <<g[3], g[4]>> ELSE <<RoundUp(g[3], g[5]), RoundUp(g[4], g[5])>>

ModalNames == <<"longitudinal_mode", "total_wavenumber">>
NodalNames == <<"lon", "lat">>

Configs ==
  {c \in [grid : GridCodes, K : LayerCounts, eq : {"primitive", "primitive_with_time", "shallow", "datadict"},
          rep : {"modal", "nodal"}, ntr : Tracers, sample : Samples, time : Times, real : BOOLEAN] :
     /\ (c.eq \in {"shallow", "datadict"} => c.ntr = 0)
     /\ (c.eq = "datadict" => c.rep = "nodal" /\ c.sample = 0 /\ ~c.real)
     /\ (c.real => c.rep = "modal")}

G == GridOf(cfg.grid)
Hor == IF cfg.rep = "modal" THEN Modal(G) ELSE Nodal(G)
HorNames == IF cfg.rep = "modal" THEN ModalNames ELSE NodalNames

(* the variables of the state: name, kind *)
TracerNames == <<"tr_a", "tr_b", "tr_c">>
Vars ==
  CASE cfg.eq \in {"primitive", "primitive_with_time"} ->
         <<[name |-> "vorticity", kind |-> "level"], [name |-> "divergence", kind |-> "level"],
           [name |-> "temperature_variation", kind |-> "level"],
           [name |-> "log_surface_pressure", kind |-> "surface"]>>
         \o [i \in 1..cfg.ntr |-> [name |-> TracerNames[i], kind |-> "level"]]
         \o (IF cfg.eq = "primitive_with_time" THEN <<[name |-> "sim_time", kind |-> "scalar"]>> ELSE <<>>)
    [] cfg.eq = "shallow" ->
         <<[name |-> "vorticity", kind |-> "level"], [name |-> "divergence", kind |-> "level"],
           [name |-> "potential", kind |-> "level"]>>
    [] cfg.eq = "datadict" ->
         <<[name |-> "u", kind |-> "level"], [name |-> "t", kind |-> "level"],
           [name |-> "sp", kind |-> "twod"]>>

Prefix == (IF cfg.sample > 0 THEN <<cfg.sample>> ELSE <<>>) \o (IF cfg.time > 0 THEN <<cfg.time>> ELSE <<>>)
PrefixNames == (IF cfg.sample > 0 THEN <<"sample">> ELSE <<>>) \o (IF cfg.time > 0 THEN <<"time">> ELSE <<>>)
BaseShape(kind) == CASE kind = "scalar" -> <<>> [] kind = "level" -> <<cfg.K>> \o Hor
                     [] kind = "surface" -> <<1>> \o Hor [] kind = "twod" -> Hor
BaseNames(kind) == CASE kind = "scalar" -> <<>> [] kind = "level" -> <<"level">> \o HorNames
                     [] kind = "surface" -> <<IF cfg.K = 1 THEN "level" ELSE "surface">> \o HorNames
                     [] kind = "twod" -> HorNames
RealShape(kind) == IF cfg.real /\ kind # "scalar" THEN <<1>> ELSE <<>>
RealNames(kind) == IF cfg.real /\ kind # "scalar" THEN <<"realization">> ELSE <<>>
Shape(kind) == RealShape(kind) \o Prefix \o BaseShape(kind)
Owed(kind) == RealNames(kind) \o PrefixNames \o BaseNames(kind)

(* every (shape, names) pair a variable of *some* representation could be owed in this
   configuration; ambiguity = same shape, different names *)
AllKinds == {[shape |-> <<>>, names |-> <<>>],
             [shape |-> <<cfg.K>> \o Modal(G), names |-> <<"level">> \o ModalNames],
             [shape |-> <<cfg.K>> \o Nodal(G), names |-> <<"level">> \o NodalNames],
             [shape |-> <<1>> \o Modal(G), names |-> <<IF cfg.K = 1 THEN "level" ELSE "surface">> \o ModalNames],
             [shape |-> <<1>> \o Nodal(G), names |-> <<IF cfg.K = 1 THEN "level" ELSE "surface">> \o NodalNames],
             [shape |-> Modal(G), names |-> ModalNames],
             [shape |-> Nodal(G), names |-> NodalNames]}
Ambiguous(kind) == \E e \in AllKinds : e.shape = BaseShape(kind) /\ e.names # BaseNames(kind)

-----------------------------------------------------------------------------
(* the lookup as the code builds it: a sequence of insertions, the last one for a shape wins *)
Extra == IF cfg.K # 1 THEN <<[dim |-> "surface", n |-> 1]>> ELSE <<>>
CodeInsertions ==
  <<[shape |-> <<>>, names |-> <<>>],
    [shape |-> <<cfg.K>> \o Modal(G), names |-> <<"level">> \o ModalNames],
    [shape |-> <<cfg.K>> \o Nodal(G), names |-> <<"level">> \o NodalNames],
    [shape |-> Nodal(G), names |-> NodalNames],
    [shape |-> Modal(G), names |-> ModalNames],
    [shape |-> <<1>> \o Nodal(G), names |-> NodalNames]>>      \* "unconventional" covariate entry
  \o [i \in 1..3 * Len(Extra) |->
        LET e == Extra[(i + 2) \div 3]
        IN  CASE i % 3 = 1 -> [shape |-> <<e.n>> \o Modal(G), names |-> <<e.dim>> \o ModalNames]
              [] i % 3 = 2 -> [shape |-> <<e.n>> \o Nodal(G), names |-> <<e.dim>> \o NodalNames]
              [] i % 3 = 0 -> [shape |-> <<e.n>>, names |-> <<e.dim>>]]
CodeLookup(shape) ==
  LET hits == {i \in 1..Len(CodeInsertions) : CodeInsertions[i].shape = shape}
  IN  IF hits = {} THEN <<"missing">>
      ELSE CodeInsertions[CHOOSE i \in hits : \A j \in hits : j <= i].names
CodeTableAgrees == \A i \in 1..Len(Vars) :
   ~Ambiguous(Vars[i].kind) => CodeLookup(BaseShape(Vars[i].kind)) = BaseNames(Vars[i].kind)

-----------------------------------------------------------------------------
Init == /\ cfg \in Configs /\ pc = "new" /\ ds = <<>> /\ back = <<>>

Write == /\ pc = "new"
         /\ ds' = [i \in 1..Len(Vars) |-> [name |-> Vars[i].name, dims |-> Owed(Vars[i].kind),
                                           shape |-> Shape(Vars[i].kind),
                                           ambiguous |-> Ambiguous(Vars[i].kind)]]
         /\ pc' = "written" /\ UNCHANGED <<cfg, back>>
Persist == /\ pc = "written" /\ pc' = "stored" /\ UNCHANGED <<cfg, ds, back>>
(* reading returns the arrays under the state's field names; xarray_to_data_dict orders the
   axes (time, level, lon, lat) and gives 2-d surface fields a singleton level axis *)
Read == /\ pc \in {"written", "stored"}
        /\ back' = [i \in 1..Len(ds) |->
                      [name |-> ds[i].name,
                       shape |-> IF cfg.eq = "datadict" /\ Vars[i].kind = "twod"
                                 THEN Prefix \o <<1>> \o Hor ELSE ds[i].shape]]
        /\ pc' = "done" /\ UNCHANGED <<cfg, ds>>
Next == Write \/ Persist \/ Read
Spec == Init /\ [][Next]_vars

-----------------------------------------------------------------------------
(* names are owed one per axis *)
RankConsistent == \A i \in 1..Len(ds) : Len(ds[i].dims) = Len(ds[i].shape)
(* a dimension name never carries two sizes in one dataset *)
SizeOf(d) == LET hits == {<<i, j>> \in (1..Len(ds)) \X (1..7) : j <= Len(ds[i].dims) /\ ds[i].dims[j] = d}
                 h == CHOOSE q \in hits : TRUE
             IN  ds[h[1]].shape[h[2]]
DimNames == UNION {{ds[i].dims[j] : j \in 1..Len(ds[i].dims)} : i \in 1..Len(ds)}
SizesConsistent == \A i \in 1..Len(ds) : \A j \in 1..Len(ds[i].dims) :
   ds[i].shape[j] = SizeOf(ds[i].dims[j])
ShapesComeBack == pc = "done" => \A i \in 1..Len(ds) :
   /\ back[i].name = ds[i].name
   /\ (cfg.eq # "datadict" => back[i].shape = ds[i].shape)
RealizationFirstOnNonScalars == \A i \in 1..Len(ds) :
   /\ (cfg.real /\ Vars[i].kind # "scalar") => (ds[i].dims[1] = "realization" /\ ds[i].shape[1] = 1)
   /\ (Vars[i].kind = "scalar" \/ ~cfg.real) => \A j \in 1..Len(ds[i].dims) : ds[i].dims[j] # "realization"
AmbiguityOnlyWhenShapesCoincide == \A i \in 1..Len(ds) : ds[i].ambiguous => Modal(G) = Nodal(G)

DimSeq == LET RECURSIVE Conv(_)
              Conv(T) == IF T = {} THEN <<>> ELSE LET p == CHOOSE q \in T : TRUE IN <<p>> \o Conv(T \ {p})
          IN  Conv(DimNames)
Export == pc = "done" =>
  PrintT(<<"CASE", ToJson([grid |-> G, K |-> cfg.K, eq |-> cfg.eq, rep |-> cfg.rep, ntr |-> cfg.ntr,
                           sample |-> cfg.sample, time |-> cfg.time, real |-> cfg.real,
                           modal |-> Modal(G), nodal |-> Nodal(G), vars |-> ds, back |-> back,
                           sizes |-> [i \in 1..Len(DimSeq) |-> [dim |-> DimSeq[i], n |-> SizeOf(DimSeq[i])]]])>>)
=============================================================================
