----------------------------- MODULE SplitLedger -----------------------------
(* C04, bookkeeping half: which sub-term of explicit_terms / implicit_terms changes by what when a
   level profile c (horizontally constant) is moved from the temperature variation T' into the
   reference temperature Tref, i.e. (Tref, T') -> (Tref + c, T' - c), same physical atmosphere.

   Every sub-term the code factors out (one method each) gets a *ledger entry*: a formal integer
   combination of change atoms.  The atoms are concrete fields the replay evaluates from the
   state with primitives that other checks pin down (C02 horizontal operators, C13 vertical
   calculus):
       RcLap   = R c laplacian(lnps)                                   (divergence equation)
       cDiv    = c * div                                               (temperature, nodal)
       VadvC   = vadv(sigma_dot(div), c)                               (temperature, nodal)
       VadvExpC= vadv(sigma_dot(u.grad lnps), c)     (only without include_vertical_advection)
       KcGp    = kappa c gp(div)                                       (temperature, nodal)
       MDiv    = div( R c m grad(lnps) ),  m = (Rv/R - 1) q            (moist, divergence)
       MCurl   = curl( R c m grad(lnps) )                              (moist, vorticity)
       CDiv    = div( R c (ql+qi) grad(lnps) ),  CCurl likewise        (cloud condensate loading)
   Identities used (each is decided elsewhere in the specification):
       curl(c grad(lnps)) = 0, div(c grad(lnps)) = c laplacian(lnps), div(v c) = c div
                                                        -> SpectralAlgebra (wind round trip band)
       laplacian(G c) = 0   (horizontally constant)     -> SpectralAlgebra (Lap(0,0) = 0)
       H(c) div = KcGp - VadvC                          -> SplitConsistency (all level sets)
       vadv(w, constant) = 0                            -> SigmaCalculus
   The machine walks the sub-terms in the order explicit_terms evaluates them, accumulates the
   ledger per prognostic variable, then adds implicit_terms; Balanced says every total is empty.
   Configurations: equation class, orography, tracers, include_vertical_advection, and whether
   the two profiles are constant (the code skips vadv(sigma_dot_explicit, Tref) for a constant
   Tref). *)
EXTENDS Integers, Sequences, FiniteSets, TLC, Json

VARIABLES cfg, pc, ledger, log
vars == <<cfg, pc, ledger, log>>

Classes == {"dry", "time", "moist", "cloud"}
Fields == {"vorticity", "divergence", "temperature_variation", "log_surface_pressure", "tracers", "sim_time"}
Atoms == {"RcLap", "cDiv", "VadvC", "VadvExpC", "KcGp", "MDiv", "MCurl", "CDiv", "CCurl"}
Configs == [class : Classes, oro : BOOLEAN, ntracers : 0..2, vadv : BOOLEAN,
            constA : BOOLEAN, constB : BOOLEAN]

Moist(c) == c.class \in {"moist", "cloud"}
(* formal combinations: functions Atoms -> Int *)
Z == [a \in Atoms |-> 0]
One(a) == [b \in Atoms |-> IF b = a THEN 1 ELSE 0]
Plus(x, y) == [a \in Atoms |-> x[a] + y[a]]
Neg(x) == [a \in Atoms |-> -x[a]]
Sum3(x, y, z) == Plus(x, Plus(y, z))

(* sub-term -> (field it is added to, change).  Names are the method names of the code; the
   two outputs of curl_and_div_tendencies and of horizontal_scalar_advection are listed apart. *)
ExplicitProgram(c) ==
  << [n |-> "curl_and_div_tendencies.vorticity", f |-> "vorticity",
      d |-> IF c.class = "cloud" THEN Plus(One("MCurl"), Neg(One("CCurl")))
            ELSE IF c.class = "moist" THEN One("MCurl") ELSE Z],
     [n |-> "curl_and_div_tendencies.divergence", f |-> "divergence",
      d |-> IF c.class = "cloud" THEN Sum3(One("RcLap"), One("MDiv"), Neg(One("CDiv")))
            ELSE IF c.class = "moist" THEN Plus(One("RcLap"), One("MDiv")) ELSE One("RcLap")] >>
  \o (IF Moist(c) THEN << [n |-> "vorticity_tendency_due_to_humidity", f |-> "vorticity", d |-> Neg(One("MCurl"))] >> ELSE <<>>)
  \o << [n |-> "kinetic_energy_tendency", f |-> "divergence", d |-> Z],
        [n |-> "orography_tendency", f |-> "divergence", d |-> Z] >>
  \o (IF Moist(c) THEN << [n |-> "divergence_tendency_due_to_humidity", f |-> "divergence", d |-> Neg(One("MDiv"))] >> ELSE <<>>)
  \o << [n |-> "horizontal_scalar_advection.temperature.nodal", f |-> "temperature_variation", d |-> Neg(One("cDiv"))],
        [n |-> "horizontal_scalar_advection.temperature.modal", f |-> "temperature_variation", d |-> One("cDiv")] >>
  \o [i \in 1..c.ntracers |-> [n |-> "horizontal_scalar_advection.tracer", f |-> "tracers", d |-> Z]]
  \o << [n |-> "nodal_temperature_vertical_tendency", f |-> "temperature_variation",
         (* vadv(sigma_dot_full, T'-c) [only if include_vertical_advection]
            + vadv(sigma_dot_explicit, Tref+c) [the constant-profile branch skips an exact zero] *)
         d |-> IF c.vadv THEN Neg(One("VadvC")) ELSE One("VadvExpC")],
        [n |-> "nodal_temperature_adiabatic_tendency", f |-> "temperature_variation", d |-> One("KcGp")],
        [n |-> "nodal_log_pressure_tendency", f |-> "log_surface_pressure", d |-> Z] >>
  \o [i \in 1..c.ntracers |-> [n |-> "vertical_tendency.tracer", f |-> "tracers", d |-> Z]]
  \o (IF c.class = "dry" THEN <<>> ELSE << [n |-> "sim_time", f |-> "sim_time", d |-> Z] >>)

ImplicitProgram(c) ==
  << [n |-> "implicit.vorticity", f |-> "vorticity", d |-> Z],
     [n |-> "implicit.divergence", f |-> "divergence", d |-> Neg(One("RcLap"))],
     [n |-> "implicit.temperature_variation", f |-> "temperature_variation", d |-> Plus(Neg(One("KcGp")), One("VadvC"))],
     [n |-> "implicit.log_surface_pressure", f |-> "log_surface_pressure", d |-> Z],
     [n |-> "implicit.tracers", f |-> "tracers", d |-> Z] >>
  \o (IF c.class = "dry" THEN <<>> ELSE << [n |-> "implicit.sim_time", f |-> "sim_time", d |-> Z] >>)

Program(c) == ExplicitProgram(c) \o ImplicitProgram(c)

Init == /\ cfg \in Configs
        /\ pc = 1
        /\ ledger = [f \in Fields |-> Z]
        /\ log = <<>>
(* one action per sub-term, in program order *)
Term == /\ pc <= Len(Program(cfg))
        /\ LET t == Program(cfg)[pc]
           IN  /\ ledger' = [ledger EXCEPT ![t.f] = Plus(@, t.d)]
               /\ log' = Append(log, [n |-> t.n, f |-> t.f, d |-> t.d])
        /\ pc' = pc + 1 /\ UNCHANGED cfg
Next == Term
Spec == Init /\ [][Next]_vars

Done == pc > Len(Program(cfg))
(* the standard Eulerian discretisation (include_vertical_advection) is split-independent for
   the dry, time-carrying and moist classes *)
Claimed(c) == c.vadv /\ c.class # "cloud"
Balanced == (Done /\ Claimed(cfg)) => \A f \in Fields : ledger[f] = Z
(* anti-vacuity / documented deviations: these configurations are NOT balanced *)
CloudImbalance == (Done /\ cfg.class = "cloud") =>
                     /\ ledger["vorticity"] = Neg(One("CCurl"))
                     /\ ledger["divergence"] = Neg(One("CDiv"))
NoVadvImbalance == (Done /\ ~cfg.vadv) => ledger["temperature_variation"] = Plus(One("VadvC"), One("VadvExpC"))
(* only the fields that carry temperature can ever be touched *)
Untouched == \A f \in {"log_surface_pressure", "tracers", "sim_time"} : ledger[f] = Z
(* every atom enters with coefficient +-1 and at most twice *)
SmallCoefficients == \A f \in Fields : \A a \in Atoms : ledger[f][a] \in {-1, 0, 1}
(* as found: the claim extended to the cloud class fails (known finding) *)
BalancedIncludingCloud == (Done /\ cfg.vadv) => \A f \in Fields : ledger[f] = Z

Export == Done => PrintT(<<"CASE", ToJson([
     class |-> cfg.class, oro |-> cfg.oro, ntracers |-> cfg.ntracers, vadv |-> cfg.vadv,
     constA |-> cfg.constA, constB |-> cfg.constB, claimed |-> Claimed(cfg),
     terms |-> log, total |-> ledger ])>>)
=============================================================================
