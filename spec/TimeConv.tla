------------------------------ MODULE TimeConv ------------------------------
(* Exact machine of the calendar <-> model-time conversions:
     xarray_utils.datetime64_to_nondim_time / nondim_time_to_datetime64 /
     nondim_time_delta_from_time_axis,
     radiation.datetime_to_time / datetime_to_orbital_time,
     radiation.SolarRadiation.__init__ / time_to_orbital_time.

   A stamp is <<year, month, day, hour, minute>> of the proleptic Gregorian calendar (UTC,
   minute resolution).  Everything is integer arithmetic: minutes since 1970-01-01T00:00,
   elapsed minutes e = minutes(when) - minutes(ref); non-dimensional model time is the
   monomial  60 * e / T  with the time scale T (seconds) an atom substituted by the harness
   (exported as an exact rational).  Phases are exact rationals in *turns* (multiples of the
   atom 2*pi):
        fraction_of_day  = (60 h + mi) / 1440
        fraction_of_year = (day_of_year - 1 + fraction_of_day) / days_in_year
        orbital phase(t)  = frac(ref_fraction_of_year + e / 525960)     (year = 365.25 days)
        synodic phase(t)  = frac(ref_fraction_of_day  + e / 1440)                          *)
EXTENDS Integers, Sequences, FiniteSets, TLC, Json, Exact

CONSTANTS Years, MonthDays, Times,   \* the stamps explored: Years x MonthDays x Times (valid dates)
          Refs,                      \* reference stamps
          ScaleIds,                  \* time scales
          Steps,                     \* time-axis steps in minutes
          Shifts                     \* whole-period shifts (in periods) for the periodicity clause

VARIABLES ref, when, sid, pc, todo, res
vars == <<ref, when, sid, pc, todo, res>>

MinPerDay == 1440
MinPerYear == 525960                  \* 365.25 days: pint's `year`, used by the orbital rate

-----------------------------------------------------------------------------
(* calendar, first formulation: month table and leap rule *)
IsLeap(y) == (y % 4 = 0 /\ y % 100 # 0) \/ y % 400 = 0
MonthLen(y, m) == IF m = 2 THEN (IF IsLeap(y) THEN 29 ELSE 28)
                  ELSE IF m \in {4, 6, 9, 11} THEN 30 ELSE 31
DaysInYear(y) == IF IsLeap(y) THEN 366 ELSE 365
RECURSIVE DaysBeforeMonth(_, _)
DaysBeforeMonth(y, m) == IF m = 1 THEN 0 ELSE DaysBeforeMonth(y, m - 1) + MonthLen(y, m - 1)
DayOfYear(y, m, d) == DaysBeforeMonth(y, m) + d                     \* 1-based (tm_yday)
ValidDate(y, m, d) == m \in 1..12 /\ d >= 1 /\ d <= MonthLen(y, m)

(* calendar, second formulation: closed-form day count (era arithmetic) and its inverse *)
DaysFromCivil(y, m, d) ==
  LET yy == IF m <= 2 THEN y - 1 ELSE y
      era == yy \div 400
      yoe == yy - era * 400
      mp == (m + 9) % 12
      doy == (153 * mp + 2) \div 5 + d - 1
      doe == yoe * 365 + yoe \div 4 - yoe \div 100 + doy
  IN  era * 146097 + doe - 719468
CivilFromDays(z) ==
  LET zz == z + 719468
      era == zz \div 146097
      doe == zz - era * 146097
      yoe == (doe - doe \div 1460 + doe \div 36524 - doe \div 146096) \div 365
      doy == doe - (365 * yoe + yoe \div 4 - yoe \div 100)
      mp == (5 * doy + 2) \div 153
      d == doy - (153 * mp + 2) \div 5 + 1
      m == IF mp < 10 THEN mp + 3 ELSE mp - 9
      y == yoe + era * 400 + (IF m <= 2 THEN 1 ELSE 0)
  IN  <<y, m, d>>

Minutes(s) == DaysFromCivil(s[1], s[2], s[3]) * MinPerDay + 60 * s[4] + s[5]
StampOf(mins) == LET days == mins \div MinPerDay
                     r == mins - days * MinPerDay
                     c == CivilFromDays(days)
                 IN  <<c[1], c[2], c[3], r \div 60, r % 60>>

Stamps == {<<y, md[1], md[2], t[1], t[2]>> : y \in Years, md \in MonthDays, t \in Times}
ValidStamps == {s \in Stamps : ValidDate(s[1], s[2], s[3])}

-----------------------------------------------------------------------------
(* time scales T = c * 2^k seconds; "default" restates 1 / (2 * 7.292e-5 / s) *)
TimeScaleTable == <<
  [id |-> "default", c |-> <<12500000, 1823>>, k |-> 0],
  [id |-> "p2",      c |-> One,                k |-> 3],
  [id |-> "hour",    c |-> <<3600, 1>>,        k |-> 0],
  [id |-> "day",     c |-> <<86400, 1>>,       k |-> -1] >>
ScaleById == [id \in {TimeScaleTable[i].id : i \in DOMAIN TimeScaleTable} |->
                TimeScaleTable[CHOOSE i \in DOMAIN TimeScaleTable : TimeScaleTable[i].id = id]]

-----------------------------------------------------------------------------
(* phases in turns *)
FracOfDay(s) == Norm(60 * s[4] + s[5], MinPerDay)
FracOfYear(s) == Norm(MinPerDay * (DayOfYear(s[1], s[2], s[3]) - 1) + 60 * s[4] + s[5],
                      MinPerDay * DaysInYear(s[1]))
Frac1(x) == IF RLe(One, x) THEN RSub(x, One) ELSE x            \* x in [0, 2)
OrbitalOf(s) == [oy |-> FracOfYear(s), sy |-> FracOfDay(s)]
(* SolarRadiation.time_to_orbital_time at elapsed minutes e *)
PhaseAt(r, e) == [oy |-> Frac1(RAdd(r.oy, Norm(e % MinPerYear, MinPerYear))),
                  sy |-> Frac1(RAdd(r.sy, Norm(e % MinPerDay, MinPerDay)))]
InUnit(x) == RLe(Zero, x) /\ RLt(x, One)
(* x == y (mod 1) for x, y in [0, 1) differing by the rational step d in [0, 1) *)
AdvancedBy(x, y, d) == LET s == RSub(y, x) IN s = d \/ RAdd(s, One) = d

(* bounds of the two tiers (configuration files cannot state tuples / negative numbers) *)
QuickYears == {1970, 1979, 2000, 2023, 2024, 2100}
QuickMonthDays == {<<1, 1>>, <<2, 28>>, <<2, 29>>, <<3, 1>>, <<7, 4>>, <<12, 31>>}
QuickTimes == {<<0, 0>>, <<0, 1>>, <<11, 59>>, <<12, 0>>, <<23, 59>>}
QuickRefs == {<<1970, 1, 1, 0, 0>>, <<1979, 1, 1, 0, 0>>, <<2000, 2, 29, 12, 30>>, <<2023, 12, 31, 23, 59>>}
QuickShifts == {-1, 1, 7}
ThoroughYears == {1970, 1972, 1979, 1980, 1999, 2000, 2001, 2019, 2020, 2024, 2038, 2096, 2100}
ThoroughMonthDays == {<<m, d>> : m \in 1..12, d \in {1, 28, 29, 30, 31}}
ThoroughTimes == {<<0, 0>>, <<0, 1>>, <<6, 0>>, <<11, 59>>, <<17, 43>>, <<23, 59>>}
ThoroughRefs == QuickRefs \cup {<<2100, 3, 1, 6, 0>>}
ThoroughShifts == {-30, -1, 1, 7, 40}

Elapsed == Minutes(when) - Minutes(ref)
Program == <<"ToNondim", "ToDatetime", "DatetimeToTime", "OrbitalOfWhen", "SolarInit",
             "TimeToOrbital", "AxisDelta">>
RECURSIVE Ordered(_)
Ordered(S) == IF S = {} THEN <<>>
              ELSE LET m == CHOOSE x \in S : \A y \in S : x <= y IN <<m>> \o Ordered(S \ {m})

-----------------------------------------------------------------------------
(* the time scale does not interact with the calendar: one scale per (ref, when), chosen so
   that every scale meets every reference and every kind of stamp *)
ScaleSeq == SelectSeq([i \in DOMAIN TimeScaleTable |-> TimeScaleTable[i].id], LAMBDA x : x \in ScaleIds)
PickScale(r, w) == ScaleSeq[((DaysFromCivil(w[1], w[2], w[3]) + w[4] + w[5] + r[1]) % Len(ScaleSeq)) + 1]
Init == /\ ref \in Refs /\ when \in ValidStamps \cup Refs /\ sid = PickScale(ref, when)
        /\ pc = "run" /\ todo = Program /\ res = [o \in {} |-> 0]

Put(name, val) == /\ res' = [o \in DOMAIN res \cup {name} |-> IF o = name THEN val ELSE res[o]]
                  /\ todo' = Tail(todo)
                  /\ pc' = IF Len(todo) = 1 THEN "done" ELSE "run"
                  /\ UNCHANGED <<ref, when, sid>>
At(name) == pc = "run" /\ todo # <<>> /\ Head(todo) = name

(* xarray_utils.datetime64_to_nondim_time(when, specs, ref): elapsed minutes (times 60 s / T) *)
DatetimeToNondim == At("ToNondim") /\ Put("ToNondim", Elapsed)
(* xarray_utils.nondim_time_to_datetime64(t, specs, ref) *)
NondimToDatetime == At("ToDatetime") /\ Put("ToDatetime", StampOf(Minutes(ref) + res["ToNondim"]))
(* radiation.datetime_to_time(when, specs, ref) *)
DatetimeToTime == At("DatetimeToTime") /\ Put("DatetimeToTime", Elapsed)
(* radiation.datetime_to_orbital_time(when) *)
DatetimeToOrbital == At("OrbitalOfWhen") /\ Put("OrbitalOfWhen", OrbitalOf(when))
(* radiation.SolarRadiation(coords, specs, ref).reference_orbital_time *)
SolarInit == At("SolarInit") /\ Put("SolarInit", OrbitalOf(ref))
(* SolarRadiation.time_to_orbital_time(t) at t(e) and at whole-period shifts of it *)
TimeToOrbital == /\ At("TimeToOrbital")
                 /\ Put("TimeToOrbital",
                        LET r == res["SolarInit"]
                            e == res["DatetimeToTime"]
                            sh == Ordered(Shifts) IN
                        [at |-> PhaseAt(r, e),
                         days |-> [i \in DOMAIN sh |-> [de |-> sh[i] * MinPerDay,
                                                         ph |-> PhaseAt(r, e + sh[i] * MinPerDay)]],
                         years |-> [i \in DOMAIN sh |-> [de |-> sh[i] * MinPerYear,
                                                          ph |-> PhaseAt(r, e + sh[i] * MinPerYear)]],
                         next |-> [de |-> 1, ph |-> PhaseAt(r, e + 1)]])
(* xarray_utils.nondim_time_delta_from_time_axis(<<when, when + st, when + 2 st>>, specs) *)
AxisDelta == /\ At("AxisDelta")
             /\ Put("AxisDelta", LET st == Ordered(Steps) IN
                                 [i \in DOMAIN st |->
                                    [step |-> st[i],
                                     axis |-> [j \in 1..3 |-> StampOf(Minutes(when) + (j - 1) * st[i])],
                                     delta |-> (Minutes(when) + st[i]) - Minutes(when)]])

Next == \/ DatetimeToNondim \/ NondimToDatetime \/ DatetimeToTime \/ DatetimeToOrbital
        \/ SolarInit \/ TimeToOrbital \/ AxisDelta
Spec == Init /\ [][Next]_vars

-----------------------------------------------------------------------------
Done == pc = "done"
(* the oracle's two calendar formulations agree and the closed form is invertible *)
CalendarConsistent == \A s \in {ref, when} :
    /\ ValidDate(s[1], s[2], s[3])
    /\ DaysFromCivil(s[1], s[2], s[3]) - DaysFromCivil(s[1], 1, 1) = DayOfYear(s[1], s[2], s[3]) - 1
    /\ DaysFromCivil(s[1] + 1, 1, 1) - DaysFromCivil(s[1], 1, 1) = DaysInYear(s[1])
    /\ CivilFromDays(DaysFromCivil(s[1], s[2], s[3])) = <<s[1], s[2], s[3]>>
    /\ StampOf(Minutes(s)) = s
(* calendar time -> model time -> calendar time is lossless at minute resolution *)
RoundTrip == Done => res["ToDatetime"] = when
(* both routes to model time agree *)
SameModelTime == Done => res["ToNondim"] = res["DatetimeToTime"]
AllPhases == {res["OrbitalOfWhen"], res["SolarInit"], res["TimeToOrbital"].at, res["TimeToOrbital"].next.ph}
             \cup {res["TimeToOrbital"].days[i].ph : i \in DOMAIN res["TimeToOrbital"].days}
             \cup {res["TimeToOrbital"].years[i].ph : i \in DOMAIN res["TimeToOrbital"].years}
(* always reduced to [0, 1) turns *)
PhaseRange == Done => \A p \in AllPhases : InUnit(p.oy) /\ InUnit(p.sy)
(* the synodic phase of the model clock is the wall-clock fraction of the day (a day is
   always 1440 minutes); at zero elapsed time both phases are the reference phases *)
SynodicTracksClock == Done => res["TimeToOrbital"].at.sy = res["OrbitalOfWhen"].sy
ZeroElapsed == (Done /\ when = ref) => res["TimeToOrbital"].at = res["SolarInit"]
(* periodicity: whole days leave the synodic phase, whole (365.25 d) years the orbital phase *)
Periodic == Done =>
    /\ \A i \in DOMAIN res["TimeToOrbital"].days :
          res["TimeToOrbital"].days[i].ph.sy = res["TimeToOrbital"].at.sy
    /\ \A i \in DOMAIN res["TimeToOrbital"].years :
          res["TimeToOrbital"].years[i].ph.oy = res["TimeToOrbital"].at.oy
(* consistent with elapsed time: one more minute advances the phases by 1/1440 and 1/525960
   of a turn (mod 1); a day advances the orbital phase by 1440/525960 *)
RateConsistent == Done =>
    /\ AdvancedBy(res["TimeToOrbital"].at.sy, res["TimeToOrbital"].next.ph.sy, Norm(1, MinPerDay))
    /\ AdvancedBy(res["TimeToOrbital"].at.oy, res["TimeToOrbital"].next.ph.oy, Norm(1, MinPerYear))
(* the time-axis step is the elapsed time between consecutive stamps *)
AxisStep == Done => \A i \in DOMAIN res["AxisDelta"] :
    LET a == res["AxisDelta"][i] IN
    /\ a.delta = a.step
    /\ Minutes(a.axis[2]) - Minutes(a.axis[1]) = a.step
    /\ Minutes(a.axis[3]) - Minutes(a.axis[2]) = a.step

Export == Done =>
   PrintT(<<"CASE", ToJson([ref |-> ref, when |-> when, scale |-> ScaleById[sid],
                            minref |-> Minutes(ref), res |-> res])>>)
=============================================================================
