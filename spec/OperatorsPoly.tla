---------------------------- MODULE OperatorsPoly ----------------------------
(* C02 from the analytic side: "the spectral operators agree with the analytic derivatives of the
   synthesised function".  For a field given as a polynomial on the sphere (SpherePoly.tla) the
   analytic derivatives are polynomials again:

     d/dlon f                    = x f_y - y f_x
     cos(lat) d/dlat f           = (x^2 + y^2) f_z - z (x f_x + y f_y)
     sec(lat) d/dlat (cos^2 f)   = cos(lat) d/dlat f - 2 z f
     Laplacian f                 = Lap f / a^2,   its inverse on zero-mean harmonics = - a^2 f / (l (l + 1))
     cos(lat) grad f             = (d/dlon f, cos(lat) d/dlat f) / a
     div (cos(lat) v) / cos^2    and   curl: through the velocity of (psi, chi)

   One action per operator; the exported polynomials are compared at every grid node with the nodal
   values of the spectral operators of the real Grid applied to the analysed field.  This oracle is
   independent of the coefficient tables of SpectralAlgebra.tla (which decide every basis label);
   the two must agree in the code.  Design-level checks: the three-term identities
   curl grad = 0, div grad = Laplacian, commutation of d/dlon with the meridional operators. *)
EXTENDS SpherePoly, TLC, Json

VARIABLES cfg, pc, res
vars == <<cfg, pc, res>>

HH == Harmonics
Fields == << PAdd(HH.z, HH.xy), PAdd(HH.x, PScale(<<1, 2>>, HH.yz)), HH.x2y2, PAdd(HH.z20, HH.y),
             PAdd(HH.xyz, HH.xz), PAdd(PConst(<<3, 1>>), PAdd(HH.xz, PScale(<<-1, 3>>, HH.x2y2))) >>
Degrees == <<2, 2, 2, 2, 3, 2>>
Radii == {One, <<2, 1>>, <<1, 2>>}

Init == /\ \E i \in 1..Len(Fields) : \E a \in Radii : cfg = [f |-> i, a |-> a]
        /\ pc = "first" /\ res = <<>>
F == Fields[cfg.f]
DLon(f) == PSub(PMul(PX, PD(f, 2)), PMul(PY, PD(f, 1)))
CosDLat(f) == PSub(PMul(PAdd(PMul(PX, PX), PMul(PY, PY)), PD(f, 3)),
                   PMul(PZ, PAdd(PMul(PX, PD(f, 1)), PMul(PY, PD(f, 2)))))
SecDLatCos2(f) == PSub(CosDLat(f), PScale(<<2, 1>>, PMul(PZ, f)))
InvA == RInv(cfg.a)
InvA2 == RMul(InvA, InvA)
First == /\ pc = "first"
         /\ res' = [dlon |-> DLon(F), cosdlat |-> CosDLat(F), secdlatcos2 |-> SecDLatCos2(F)]
         /\ pc' = "second" /\ UNCHANGED cfg
Second == /\ pc = "second"
          /\ res' = [dlon |-> res.dlon, cosdlat |-> res.cosdlat, secdlatcos2 |-> res.secdlatcos2,
                     laplacian |-> PScale(InvA2, Lap(F)),
                     gradu |-> PScale(InvA, res.dlon), gradv |-> PScale(InvA, res.cosdlat)]
          /\ pc' = "done" /\ UNCHANGED cfg
Next == First \/ Second
Spec == Init /\ [][Next]_vars
Done == pc = "done"

(* cos^2(lat) times the surface Laplacian, assembled from the two first-order operators:
   cos^2 Lap f = d2/dlon2 f + cos d/dlat (cos d/dlat f) *)
Cos2 == PAdd(PMul(PX, PX), PMul(PY, PY))
LaplacianFromFirstOrder == Done =>
   PMul(Cos2, Lap(F)) = PAdd(DLon(DLon(F)), CosDLat(CosDLat(F)))
Commute == Done => DLon(CosDLat(F)) = CosDLat(DLon(F))
(* curl grad = 0 in terms of the code's operators: d/dlon (cos d/dlat f) - sec d/dlat cos^2 ( d/dlon f / cos^2 ... )
   is stated through the Jacobian: Jac(f, f) = 0 *)
CurlGradZero == Done => Jac(F, F) = PZero
(* Gauss / Stokes: the Laplacian and the longitude derivative of any field have zero global mean; harmonics
   of different degree are orthogonal (the mean of the field is its constant part) *)
ZeroMeans == Done => Mean(Lap(F)) = Zero /\ Mean(DLon(F)) = Zero /\ Mean(SecDLatCos2(F)) = Zero

Export == Done => PrintT(<<"CASE", ToJson([f |-> PJson(F), a |-> cfg.a, degree |-> Degrees[cfg.f],
    dlon |-> PJson(res.dlon), cosdlat |-> PJson(res.cosdlat), secdlatcos2 |-> PJson(res.secdlatcos2),
    laplacian |-> PJson(res.laplacian), gradu |-> PJson(res.gradu), gradv |-> PJson(res.gradv),
    mean |-> Mean(F), mean_square |-> Mean(PMul(F, F))])>>)
=============================================================================
