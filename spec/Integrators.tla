----------------------------- MODULE Integrators -----------------------------
(* The IMEX time integrators of time_integration.py as *stage programs*: sequences of
   instructions
       F    dst := explicit_terms(src)
       G    dst := implicit_terms(src)
       Ginv dst := implicit_inverse(src, eta*dt)
       Lin  dst := sum_k  c_k * dt^{p_k} * reg_k
   generated from the coefficient sets exactly as the Python loops generate the calls (same
   order, same skipping of unused stages).  One machine, three interpretations (dom):

     "cplx"    linear test problem  F u = lam u,  G u = mu u  over complex rationals: the
               register holds the exact amplification factor                (replayed in code)
     "series"  the same problem with x = dt*lam, y = dt*mu as formal variables: registers are
               bivariate power series truncated at total degree P       (order / reductions)
     "tableau" G = 0, F nonlinear: registers are linear combinations of u0 and the stage
               derivatives F_1..F_s; yields the Butcher tableau (A, b, c) of the explicit
               method                                     (order conditions for nonlinear F)

   Every register also carries its dt-degree (0 for state-like, -1 for tendency-like
   values); DtHomogeneous says every linear combination is dimensionally consistent. *)
EXTENDS Integers, Sequences, FiniteSets, TLC, Json, Exact, IntegratorPrograms

CONSTANTS P            \* truncation degree of the series domain

-----------------------------------------------------------------------------
-----------------------------------------------------------------------------
(* value domains *)
CZero == <<Zero, Zero>>
COne == <<One, Zero>>
CAdd(a, b) == <<RAdd(a[1], b[1]), RAdd(a[2], b[2])>>
CMul(a, b) == <<RSub(RMul(a[1], b[1]), RMul(a[2], b[2])), RAdd(RMul(a[1], b[2]), RMul(a[2], b[1]))>>
CScale(q, a) == <<RMul(q, a[1]), RMul(q, a[2])>>
CInv(a) == LET n2 == RAdd(RMul(a[1], a[1]), RMul(a[2], a[2]))
           IN  <<RDiv(a[1], n2), RNeg(RDiv(a[2], n2))>>
CAbs2(a) == RAdd(RMul(a[1], a[1]), RMul(a[2], a[2]))

Idx == {ij \in (0..P) \X (0..P) : ij[1] + ij[2] <= P}
SZero == [ij \in Idx |-> Zero]
SOne == [ij \in Idx |-> IF ij = <<0, 0>> THEN One ELSE Zero]
SAdd(a, b) == [ij \in Idx |-> RAdd(a[ij], b[ij])]
SScale(q, a) == [ij \in Idx |-> RMul(q, a[ij])]
SShiftX(a) == [ij \in Idx |-> IF ij[1] >= 1 THEN a[<<ij[1] - 1, ij[2]>>] ELSE Zero]
SShiftY(a) == [ij \in Idx |-> IF ij[2] >= 1 THEN a[<<ij[1], ij[2] - 1>>] ELSE Zero]
(* a / (1 - e*y) = sum_k (e y)^k a *)
SGeom(a, e) == [ij \in Idx |-> RSum([k \in 0..ij[2] |-> RMul(RPow(e, k), a[<<ij[1], ij[2] - k>>])], 0, ij[2])]
RECURSIVE Fact(_)
Fact(n) == IF n = 0 THEN 1 ELSE n * Fact(n - 1)
(* exp(s*(x+y)) : coefficient of x^i y^j is s^(i+j) / (i! j!) *)
SExp(s) == [ij \in Idx |-> <<s ^ (ij[1] + ij[2]), Fact(ij[1]) * Fact(ij[2])>>]
SExpN(s) == [ij \in Idx |-> Norm(SExp(s)[ij][1], SExp(s)[ij][2])]

MaxStages == 5
TZero == [k \in 0..MaxStages |-> Zero]            \* index 0: coefficient of u0; k: coefficient of F_k
TUnit(k) == [q \in 0..MaxStages |-> IF q = k THEN One ELSE Zero]
TAdd(a, b) == [k \in 0..MaxStages |-> RAdd(a[k], b[k])]
TScale(q, a) == [k \in 0..MaxStages |-> RMul(q, a[k])]

-----------------------------------------------------------------------------
VARIABLES cfg,     \* [ig, dom, alpha, lam, mu, dt]
          pc,      \* index of the next instruction
          regs,    \* register -> value
          deg,     \* register -> dt-degree (0 state-like, -1 tendency-like)
          calls,   \* the sequence of F/G/Ginv calls made so far (kind, eta in units of dt)
          nF,      \* tableau domain: number of F evaluations so far
          A        \* tableau domain: rows of the Butcher matrix, one per F evaluation
vars == <<cfg, pc, regs, deg, calls, nF, A>>

(* Only dt*lam and dt*mu matter.  dt is a multiple of 12 so that the implicit stage weights of
   every scheme (1/2; 1/6, 5/24, 1/8; 1/6, 1/3, 1/4) times dt are integers and the rationals
   stay small (TLC integers are 32 bit; an overflow is an error, never a wrong verdict). *)
Dts == {<<12, 1>>, <<24, 1>>}
Lams == {CZero, << <<1, 24>>, Zero >>, << <<-1, 12>>, Zero >>, << Zero, <<1, 12>> >>}
Mus == {CZero, << <<-1, 12>>, Zero >>, << <<-1, 4>>, Zero >>, << Zero, <<1, 12>> >>,
        << <<-1, 12>>, <<-1, 12>> >>}
CplxConfigs == {c \in [ig : Integrators, dom : {"cplx"}, alpha : LeapfrogAlphas,
                        lam : Lams, mu : Mus, dt : Dts] :
                  c.lam[2] = Zero \/ c.mu[2] = Zero}
OtherConfigs == [ig : Integrators, dom : {"series", "tableau"}, alpha : LeapfrogAlphas,
                 lam : {CZero}, mu : {CZero}, dt : {One}]
Configs == {c \in CplxConfigs \cup OtherConfigs : c.ig = "leapfrog" \/ c.alpha = <<1, 2>>}

ZeroOf(dom) == CASE dom = "cplx" -> CZero [] dom = "series" -> SZero [] dom = "tableau" -> TZero
U0Of(dom) == CASE dom = "cplx" -> COne [] dom = "series" -> SOne [] dom = "tableau" -> TUnit(0)
(* leapfrog starts from the exact solution at t - dt and t:  prev = exp(-(x+y)), cur = 1;
   in the cplx domain from (prev, cur) = (1, 1/2 + i) *)
PrevOf(dom) == CASE dom = "cplx" -> COne [] dom = "series" -> SExpN(-1) [] dom = "tableau" -> TUnit(0)
CurOf(dom) == CASE dom = "cplx" -> << <<1, 2>>, One >> [] dom = "series" -> SOne [] dom = "tableau" -> TUnit(0)

InitRegs(c) == IF c.ig = "leapfrog"
               THEN [r \in {"prev", "cur"} |-> IF r = "prev" THEN PrevOf(c.dom) ELSE CurOf(c.dom)]
               ELSE [r \in {"u", "h"} |-> IF r = "u" THEN U0Of(c.dom) ELSE ZeroOf(c.dom)]
InitDeg(c) == IF c.ig = "leapfrog" THEN [r \in {"prev", "cur"} |-> 0]
              ELSE [r \in {"u", "h"} |-> IF r = "u" THEN 0 ELSE -1]

Init == /\ cfg \in Configs
        /\ pc = 1 /\ regs = InitRegs(cfg) /\ deg = InitDeg(cfg)
        /\ calls = <<>> /\ nF = 0 /\ A = <<>>

Prog == Program(cfg.ig, cfg.alpha)
Instr == Prog[pc]
Set(f, k, v) == [x \in DOMAIN f \cup {k} |-> IF x = k THEN v ELSE f[x]]

DT == <<cfg.dt, Zero>>
FVal(v) == CASE cfg.dom = "cplx" -> CMul(cfg.lam, v)
             [] cfg.dom = "series" -> SShiftX(v)               \* dt * F(v), dt absorbed
             [] cfg.dom = "tableau" -> TUnit(nF + 1)
GVal(v) == CASE cfg.dom = "cplx" -> CMul(cfg.mu, v)
             [] cfg.dom = "series" -> SShiftY(v)
             [] cfg.dom = "tableau" -> TZero
GinvVal(v, e) == CASE cfg.dom = "cplx" ->
                        CMul(v, CInv(CAdd(COne, CScale(RNeg(RMul(e, cfg.dt)), cfg.mu))))
                   [] cfg.dom = "series" -> SGeom(v, e)
                   [] cfg.dom = "tableau" -> v
TermVal(t) == CASE cfg.dom = "cplx" ->
                     CScale(IF t.dt = 1 THEN RMul(t.c, cfg.dt) ELSE t.c, regs[t.r])
                [] cfg.dom = "series" -> SScale(t.c, regs[t.r])
                [] cfg.dom = "tableau" -> TScale(t.c, regs[t.r])
RECURSIVE SumTerms(_)
SumTerms(ts) == IF ts = <<>> THEN ZeroOf(cfg.dom)
                ELSE LET rest == SumTerms(Tail(ts))
                         v == TermVal(Head(ts))
                     IN  CASE cfg.dom = "cplx" -> CAdd(v, rest) [] cfg.dom = "series" -> SAdd(v, rest)
                           [] cfg.dom = "tableau" -> TAdd(v, rest)

ExecF == /\ pc <= Len(Prog) /\ Instr.op = "F"
         /\ regs' = Set(regs, Instr.dst, FVal(regs[Instr.src]))
         /\ deg' = Set(deg, Instr.dst, deg[Instr.src] - 1)
         /\ calls' = Append(calls, [k |-> "F", eta |-> Zero])
         /\ nF' = nF + 1
         /\ A' = IF cfg.dom = "tableau" THEN Append(A, regs[Instr.src]) ELSE A
         /\ pc' = pc + 1 /\ UNCHANGED cfg
ExecG == /\ pc <= Len(Prog) /\ Instr.op = "G"
         /\ regs' = Set(regs, Instr.dst, GVal(regs[Instr.src]))
         /\ deg' = Set(deg, Instr.dst, deg[Instr.src] - 1)
         /\ calls' = Append(calls, [k |-> "G", eta |-> Zero])
         /\ pc' = pc + 1 /\ UNCHANGED <<cfg, nF, A>>
ExecGinv == /\ pc <= Len(Prog) /\ Instr.op = "Ginv"
            /\ regs' = Set(regs, Instr.dst, GinvVal(regs[Instr.src], Instr.eta))
            /\ deg' = Set(deg, Instr.dst, deg[Instr.src])
            /\ calls' = Append(calls, [k |-> "Ginv", eta |-> Instr.eta])
            /\ pc' = pc + 1 /\ UNCHANGED <<cfg, nF, A>>
ExecLin == /\ pc <= Len(Prog) /\ Instr.op = "Lin"
           /\ regs' = Set(regs, Instr.dst, SumTerms(Instr.terms))
           /\ deg' = Set(deg, Instr.dst, deg[Instr.terms[1].r] + Instr.terms[1].dt)
           /\ pc' = pc + 1 /\ UNCHANGED <<cfg, calls, nF, A>>
Next == ExecF \/ ExecG \/ ExecGinv \/ ExecLin
Spec == Init /\ [][Next]_vars

-----------------------------------------------------------------------------
Done == pc = Len(Prog) + 1
Out == regs["out"]

(* every linear combination adds values of equal dt-degree; the result is state-like *)
DtHomogeneous ==
  /\ (pc <= Len(Prog) /\ Instr.op = "Lin") =>
        \A q \in 1..Len(Instr.terms) :
           deg[Instr.terms[q].r] + Instr.terms[q].dt = deg[Instr.terms[1].r] + Instr.terms[1].dt
  /\ Done => deg["out"] = 0

(* -- series domain: one step reproduces exp(x + y) up to the design order --------------- *)
MatchesExp(s, order) == \A ij \in Idx : ij[1] + ij[2] <= order => s[ij] = SExpN(1)[ij]
MatchesExpExplicitOnly(s, order) == \A ij \in Idx : (ij[2] = 0 /\ ij[1] <= order) => s[ij] = SExpN(1)[ij]
DesignOrder(ig) == CASE ig = "euler" -> 1 [] ig = "cnrk2" -> 2 [] ig = "rk3" -> 2 [] ig = "sil3" -> 2
                     [] ig = "leapfrog" -> 2
ExplicitOrder(ig) == CASE ig = "euler" -> 1 [] ig = "cnrk2" -> 2 [] ig = "rk3" -> 3 [] ig = "sil3" -> 3
                       [] ig = "leapfrog" -> 2
(* the leapfrog is second-order consistent when centred (alpha = 1/2); off-centring the
   implicit average costs one order in the implicit part only *)
OrderOK == (Done /\ cfg.dom = "series") =>
             /\ MatchesExp(Out, IF cfg.ig = "leapfrog" /\ cfg.alpha # <<1, 2>> THEN 1
                                ELSE DesignOrder(cfg.ig))
             /\ MatchesExpExplicitOnly(Out, ExplicitOrder(cfg.ig))
(* and not more than claimed (guards against a vacuous series domain) *)
OrderSharp == (Done /\ cfg.dom = "series" /\ cfg.ig = "euler") => ~MatchesExp(Out, 2)
(* reductions: with y = 0 the result is the explicit method's stability polynomial, with
   x = 0 the implicit method's stability function *)
ImplicitReduction == (Done /\ cfg.dom = "series") =>
   (cfg.ig = "euler" => \A j \in 0..P : Out[<<0, j>>] = One)                    \* 1/(1-y)
   /\ (cfg.ig = "cnrk2" => \A j \in 1..P : Out[<<0, j>>] = <<1, 2 ^ (j - 1)>>)  \* (1+y/2)/(1-y/2)

(* -- tableau domain: order conditions for nonlinear F (G = 0) ---------------------------- *)
S == nF
Bv == [k \in 1..S |-> Out[k]]
Am == [i \in 1..S |-> [j \in 1..S |-> A[i][j]]]
Cv == [i \in 1..S |-> RSum(Am[i], 1, S)]
SumB == RSum(Bv, 1, S)
BC == RSum([i \in 1..S |-> RMul(Bv[i], Cv[i])], 1, S)
BC2 == RSum([i \in 1..S |-> RMul(Bv[i], RMul(Cv[i], Cv[i]))], 1, S)
BAC == RSum([i \in 1..S |-> RMul(Bv[i], RSum([j \in 1..S |-> RMul(Am[i][j], Cv[j])], 1, S))], 1, S)
TableauOK == (Done /\ cfg.dom = "tableau" /\ cfg.ig # "leapfrog") =>
   /\ \A i \in 1..S : A[i][0] = One /\ \A j \in i..S : Am[i][j] = Zero       \* explicit, consistent
   /\ Out[0] = One /\ SumB = One
   /\ (cfg.ig \in {"cnrk2", "rk3", "sil3"} => BC = <<1, 2>>)
   /\ (cfg.ig \in {"rk3", "sil3"} => BAC = <<1, 6>>)
   /\ (cfg.ig = "rk3" => BC2 = <<1, 3>>)
(* SIL3 is third order for linear F only: the bushy-tree condition does not hold *)
Sil3BushyFails == (Done /\ cfg.dom = "tableau" /\ cfg.ig = "sil3") => BC2 = <<7, 18>>

(* -- cplx domain ------------------------------------------------------------------------- *)
(* purely implicit dynamics (lam = 0) with Re(mu) <= 0 is never amplified.
(TLC integers are 32 bit, so the squared modulus is formed here only when the factor is
   real; for complex factors the harness evaluates |Out|^2 <= 1 exactly from the exported
   rationals with unbounded integers.) *)
AStable == (Done /\ cfg.dom = "cplx" /\ cfg.lam = CZero /\ cfg.ig # "leapfrog" /\ Out[2] = Zero) =>
             RLe(RAbs(Out[1]), One)
(* explicit reduction: mu = 0 gives the explicit method's stability polynomial in z = dt*lam *)
Z == CScale(cfg.dt, cfg.lam)
RECURSIVE CPow(_, _)
CPow(z, k) == IF k = 0 THEN COne ELSE CMul(z, CPow(z, k - 1))
Poly(n) == LET RECURSIVE Acc(_)
               Acc(k) == IF k > n THEN CZero ELSE CAdd(CScale(<<1, Fact(k)>>, CPow(Z, k)), Acc(k + 1))
           IN  Acc(0)
ExplicitReduction == (Done /\ cfg.dom = "cplx" /\ cfg.mu = CZero /\ cfg.ig # "leapfrog") =>
   Out = Poly(ExplicitOrder(cfg.ig))

Export == (Done /\ cfg.dom = "cplx") =>
   PrintT(<<"CASE", ToJson([ig |-> cfg.ig, alpha |-> cfg.alpha, lam |-> cfg.lam, mu |-> cfg.mu,
                            dt |-> cfg.dt, out |-> Out, calls |-> calls])>>)
=============================================================================
