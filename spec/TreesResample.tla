---------------------------- MODULE TreesResample ----------------------------
(* coordinate_systems.get_spectral_interpolate_fn / get_spectral_upsample_fn /
   get_spectral_downsample_fn: resampling of spectral coefficients between two grids by zero
   padding / prefix slicing of the two trailing (modal) axes.

   Coefficients are identified by *labels* <<m, l, s>> (zonal wavenumber, total wavenumber, phase
   "c"/"s") -- the real spherical harmonic they multiply, which is a function on the sphere that
   does not depend on the grid.  The layouts (label -> row, column), modal shapes and masks are
   those of SpectralIndex.tla (validated there against the code by C01).  "Up-sampling
   represents the same function on the finer grid" is: every source label sits, after padding,
   at the position the *target* layout assigns to the same label, and every other target position
   is zero.  "Up then down is the identity" is a statement about the index maps.

   Actions: Choose (get_spectral_interpolate_fn picks up / down or raises), Apply (the chosen
   function on a full set of unit labels), Return (for "up": the down-sampling function of the
   reversed pair applied to the result). *)
EXTENDS Integers, Sequences, FiniteSets, TLC, Json

CONSTANTS MaxM, DLs, Mults   \* Mults: 0 = RealSphericalHarmonics, k > 0 = Fast with base multiple k

VARIABLES cfg, pc, choice, image, returned
vars == <<cfg, pc, choice, image, returned>>

RoundUp(x, k) == ((x + k - 1) \div k) * k
GridsOf == {[M |-> M, L |-> M + d] : M \in 1..MaxM, d \in DLs}
Configs == [src : GridsOf, dst : GridsOf, mult : Mults,
            vertical : {"same", "different", "different_allowed"}]

Labels(g) == {<<m, l, s>> \in (0..g.M - 1) \X (0..g.L - 1) \X {"c", "s"} : m <= l /\ (s = "s" => m > 0)}
Row(mult, m, s) == IF mult = 0 THEN (IF m = 0 THEN 0 ELSE IF s = "c" THEN 2 * m - 1 ELSE 2 * m)
                   ELSE (IF s = "c" THEN 2 * m ELSE 2 * m + 1)
PosOf(mult, lab) == <<Row(mult, lab[1], lab[3]), lab[2]>>
ModalShape(g, mult) == IF mult = 0 THEN <<2 * g.M - 1, g.L>>
                       ELSE <<RoundUp(2 * g.M, 2 * mult), RoundUp(g.L, mult)>>
(* the label a target position holds (inverse layout), "none" for the dead row / padding *)
LabelAt(g, mult, pos) == IF \E lab \in Labels(g) : PosOf(mult, lab) = pos
                         THEN CHOOSE lab \in Labels(g) : PosOf(mult, lab) = pos ELSE <<-1, -1, "none">>

Init == /\ cfg \in Configs /\ pc = "new" /\ choice = "" /\ image = <<>> /\ returned = <<>>

S == cfg.src
T == cfg.dst
VerticalBad == cfg.vertical = "different"
(* the documented decision: strictly finer in both wavenumbers -> up; coarser or equal in both
   -> down; anything else is incompatible *)
Decision == IF S.L < T.L /\ S.M < T.M THEN "up"
            ELSE IF S.L >= T.L /\ S.M >= T.M THEN "down" ELSE "incompatible"
Choose == /\ pc = "new"
          /\ choice' = IF Decision = "incompatible" \/ VerticalBad THEN "ValueError" ELSE Decision
          /\ pc' = IF Decision = "incompatible" \/ VerticalBad THEN "done" ELSE "chosen"
          /\ UNCHANGED <<cfg, image, returned>>
(* where each unit source label ends up; "dropped" when the slice cuts it off *)
Inside(pos, shape) == pos[1] < shape[1] /\ pos[2] < shape[2]
Apply == /\ pc = "chosen"
         /\ image' = [lab \in Labels(S) |->
                        LET pos == PosOf(cfg.mult, lab)
                        IN  IF choice = "up" \/ Inside(pos, ModalShape(T, cfg.mult)) THEN pos ELSE <<-1, -1>>]
         /\ pc' = IF choice = "up" THEN "applied" ELSE "done"
         /\ UNCHANGED <<cfg, choice, returned>>
Return == /\ pc = "applied"
          /\ returned' = [lab \in Labels(S) |->
                            IF Inside(image[lab], ModalShape(S, cfg.mult)) THEN image[lab] ELSE <<-1, -1>>]
          /\ pc' = "done" /\ UNCHANGED <<cfg, choice, image>>
Next == Choose \/ Apply \/ Return
Spec == Init /\ [][Next]_vars

-----------------------------------------------------------------------------
Applied == pc \in {"applied", "done"} /\ choice \in {"up", "down"}
(* same function on the finer grid: the target layout reads the source label at its new place *)
UpKeepsLabels == (Applied /\ choice = "up") => \A lab \in Labels(S) :
   /\ Inside(image[lab], ModalShape(T, cfg.mult))
   /\ LabelAt(T, cfg.mult, image[lab]) = lab
UpFits == choice = "up" => /\ ModalShape(S, cfg.mult)[1] <= ModalShape(T, cfg.mult)[1]
                           /\ ModalShape(S, cfg.mult)[2] <= ModalShape(T, cfg.mult)[2]
(* truncation: every label the target grid has is kept in place, with its meaning *)
DownKeepsCommonLabels == (Applied /\ choice = "down") => \A lab \in Labels(S) \cap Labels(T) :
   /\ image[lab] = PosOf(cfg.mult, lab)
   /\ LabelAt(T, cfg.mult, image[lab]) = lab
UpDownIdentity == (pc = "done" /\ choice = "up") => \A lab \in Labels(S) : returned[lab] = PosOf(cfg.mult, lab)
DecisionTotal == pc = "done" => choice \in {"up", "down", "ValueError"}

LabSeq == LET RECURSIVE Conv(_)
              Conv(Q) == IF Q = {} THEN <<>> ELSE LET p == CHOOSE q \in Q : TRUE IN <<p>> \o Conv(Q \ {p})
          IN  Conv(Labels(S))
Export == pc = "done" =>
  PrintT(<<"CASE", ToJson([src |-> S, dst |-> T, mult |-> cfg.mult, vertical |-> cfg.vertical,
     choice |-> choice,
     src_shape |-> ModalShape(S, cfg.mult), dst_shape |-> ModalShape(T, cfg.mult),
     labels |-> IF choice = "ValueError" THEN <<>> ELSE
                [q \in 1..Len(LabSeq) |->
                   [m |-> LabSeq[q][1], l |-> LabSeq[q][2], s |-> LabSeq[q][3],
                    from |-> PosOf(cfg.mult, LabSeq[q]), to |-> image[LabSeq[q]],
                    in_target |-> LabSeq[q] \in Labels(T)]]])>>)
=============================================================================
