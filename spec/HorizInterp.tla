----------------------------- MODULE HorizInterp -----------------------------
(* BilinearRegridder / NearestRegridder of dinosaur/horizontal_interpolation.py, as far as the
   property speaks about them: constants are reproduced between all grid pairs, and regridding
   between equal grids is the identity.

   A grid is [lon |-> I, lat |-> J, sp |-> spacing, off |-> o]: I equispaced longitudes
   (k + o/2) / I (in turns), J latitudes.  For the two equiangular spacings the latitudes are
   rational multiples of pi and the separable bilinear weight tables are computed exactly with
   the interpolation operators of InterpOps (jnp.interp along each axis, constant beyond the
   ends); Gauss latitudes are irrational and are only used through what holds for every
   strictly increasing node set (a surrogate placement, flagged as such).

   Nearest neighbour: the source node at distance zero is the nearest one.  On an
   `equiangular_with_poles` grid all longitudes of a pole row are the same point of the sphere,
   so which of them is returned is a tie the property does not decide: the identity is asserted
   only where the coincident source node is unique (nearmask). *)
EXTENDS Integers, Sequences, FiniteSets, TLC, Json, InterpOps

CONSTANTS LonNodes, LatNodes, Spacings

VARIABLES src, tgt, pc, bil, near
vars == <<src, tgt, pc, bil, near>>

Grids == [lon : LonNodes, lat : LatNodes, sp : Spacings, off : {0, 1, 2}]
(* twins: the same nodes rotated about the axis by a different number of half cells *)
Twins(s, t) == s.lon = t.lon /\ s.lat = t.lat /\ s.sp = t.sp /\ s.off # t.off
PairOk(s, t) == \/ s = t
                \/ Twins(s, t)
                \/ /\ s.off = 0 /\ t.off = 0
                   /\ (s.sp = t.sp \/ (s.lon = t.lon /\ s.lat = t.lat))

(* coordinates: longitude in turns, latitude in units of pi *)
Lon(gr) == [k \in 1..gr.lon |-> Norm(2 * (k - 1) + gr.off, 2 * gr.lon)]
Rational(gr) == gr.sp # "gauss"
Lat(gr) == [j \in 1..gr.lat |->
              IF gr.sp = "equiangular" THEN RSub(Norm(2 * j - 1, 2 * gr.lat), <<1, 2>>)
              ELSE IF gr.sp = "equiangular_with_poles"
                   THEN (IF gr.lat = 1 THEN <<-1, 2>> ELSE RSub(Norm(j - 1, gr.lat - 1), <<1, 2>>))
              ELSE R(j)]                                  \* surrogate placement (gauss)
IsPole(gr, j) == Rational(gr) /\ RAbs(Lat(gr)[j]) = <<1, 2>>

(* separable weight tables of the bilinear regridder: rows = target nodes *)
AxisTable(sn, tn) == [t \in 1..Len(tn) |-> DotWeights(sn, tn[t], TRUE)]
Stochastic(tab) == \A t \in DOMAIN tab :
    /\ RSum(tab[t], 1, Len(tab[t])) = One
    /\ \A s \in DOMAIN tab[t] : RLe(Zero, tab[t][s]) /\ RLe(tab[t][s], One)
IsIdentity(tab) == \A t \in DOMAIN tab : \A s \in DOMAIN tab[t] :
    tab[t][s] = (IF s = t THEN One ELSE Zero)

NoShift == 99
(* source nodes that are the same point of the sphere as target node (i, j); equal grids only *)
Coincident(gr, i, j) == {p \in (1..gr.lon) \X (1..gr.lat) :
                           p[2] = j /\ (p[1] = i \/ IsPole(gr, j))}

Init == /\ src \in Grids /\ tgt \in Grids /\ PairOk(src, tgt)
        /\ pc = "bilinear" /\ bil = <<>> /\ near = <<>>

(* BilinearRegridder(src, tgt)(field) *)
Bilinear ==
  /\ pc = "bilinear"
  /\ bil' = [const |-> TRUE, identity |-> src = tgt,
             lonw |-> IF src.lon >= 2 THEN AxisTable(Lon(src), Lon(tgt)) ELSE <<>>,
             latw |-> IF src.lat >= 2 /\ ((Rational(src) /\ Rational(tgt)) \/ src = tgt)
                      THEN AxisTable(Lat(src), Lat(tgt)) ELSE <<>>]
  /\ pc' = "nearest" /\ UNCHANGED <<src, tgt, near>>
(* NearestRegridder(src, tgt)(field) *)
Nearest ==
  /\ pc = "nearest"
  /\ near' = [const |-> TRUE, selection |-> TRUE,
              (* twins a whole number of cells apart: target node i coincides with source node i + shift;
                 half a cell apart the two neighbours tie (NoShift: unspecified) *)
              shift |-> IF src = tgt THEN 0
                        ELSE IF Twins(src, tgt) /\ (tgt.off - src.off) % 2 = 0 THEN (tgt.off - src.off) \div 2
                        ELSE NoShift,
              mask |-> IF src = tgt \/ (Twins(src, tgt) /\ (tgt.off - src.off) % 2 = 0)
                       THEN [i \in 1..tgt.lon |-> [j \in 1..tgt.lat |->
                               IF Coincident(src, i, j) = {<<i, j>>} THEN 1 ELSE 0]]
                       ELSE [i \in 1..tgt.lon |-> [j \in 1..tgt.lat |-> 0]]]
  /\ pc' = "done" /\ UNCHANGED <<src, tgt, bil>>
Next == Bilinear \/ Nearest
Spec == Init /\ [][Next]_vars

-----------------------------------------------------------------------------
Done == pc = "done"
(* constants are reproduced: every row of both axis tables is a convex combination *)
BilinearReproducesConstants == Done => Stochastic(bil.lonw) /\ Stochastic(bil.latw)
(* equal grids: both tables are identity matrices *)
BilinearIdentityOnEqualGrids == (Done /\ src = tgt) => IsIdentity(bil.lonw) /\ IsIdentity(bil.latw)
(* equal grids: the zero-distance source node is unique except on pole rows *)
ShiftCoincides == (Done /\ near.shift # NoShift) => \A k \in 1..tgt.lon :
    LET kk == ((k - 1 + near.shift) % src.lon) + 1
        d == RSub(Lon(tgt)[k], Lon(src)[kk])
    IN  d = Zero \/ d = One \/ d = <<-1, 1>>                   \* the same longitude (mod one turn)
NearestIdentityWhereUnique == (Done /\ src = tgt) => \A i \in 1..tgt.lon : \A j \in 1..tgt.lat :
    /\ <<i, j>> \in Coincident(src, i, j)
    /\ near.mask[i][j] = 1 <=> ~(IsPole(src, j) /\ src.lon > 1)
AxesIncrease == StrictlyIncreasing(Lon(src)) /\ StrictlyIncreasing(Lat(src))

Export == Done =>
   PrintT(<<"CASE", ToJson([src |-> src, tgt |-> tgt, equal |-> src = tgt,
                            nearmask |-> near.mask, shift |-> near.shift])>>)
=============================================================================
