----------------------------- MODULE RegridVert -----------------------------
(* Conservative vertical regridding from hybrid sigma-pressure layers to sigma layers
   (vertical_interpolation.py: HybridCoordinates.get_sigma_boundaries, _interval_overlap,
   conservative_regrid_weights, regrid_hybrid_to_sigma), exactly, in rationals.

   A configuration is a hybrid coefficient set  a[i] (integers, pressure units), b[i] = bn[i]/BDen,
   a surface pressure sp (integer, same unit) and target sigma boundaries tn[j]/BDen.
   The source boundaries in sigma are  a[i]/sp + b[i]  and must be strictly increasing (the
   documented precondition of conservative_regrid_weights); the source range need not be
   [0, 1]: a[1] > 0 leaves the top of the target uncovered, a[K+1] > 0 pushes the lowest
   source layer below sigma = 1.

   One action per library call:
     SigmaBoundaries   HybridCoordinates.get_sigma_boundaries(sp)
     Overlap           _interval_overlap(source_bounds, target_bounds)
     Normalize         conservative_regrid_weights  (row normalisation)
     Regrid            regrid_hybrid_to_sigma applied to the integer column Field
   A target layer that does not meet the source range has no weights (the code returns 0/0);
   the property says nothing about it and the machine marks it "uncovered". *)
EXTENDS Integers, Sequences, FiniteSets, TLC, Json, Exact

CONSTANTS BDen,       \* common denominator of b coefficients and of target sigma boundaries
          AMax,       \* interior a coefficients range over 0..AMax
          SPs,        \* surface pressures
          MaxSrc,     \* max number of source (hybrid) layers
          MaxTgt      \* max number of target (sigma) layers

VARIABLES cfg,        \* [a, bn, sp, tn]
          pc,         \* "new" | "bounds" | "overlap" | "weights" | "done"
          sb,         \* source boundaries in sigma (Rat)
          ov,         \* ov[t][s] overlap lengths (Rat)
          w,          \* w[t][s] weights (Rat); row of an uncovered layer is <<>>
          out         \* out[t] for the column Field (Zero when uncovered)
vars == <<cfg, pc, sb, ov, w, out>>

-----------------------------------------------------------------------------
RECURSIVE IncSeqs(_, _, _), NonDecSeqs(_, _, _)
IncSeqs(n, lo, hi) == IF n = 0 THEN {<<>>}
                      ELSE UNION {{<<x>> \o s : s \in IncSeqs(n - 1, x + 1, hi)} : x \in lo..hi}
NonDecSeqs(n, lo, hi) == IF n = 0 THEN {<<>>}
                         ELSE UNION {{<<x>> \o s : s \in NonDecSeqs(n - 1, x, hi)} : x \in lo..hi}
(* hybrid coefficient sets with K layers: b from 0 to 1 non-decreasing; a free inside,
   0 or 1 at the two ends *)
ASeqs(K) == {<<x>> \o s \o <<y>> : x \in 0..1, y \in 0..1, s \in [1..K - 1 -> 0..AMax]}
BSeqs(K) == {<<0>> \o s \o <<BDen>> : s \in NonDecSeqs(K - 1, 0, BDen)}
TSeqs(K) == {<<0>> \o s \o <<BDen>> : s \in IncSeqs(K - 1, 1, BDen - 1)}

SigmaOf(a, bn, sp, i) == RAdd(Norm(a[i], sp), Norm(bn[i], BDen))
Increasing(a, bn, sp) == \A i \in 1..Len(a) - 1 : RLt(SigmaOf(a, bn, sp, i), SigmaOf(a, bn, sp, i + 1))

KS == Len(cfg.a) - 1
KT == Len(cfg.tn) - 1
TB(j) == Norm(cfg.tn[j], BDen)
Field(s) == ((s * s + 3 * s) % 7) - 2          \* 2, 1, 2, -2, 3, ...

-----------------------------------------------------------------------------
Init == /\ \E K \in 1..MaxSrc, J \in 1..MaxTgt :
             \E a \in ASeqs(K), bn \in BSeqs(K), sp \in SPs, tn \in TSeqs(J) :
                /\ Increasing(a, bn, sp)
                /\ cfg = [a |-> a, bn |-> bn, sp |-> sp, tn |-> tn]
        /\ pc = "new" /\ sb = <<>> /\ ov = <<>> /\ w = <<>> /\ out = <<>>

SigmaBoundaries ==
   /\ pc = "new"
   /\ sb' = [i \in 1..KS + 1 |-> SigmaOf(cfg.a, cfg.bn, cfg.sp, i)]
   /\ pc' = "bounds" /\ UNCHANGED <<cfg, ov, w, out>>

(* max(min(upper) - max(lower), 0) *)
Overlap ==
   /\ pc = "bounds"
   /\ ov' = [t \in 1..KT |-> [s \in 1..KS |->
                RMax(RSub(RMin(TB(t + 1), sb[s + 1]), RMax(TB(t), sb[s])), Zero)]]
   /\ pc' = "overlap" /\ UNCHANGED <<cfg, sb, w, out>>

RowSum(t) == RSum(ov[t], 1, KS)
ColSum(s) == RSum([t \in 1..KT |-> ov[t][s]], 1, KT)
Covered(t) == RowSum(t) # Zero

Normalize ==
   /\ pc = "overlap"
   /\ w' = [t \in 1..KT |-> IF Covered(t) THEN [s \in 1..KS |-> RDiv(ov[t][s], RowSum(t))]
                            ELSE <<>>]
   /\ pc' = "weights" /\ UNCHANGED <<cfg, sb, ov, out>>

Regrid ==
   /\ pc = "weights"
   /\ out' = [t \in 1..KT |-> IF Covered(t)
                              THEN RSum([s \in 1..KS |-> RMul(w[t][s], R(Field(s)))], 1, KS)
                              ELSE Zero]
   /\ pc' = "done" /\ UNCHANGED <<cfg, sb, ov, w>>

Next == SigmaBoundaries \/ Overlap \/ Normalize \/ Regrid
Spec == Init /\ [][Next]_vars

-----------------------------------------------------------------------------
(* the property *)
HasOv == pc \in {"overlap", "weights", "done"}
HasW == pc \in {"weights", "done"}
Done == pc = "done"
(* length of [lo, hi] /\ [l2, h2] computed independently of the pairwise overlaps *)
Meet(lo, hi, l2, h2) == RMax(RSub(RMin(hi, h2), RMax(lo, l2)), Zero)

(* the pairwise overlaps of one target layer add up to what the source range covers of it,
   and those of one source layer to what the target range covers of it (nothing is counted
   twice, nothing is lost) *)
RowMeasure == HasOv => \A t \in 1..KT : RowSum(t) = Meet(TB(t), TB(t + 1), sb[1], sb[KS + 1])
ColMeasure == HasOv => \A s \in 1..KS : ColSum(s) = Meet(sb[s], sb[s + 1], TB(1), TB(KT + 1))
NonNegative == HasW => \A t \in 1..KT : Covered(t) => \A s \in 1..KS : RLe(Zero, w[t][s])
RowsSumToOne == HasW => \A t \in 1..KT : Covered(t) => RSum(w[t], 1, KS) = One
ConstantsReproduced == HasW => \A t \in 1..KT : Covered(t) => \A c \in {<<1, 1>>, <<-3, 2>>} :
    RSum([s \in 1..KS |-> RMul(w[t][s], c)], 1, KS) = c
Support(t) == {s \in 1..KS : w[t][s] # Zero}
WithinRange == Done => \A t \in 1..KT : Covered(t) =>
    /\ \E s \in Support(t) : RLe(R(Field(s)), out[t])
    /\ \E s \in Support(t) : RLe(out[t], R(Field(s)))
(* thickness-weighted integral over the covered range *)
ThicknessConservation == Done =>
    RSum([t \in 1..KT |-> RMul(RowSum(t), out[t])], 1, KT)
      = RSum([s \in 1..KS |-> RMul(ColSum(s), R(Field(s)))], 1, KS)
(* when the source covers the whole column the plain sigma integral is conserved *)
FullColumn == (Done /\ sb[1] = Zero /\ sb[KS + 1] = One) =>
    RSum([t \in 1..KT |-> RMul(RSub(TB(t + 1), TB(t)), out[t])], 1, KT)
      = RSum([s \in 1..KS |-> RMul(RSub(sb[s + 1], sb[s]), R(Field(s)))], 1, KS)
IdenticalIsIdentity == (HasW /\ KS = KT /\ \A i \in 1..KS + 1 : sb[i] = TB(i)) =>
    \A t \in 1..KT : \A s \in 1..KS : w[t][s] = (IF s = t THEN One ELSE Zero)

Export == Done =>
   PrintT(<<"CASE", ToJson([kind |-> "vert", a |-> cfg.a, bn |-> cfg.bn, bden |-> BDen,
                            sp |-> cfg.sp, tn |-> cfg.tn, sb |-> sb,
                            covered |-> [t \in 1..KT |-> Covered(t)],
                            w |-> w, field |-> [s \in 1..KS |-> Field(s)], out |-> out])>>)
=============================================================================
