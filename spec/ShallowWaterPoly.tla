-------------------------- MODULE ShallowWaterPoly --------------------------
(* C05, first clause, for the layered shallow-water equations on NON-zonal, UNBALANCED states:
   "the total tendency equals a pointwise evaluation of the continuous equations".

   State: per layer a stream function psi, a velocity potential chi and a geopotential deviation
   phi, each a combination of spherical harmonics of degree <= 2 written as polynomials on the
   sphere (SpherePoly.tla); optional orography; rotation rate Omega, radius a, reference
   potentials, densities.  The continuous equations (explicit + implicit halves of the code
   together), with A = zeta + 2 Omega z the absolute vorticity and u = grad chi + r x grad psi:

     d zeta / dt = - div(A u)
     d delta/ dt =   curl(A u) - Lap( P + |u|^2 / 2 ),   P[a] = sum_b C[a][b] phi[b] + orography
     d phi  / dt = - div(phi u) - phibar delta                      C[a][b] = 1 (b = a or below), rho[b]/rho[a] (b above a)

   are evaluated exactly, one action per equation; the resulting polynomials are exported and
   compared pointwise, at every grid node, with explicit_terms + implicit_terms of the real
   ShallowWaterEquations fed with the same fields (quadratically truncated grids: alias free).

   Design-level checks on the machine itself: the basis fields are eigenfunctions of the surface
   Laplacian, the vorticity and divergence tendencies have zero global mean for every state
   (Stokes / Gauss: they are a curl and a divergence), and a resting state over orography only
   feels the orography. *)
EXTENDS SpherePoly, TLC, Json

CONSTANTS Layers          \* 1 or 2

VARIABLES cfg, pc, diag, tend
vars == <<cfg, pc, diag, tend>>

(* menus of fields: small integer combinations of one or two harmonics *)
H == Harmonics
PsiMenu == << PZero, H.z, PAdd(H.x, PScale(<<1, 2>>, H.yz)), PAdd(H.xy, H.z), H.x2y2 >>
ChiMenu == << PZero, H.y, PAdd(H.xz, PScale(<<-1, 1>>, H.z)), H.z20 >>
PhiMenu == << PZero, PAdd(H.x, H.z), PAdd(H.yz, PScale(<<1, 2>>, H.x2y2)) >>
OroMenu == << PZero, PAdd(H.xz, PScale(<<1, 4>>, H.y)) >>
Radii == {One, <<2, 1>>}
Omegas == {<<1, 2>>, One}

Choice == [psi : 1..Len(PsiMenu), chi : 1..Len(ChiMenu), phi : 1..Len(PhiMenu)]
Shifted(c) == [psi |-> (c.psi % Len(PsiMenu)) + 1, chi |-> (c.chi % Len(ChiMenu)) + 1, phi |-> (c.phi % Len(PhiMenu)) + 1]
Init == /\ \E top \in Choice : \E oro \in 1..Len(OroMenu) :
             \E a \in (IF Layers = 1 THEN Radii ELSE {One}) : \E om \in (IF Layers = 1 THEN Omegas ELSE {<<1, 2>>}) :
               cfg = [layers |-> IF Layers = 1 THEN <<top>> ELSE <<top, Shifted(top)>>, a |-> a, omega |-> om, oro |-> oro,
                      phibar |-> IF Layers = 1 THEN <<One>> ELSE <<<<2, 1>>, One>>,
                      rho |-> IF Layers = 1 THEN <<One>> ELSE <<One, <<2, 1>>>>]
        /\ pc = "diagnose" /\ diag = <<>> /\ tend = <<>>

K == Len(cfg.layers)
InvA2 == RInv(RMul(cfg.a, cfg.a))
Psi(k) == PsiMenu[cfg.layers[k].psi]
Chi(k) == ChiMenu[cfg.layers[k].chi]
Phi(k) == PhiMenu[cfg.layers[k].phi]
Oro == OroMenu[cfg.oro]
(* every horizontal derivative carries 1/a; all operators below are quadratic in derivatives *)
LapA(f) == PScale(InvA2, Lap(f))
Coriolis == PScale(RMul(<<2, 1>>, cfg.omega), PZ)

Diagnose == /\ pc = "diagnose"
            /\ diag' = [k \in 1..K |->
                 [zeta |-> LapA(Psi(k)), delta |-> LapA(Chi(k)),
                  absvor |-> PAdd(LapA(Psi(k)), Coriolis),
                  kinetic |-> PScale(InvA2, Kinetic(Psi(k), Chi(k)))]]
            /\ pc' = "vorticity" /\ UNCHANGED <<cfg, tend>>
Vorticity == /\ pc = "vorticity"
             /\ tend' = [k \in 1..K |-> [vorticity |-> PNeg(PScale(InvA2, DivFlux(Psi(k), Chi(k), diag[k].absvor)))]]
             /\ pc' = "divergence" /\ UNCHANGED <<cfg, diag>>
(* Montgomery potential of layer a (layers numbered from the top): the layer itself and everything below
   lift it fully, a lighter layer b above contributes rho[b] / rho[a] *)
Couple(a, b) == IF b >= a THEN One ELSE RDiv(cfg.rho[b], cfg.rho[a])
RECURSIVE PSumTo(_, _)
PSumTo(f, n) == IF n = 0 THEN PZero ELSE PAdd(f[n], PSumTo(f, n - 1))
Pressure(a) == PAdd(Oro, PSumTo([b \in 1..K |-> PScale(Couple(a, b), Phi(b))], K))
Divergence == /\ pc = "divergence"
              /\ tend' = [k \in 1..K |-> [vorticity |-> tend[k].vorticity,
                    divergence |-> PSub(PScale(InvA2, CurlFlux(Psi(k), Chi(k), diag[k].absvor)),
                                        LapA(PAdd(Pressure(k), diag[k].kinetic)))]]
              /\ pc' = "potential" /\ UNCHANGED <<cfg, diag>>
Potential == /\ pc = "potential"
             /\ tend' = [k \in 1..K |-> [vorticity |-> tend[k].vorticity, divergence |-> tend[k].divergence,
                    potential |-> PNeg(PAdd(PScale(InvA2, DivFlux(Psi(k), Chi(k), Phi(k))),
                                            PScale(cfg.phibar[k], diag[k].delta)))]]
             /\ pc' = "done" /\ UNCHANGED <<cfg, diag>>
Next == Diagnose \/ Vorticity \/ Divergence \/ Potential
Spec == Init /\ [][Next]_vars
Done == pc = "done"

-----------------------------------------------------------------------------
(* the global mean of a polynomial field: integrate monomials over the sphere.  With z-degree
   <= 1 only even powers of x and y and z-degree 0 contribute; mean(x^(2p) y^(2q)) over the unit
   sphere = (2p-1)!! (2q-1)!! / (2p+2q+1)!! *)

Eigenfunctions == \A n \in DOMAIN HarmonicDegree :
   Lap(H[n]) = PScale(R(-HarmonicDegree[n] * (HarmonicDegree[n] + 1)), H[n])
ZeroMeanTendencies == Done => \A k \in 1..K : Mean(tend[k].vorticity) = Zero /\ Mean(tend[k].divergence) = Zero
(* layer thickness is conserved in the mean when the flow is non-divergent in the mean: always,
   since delta has zero mean and div(phi u) is a divergence *)
MassConserved == Done => \A k \in 1..K : Mean(tend[k].potential) = Zero
RestOverOrography == (Done /\ \A k \in 1..K : Psi(k) = PZero /\ Chi(k) = PZero /\ Phi(k) = PZero) =>
   \A k \in 1..K : /\ tend[k].vorticity = PZero /\ tend[k].potential = PZero
                   /\ tend[k].divergence = PNeg(LapA(Oro))
(* Jacobians are antisymmetric: solid-body rotation psi = z advects nothing zonal *)
Antisymmetry == \A n \in DOMAIN HarmonicDegree : Jac(H[n], H[n]) = PZero

Export == Done => PrintT(<<"CASE", ToJson([
    a |-> cfg.a, omega |-> cfg.omega, phibar |-> cfg.phibar, rho |-> cfg.rho, oro |-> PJson(Oro),
    layers |-> [k \in 1..K |-> [psi |-> PJson(Psi(k)), chi |-> PJson(Chi(k)), phi |-> PJson(Phi(k)),
                                zeta |-> PJson(diag[k].zeta), delta |-> PJson(diag[k].delta),
                                vorticity |-> PJson(tend[k].vorticity), divergence |-> PJson(tend[k].divergence),
                                potential |-> PJson(tend[k].potential)]] ])>>)
=============================================================================
