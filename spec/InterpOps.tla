----------------------------- MODULE InterpOps -----------------------------
(* Exact piecewise-linear interpolation on rational node sets: the operators shared by the
   interpolation machines (Interp, InterpColumns, HorizInterp).

   Two independent descriptions are kept side by side:

   * code-shaped operators that mirror how dinosaur/vertical_interpolation.py computes
     (searchsorted(side='right') + clip -> cell, `fp[i] + (delta/dx) * df` for the default path,
     a weight vector and a dot product for the accelerator path, padding of n cells for the
     "safe" extrapolation), and
   * a declarative reference (`Ref*`): the chord through the two nodes of ANY segment containing
     the query (Lagrange form), and the three documented extrapolation rules.

   The machines compute with the former and prove them equal to the latter (invariants).

   Values are Rats <<n, d>> (Exact.tla) or MISSING (the NaN of the code). *)
EXTENDS Integers, Sequences, FiniteSets, Exact

MISSING == <<0, 0>>
IsMissing(v) == v[2] = 0
MAdd(a, b) == IF IsMissing(a) \/ IsMissing(b) THEN MISSING ELSE RAdd(a, b)
MSub(a, b) == IF IsMissing(a) \/ IsMissing(b) THEN MISSING ELSE RSub(a, b)
MMul(a, b) == IF IsMissing(a) \/ IsMissing(b) THEN MISSING ELSE RMul(a, b)     \* 0 * NaN = NaN

-----------------------------------------------------------------------------
(* code-shaped operators; xp, fp are sequences (1-based), x a Rat *)

(* jnp.searchsorted(xp, x, side='right'): number of nodes <= x *)
SearchRight(xp, x) == Cardinality({k \in 1..Len(xp) : RLe(xp[k], x)})
(* 1-based index of the left node of the cell used for x: clip(searchsorted, 1, n - 1) *)
Cell(xp, x) == Max(1, Min(SearchRight(xp, x), Len(xp) - 1))
(* weight of the right node of that cell; < 0 or > 1 outside the node range *)
WRight(xp, x) == LET i == Cell(xp, x) IN RDiv(RSub(x, xp[i]), RSub(xp[i + 1], xp[i]))

(* jnp.interp(x, xp, fp, left, right): the default code path *)
JnpInterp(xp, fp, x, left, right) ==
  LET n == Len(xp)
      i == Cell(xp, x)
      f == MAdd(fp[i], MMul(WRight(xp, x), MSub(fp[i + 1], fp[i])))
  IN  IF RLt(x, xp[1]) THEN left ELSE IF RLt(xp[n], x) THEN right ELSE f
ConstInterp(xp, fp, x) == JnpInterp(xp, fp, x, fp[1], fp[Len(xp)])

(* the weight vector of _dot_interp (clamp = TRUE) / linear_interp_with_linear_extrap (FALSE) *)
DotWeights(xp, x, clamp) ==
  LET n == Len(xp)
      i == Cell(xp, x)
      w == WRight(xp, x)
  IN  IF clamp /\ RLt(x, xp[1]) THEN [k \in 1..n |-> IF k = 1 THEN One ELSE Zero]
      ELSE IF clamp /\ RLt(xp[n], x) THEN [k \in 1..n |-> IF k = n THEN One ELSE Zero]
      ELSE [k \in 1..n |-> IF k = i THEN RSub(One, w) ELSE IF k = i + 1 THEN w ELSE Zero]
DotInterp(xp, fp, x) == RDot(DotWeights(xp, x, TRUE), fp)
LinearExtrap(xp, fp, x) == RDot(DotWeights(xp, x, FALSE), fp)

(* _extrapolate_both: one more cell of the same width / same increment at each end *)
PadBoth(y) == LET n == Len(y)
              IN  <<MSub(y[1], MSub(y[2], y[1]))>> \o y \o <<MAdd(y[n], MSub(y[n], y[n - 1]))>>
RECURSIVE PadN(_, _)
PadN(y, m) == IF m = 0 THEN y ELSE PadN(PadBoth(y), m - 1)
(* _linear_interp_with_safe_extrap(x, xp, fp, n=m) *)
SafeExtrap(xp, fp, x, m) == JnpInterp(PadN(xp, m), PadN(fp, m), x, MISSING, MISSING)

-----------------------------------------------------------------------------
(* declarative reference *)
Segs(xp, x) == {k \in 1..Len(xp) - 1 : RLe(xp[k], x) /\ RLe(x, xp[k + 1])}
(* the straight line through nodes k and k+1 evaluated at x *)
Chord(xp, fp, k, x) ==
  RDiv(RAdd(RMul(fp[k], RSub(xp[k + 1], x)), RMul(fp[k + 1], RSub(x, xp[k]))),
       RSub(xp[k + 1], xp[k]))
InRange(xp, x) == RLe(xp[1], x) /\ RLe(x, xp[Len(xp)])
RefInside(xp, fp, x) == Chord(xp, fp, CHOOSE k \in Segs(xp, x) : TRUE, x)
RefConst(xp, fp, x) == IF RLt(x, xp[1]) THEN fp[1]
                       ELSE IF RLt(xp[Len(xp)], x) THEN fp[Len(xp)]
                       ELSE RefInside(xp, fp, x)
RefLinear(xp, fp, x) == IF RLt(x, xp[1]) THEN Chord(xp, fp, 1, x)
                        ELSE IF RLt(xp[Len(xp)], x) THEN Chord(xp, fp, Len(xp) - 1, x)
                        ELSE RefInside(xp, fp, x)
(* linear for m cells (of the width of the end cell) beyond each end, missing beyond *)
SafeLo(xp, m) == RSub(xp[1], RMul(R(m), RSub(xp[2], xp[1])))
SafeHi(xp, m) == LET n == Len(xp) IN RAdd(xp[n], RMul(R(m), RSub(xp[n], xp[n - 1])))
RefSafe(xp, fp, x, m) == IF RLt(x, SafeLo(xp, m)) \/ RLt(SafeHi(xp, m), x) THEN MISSING
                         ELSE RefLinear(xp, fp, x)

StrictlyIncreasing(xp) == \A k \in 1..Len(xp) - 1 : RLt(xp[k], xp[k + 1])
(* fp is the restriction of one affine function of the coordinate *)
IsAffine(xp, fp) == \A k \in 1..Len(xp) - 1 :
    RMul(RSub(fp[k + 1], fp[k]), RSub(xp[2], xp[1])) = RMul(RSub(fp[2], fp[1]), RSub(xp[k + 1], xp[k]))
AffineAt(xp, fp, x) == Chord(xp, fp, 1, x)
=============================================================================
