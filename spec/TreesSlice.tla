------------------------------ MODULE TreesSlice ------------------------------
(* pytree_utils.slice_along_axis, tree_map_over_nonscalars and tree_map_where on pytrees whose
   leaves are small arrays of heterogeneous rank (including scalars).

   An array is [shape, data] with data in row-major order; leaf i holds 100 * i + k.

     slice_along_axis(tree, axis, idx)        idx an integer: leaf[..., idx, ...] with the axis dropped;
                                              idx = slice(lo, hi): the axis kept with Python clipping.
        expect_same_dims = TRUE  and leaves of different rank  -> ValueError
        expect_same_dims = FALSE and a negative axis           -> ValueError   (error-prone)
        an axis that does not exist in some non-scalar leaf    -> ValueError   (scalars pass through)
     tree_map_over_nonscalars(f, tree)        f on leaves of rank >= 1, scalar_fn on scalars
     tree_map_where(cond, f, g, tree)         f where cond(leaf), g elsewhere  (cond = "rank is 2")

   with f = "double every element", g / scalar_fn = "negate".  One action per call. *)
EXTENDS Integers, Sequences, FiniteSets, TLC, Json

CONSTANTS MaxLeaves

VARIABLES cfg, pc, out
vars == <<cfg, pc, out>>

RECURSIVE Prod(_)
Prod(s) == IF s = <<>> THEN 1 ELSE Head(s) * Prod(Tail(s))
Stride(shape, i) == Prod(SubSeq(shape, i + 1, Len(shape)))
Unravel(shape, k) == [i \in 1..Len(shape) |-> (k \div Stride(shape, i)) % shape[i]]
RECURSIVE RavelFrom(_, _, _)
RavelFrom(shape, idx, i) == IF i > Len(shape) THEN 0 ELSE idx[i] * Stride(shape, i) + RavelFrom(shape, idx, i + 1)
At(arr, idx) == arr.data[RavelFrom(arr.shape, idx, 1) + 1]
Make(shape, f(_)) == [shape |-> shape, data |-> [k \in 1..Prod(shape) |-> f(Unravel(shape, k - 1))]]
SetAt(s, i, v) == [s EXCEPT ![i] = v]
RemoveAt(s, i) == SubSeq(s, 1, i - 1) \o SubSeq(s, i + 1, Len(s))
InsertAt(s, i, v) == SubSeq(s, 1, i - 1) \o <<v>> \o SubSeq(s, i, Len(s))
Min(a, b) == IF a <= b THEN a ELSE b
Max(a, b) == IF a >= b THEN a ELSE b
ValidAxis(axis, rank) == -rank <= axis /\ axis < rank
Pos(axis, rank) == (IF axis < 0 THEN axis + rank ELSE axis) + 1
Take(arr, p, i) == Make(RemoveAt(arr.shape, p), LAMBDA idx : At(arr, InsertAt(idx, p, i)))
Slice(arr, p, lo, hi) ==
  LET n == arr.shape[p]
      a == Min(lo, n)
      b == Max(a, Min(hi, n))
  IN  Make(SetAt(arr.shape, p, b - a), LAMBDA idx : At(arr, SetAt(idx, p, idx[p] + a)))
MapData(arr, g(_)) == [shape |-> arr.shape, data |-> [k \in 1..Len(arr.data) |-> g(arr.data[k])]]

ShapeMenu == << <<>>, <<2>>, <<3, 2>>, <<2, 3>>, <<2, 2, 3>> >>
LeafArray(shape, i) == [shape |-> shape, data |-> [k \in 1..Prod(shape) |-> 100 * i + k - 1]]
Trees == UNION {[1..n -> 1..Len(ShapeMenu)] : n \in 1..MaxLeaves}
Tree == [i \in 1..Len(cfg.tree) |-> LeafArray(ShapeMenu[cfg.tree[i]], i)]
Ranks == {Len(Tree[i].shape) : i \in 1..Len(Tree)}

Init == /\ \/ \E t \in Trees : \E ax \in -2..2 : \E same \in BOOLEAN :
                \E ix \in {[kind |-> "int", lo |-> 0, hi |-> 0], [kind |-> "int", lo |-> 1, hi |-> 0],
                           [kind |-> "slice", lo |-> 0, hi |-> 1], [kind |-> "slice", lo |-> 1, hi |-> 5]} :
                 cfg = [op |-> "slice", tree |-> t, axis |-> ax, same |-> same, ix |-> ix]
           \/ \E t \in Trees : \E op \in {"nonscalars", "where"} :
                 cfg = [op |-> op, tree |-> t, axis |-> 0, same |-> FALSE, ix |-> [kind |-> "int", lo |-> 0, hi |-> 0]]
        /\ pc = "call" /\ out = [err |-> FALSE, leaves |-> <<>>]

(* ---- slice_along_axis ---- *)
SliceError == \/ (cfg.same /\ Cardinality(Ranks) # 1)
              \/ (~cfg.same /\ cfg.axis < 0)
              \/ \E i \in 1..Len(Tree) : Len(Tree[i].shape) >= 1 /\ ~ValidAxis(cfg.axis, Len(Tree[i].shape))
(* the message of the code says negative axes are a problem only without expect_same_dims, the code rejects
   them always; such calls are lenient (either outcome; the result, if any, is the computed one) *)
Lenient == cfg.op = "slice" /\ cfg.same /\ Cardinality(Ranks) = 1 /\ cfg.axis < 0
(* an integer index beyond the extent is an IndexError in numpy and clamps in jax: unspecified, not exported *)
IndexOutside == cfg.ix.kind = "int" /\ \E i \in 1..Len(Tree) :
                   Len(Tree[i].shape) >= 1 /\ ValidAxis(cfg.axis, Len(Tree[i].shape)) /\ cfg.ix.lo >= Tree[i].shape[Pos(cfg.axis, Len(Tree[i].shape))]
(* a scalar leaf (a clock, say) has no axes: it is passed through unchanged whatever the axis *)
SliceLeaf(arr) == IF arr.shape = <<>> THEN arr
                  ELSE LET p == Pos(cfg.axis, Len(arr.shape))
                       IN  IF cfg.ix.kind = "int" THEN Take(arr, p, cfg.ix.lo) ELSE Slice(arr, p, cfg.ix.lo, cfg.ix.hi)
CallSlice == /\ pc = "call" /\ cfg.op = "slice"
             /\ out' = IF SliceError THEN [err |-> TRUE, leaves |-> <<>>]
                       ELSE [err |-> FALSE, leaves |-> [i \in 1..Len(Tree) |-> SliceLeaf(Tree[i])]]
             /\ pc' = "done" /\ UNCHANGED cfg
(* ---- the two maps ---- *)
Double(v) == 2 * v
Negate(v) == -v
CallNonscalars == /\ pc = "call" /\ cfg.op = "nonscalars"
                  /\ out' = [err |-> FALSE, leaves |-> [i \in 1..Len(Tree) |->
                                IF Tree[i].shape = <<>> THEN MapData(Tree[i], Negate) ELSE MapData(Tree[i], Double)]]
                  /\ pc' = "done" /\ UNCHANGED cfg
CallWhere == /\ pc = "call" /\ cfg.op = "where"
             /\ out' = [err |-> FALSE, leaves |-> [i \in 1..Len(Tree) |->
                           IF Len(Tree[i].shape) = 2 THEN MapData(Tree[i], Double) ELSE MapData(Tree[i], Negate)]]
             /\ pc' = "done" /\ UNCHANGED cfg
Next == CallSlice \/ CallNonscalars \/ CallWhere
Spec == Init /\ [][Next]_vars
Done == pc = "done"

(* slicing keeps the tree structure; an integer index drops exactly one axis, a slice none *)
RankLaw == (Done /\ cfg.op = "slice" /\ ~out.err) =>
   /\ Len(out.leaves) = Len(Tree)
   /\ \A i \in 1..Len(Tree) : Len(out.leaves[i].shape) =
         (IF Tree[i].shape = <<>> THEN 0 ELSE Len(Tree[i].shape) - (IF cfg.ix.kind = "int" THEN 1 ELSE 0))
(* every element of a slice is an element of its leaf, no element twice *)
ElementsFromLeaf == (Done /\ cfg.op = "slice" /\ ~out.err /\ ~IndexOutside) =>
   \A i \in 1..Len(Tree) : \A k, q \in 1..Len(out.leaves[i].data) :
      /\ out.leaves[i].data[k] \div 100 = i
      /\ (k # q => out.leaves[i].data[k] # out.leaves[i].data[q])
MapsKeepShapes == (Done /\ cfg.op # "slice") => \A i \in 1..Len(Tree) : out.leaves[i].shape = Tree[i].shape
Export == (Done /\ ~(cfg.op = "slice" /\ ~SliceError /\ IndexOutside)) =>
   PrintT(<<"CASE", ToJson([op |-> cfg.op, shapes |-> [i \in 1..Len(Tree) |-> Tree[i].shape], axis |-> cfg.axis,
                            same |-> cfg.same, ix |-> cfg.ix, error |-> out.err, lenient |-> Lenient, out |-> out.leaves])>>)
=============================================================================
