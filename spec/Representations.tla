--------------------------- MODULE Representations ---------------------------
(* coordinate_systems.maybe_to_nodal / maybe_to_modal (and get_nodal_shapes / get_modal_shapes):
   the representation of every leaf of a state tree as a little state machine.

   A tree is a sequence of leaves.  A leaf is a scalar (rank 0: clocks, step counters) or a field
   of rank 2 (surface) or 3 (levels first) whose trailing two axes are either the modal or the
   nodal shape of the horizontal grid.  The two conversions dispatch ON THE SHAPE of a leaf, not
   on a tag: a leaf whose trailing shape already equals the target shape is returned as it is,
   every other non-scalar leaf is transformed.  Consequences, all checked below and replayed:

     * scalars are never touched, the tree structure never changes;
     * after to_nodal every field is nodal, after to_modal every field is modal   (Converges)
     * both conversions are idempotent                                             (Idempotent)
     * on band-limited data to_modal undoes to_nodal (C01: analysis inverts synthesis) - in the
       machine the value of a leaf is the abstract band-limited function it represents, which no
       action changes, so this is the statement that the replay compares arrays with the
       transform of ONE fixed coefficient array per leaf                           (SameFunction)
     * named deviation: on a grid whose nodal and modal shapes COINCIDE (e.g. the reference
       layout with 2M-1 longitude nodes and L latitude nodes) the dispatch cannot tell the two
       representations apart and every leaf is left as it is, whatever it holds     (Coincident)

   The machine applies every sequence of Depth conversions to every tree of at most MaxLeaves
   leaves; the behaviours are exported with the tag of every leaf after every step. *)
EXTENDS Integers, Sequences, FiniteSets, TLC, Json

CONSTANTS MaxLeaves, Depth

VARIABLES cfg,    \* [leaves : Seq([kind, rank, rep]), grid : "distinct" | "coincident"]
          cur,    \* current representation tag of every leaf
          ops,    \* conversions applied so far
          snaps   \* tags after each conversion
vars == <<cfg, cur, ops, snaps>>

Leaf == [kind : {"scalar"}, rank : {0}, rep : {"none"}] \cup [kind : {"field"}, rank : {2, 3}, rep : {"modal", "nodal"}]
Trees == UNION {[1..n -> Leaf] : n \in 1..MaxLeaves}
Init == /\ \E t \in Trees : \E g \in {"distinct", "coincident"} : cfg = [leaves |-> t, grid |-> g]
        /\ cur = [i \in 1..Len(cfg.leaves) |-> cfg.leaves[i].rep]
        /\ ops = <<>> /\ snaps = <<>>

N == Len(cfg.leaves)
(* what the shape test sees: on a coincident grid every field already "has the target shape" *)
LooksLike(i, target) == cfg.grid = "coincident" \/ cur[i] = target
Convert(target) ==
  [i \in 1..N |-> IF cfg.leaves[i].kind = "scalar" THEN "none"
                  ELSE IF LooksLike(i, target) THEN cur[i] ELSE target]
ToNodal == /\ Len(ops) < Depth
           /\ cur' = Convert("nodal")
           /\ ops' = Append(ops, "to_nodal")
           /\ snaps' = Append(snaps, Convert("nodal"))
           /\ UNCHANGED cfg
ToModal == /\ Len(ops) < Depth
           /\ cur' = Convert("modal")
           /\ ops' = Append(ops, "to_modal")
           /\ snaps' = Append(snaps, Convert("modal"))
           /\ UNCHANGED cfg
Next == ToNodal \/ ToModal
Spec == Init /\ [][Next]_vars
Done == Len(ops) = Depth

-----------------------------------------------------------------------------
Target(name) == IF name = "to_nodal" THEN "nodal" ELSE "modal"
Before(k) == IF k = 1 THEN [i \in 1..N |-> cfg.leaves[i].rep] ELSE snaps[k - 1]
ScalarsUntouched == \A k \in 1..Len(snaps) : \A i \in 1..N : (cfg.leaves[i].kind = "scalar") <=> (snaps[k][i] = "none")
Converges == cfg.grid = "distinct" =>
   \A k \in 1..Len(snaps) : \A i \in 1..N : cfg.leaves[i].kind = "field" => snaps[k][i] = Target(ops[k])
Idempotent == \A k \in 2..Len(snaps) : ops[k] = ops[k - 1] => snaps[k] = snaps[k - 1]
Coincident == cfg.grid = "coincident" => \A k \in 1..Len(snaps) : snaps[k] = Before(1)
(* a conversion never moves a leaf that is already there: it only ever changes tags TO its target *)
OnlyTowardsTarget == \A k \in 1..Len(snaps) : \A i \in 1..N : snaps[k][i] # Before(k)[i] => snaps[k][i] = Target(ops[k])
(* the second conversion decides: the result of two conversions is the result of the second alone *)
LastWins == cfg.grid = "distinct" => \A k \in 2..Len(snaps) : \A i \in 1..N :
   cfg.leaves[i].kind = "field" => snaps[k][i] = Target(ops[k])
Export == Done => PrintT(<<"CASE", ToJson([leaves |-> cfg.leaves, grid |-> cfg.grid, ops |-> ops, snaps |-> snaps])>>)
=============================================================================
