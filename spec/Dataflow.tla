------------------------------- MODULE Dataflow -------------------------------
(* The term-level dataflow of explicit_terms / implicit_terms (primitive_equations.py, dry and moist
   classes) and of ShallowWaterEquations (shallow_water.py), one node per intermediate quantity the
   code computes, in the order the code computes it, carrying *types*:

     mir   +1 / -1 : behaviour under the reflection about the equator.  A node of type s takes the
                     value  s * mirror(value)  when every input is replaced by its mirror image
                     (vorticity, a pseudo-scalar, with the opposite sign).                  (C10)
     dim   <<L, T, M, Th>> : physical dimension exponents; under a change of the
                     non-dimensionalisation scale a node is multiplied by prod scale^-dim.   (C12)
     sh    the value carries an additive, horizontally constant offset that depends on the scale
                     (log surface pressure: ln(p / p_scale)); only operators that annihilate
                     horizontal constants, or products with level constants, may touch it.   (C12)
     hc    horizontally constant (level constants: Tref, R, kappa, g, ...)
     zonal (constants only) independent of longitude: rotation equivariance needs every constant
                     field entering the graph to be zonally symmetric.                       (C10)

   Typing rules are those of the calculus on the sphere: d/dlon keeps the mirror sign,
   cos(lat) d/dlat flips it; the curl flips, the divergence keeps; products multiply signs and add
   exponents; *sums require equal types* (this is the whole point: a hemisphere-dependent factor,
   a cos/sin mis-pairing, a constant that bypasses the scale is a type error).  The machine
   evaluates one node per step; WellTyped says no node is ill-typed and every prognostic tendency
   has the type of its variable per unit time.

   The observed nodes (names the harness records while the real code runs: DiagnosticState fields
   as aux.NAME, one record per method of the equation class, the outputs explicit.NAME and implicit.NAME)
   are exported with their types; the replay measures each type on pairs of real executions
   (mirrored inputs; scales differing by a factor two in one base unit) and must find exactly
   these. *)
EXTENDS Integers, Sequences, FiniteSets, TLC, Json

VARIABLES cfg, pc, env, bad
vars == <<cfg, pc, env, bad>>

Classes == {"dry", "moist", "cloud", "sw"}
Configs == [class : Classes, oro : BOOLEAN, tracer : BOOLEAN]

D0 == <<0, 0, 0, 0>>
DAdd(a, b) == [i \in 1..4 |-> a[i] + b[i]]
DL(n) == <<n, 0, 0, 0>>
DT(n) == <<0, n, 0, 0>>
DTh(n) == <<0, 0, 0, n>>
Vel == <<1, -1, 0, 0>>                       \* m/s
Gas == <<2, -2, 0, -1>>                      \* J/kg/K
Geo == <<2, -2, 0, 0>>                       \* m^2/s^2

Ty(m, d, f, s, h) == [mir |-> m, dim |-> d, form |-> f, sh |-> s, hc |-> h, deg |-> 0]
WithDeg(t, n) == [t EXCEPT !.deg = n]
NonPoly == 99                                  \* degree marker of non-polynomial nodes (quotients)
Err == [mir |-> 0, dim |-> D0, form |-> "error", sh |-> FALSE, hc |-> FALSE, deg |-> 0]
IsErr(t) == t.form = "error"

(* node constructors *)
N(n, op, a) == [n |-> n, op |-> op, a |-> a, t |-> Err]
In(n, t) == [n |-> n, op |-> "input", a |-> <<>>, t |-> WithDeg(t, 1)]      \* prognostic input: degree 1
Cfg(n, t) == [n |-> n, op |-> "input", a |-> <<>>, t |-> t]                 \* configuration field (orography): degree 0
Co(n, t, z) == [n |-> n, op |-> IF z THEN "const" ELSE "const_nonzonal", a |-> <<>>, t |-> t]

-----------------------------------------------------------------------------
(* typing rules *)
AllEq(ts, f(_)) == \A i \in 1..Len(ts) : f(ts[i]) = f(ts[1])
RECURSIVE ProdMir(_), SumDim(_)
ProdMir(ts) == IF ts = <<>> THEN 1 ELSE Head(ts).mir * ProdMir(Tail(ts))
SumDim(ts) == IF ts = <<>> THEN D0 ELSE DAdd(Head(ts).dim, SumDim(Tail(ts)))
AnyErr(ts) == \E i \in 1..Len(ts) : IsErr(ts[i])
NumSh(ts) == Cardinality({i \in 1..Len(ts) : ts[i].sh})
FormOf(ts) == IF \E i \in 1..Len(ts) : ts[i].form = "nodal" THEN "nodal"
              ELSE IF \E i \in 1..Len(ts) : ts[i].form = "modal" THEN "modal" ELSE "const"
(* a product mixes a spectral array with anything else only through level constants *)
MulOK(ts) == /\ Cardinality({i \in 1..Len(ts) : ts[i].form = "modal"}) <= 1
             /\ (\E i \in 1..Len(ts) : ts[i].form = "modal") =>
                   \A j \in 1..Len(ts) : ts[j].form = "modal" \/ ts[j].hc
             /\ NumSh(ts) <= 1
             /\ (NumSh(ts) = 1 => \A j \in 1..Len(ts) : ts[j].sh \/ ts[j].hc)

RECURSIVE SumDeg(_), MaxDeg(_)
SumDeg(ts) == IF ts = <<>> THEN 0 ELSE Head(ts).deg + SumDeg(Tail(ts))
MaxDeg(ts) == IF ts = <<>> THEN 0 ELSE LET r == MaxDeg(Tail(ts)) IN IF Head(ts).deg > r THEN Head(ts).deg ELSE r
(* polynomial degree in the prognostic variables: products add, sums take the maximum, linear
   operators keep; a quotient is not a polynomial *)
DegOf(op, ts) == IF \E i \in 1..Len(ts) : ts[i].deg >= NonPoly THEN NonPoly
                 ELSE IF op = "quot" THEN (IF ts[2].deg = 0 THEN ts[1].deg ELSE NonPoly)
                 ELSE IF op \in {"mul", "vadv"} THEN SumDeg(ts) ELSE MaxDeg(ts)
ApplyT(op, ts) ==
  IF AnyErr(ts) THEN Err
  ELSE CASE op = "to_nodal" -> IF ts[1].form = "modal" /\ ~ts[1].sh THEN [ts[1] EXCEPT !.form = "nodal"] ELSE Err
    [] op = "to_modal" -> IF ts[1].form = "nodal" THEN [ts[1] EXCEPT !.form = "modal"] ELSE Err
    [] op = "grad_lon" -> IF ts[1].form = "modal" THEN Ty(ts[1].mir, DAdd(ts[1].dim, DL(-1)), "modal", FALSE, FALSE) ELSE Err
    [] op = "grad_lat" -> IF ts[1].form = "modal" THEN Ty(-ts[1].mir, DAdd(ts[1].dim, DL(-1)), "modal", FALSE, FALSE) ELSE Err
    [] op = "laplacian" -> IF ts[1].form = "modal" THEN Ty(ts[1].mir, DAdd(ts[1].dim, DL(-2)), "modal", FALSE, FALSE) ELSE Err
    [] op = "wind_u" ->          \* get_cos_lat_vector(vor, div)[0] = dlon(chi)/r - cos dlat(psi)/r
         IF ts[1].form = "modal" /\ ts[2].form = "modal" /\ ts[1].mir = -ts[2].mir /\ ts[1].dim = ts[2].dim
         THEN Ty(ts[2].mir, DAdd(ts[1].dim, DL(1)), "modal", FALSE, FALSE) ELSE Err
    [] op = "wind_v" ->
         IF ts[1].form = "modal" /\ ts[2].form = "modal" /\ ts[1].mir = -ts[2].mir /\ ts[1].dim = ts[2].dim
         THEN Ty(-ts[2].mir, DAdd(ts[1].dim, DL(1)), "modal", FALSE, FALSE) ELSE Err
    [] op = "div" ->             \* div_cos_lat((a, b)): dlon(a) + sec d(cos^2 b)/dlat, 1/r
         IF ts[1].form = "modal" /\ ts[2].form = "modal" /\ ts[2].mir = -ts[1].mir /\ ts[1].dim = ts[2].dim
         THEN Ty(ts[1].mir, DAdd(ts[1].dim, DL(-1)), "modal", FALSE, FALSE) ELSE Err
    [] op = "curl" ->
         IF ts[1].form = "modal" /\ ts[2].form = "modal" /\ ts[2].mir = -ts[1].mir /\ ts[1].dim = ts[2].dim
         THEN Ty(-ts[1].mir, DAdd(ts[1].dim, DL(-1)), "modal", FALSE, FALSE) ELSE Err
    [] op = "quot" -> IF ts[1].dim = D0 /\ ts[2].dim = D0 /\ ts[1].mir = 1 /\ ts[2].mir = 1 /\ ~ts[1].sh /\ ~ts[2].sh
                      THEN Ty(1, D0, FormOf(ts), FALSE, FALSE) ELSE Err        \* dimensionless even quotient
    [] op = "mul" -> IF MulOK(ts)
                     THEN Ty(ProdMir(ts), SumDim(ts), FormOf(ts), NumSh(ts) = 1, \A i \in 1..Len(ts) : ts[i].hc)
                     ELSE Err
    [] op = "add" -> IF AllEq(ts, LAMBDA t : t.mir) /\ AllEq(ts, LAMBDA t : t.dim)
                        /\ (\A i \in 1..Len(ts) : ts[i].form \in {FormOf(ts), "const"})
                        /\ (FormOf(ts) = "modal" => \A j \in 1..Len(ts) : ts[j].form = "modal")
                     THEN Ty(ts[1].mir, ts[1].dim, FormOf(ts), NumSh(ts) > 0, \A k \in 1..Len(ts) : ts[k].hc)
                     ELSE Err
    [] op = "zero" -> Ty(ts[1].mir, DAdd(ts[1].dim, DT(-1)), ts[1].form, FALSE, FALSE)    \* zeros_like: a null tendency
    [] op \in {"neg", "clip", "vsum", "cumint", "sigma_dot", "sigint", "gpart", "layer_mix"} ->
         \* linear, dimensionless operations along the vertical (weights: sigma thicknesses, log-sigma
         \* ratios, density ratios) or sign / truncation: the type is kept
         IF op = "clip" /\ ts[1].form # "modal" THEN Err ELSE [ts[1] EXCEPT !.hc = FALSE]
    [] op = "vadv" -> IF ts[1].sh \/ ts[2].sh THEN Err       \* -(w dx/dsigma): bilinear, dimensionless weights
                      ELSE Ty(ts[1].mir * ts[2].mir, DAdd(ts[1].dim, ts[2].dim), FormOf(ts), FALSE, FALSE)
    [] OTHER -> Err

Apply(op, ts) == LET t == ApplyT(op, ts) IN IF IsErr(t) THEN t ELSE WithDeg(t, DegOf(op, ts))

-----------------------------------------------------------------------------
(* constants and inputs *)
Sc(n, d) == Co(n, Ty(1, d, "const", FALSE, TRUE), TRUE)          \* scalar / level constant
PEInputs(c) ==
  << In("vor", Ty(-1, DT(-1), "modal", FALSE, FALSE)), In("div", Ty(1, DT(-1), "modal", FALSE, FALSE)),
     In("Tv", Ty(1, DTh(1), "modal", FALSE, FALSE)), In("lnps", Ty(1, D0, "modal", TRUE, FALSE)),
     Cfg("oro", Ty(1, DL(1), "modal", FALSE, FALSE)),
     Co("f", Ty(-1, DT(-1), "nodal", FALSE, FALSE), TRUE), Co("sec2", Ty(1, D0, "nodal", FALSE, FALSE), TRUE),
     Sc("R", Gas), Sc("g", <<1, -2, 0, 0>>), Sc("kappa", D0), Sc("half", D0), Sc("Tref", DTh(1)) >>
  \o (IF c.tracer \/ c.class \in {"moist", "cloud"} THEN << In("q", Ty(1, D0, "modal", FALSE, FALSE)) >> ELSE <<>>)
  \o (IF c.class \in {"moist", "cloud"}
      THEN << Sc("dR", Gas), Sc("grm1", D0), Sc("one", D0), Sc("ghr", D0), Sc("hrm1", D0) >> ELSE <<>>)
  \o (IF c.class = "cloud" THEN << In("ql", Ty(1, D0, "modal", FALSE, FALSE)), In("qi", Ty(1, D0, "modal", FALSE, FALSE)) >> ELSE <<>>)

Diagnostics(c) ==
  << N("aux.vorticity", "to_nodal", <<"vor">>), N("aux.divergence", "to_nodal", <<"div">>),
     N("aux.temperature_variation", "to_nodal", <<"Tv">>),
     N("u_m", "wind_u", <<"vor", "div">>), N("v_m", "wind_v", <<"vor", "div">>),
     N("aux.cos_lat_u.0", "to_nodal", <<"u_m">>), N("aux.cos_lat_u.1", "to_nodal", <<"v_m">>),
     N("glx_m", "grad_lon", <<"lnps">>), N("gly_m", "grad_lat", <<"lnps">>),
     N("aux.cos_lat_grad_log_sp.0", "to_nodal", <<"glx_m">>), N("aux.cos_lat_grad_log_sp.1", "to_nodal", <<"gly_m">>),
     N("ugx", "mul", <<"aux.cos_lat_u.0", "aux.cos_lat_grad_log_sp.0", "sec2">>),
     N("vgy", "mul", <<"aux.cos_lat_u.1", "aux.cos_lat_grad_log_sp.1", "sec2">>),
     N("aux.u_dot_grad_log_sp", "add", <<"ugx", "vgy">>),
     N("aux.sigma_dot_explicit", "sigma_dot", <<"aux.u_dot_grad_log_sp">>),
     N("g_full", "add", <<"aux.divergence", "aux.u_dot_grad_log_sp">>),
     N("aux.sigma_dot_full", "sigma_dot", <<"g_full">>) >>
  \o (IF c.tracer \/ c.class \in {"moist", "cloud"} THEN << N("aux.tracers.q", "to_nodal", <<"q">>) >> ELSE <<>>)
  \o (IF c.class = "cloud" THEN << N("aux.tracers.ql", "to_nodal", <<"ql">>), N("aux.tracers.qi", "to_nodal", <<"qi">>) >> ELSE <<>>)

CurlDiv(c) ==
  << N("totvor", "add", <<"aux.vorticity", "f">>),
     N("nvu0", "mul", <<"aux.cos_lat_u.1", "totvor", "sec2">>), N("nvu", "neg", <<"nvu0">>),
     N("nvv", "mul", <<"aux.cos_lat_u.0", "totvor", "sec2">>),
     N("sdu0", "vadv", <<"aux.sigma_dot_full", "aux.cos_lat_u.0">>), N("sdu", "neg", <<"sdu0">>),
     N("sdv0", "vadv", <<"aux.sigma_dot_full", "aux.cos_lat_u.1">>), N("sdv", "neg", <<"sdv0">>) >>
  \o (IF c.class = "dry" THEN << N("rt", "mul", <<"R", "aux.temperature_variation">>) >>
      ELSE << N("mc", "mul", <<"grm1", "aux.tracers.q">>) >>
           \o (IF c.class = "cloud"
               THEN << N("nql", "neg", <<"aux.tracers.ql">>), N("nqi", "neg", <<"aux.tracers.qi">>),
                       N("moistfac", "add", <<"one", "mc", "nql", "nqi">>) >>
               ELSE << N("moistfac", "add", <<"one", "mc">>) >>)
           \o << N("rt", "mul", <<"R", "aux.temperature_variation", "moistfac">>) >>)
  \o << N("pgu", "mul", <<"rt", "aux.cos_lat_grad_log_sp.0">>), N("pgv", "mul", <<"rt", "aux.cos_lat_grad_log_sp.1">>),
        N("vtu0", "add", <<"sdu", "pgu">>), N("vtu", "mul", <<"vtu0", "sec2">>),
        N("vtv0", "add", <<"sdv", "pgv">>), N("vtv", "mul", <<"vtv0", "sec2">>),
        N("cu_n", "add", <<"nvu", "vtu">>), N("cv_n", "add", <<"nvv", "vtv">>),
        N("cu", "to_modal", <<"cu_n">>), N("cv", "to_modal", <<"cv_n">>),
        N("curl0", "curl", <<"cu", "cv">>), N("curl_and_div_tendencies.vorticity", "neg", <<"curl0">>),
        N("div0", "div", <<"cu", "cv">>), N("curl_and_div_tendencies.divergence", "neg", <<"div0">>) >>

HumidityGrad ==
  << N("qx_m", "grad_lon", <<"q">>), N("qy_m", "grad_lat", <<"q">>),
     N("qx", "to_nodal", <<"qx_m">>), N("qy", "to_nodal", <<"qy_m">>) >>
HumVort ==
  HumidityGrad \o
  << N("coef", "mul", <<"Tref", "dR">>),
     N("c1", "mul", <<"aux.cos_lat_grad_log_sp.0", "qy">>), N("c2", "mul", <<"aux.cos_lat_grad_log_sp.1", "qx">>),
     N("nc2", "neg", <<"c2">>), N("c12", "add", <<"c1", "nc2">>),
     N("curlterm", "mul", <<"coef", "sec2", "c12">>),
     N("vorticity_tendency_due_to_humidity", "to_modal", <<"curlterm">>) >>
HumDiv ==
  << N("lap_lsp", "laplacian", <<"lnps">>), N("nlap_lsp", "to_nodal", <<"lap_lsp">>),
     N("lapcorr", "mul", <<"aux.tracers.q", "nlap_lsp", "Tref", "dR">>),
     N("d1", "mul", <<"qx", "aux.cos_lat_grad_log_sp.0">>), N("d2", "mul", <<"qy", "aux.cos_lat_grad_log_sp.1">>),
     N("d12", "add", <<"d1", "d2">>), N("dotterm", "mul", <<"coef", "sec2", "d12">>),
     N("Ttot", "add", <<"aux.temperature_variation", "Tref">>),
     N("tdiff", "mul", <<"aux.tracers.q", "Ttot", "grm1">>),
     N("gdiff0", "vsum", <<"tdiff">>), N("gdiff", "mul", <<"R", "gdiff0">>),
     N("gdiff_m", "to_modal", <<"gdiff">>), N("lapg", "laplacian", <<"gdiff_m">>), N("nlapg", "neg", <<"lapg">>),
     N("dc", "add", <<"dotterm", "lapcorr">>), N("dc_m", "to_modal", <<"dc">>), N("ndc_m", "neg", <<"dc_m">>),
     N("divergence_tendency_due_to_humidity", "add", <<"nlapg", "ndc_m">>) >>

Energy ==
  << N("uu", "mul", <<"aux.cos_lat_u.0", "aux.cos_lat_u.0">>), N("vv", "mul", <<"aux.cos_lat_u.1", "aux.cos_lat_u.1">>),
     N("u2", "add", <<"uu", "vv">>), N("ke", "mul", <<"u2", "sec2", "half">>),
     N("ke_m", "to_modal", <<"ke">>), N("lapke", "laplacian", <<"ke_m">>),
     N("kinetic_energy_tendency", "neg", <<"lapke">>),
     N("lapo", "laplacian", <<"oro">>), N("glapo", "mul", <<"g", "lapo">>),
     N("orography_tendency", "neg", <<"glapo">>) >>

HAdv(tag, x, xm) ==      \* horizontal_scalar_advection(scalar): (nodal, modal)
  << N("horizontal_scalar_advection." \o tag \o ".nodal", "mul", <<x, "aux.divergence">>),
     N("ux_" \o tag, "mul", <<"aux.cos_lat_u.0", x, "sec2">>), N("vx_" \o tag, "mul", <<"aux.cos_lat_u.1", x, "sec2">>),
     N("uxm_" \o tag, "to_modal", <<"ux_" \o tag>>), N("vxm_" \o tag, "to_modal", <<"vx_" \o tag>>),
     N("dsl_" \o tag, "div", <<"uxm_" \o tag, "vxm_" \o tag>>),
     N("horizontal_scalar_advection." \o tag \o ".modal", "neg", <<"dsl_" \o tag>>) >>

Thermo(c) ==
  << N("vtT", "vadv", <<"aux.sigma_dot_full", "aux.temperature_variation">>),
     N("vtTref", "vadv", <<"aux.sigma_dot_explicit", "Tref">>),
     N("nodal_temperature_vertical_tendency", "add", <<"vtT", "vtTref">>),
     N("gp_e", "gpart", <<"aux.u_dot_grad_log_sp">>), N("ngp_e", "neg", <<"gp_e">>),
     N("om_e", "add", <<"aux.u_dot_grad_log_sp", "ngp_e">>),
     N("_t_omega_over_sigma_sp.0", "mul", <<"Tref", "om_e">>),
     N("gp_f", "gpart", <<"g_full">>), N("ngp_f", "neg", <<"gp_f">>),
     N("om_f", "add", <<"aux.u_dot_grad_log_sp", "ngp_f">>) >>
  \o (IF c.class = "dry"
      THEN << N("_t_omega_over_sigma_sp.1", "mul", <<"aux.temperature_variation", "om_f">>) >>
      ELSE << N("hq", "mul", <<"hrm1", "aux.tracers.q">>), N("den", "add", <<"one", "hq">>),
              (* the quotient (1 + (g-1) q) / (1 + (h-1) q) is dimensionless and even; not a polynomial *)
              N("mcq", "mul", <<"grm1", "aux.tracers.q">>), N("numer", "add", <<"one", "mcq">>),
              N("ratio", "quot", <<"numer", "den">>),
              N("vtc", "mul", <<"aux.temperature_variation", "ratio">>),
              N("ghq", "mul", <<"ghr", "aux.tracers.q">>), N("hrc0", "quot", <<"ghq", "den">>),
              N("hrc", "mul", <<"Tref", "hrc0">>),
              N("vh", "add", <<"vtc", "hrc">>),
              N("_t_omega_over_sigma_sp.1", "mul", <<"vh", "om_f">>) >>)
  \o << N("adia0", "add", <<"_t_omega_over_sigma_sp.0", "_t_omega_over_sigma_sp.1">>),
        N("nodal_temperature_adiabatic_tendency", "mul", <<"kappa", "adia0">>),
        N("sig_e", "sigint", <<"aux.u_dot_grad_log_sp">>), N("nodal_log_pressure_tendency", "neg", <<"sig_e">>) >>

Combine(c) ==
  (IF c.class = "dry" THEN << N("explicit.vorticity", "clip", <<"curl_and_div_tendencies.vorticity">>) >>
   ELSE << N("vort_sum", "add", <<"curl_and_div_tendencies.vorticity", "vorticity_tendency_due_to_humidity">>),
           N("explicit.vorticity", "clip", <<"vort_sum">>) >>)
  \o << N("div_sum", "add", IF c.class = "dry"
            THEN <<"curl_and_div_tendencies.divergence", "kinetic_energy_tendency", "orography_tendency">>
            ELSE <<"curl_and_div_tendencies.divergence", "kinetic_energy_tendency", "orography_tendency",
                   "divergence_tendency_due_to_humidity">>),
        N("explicit.divergence", "clip", <<"div_sum">>),
        N("T_nodal", "add", <<"horizontal_scalar_advection.temperature.nodal", "nodal_temperature_vertical_tendency",
                               "nodal_temperature_adiabatic_tendency">>),
        N("T_m", "to_modal", <<"T_nodal">>),
        N("T_sum", "add", <<"T_m", "horizontal_scalar_advection.temperature.modal">>),
        N("explicit.temperature_variation", "clip", <<"T_sum">>),
        N("lsp_m", "to_modal", <<"nodal_log_pressure_tendency">>),
        N("explicit.log_surface_pressure", "clip", <<"lsp_m">>) >>
  \o (IF c.tracer \/ c.class \in {"moist", "cloud"}
      THEN << N("vt_q", "vadv", <<"aux.sigma_dot_full", "aux.tracers.q">>),
              N("q_nodal", "add", <<"vt_q", "horizontal_scalar_advection.tracer0.nodal">>),
              N("q_m", "to_modal", <<"q_nodal">>),
              N("q_sum", "add", <<"q_m", "horizontal_scalar_advection.tracer0.modal">>),
              N("explicit.tracers.q", "clip", <<"q_sum">>) >> ELSE <<>>)

Implicit(c) ==
  << N("gd0", "vsum", <<"Tv">>), N("gd", "mul", <<"R", "gd0">>),
     N("rtl", "mul", <<"R", "Tref", "lnps">>), N("phi", "add", <<"gd", "rtl">>),
     N("lapphi", "laplacian", <<"phi">>), N("implicit.divergence", "neg", <<"lapphi">>),
     N("hd0", "vsum", <<"div">>), N("hd", "mul", <<"kappa", "Tref", "hd0">>),
     N("implicit.temperature_variation", "neg", <<"hd">>),
     N("sd", "sigint", <<"div">>), N("implicit.log_surface_pressure", "neg", <<"sd">>),
     N("implicit.vorticity", "zero", <<"vor">>) >>

PEProgram(c) ==
  PEInputs(c) \o Diagnostics(c) \o CurlDiv(c)
  \o (IF c.class \in {"moist", "cloud"} THEN HumVort ELSE <<>>)
  \o Energy
  \o (IF c.class \in {"moist", "cloud"} THEN HumDiv ELSE <<>>)
  \o HAdv("temperature", "aux.temperature_variation", "Tv")
  \o (IF c.tracer \/ c.class \in {"moist", "cloud"} THEN HAdv("tracer0", "aux.tracers.q", "q") ELSE <<>>)
  \o Thermo(c) \o Combine(c) \o Implicit(c)

(* shallow water (ShallowWaterEquations.explicit_terms / implicit_terms) *)
SWProgram(c) ==
  << In("vor", Ty(-1, DT(-1), "modal", FALSE, FALSE)), In("div", Ty(1, DT(-1), "modal", FALSE, FALSE)),
     In("pot", Ty(1, Geo, "modal", FALSE, FALSE)), Cfg("oro", Ty(1, Geo, "modal", FALSE, FALSE)),
     Co("f", Ty(-1, DT(-1), "nodal", FALSE, FALSE), TRUE), Co("sec2", Ty(1, D0, "nodal", FALSE, FALSE), TRUE),
     Sc("half", D0), Sc("refpot", Geo),
     N("u_m", "wind_u", <<"vor", "div">>), N("v_m", "wind_v", <<"vor", "div">>),
     N("u", "to_nodal", <<"u_m">>), N("v", "to_nodal", <<"v_m">>),
     N("nvor", "to_nodal", <<"vor">>), N("npot", "to_nodal", <<"pot">>),
     N("totvor", "add", <<"nvor", "f">>),
     N("bu", "mul", <<"u", "totvor", "sec2">>), N("bv", "mul", <<"v", "totvor", "sec2">>),
     N("gu", "mul", <<"u", "npot", "sec2">>), N("gv", "mul", <<"v", "npot", "sec2">>),
     N("uu", "mul", <<"u", "u">>), N("vv", "mul", <<"v", "v">>), N("u2", "add", <<"uu", "vv">>),
     N("e", "mul", <<"u2", "sec2", "half">>),
     N("bu_m", "to_modal", <<"bu">>), N("bv_m", "to_modal", <<"bv">>),
     N("gu_m", "to_modal", <<"gu">>), N("gv_m", "to_modal", <<"gv">>), N("e_m", "to_modal", <<"e">>),
     N("p0", "layer_mix", <<"pot">>) >>
  \o (IF c.oro THEN << N("p", "add", <<"p0", "oro">>) >> ELSE << N("p", "neg", <<"p0">>) >>)
  \o << N("divb", "div", <<"bu_m", "bv_m">>), N("ndivb", "neg", <<"divb">>),
        N("explicit.vorticity", "clip", <<"ndivb">>),
        N("pe", "add", <<"p", "e_m">>), N("lappe", "laplacian", <<"pe">>), N("nlappe", "neg", <<"lappe">>),
        N("curlb", "curl", <<"bu_m", "bv_m">>), N("dsum", "add", <<"nlappe", "curlb">>),
        N("explicit.divergence", "clip", <<"dsum">>),
        N("divg", "div", <<"gu_m", "gv_m">>), N("ndivg", "neg", <<"divg">>),
        N("explicit.potential", "clip", <<"ndivg">>),
        N("lappot", "laplacian", <<"pot">>), N("implicit.divergence", "neg", <<"lappot">>),
        N("rd", "mul", <<"refpot", "div">>), N("implicit.potential", "neg", <<"rd">>),
        N("implicit.vorticity", "zero", <<"vor">>) >>

Program(c) == IF c.class = "sw" THEN SWProgram(c) ELSE PEProgram(c)

-----------------------------------------------------------------------------
Init == /\ cfg \in {c \in Configs : (c.class = "sw" => ~c.tracer) /\ (c.class # "sw" => c.oro)}
        /\ pc = 1 /\ env = <<>> /\ bad = {}
TypeOf(node, e) ==
  IF node.op = "input" THEN node.t
  ELSE IF node.op = "const" THEN node.t
  ELSE IF node.op = "const_nonzonal" THEN Err
  ELSE IF \E i \in 1..Len(node.a) : node.a[i] \notin DOMAIN e THEN Err
  ELSE Apply(node.op, [i \in 1..Len(node.a) |-> e[node.a[i]]])
Eval == /\ pc <= Len(Program(cfg))
        /\ LET node == Program(cfg)[pc]
               t == TypeOf(node, env)
           IN  /\ env' = [x \in DOMAIN env \cup {node.n} |-> IF x = node.n THEN t ELSE env[x]]
               /\ bad' = IF IsErr(t) THEN bad \cup {node.n} ELSE bad
        /\ pc' = pc + 1 /\ UNCHANGED cfg
Next == Eval
Spec == Init /\ [][Next]_vars

Done == pc > Len(Program(cfg))
WellTyped == bad = {}
(* every tendency has the mirror type of its variable and its dimension per unit time *)
TendencyOf(name) == IF name = "temperature_variation" THEN "Tv" ELSE IF name = "log_surface_pressure" THEN "lnps"
                    ELSE IF name = "vorticity" THEN "vor" ELSE IF name = "divergence" THEN "div"
                    ELSE IF name = "potential" THEN "pot" ELSE "q"
Prognostic == IF cfg.class = "sw" THEN {"vorticity", "divergence", "potential"}
              ELSE {"vorticity", "divergence", "temperature_variation", "log_surface_pressure"}
                   \cup (IF cfg.tracer \/ cfg.class \in {"moist", "cloud"} THEN {"tracers.q"} ELSE {})
VarOf(p) == IF p = "tracers.q" THEN "q" ELSE TendencyOf(p)
TendencyTypes == Done => \A p \in Prognostic : \A half \in {"explicit.", "implicit."} :
   LET nm == half \o p IN
   nm \in DOMAIN env =>
      /\ env[nm].mir = env[VarOf(p)].mir
      /\ env[nm].dim = DAdd(env[VarOf(p)].dim, DT(-1))
      /\ env[nm].form = "modal" /\ ~env[nm].sh
AllExplicitPresent == Done => \A p \in Prognostic : ("explicit." \o p) \in DOMAIN env
(* the scale-dependent offset of the log surface pressure never reaches a tendency *)
NoShiftLeak == Done => \A x \in DOMAIN env : (env[x].sh => x \in {"lnps", "rtl", "phi"})
(* C08: the dry and the shallow-water tendencies are polynomials of degree <= 3 resp. 2 in the
   prognostic variables (so a central difference stencil of sufficient order reproduces their
   directional derivative exactly); the implicit halves are linear; the moist tendencies are not
   polynomial (virtual-temperature quotient) *)
Degrees == Done => \A p \in Prognostic :
   /\ (("implicit." \o p) \in DOMAIN env => env["implicit." \o p].deg <= 1)
   /\ (cfg.class = "dry" => env["explicit." \o p].deg <= 3)
   /\ (cfg.class = "sw" => env["explicit." \o p].deg <= 2)
MoistNotPolynomial == (Done /\ cfg.class \in {"moist", "cloud"}) => env["explicit.temperature_variation"].deg = NonPoly
Export == Done => PrintT(<<"CASE", ToJson([
     class |-> cfg.class, oro |-> cfg.oro, tracer |-> cfg.tracer,
     nodes |-> {[n |-> x, mir |-> env[x].mir, dim |-> env[x].dim, form |-> env[x].form, deg |-> env[x].deg] : x \in DOMAIN env} ])>>)
=============================================================================
