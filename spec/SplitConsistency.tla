-------------------------- MODULE SplitConsistency --------------------------
(* C04, vertical half: the implicit temperature operator H(Tref) is the transcription of the two
   explicit operators applied to the reference profile.

   The explicit temperature tendency of primitive_equations.py contains, per column,
       kappa * T * ( u.grad(lnps) - gp(g) ),   gp(g)[r] = (alpha[r] F[r] + alpha[r-1] F[r-1]) / dsigma[r],
                                               F = cumulative sigma integral of g          (_t_omega_over_sigma_sp)
       vadv(w, x)[r] = -1/2 ( w[r+1/2] dx[r+1/2] + w[r-1/2] dx[r-1/2] ),
                       dx[r+1/2] = (x[r+1]-x[r]) / ((dsigma[r]+dsigma[r+1])/2),  w = 0 at the two ends
                                                                               (centered_vertical_advection)
       sigma_dot(g)[r+1/2] = Cum(r) F[K] - F[r]                                 (compute_diagnostic_state)
   and splits them as  T = Tref + T',  g = u.grad(lnps) + div : everything that is linear in div
   and carries Tref is stepped implicitly as  -H(Tref) div.  Moving a level profile c from T' to
   Tref changes the explicit half by  +kappa c gp(div) - vadv(sigma_dot(div), c)  and the implicit
   half by  -H(c) div ; the total tendency is independent of the split iff

         H(c) e_s  =  kappa c gp(e_s) - vadv(sigma_dot(e_s), c)        for every level s, profile c.

   This module writes the right-hand side from the explicit operators *as the code computes them*
   (cumulative integrals, padded boundary values, centred differences) and compares it, as an
   identity of linear forms over the log-sigma atoms, with the dense H of ImplicitSolve (which
   transcribes the docstring of get_temperature_implicit_weights), for every level set on the
   lattice and every profile (unit vectors included, so by linearity for all profiles). *)
EXTENDS ImplicitSolve

UnitProfiles(KK_) == { [k \in 1..KK_ |-> IF k = j THEN 1 ELSE 0] : j \in 1..KK_ }

InitSplit == /\ \E b \in LevelSets :
                cfg \in [b : {b}, tref : Profiles(Len(b) - 1) \cup UnitProfiles(Len(b) - 1), kappa : Kappas]
             /\ pc = "H" /\ H = <<>> /\ Hs = <<>> /\ Hasfound = <<>> /\ G = <<>>
SpecSplit == InitSplit /\ [][Next]_vars

(* --- explicit operators on a column, data = unit divergence e_s --------------------------- *)
Div(s) == [k \in 1..K |-> IF k = s THEN One ELSE Zero]
(* cumulative_sigma_integral: F[r] = sum_{k<=r} g[k] dsigma[k] *)
CumInt(g) == [r \in 1..K |-> RSum([k \in 1..K |-> RMul(g[k], DSig(k))], 1, r)]
(* sigma_dot at the inner boundaries r+1/2, r = 1..K-1 *)
SigmaDot(g) == LET F == CumInt(g) IN [r \in 1..K - 1 |-> RSub(RMul(Cum(r), F[K]), F[r])]
(* centered_difference at r+1/2 *)
DiffC(x) == [r \in 1..K - 1 |-> RDiv(RSub(x[r + 1], x[r]), RMul(<<1, 2>>, RAdd(DSig(r), DSig(r + 1))))]
(* centered_vertical_advection with zero boundary values *)
Pad(w, r) == IF r >= 1 /\ r <= K - 1 THEN w[r] ELSE Zero
VAdv(w, x) == LET dx == DiffC(x)
                  wx == [r \in 0..K |-> IF r >= 1 /\ r <= K - 1 THEN RMul(w[r], dx[r]) ELSE Zero]
              IN  [r \in 1..K |-> RMul(<<-1, 2>>, RAdd(wx[r], wx[r - 1]))]
(* g_part of _t_omega_over_sigma_sp: (alpha[r] F[r] + alpha[r-1] F[r-1]) / dsigma[r]  (a linear form) *)
GPart(g) == LET F == CumInt(g)
            IN  [r \in 1..K |-> LScale(RInv(DSig(r)),
                   LAdd(LAtom(r, F[r]), IF r >= 2 THEN LAtom(r - 1, F[r - 1]) ELSE LZero))]
Prof == [k \in 1..K |-> T(k)]
(* change of the explicit half when the profile Prof moves from T' into Tref, per unit div at s *)
ExplicitForm(r, s) == LSub(LScale(RMul(cfg.kappa, T(r)), GPart(Div(s))[r]),
                           LConst(VAdv(SigmaDot(Div(s)), Prof)[r]))

SplitVertical == Done => \A r, s \in 1..K : H[r][s] = ExplicitForm(r, s)
(* the two pieces separately (what the replay compares with the real explicit operators) *)
ExportSplit == Done => PrintT(<<"CASE", ToJson([
     b |-> cfg.b, den |-> Den, tref |-> cfg.tref, kappa |-> cfg.kappa, H |-> H,
     gpart |-> [s \in 1..K |-> GPart(Div(s))],
     vadv |-> [s \in 1..K |-> VAdv(SigmaDot(Div(s)), Prof)],
     sigmadot |-> [s \in 1..K |-> SigmaDot(Div(s))] ])>>)
(* total mass: sigma_dot vanishes identically for a divergence whose integral vanishes ... and
   the surface-pressure tendency of a unit divergence is -dsigma[s] (third block row) *)
SigmaDotEnds == Done => \A s \in 1..K : \A r \in 1..K - 1 :
   SigmaDot(Div(s))[r] = RMul(DSig(s), RSub(Cum(r), P(r - s)))
=============================================================================
